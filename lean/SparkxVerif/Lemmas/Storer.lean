/-
Helper lemmas for the storer model (`Core/Storer.lean`): the invariant of consistent bookkeeping, the row builder
`mkRows`, `particle_list()` on consistent states, structural facts about the `Filter.py` functions (every filter is a
particle-level loop or an event-level cut; at least one event in → at least one event out), and the step lemmas
for filter methods and `+`.  Core Lean only (no Mathlib needed).
-/
import SparkxVerif.Core.Storer
namespace SparkxVerif.Storer
open SparkxVerif.Flt SparkxVerif.Gen.Filters

/-! ### rows `(label, size)` -/
theorem mkRows_length (f : Int) (ns : List Nat) : (mkRows f ns).length = ns.length := by
  induction ns generalizing f with
  | nil => rfl
  | cons n ns ih => simp [mkRows, ih]

theorem mkRows_append (f : Int) (a b : List Nat) :
    mkRows f (a ++ b) = mkRows f a ++ mkRows (f + a.length) b := by
  induction a generalizing f with
  | nil => simp [mkRows]
  | cons n ns ih =>
    simp only [List.cons_append, mkRows, ih, List.length_cons]
    have : f + 1 + (ns.length : Int) = f + ((ns.length + 1 : Nat) : Int) := by omega
    rw [this]

theorem mkRows_snd (f : Int) (ns : List Nat) : (mkRows f ns).map (·.2) = ns.map (fun (n : Nat) => (n : Int)) := by
  induction ns generalizing f with
  | nil => rfl
  | cons n ns ih => simp [mkRows, ih]

theorem mkRows_fst (f : Int) (ns : List Nat) :
    (mkRows f ns).map (·.1) = (List.range ns.length).map (fun (i : Nat) => f + (i : Int)) := by
  induction ns generalizing f with
  | nil => rfl
  | cons n ns ih =>
    simp only [mkRows, List.map_cons, List.length_cons, List.range_succ_eq_map, ih, List.map_map]
    simp only [Int.natCast_zero, Int.add_zero, List.cons.injEq, true_and]
    apply List.map_congr_left
    intro i _
    simp only [Function.comp, Nat.succ_eq_add_one, Int.natCast_add, Int.natCast_one]
    omega

theorem mkRows_shift (f d : Int) (ns : List Nat) :
    (mkRows f ns).map (fun r => (r.1 + d, r.2)) = mkRows (f + d) ns := by
  induction ns generalizing f with
  | nil => rfl
  | cons n ns ih =>
    simp only [mkRows, List.map_cons, ih]
    congr 2
    omega

theorem mkRows_head? (f : Int) (n : Nat) (ns : List Nat) : (mkRows f (n :: ns)).head? = some (f, (n : Int)) := rfl

theorem mkRows_getLast? (f : Int) (ns : List Nat) (n : Nat) :
    (mkRows f (ns ++ [n])).getLast? = some (f + ns.length, (n : Int)) := by
  rw [mkRows_append]
  simp [mkRows]


/-! ### the invariant; `particle_list()` on consistent states -/
variable {α : Type}

/-- what `particle_list()` must return for the events `evs`: the flat list of the only event, or one list per event -/
def plOf (evs : Evs α) : PL :=
  match evs with
  | [ev] => .flat (idsOf ev)
  | evs => .nested (evs.map idsOf)

def sizes (evs : Evs α) : List Nat := evs.map List.length

/-- at least one event is held; the bookkeeping is one `(label, size)` row per event, labels consecutive -/
def Regular (s : State α) : Prop :=
  s.events ≠ [] ∧ s.numEvents = some (s.events.length : Int) ∧
  ∃ first : Int, s.counts = .arr2d (mkRows first (sizes s.events))

/-- no event is held: `num_events_ == 0`, no count rows (a 2-D or the loaders' 1-D empty array), the held list is
empty or the placeholder `[[]]` -/
def Void (s : State α) : Prop :=
  s.numEvents = some 0 ∧ (s.events = [] ∨ s.events = [[]]) ∧ (s.counts = .arr2d [] ∨ s.counts = .arr1d [])

def Inv (s : State α) : Prop := Regular s ∨ Void s

theorem takeCounted_full (evs : Evs α) (i : Nat) (ev : Ev α) (h : evs[i]? = some ev) :
    takeCounted evs i (ev.length : Int) = .ok (idsOf ev) := by
  unfold takeCounted pyRange
  by_cases h0 : ev.length = 0
  · have : ev = [] := List.eq_nil_of_length_eq_zero h0
    subst this; simp [idsOf]
  · simp [h0, h]

theorem nestedLoop_full (evs : Evs α) (i n : Nat) (h : i + n = evs.length) :
    nestedLoop evs (evs.map (fun ev => (ev.length : Int))) i n = .ok ((evs.drop i).map idsOf) := by
  induction n generalizing i with
  | zero =>
    have : evs.length ≤ i := by omega
    simp [nestedLoop, List.drop_eq_nil_of_le this]
  | succ n ih =>
    have hi : i < evs.length := by omega
    have hd : evs.drop i = evs[i] :: evs.drop (i + 1) := by
      rw [List.drop_eq_getElem_cons hi]
    have hget : evs[i]? = some evs[i] := List.getElem?_eq_getElem hi
    simp only [nestedLoop, List.getElem?_map, hget, Option.map_some]
    rw [takeCounted_full evs i evs[i] hget, ih (i + 1) (by omega), hd]
    rfl


theorem plOf_ne_one (evs : Evs α) (h : evs.length ≠ 1) : plOf evs = .nested (evs.map idsOf) := by
  unfold plOf
  split
  · simp at h
  · rfl

theorem held_regular (s : State α) (h : Regular s) : held s = s.events := by
  obtain ⟨hne, hn, _⟩ := h
  unfold held
  rw [hn]
  have : s.events.length ≠ 0 := by
    intro h0; exact hne (List.eq_nil_of_length_eq_zero h0)
  simp only [Option.some.injEq]
  split
  · rename_i h0
    exact absurd (by exact_mod_cast h0) this
  · rfl

theorem held_zero (s : State α) (h : Void s) : held s = [] := by
  unfold held; simp [h.1]

/-- `particle_list()` mirrors the held events -/
theorem inv_particleList (s : State α) (h : Inv s) : particleList s = .ok (plOf (held s)) := by
  rcases h with hr | hz
  · rw [held_regular s hr]
    obtain ⟨hne, hn, first, hc⟩ := hr
    unfold particleList
    rw [hc, hn]
    simp only
    by_cases h1 : s.events.length = 1
    · obtain ⟨ev, hev⟩ := List.length_eq_one_iff.mp h1
      simp [hev, sizes, mkRows, takeCounted_full [ev] 0 ev rfl, plOf]
      rfl
    · have hn1 : ((s.events.length : Nat) : Int) ≠ 1 := by exact_mod_cast h1
      have hn0 : ((s.events.length : Nat) : Int) ≠ 0 := by
        intro h0; exact hne (List.eq_nil_of_length_eq_zero (by exact_mod_cast h0))
      simp only [hn1, hn0, if_false]
      rw [mkRows_snd, sizes, List.map_map]
      have := nestedLoop_full s.events 0 s.events.length (by omega)
      simp only [Function.comp_def, pyRange, Int.toNat_natCast] at this ⊢
      rw [this, plOf_ne_one _ h1]
      rfl
  · rw [held_zero s hz]
    obtain ⟨hn, _, hc⟩ := hz
    unfold particleList
    rcases hc with hc | hc <;> rw [hc, hn] <;> simp [plOf]

/-! ### structure of the `Filter.py` functions -/
theorem bind_ok' {ε β γ : Type} (x : Except ε β) (f : β → Except ε γ) (r : γ) (h : (x >>= f) = .ok r) :
    ∃ a, x = .ok a ∧ f a = .ok r := by
  cases x with
  | error e => simp [bind, Except.bind] at h
  | ok a => exact ⟨a, rfl, h⟩

theorem mapM_ok_length {β γ : Type} (f : β → Except Err γ) (l : List β) (r : List γ) (h : l.mapM f = .ok r) :
    r.length = l.length := by
  induction l generalizing r with
  | nil => simp [List.mapM_nil, pure, Except.pure] at h; subst h; rfl
  | cons a l ih =>
    rw [List.mapM_cons] at h
    obtain ⟨b, _, h2⟩ := bind_ok' _ _ _ h
    obtain ⟨bs, hbs, h3⟩ := bind_ok' _ _ _ h2
    simp [pure, Except.pure] at h3
    subst h3
    simp [ih bs hbs]

theorem runLoop_ne (s : LoopShape) (evs r : Evs α) (cond : Part α → Except Err Bool)
    (h : runLoop s evs cond = .ok r) (hne : evs ≠ []) : r ≠ [] := by
  cases s with
  | inPlace =>
    have := mapM_ok_length _ _ _ h
    intro hr; subst hr; exact hne (List.eq_nil_of_length_eq_zero this.symm)
  | append =>
    have := mapM_ok_length _ _ _ h
    intro hr; subst hr; exact hne (List.eq_nil_of_length_eq_zero this.symm)
  | appendAfter =>
    simp only [runLoop, loopAppendAfter] at h
    obtain ⟨all, _, h2⟩ := bind_ok' _ _ _ h
    cases hl : all.getLast? with
    | none => simp [hl, throw, throwThe, MonadExceptOf.throw] at h2
    | some e => simp [hl, pure, Except.pure] at h2; subst h2; simp

/-- result shape of an event-level cut -/
def eventCut (p : Ev α → Bool) (evs : Evs α) : Evs α := if (evs.filter p).isEmpty then [[]] else evs.filter p

section
variable [LE α] [LT α] [DecidableLE α] [DecidableLT α] [Neg α] [Zero α] [Add α]

/-- every function of `Filter.py` is one of the particle-level loops or an event-level cut -/
theorem applyCall_shape (ofNat : Nat → α) (c : Call α) (evs r : Evs α) (h : applyCall ofNat c evs = .ok r) :
    (∃ s cond, runLoop s evs cond = .ok r) ∨ (∃ p, r = eventCut p evs) := by
  cases c with
  | energyCut thr =>
    right
    simp only [applyCall] at h
    unfold lowerEventEnergyCut at h
    split at h
    · simp [throw, throwThe, MonadExceptOf.throw] at h
    · simp only [pure, Except.pure, Except.ok.injEq] at h
      exact ⟨_, h.symm⟩
  | multiplicity a =>
    right
    simp only [applyCall] at h
    obtain ⟨lim, _, h2⟩ := bind_ok' _ _ _ h
    simp only [pure, Except.pure, Except.ok.injEq, multiplicityCut] at h2
    exact ⟨_, h2.symm⟩
  | species a | removeSpecies a | status a =>
    left
    simp only [applyCall, particleSpecies, removeParticleSpecies, particleStatus] at h
    cases a <;> first | exact ⟨_, _, h⟩ | simp [throw, throwThe, MonadExceptOf.throw] at h
  | spacetime d a =>
    left
    simp only [applyCall, spacetimeCut] at h
    obtain ⟨⟨lo, hi⟩, _, h2⟩ := bind_ok' _ _ _ h
    cases d <;> first | exact ⟨_, _, h2⟩ | simp [throw, throwThe, MonadExceptOf.throw] at h2
  | pT a | mT a =>
    left
    simp only [applyCall] at h
    obtain ⟨⟨lo, hi⟩, _, h2⟩ := bind_ok' _ _ _ h
    exact ⟨_, _, h2⟩
  | rapidity a | pseudorapidity a | spacetimeRapidity a =>
    left
    simp only [applyCall, rapLike] at h
    cases a with
    | tuple xs =>
      obtain ⟨⟨lo, hi⟩, _, h2⟩ := bind_ok' _ _ _ h
      exact ⟨_, _, h2⟩
    | scalar c => exact ⟨_, _, h⟩
    | other => simp [throw, throwThe, MonadExceptOf.throw] at h
  | _ => left; simp only [applyCall] at h; exact ⟨_, _, h⟩
end

theorem eventCut_ne (p : Ev α → Bool) (evs : Evs α) : eventCut p evs ≠ [] := by
  unfold eventCut
  split
  · simp
  · rename_i hk; intro h0; rw [h0] at hk; simp at hk

theorem eventCut_small (p : Ev α → Bool) (evs : Evs α) (h : evs = [] ∨ evs = [[]]) : eventCut p evs = [[]] := by
  unfold eventCut
  rcases h with h | h <;> subst h
  · simp
  · by_cases hp : p [] <;> simp [hp]

theorem runLoop_small (s : LoopShape) (evs r : Evs α) (cond : Part α → Except Err Bool)
    (h : runLoop s evs cond = .ok r) (hs : evs = [] ∨ evs = [[]]) : r = [] ∨ r = [[]] := by
  rcases hs with hs | hs <;> subst hs
  · cases s <;> simp [runLoop, loopInPlace, loopAppend, loopAppendAfter, pure, Except.pure, bind, Except.bind,
      throw, throwThe, MonadExceptOf.throw] at h
    · left; exact h
    · left; exact h
  · cases s <;> simp [runLoop, loopInPlace, loopAppend, loopAppendAfter, filterE, List.mapM_cons, pure, Except.pure, bind,
      Except.bind] at h
    · right; exact h.symm
    · right; exact h.symm
    · right; exact h.symm

section
variable [LE α] [LT α] [DecidableLE α] [DecidableLT α] [Neg α] [Zero α] [Add α]

/-- every filter of `Filter.py` returns at least one event when given at least one -/
theorem applyCall_ne (ofNat : Nat → α) (c : Call α) (evs r : Evs α) (h : applyCall ofNat c evs = .ok r) (hne : evs ≠ []) :
    r ≠ [] := by
  rcases applyCall_shape ofNat c evs r h with ⟨s, cond, h⟩ | ⟨p, h⟩
  · exact runLoop_ne s evs r cond h hne
  · rw [h]; exact eventCut_ne p evs

/-- on no events (an empty list or the placeholder) every filter returns no events (an empty list or the placeholder) -/
theorem applyCall_small (ofNat : Nat → α) (c : Call α) (evs r : Evs α) (h : applyCall ofNat c evs = .ok r)
    (hs : evs = [] ∨ evs = [[]]) : normEvs r = [[]] := by
  rcases applyCall_shape ofNat c evs r h with ⟨s, cond, h⟩ | ⟨p, h⟩
  · rcases runLoop_small s evs r cond h hs with h | h <;> subst h <;> rfl
  · rw [h, eventCut_small p evs hs]; rfl
end

theorem normEvs_ne (evs : Evs α) (h : evs ≠ []) : normEvs evs = evs := by
  unfold normEvs
  cases evs with
  | nil => exact absurd rfl h
  | cons a l => rfl

theorem sizes_ne (evs : Evs α) (h : evs ≠ []) : sizes evs ≠ [] := by
  cases evs with
  | nil => exact absurd rfl h
  | cons a l => simp [sizes]

/-! ### filter methods -/
section
variable [LE α] [LT α] [DecidableLE α] [DecidableLT α] [Neg α] [Zero α] [Add α]

theorem filterStep_ok (impl : Cls → Call α → Bool) (ofNat : Nat → α) (s s' : State α) (c : Call α) (h : filterStep impl ofNat s c = .ok s') :
    impl s.cls c = true ∧ ∃ r, applyCall ofNat c s.events = .ok r ∧ updateAfterFilter { s with events := r } = .ok s' := by
  unfold filterStep at h
  by_cases hi : impl s.cls c = true
  · simp only [hi, Bool.not_true, Bool.false_eq_true, if_false] at h
    cases hc : applyCall ofNat c s.events with
    | error e => simp [hc] at h
    | ok r => simp only [hc] at h; exact ⟨hi, r, rfl, h⟩
  · simp [hi] at h

/-- on a storer holding events: the held list becomes the filter's result, the first label is kept, the
bookkeeping is recounted -/
theorem filterStep_regular (impl : Cls → Call α → Bool) (ofNat : Nat → α) (s s' : State α) (c : Call α) (first : Int)
    (hne : s.events ≠ []) (hc : s.counts = .arr2d (mkRows first (sizes s.events)))
    (h : filterStep impl ofNat s c = .ok s') :
    ∃ r, applyCall ofNat c s.events = .ok r ∧ r ≠ [] ∧
      s' = { s with events := r, numEvents := some (r.length : Int), counts := .arr2d (mkRows first (sizes r)) } := by
  obtain ⟨_, r, hr, hu⟩ := filterStep_ok impl ofNat s s' c h
  have hrne := applyCall_ne ofNat c s.events r hr hne
  refine ⟨r, hr, hrne, ?_⟩
  unfold updateAfterFilter at hu
  simp only [hc] at hu
  have hlen : (Counts.arr2d (mkRows first (sizes s.events))).len ≠ 0 := by
    simp only [Counts.len, mkRows_length]
    intro h0; exact sizes_ne s.events hne (List.eq_nil_of_length_eq_zero h0)
  simp only [hlen, if_false] at hu
  obtain ⟨n, ns, hs⟩ := List.exists_cons_of_ne_nil (sizes_ne s.events hne)
  simp only [hs, mkRows, List.head?_cons, normEvs_ne r hrne, Except.ok.injEq] at hu
  rw [← hu]
  rfl

theorem filterStep_zero (impl : Cls → Call α → Bool) (ofNat : Nat → α) (s s' : State α) (c : Call α) (hz : Void s)
    (h : filterStep impl ofNat s c = .ok s') : s' = { s with events := [[]] } := by
  obtain ⟨_, r, hr, hu⟩ := filterStep_ok impl ofNat s s' c h
  obtain ⟨_, hev, hcs⟩ := hz
  have hsm := applyCall_small ofNat c s.events r hr hev
  unfold updateAfterFilter at hu
  rcases hcs with hcs | hcs <;> simp only [hcs, Counts.len, List.length_nil, if_true, hsm, Except.ok.injEq] at hu <;>
    (rw [← hu, hcs])

/-- **`inv_step` for filter methods** -/
theorem inv_filterStep (impl : Cls → Call α → Bool) (ofNat : Nat → α) (s s' : State α) (c : Call α) (hI : Inv s)
    (h : filterStep impl ofNat s c = .ok s') : Inv s' := by
  rcases hI with ⟨hne, hn, first, hc⟩ | hz
  · obtain ⟨r, _, hrne, hs'⟩ := filterStep_regular impl ofNat s s' c first hne hc h
    left
    subst hs'
    exact ⟨hrne, rfl, first, rfl⟩
  · have := filterStep_zero impl ofNat s s' c hz h
    right
    subst this
    exact ⟨hz.1, Or.inr rfl, hz.2.2⟩

/-- **`step_total` for filter methods**: on a consistent storer a filter method fails only where the class does not
implement it or the `Filter.py` function itself rejects the argument / the particles -/
theorem filterStep_total (impl : Cls → Call α → Bool) (ofNat : Nat → α) (s : State α) (c : Call α) (r : Evs α) (hI : Inv s)
    (himp : impl s.cls c = true) (hr : applyCall ofNat c s.events = .ok r) :
    ∃ s', filterStep impl ofNat s c = .ok s' := by
  unfold filterStep
  simp only [himp, Bool.not_true, Bool.false_eq_true, if_false, hr]
  unfold updateAfterFilter
  rcases hI with ⟨hne, hn, first, hc⟩ | ⟨_, _, hcs⟩
  · simp only [hc]
    split
    · exact ⟨_, rfl⟩
    · exact ⟨_, rfl⟩
  · rcases hcs with hcs | hcs <;> simp [hcs, Counts.len]

/-- refinement step: the events held afterwards are what the `Filter.py` function returns for the events held before
(no events stay no events) -/
theorem filterStep_held (impl : Cls → Call α → Bool) (ofNat : Nat → α) (s s' : State α) (c : Call α) (hI : Inv s)
    (h : filterStep impl ofNat s c = .ok s') :
    (held s = [] ∧ held s' = []) ∨ (held s ≠ [] ∧ applyCall ofNat c (held s) = .ok (held s')) := by
  have hI' := inv_filterStep impl ofNat s s' c hI h
  rcases hI with hr | hz
  · right
    obtain ⟨hne, hn, first, hc⟩ := hr
    obtain ⟨r, hr', hrne, hs'⟩ := filterStep_regular impl ofNat s s' c first hne hc h
    rw [held_regular s ⟨hne, hn, first, hc⟩]
    refine ⟨hne, ?_⟩
    have : held s' = r := by
      have hreg : Regular s' := by subst hs'; exact ⟨hrne, rfl, first, rfl⟩
      rw [held_regular s' hreg, hs']
    rw [this]; exact hr'
  · left
    have := filterStep_zero impl ofNat s s' c hz h
    refine ⟨held_zero s hz, ?_⟩
    apply held_zero
    subst this
    exact ⟨hz.1, Or.inr rfl, hz.2.2⟩
end

/-! ### `+` -/

theorem shiftFrom_append (r1 r2 : List (Int × Int)) (d : Int) :
    shiftFrom r1.length d (r1 ++ r2) = r1 ++ r2.map (fun r => (r.1 + d, r.2)) := by
  simp [shiftFrom]

theorem sliceStart_len (n m : Nat) : sliceStart (n : Int) (n + m) = n := by
  unfold sliceStart
  have : ¬ ((n : Int) < 0) := by omega
  simp [this]

/-- concatenation of two consistent count arrays with the continuation rule is the consistent count array of the
concatenated events, labelled from the first label of the left operand (of the right one if the left is empty) -/
theorem addCounts_mkRows (fa fb : Int) (sa sb : List Nat) :
    addCounts (sa.length : Int) (.arr2d (mkRows fa sa)) (.arr2d (mkRows fb sb))
      = .ok (.arr2d (mkRows (if sa.isEmpty then fb else fa) (sa ++ sb))) := by
  unfold addCounts
  simp only
  cases sb with
  | nil =>
    cases sa with
    | nil => simp [mkRows]
    | cons n ns => simp [mkRows]
  | cons m sb' =>
    rcases List.eq_nil_or_concat sa with h | ⟨sa', n, h⟩
    · subst h; simp [mkRows]
    · subst h
      have hne : (sa' ++ [n]).isEmpty = false := by simp
      rw [List.concat_eq_append] at *
      simp only [mkRows_getLast?, mkRows_head?, hne, Bool.false_eq_true, if_false]
      have hl : (mkRows fa (sa' ++ [n]) ++ mkRows fb (m :: sb')).length = (mkRows fa (sa' ++ [n])).length + (m :: sb').length := by
        simp [mkRows_length]
      have hk : sliceStart (((sa' ++ [n]).length : Nat) : Int) (mkRows fa (sa' ++ [n]) ++ mkRows fb (m :: sb')).length
          = (mkRows fa (sa' ++ [n])).length := by
        rw [hl, mkRows_length]; exact sliceStart_len _ _
      rw [hk, shiftFrom_append, mkRows_shift, mkRows_append fa (sa' ++ [n]) (m :: sb')]
      congr 4
      simp only [List.length_append, List.length_cons, List.length_nil]
      omega


/-- label of the first count row (`0` if there is none) -/
def firstLabel (s : State α) : Int :=
  match s.counts with
  | .arr2d (r :: _) => r.1
  | _ => 0

theorem regular_counts (s : State α) (h : Regular s) : s.counts = .arr2d (mkRows (firstLabel s) (sizes s.events)) := by
  obtain ⟨hne, _, first, hc⟩ := h
  obtain ⟨n, ns, hs⟩ := List.exists_cons_of_ne_nil (sizes_ne s.events hne)
  have : firstLabel s = first := by simp [firstLabel, hc, hs, mkRows]
  rw [this, hc]

/-- what a consistent storer contributes to a sum: its held events and their rows -/
theorem addPart_inv (s : State α) (h : Inv s) :
    addPart s = (((held s).length : Int), held s, .arr2d (mkRows (firstLabel s) (sizes (held s)))) := by
  rcases h with hr | hz
  · have hh := held_regular s hr
    have hc := regular_counts s hr
    obtain ⟨hne, hn, _, _⟩ := hr
    simp [addPart, hn, hc, hh]
    intro h0; exact absurd h0 hne
  · have hh := held_zero s hz
    obtain ⟨hn, _, hc⟩ := hz
    simp [addPart, hn, hh, sizes, mkRows]

/-- the sum of two storers holding `L = ha ++ hb` -/
def sumState (a b : State α) (L : Evs α) (f : Int) : State α :=
  { cls := a.cls, events := normEvs L, numEvents := some (L.length : Int), counts := .arr2d (mkRows f (sizes L)),
    footers := if a.cls = .oscar then a.footers ++ b.footers else a.footers, ptype := a.ptype }

theorem sumState_inv (a b : State α) (L : Evs α) (f : Int) : Inv (sumState a b L f) := by
  cases L with
  | nil => right; exact ⟨rfl, Or.inr rfl, Or.inl rfl⟩
  | cons e es => left; exact ⟨by simp [sumState, normEvs], rfl, f, rfl⟩

theorem sumState_held (a b : State α) (L : Evs α) (f : Int) : held (sumState a b L f) = L := by
  cases L with
  | nil => simp [held, sumState]
  | cons e es =>
    simp only [held, sumState, normEvs, List.length_cons, Option.some.injEq]
    have : ¬ ((es.length : Int) + 1 = 0) := by omega
    simp [this]

theorem sizes_append (x y : Evs α) : sizes (x ++ y) = sizes x ++ sizes y := by simp [sizes]
theorem sizes_length (x : Evs α) : (sizes x).length = x.length := by simp [sizes]
theorem sizes_isEmpty (x : Evs α) : (sizes x).isEmpty = x.isEmpty := by cases x <;> rfl

theorem sumState_firstLabel (a b : State α) (L : Evs α) (f : Int) (h : L ≠ []) : firstLabel (sumState a b L f) = f := by
  obtain ⟨n, ns, hs⟩ := List.exists_cons_of_ne_nil (sizes_ne L h)
  simp [firstLabel, sumState, hs, mkRows]

theorem add_cls (a b s : State α) (h : add a b = .ok s) : a.cls = b.cls := by
  unfold add at h
  split at h
  · simp at h
  · rename_i hc; simpa using hc

/-- `a + b` on consistent storers, in closed form: the held events are concatenated, the rows are recounted from the
first label of `a` (of `b` when `a` holds no event) -/
theorem add_eq (a b s : State α) (ha : Inv a) (hb : Inv b) (h : add a b = .ok s) :
    s = sumState a b (held a ++ held b) (if (held a).isEmpty then firstLabel b else firstLabel a) := by
  have hpa := addPart_inv a ha
  have hpb := addPart_inv b hb
  unfold add at h
  split at h
  · simp at h
  · simp only [hpa, hpb] at h
    have hc := addCounts_mkRows (firstLabel a) (firstLabel b) (sizes (held a)) (sizes (held b))
    rw [sizes_length] at hc
    simp only [hc, bind, Except.bind] at h
    split at h
    · simp at h
    · simp only [pure, Except.pure, Except.ok.injEq] at h
      rw [← h]
      simp only [sumState, sizes_append, sizes_isEmpty, List.length_append, Int.natCast_add]

/-- **`+` is total on compatible consistent storers** -/
theorem add_total (a b : State α) (ha : Inv a) (hb : Inv b) (hcls : a.cls = b.cls)
    (hpt : a.cls = .jetscape → a.ptype = b.ptype) : ∃ s, add a b = .ok s := by
  have hpa := addPart_inv a ha
  have hpb := addPart_inv b hb
  unfold add
  simp only [hcls, ne_eq, not_true_eq_false, if_false, hpa, hpb]
  have hc := addCounts_mkRows (firstLabel a) (firstLabel b) (sizes (held a)) (sizes (held b))
  rw [sizes_length] at hc
  simp only [hc, bind, Except.bind]
  split
  · rename_i h; exact absurd (hpt (hcls ▸ h.1)) (by rw [← hcls] at h; exact h.2)
  · exact ⟨_, rfl⟩

/-- **associativity**: both bracketings give the same storer (events, `num_events_`, counts with labels, footers) -/
theorem add_assoc_state (a b c ab bc x y : State α) (ha : Inv a) (hb : Inv b) (hc : Inv c)
    (h1 : add a b = .ok ab) (h2 : add ab c = .ok x) (h3 : add b c = .ok bc) (h4 : add a bc = .ok y) : x = y := by
  have e1 := add_eq a b ab ha hb h1
  have e3 := add_eq b c bc hb hc h3
  have iab : Inv ab := e1 ▸ sumState_inv a b _ _
  have ibc : Inv bc := e3 ▸ sumState_inv b c _ _
  have e2 := add_eq ab c x iab hc h2
  have e4 := add_eq a bc y ha ibc h4
  have hcl := add_cls a b ab h1
  have hab : held ab = held a ++ held b := by rw [e1]; exact sumState_held a b _ _
  have hbc : held bc = held b ++ held c := by rw [e3]; exact sumState_held b c _ _
  have cab : ab.cls = a.cls := by rw [e1]; rfl
  have cbc : bc.cls = b.cls := by rw [e3]; rfl
  have fab : ab.footers = if a.cls = .oscar then a.footers ++ b.footers else a.footers := by rw [e1]; rfl
  have fbc : bc.footers = if b.cls = .oscar then b.footers ++ c.footers else b.footers := by rw [e3]; rfl
  have pab : ab.ptype = a.ptype := by rw [e1]; rfl
  rw [e2, e4, hab, hbc]
  have hfoot : (if a.cls = .oscar then ab.footers ++ c.footers else ab.footers)
      = (if a.cls = .oscar then a.footers ++ bc.footers else a.footers) := by
    rw [fab, fbc, ← hcl]
    by_cases ho : a.cls = .oscar <;> simp [ho]
  -- first labels
  by_cases hea : held a = []
  · by_cases heb : held b = []
    · by_cases hec : held c = []
      · simp only [sumState, hea, heb, hec, List.append_nil, sizes, List.map_nil, mkRows, cab, pab, hfoot]
      · have hl : firstLabel bc = firstLabel c := by
          rw [e3, sumState_firstLabel b c _ _ (by simp [heb, hec])]; simp [heb]
        simp only [sumState, hea, heb, List.nil_append, List.isEmpty_nil, if_true, hl, cab, pab, hfoot]
    · have hl1 : firstLabel ab = firstLabel b := by
        rw [e1, sumState_firstLabel a b _ _ (by simp [hea, heb])]; simp [hea]
      have hl2 : firstLabel bc = firstLabel b := by
        rw [e3, sumState_firstLabel b c _ _ (by simp [heb])]
        cases hb' : held b with
        | nil => exact absurd hb' heb
        | cons e es => simp
      have hne : (held b).isEmpty = false := by cases hb' : held b <;> simp_all
      simp only [sumState, hea, List.nil_append, List.isEmpty_nil, if_true, hne, hl1, hl2, cab, pab, hfoot,
        Bool.false_eq_true, if_false]
  · have hne : (held a).isEmpty = false := by cases ha' : held a <;> simp_all
    have hne2 : (held a ++ held b).isEmpty = false := by cases ha' : held a <;> simp_all
    have hl1 : firstLabel ab = firstLabel a := by
      rw [e1, sumState_firstLabel a b _ _ (by simp [hea])]; simp [hne]
    simp only [sumState, hne, hne2, hl1, cab, pab, hfoot, Bool.false_eq_true, if_false, List.append_assoc]

end SparkxVerif.Storer
