/-
C11 helper: the correlators GENERATED from `QCumulantFlow.__calculate_corr` (`Gen/QCumulant.lean`, numpy-style
per-event vectors) are equal, over ℝ, to the hand-written model's correlators (`Core/QCumulant.lean`) about which
the property theorems are proved.  Re-checked whenever the source (hence `Gen/`) changes.
-/
import SparkxVerif.Gen.QCumulant
import SparkxVerif.Lemmas.Num
import Mathlib.Data.Real.Basic
import Mathlib.Tactic.Ring
import Mathlib.Tactic.FieldSimp

namespace SparkxVerif.QCGen
open SparkxVerif SparkxVerif.Vec SparkxVerif.QC

theorem zipWith_map_map {ι β γ δ : Type} (f : β → γ → δ) (g : ι → β) (h : ι → γ) (l : List ι) :
    List.zipWith f (l.map g) (l.map h) = l.map (fun x => f (g x) (h x)) := by
  induction l with
  | nil => rfl
  | cons a l ih => simp [ih]

@[simp] theorem mul_re (a b : Cx ℝ) : (a * b).re = a.re * b.re - a.im * b.im := rfl
@[simp] theorem mul_im (a b : Cx ℝ) : (a * b).im = a.re * b.im + a.im * b.re := rfl
@[simp] theorem add_re (a b : Cx ℝ) : (a + b).re = a.re + b.re := rfl
@[simp] theorem add_im (a b : Cx ℝ) : (a + b).im = a.im + b.im := rfl
@[simp] theorem conj_re (a : Cx ℝ) : (Cx.conj a).re = a.re := rfl
@[simp] theorem conj_im (a : Cx ℝ) : (Cx.conj a).im = -a.im := rfl
@[simp] theorem ofReal_re (x : ℝ) : (Cx.ofReal x).re = x := rfl
@[simp] theorem ofReal_im (x : ℝ) : (Cx.ofReal x).im = 0 := by simp [Cx.ofReal]

theorem sum_re_aux (l : List (Cx ℝ)) (z : Cx ℝ) :
    (l.foldl (· + ·) z).re = z.re + (l.map (·.re)).sum := by
  induction l generalizing z with
  | nil => simp
  | cons a l ih => simp only [List.foldl_cons, ih, List.map_cons, List.sum_cons, add_re]; ring

theorem sum_re (l : List (Cx ℝ)) : (Cx.sum l).re = (l.map (·.re)).sum := by
  unfold Cx.sum; rw [sum_re_aux]; simp

/-- the generated `<<2>>` is the hand-written model's `<<2>>` -/
theorem corr2_gen (evs : List (Event ℝ)) : Gen.QCumulant.corr2 evs = QC.corr2 evs := by
  unfold Gen.QCumulant.corr2 QC.corr2
  simp only [vsum, inner, vmul, cvdot, cmul, cconj, List.map_map, zipWith_map_map, sum_re, sumL_eq_sum]
  congr 3
  apply List.map_congr_left
  intro e _
  simp [Cx.normSq]

@[simp] theorem smul_re (x : ℝ) (a : Cx ℝ) : (Cx.smul x a).re = x * a.re := rfl
@[simp] theorem smul_im (x : ℝ) (a : Cx ℝ) : (Cx.smul x a).im = x * a.im := rfl

theorem sum_add {ι : Type} (l : List ι) (f g : ι → ℝ) :
    (l.map f).sum + (l.map g).sum = (l.map (fun e => f e + g e)).sum := by
  induction l with
  | nil => simp
  | cons a l ih => simp only [List.map_cons, List.sum_cons, ← ih]; ring
theorem sum_sub {ι : Type} (l : List ι) (f g : ι → ℝ) :
    (l.map f).sum - (l.map g).sum = (l.map (fun e => f e - g e)).sum := by
  induction l with
  | nil => simp
  | cons a l ih => simp only [List.map_cons, List.sum_cons, ← ih]; ring
theorem sum_mulc {ι : Type} (l : List ι) (c : ℝ) (f : ι → ℝ) :
    c * (l.map f).sum = (l.map (fun e => c * f e)).sum := by
  induction l with
  | nil => simp
  | cons a l ih => simp only [List.map_cons, List.sum_cons, ← ih]; ring

/-- the generated `<<4>>` is the hand-written model's `<<4>>` -/
theorem corr4_gen (evs : List (Event ℝ)) : Gen.QCumulant.corr4 evs = QC.corr4 evs := by
  unfold Gen.QCumulant.corr4 QC.corr4
  simp only [vsum, inner, vmul, vadd, vsub, vsubs, smul, vsquare, cre, cim, cvdot, cinner, cmul, cconj, csquare,
    List.map_map, zipWith_map_map, sum_re, sumL_eq_sum, Function.comp_def]
  rw [sum_add, sum_mulc, sum_mulc, sum_sub, sum_sub]
  congr 2
  apply List.map_congr_left
  intro e _
  simp [QC.num4, Cx.normSq, nat]

@[simp] theorem cpow3 (a : Cx ℝ) : Cx.cpow a 3 = Cx.ofReal ((1 : ℕ) : ℝ) * a * a * a := rfl

set_option maxHeartbeats 1600000 in
/-- the generated `<<6>>` is the hand-written model's `<<6>>` -/
theorem corr6_gen (evs : List (Event ℝ)) : Gen.QCumulant.corr6 evs = QC.corr6 evs := by
  unfold Gen.QCumulant.corr6 QC.corr6
  simp only [vsum, vmul, vadd, vsub, vsubs, vdiv, sdiv, smul, cre, cmul, cconj, cpowv,
    List.map_map, zipWith_map_map, sumL_eq_sum, Function.comp_def]
  congr 2
  · apply List.map_congr_left
    intro e _
    simp only [QC.W6, QC.ebe6, nat]
    congr 1
    simp

/-! ### the scalar decision logic regenerated from `__init__`, `__cumulant_flow`, `__flow_from_cumulant`,
`__flow_from_cumulant_differential` equals the hand-written model's -/

/-- the generated table `cumulant_factor_` on the orders `__init__` admits -/
theorem factor_gen (k : ℕ) (hk : k = 2 ∨ k = 4 ∨ k = 6) : (Gen.QCumulant.factor k : ℝ) = QC.factor k := by
  rcases hk with rfl | rfl | rfl <;> simp [Gen.QCumulant.factor, QC.factor]

/-- the generated cumulant combinations are the model's `cumulant` -/
theorem cumulant_gen (evs : List (Event ℝ)) :
    QC.cumulant 2 evs = some (Gen.QCumulant.cum2 (QC.corr2 evs) (QC.corr4 evs) (QC.corr6 evs)) ∧
    QC.cumulant 4 evs = some (Gen.QCumulant.cum4 (QC.corr2 evs) (QC.corr4 evs) (QC.corr6 evs)) ∧
    QC.cumulant 6 evs = some (Gen.QCumulant.cum6 (QC.corr2 evs) (QC.corr4 evs) (QC.corr6 evs)) := by
  refine ⟨?_, ?_, ?_⟩ <;>
    simp only [QC.cumulant, Gen.QCumulant.cum2, Gen.QCumulant.cum4, Gen.QCumulant.cum6, Option.some.injEq, npow_eq_pow, nat] <;>
    (try push_cast) <;> (try ring1)

/-- the generated `__flow_from_cumulant` is the model's, for every admitted order, option and cumulant value -/
theorem flowFromCumulant_gen (root : ℝ → ℕ → ℝ) (k : ℕ) (hk : k = 2 ∨ k = 4 ∨ k = 6) (im : Imag) (c : ℝ) :
    Gen.QCumulant.flowFromCumulant root k im c = QC.flowFromCumulant root k im c := by
  unfold Gen.QCumulant.flowFromCumulant QC.flowFromCumulant
  rw [factor_gen k hk]
  by_cases h : nat 0 ≤ QC.factor k * c
  · simp [h]
  · cases im <;> simp [h]

/-- the generated `__flow_from_cumulant_differential` is the model's, for every order, option and pair of values -/
theorem dflow_gen (rootp : ℝ → ℕ → ℕ → ℝ) (k : ℕ) (im : Imag) (c d : ℝ) :
    Gen.QCumulant.dflow rootp k im c d = QC.dflow rootp k im c d := by
  by_cases h4 : k = 4
  · subst h4
    unfold Gen.QCumulant.dflow QC.dflow
    rw [factor_gen 4 (by simp)]
    by_cases h : c < nat 0
    · simp [h]
    · cases im <;> simp [h]
  · by_cases h2 : k = 2
    · subst h2
      unfold Gen.QCumulant.dflow QC.dflow
      rw [factor_gen 2 (by simp)]
      by_cases h : nat 0 < c
      · simp [h]
      · cases im <;> simp [h]
    · unfold Gen.QCumulant.dflow QC.dflow
      simp only [h4, h2, if_false]

end SparkxVerif.QCGen
