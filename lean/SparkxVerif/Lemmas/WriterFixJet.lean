/-
Lemmas for C06: the two halves composed (JETSCAPE): `jet_read_written`, `jet_write_fixpoint`.
-/
import SparkxVerif.Lemmas.WriterFix

set_option linter.unusedSimpArgs false
set_option linter.unusedVariables false

namespace SparkxVerif.Wr
open SparkxVerif.Rd SparkxVerif.Gen.WriterTables

variable {R V : Type}

def jblocksFrom (defStr : String) : Nat → List (List (List String × String)) → List JBlock
  | _, [] => []
  | i, ps :: pss => ⟨jetHeader ((i + 1 : Nat) : Int) ps.length defStr, ps⟩ :: jblocksFrom defStr (i + 1) pss

theorem jetBlocksOf_eq (c : Codec V) (vals : R → List V) (defStr : String) (i : Nat) (evs : List (List R)) :
    jetBlocksOf c vals defStr i evs = jblocksFrom defStr i (partsOf c vals fmtJetscape evs) := by
  induction evs generalizing i with
  | nil => rfl
  | cons ev evs ih => simp [jetBlocksOf, jblocksFrom, partsOf, ih] at *

theorem jblocksFrom_length (defStr : String) (i : Nat) (pss : List (List (List String × String))) :
    (jblocksFrom defStr i pss).length = pss.length := by
  induction pss generalizing i with
  | nil => rfl
  | cons ps pss ih => simp [jblocksFrom, ih]

theorem jblocksFrom_parts (defStr : String) (i : Nat) (pss : List (List (List String × String))) :
    (jblocksFrom defStr i pss).map (·.parts) = pss := by
  induction pss generalizing i with
  | nil => rfl
  | cons ps pss ih => simp [jblocksFrom, ih]

theorem jrowsOf_jblocksFrom (defStr : String) (i : Nat) (pss : List (List (List String × String))) :
    jrowsOf (i + 1) (jblocksFrom defStr i pss) = relabelRows 1 i pss := by
  induction pss generalizing i with
  | nil => rfl
  | cons ps pss ih => simp [jblocksFrom, jrowsOf, relabelRows, ih]; omega

theorem jtlinesOf_map_obs (obs : String → LineF) (i : Nat) (bs : List JBlock) :
    (jtlinesOf i bs).map (fun t => obs t.text) = bs.flatMap (JBlock.obsLines obs) := by
  induction bs generalizing i with
  | nil => rfl
  | cons b bs ih =>
    simp [jtlinesOf, JBlock.tlines, JBlock.obsLines, ih, List.map_map, Function.comp_def]

theorem jblocksOK_of_obs (obs : String → LineF) (fmt : Fmt) (attrs : List String) (partons : Bool) (i : Nat)
    (bs : List JBlock) (h : ObsOK obs fmt attrs partons (jtlinesOf i bs)) : JBlocksOK obs partons i bs := by
  induction bs generalizing i with
  | nil => trivial
  | cons b bs ih =>
    refine ⟨⟨?_, ?_⟩, ih (i + 1) (fun t ht => h t (by simp [jtlinesOf, ht]))⟩
    · have := (h ⟨.jevt i b.parts.length, b.head⟩ (by simp [jtlinesOf, JBlock.tlines])).1
      simpa [obsKind] using this
    · intro p hp
      have := (h ⟨.jpart p.1, p.2⟩ (by
        simp only [jtlinesOf, JBlock.tlines, List.mem_append, List.mem_cons, List.mem_map]
        exact Or.inl (Or.inr ⟨p, hp, rfl⟩))).1
      simpa [obsKind] using this

/-- **read ∘ write (JETSCAPE).** -/
theorem jet_read_written (c : Codec V) (vals : R → List V) (j : JetObj R) (wf : JetWF vals j)
    (obs : String → LineF) (partons : Bool) (nl : Bool)
    (hobs : ObsOK obs .oscar2013 [] partons (jetSpecLines c vals j)) :
    ∃ evs, readJetscape ⟨(jetSpecLines c vals j).map (fun t => obs t.text), nl⟩ .all partons none
        = .ok { events := evs, numEvents := j.events.length, counts := .arr2d (relabelRows 1 0 j.events),
                fmt := none, customAttrs := [], footers := [] }
      ∧ strip evs = j.events.map (fun ev => ev.map (fun r => cellsOf c fmtJetscape (vals r))) := by
  let pss := partsOf c vals fmtJetscape j.events
  let bs := jblocksFrom j.defStr 0 pss
  have hbs : jetBlocksOf c vals j.defStr 0 j.events = bs := jetBlocksOf_eq ..
  have hlines : jetSpecLines c vals j = ⟨.jhdr, j.headerLine⟩ :: (jtlinesOf 1 bs ++ [⟨.jtrail, j.lastLine⟩]) := by
    simp only [jetSpecLines]; rw [hbs]
  rw [hlines] at hobs ⊢
  have hh : obsJHeader partons (obs j.headerLine) = true := by
    have := (hobs ⟨.jhdr, j.headerLine⟩ (by simp)).1
    simpa [obsKind] using this
  have htr : obsJTrailer partons (obs j.lastLine) = true := by
    have := (hobs ⟨.jtrail, j.lastLine⟩ (by simp)).1
    simpa [obsKind] using this
  have hblocks : JBlocksOK obs partons 1 bs :=
    jblocksOK_of_obs obs .oscar2013 [] partons 1 bs (fun t ht => hobs t (by simp [ht]))
  have hlen : bs.length = j.events.length := by rw [jblocksFrom_length, partsOf_length]
  cases hb : bs with
  | nil =>
    rw [hb] at hlen
    exact absurd (List.eq_nil_of_length_eq_zero hlen.symm) wf.nonempty
  | cons b bs' =>
    rw [hb] at hblocks
    obtain ⟨evs, hr, hs⟩ := readJetscape_written (obs := obs) (partons := partons) j.headerLine j.lastLine b bs' nl hh htr
      hblocks
    refine ⟨evs, ?_, ?_⟩
    · simp only [List.map_cons, List.map_append, List.map_nil, jtlinesOf_map_obs]
      rw [hr]
      have e1 : (((b :: bs').length : Nat) : Int) = (j.events.length : Int) := by rw [← hb, hlen]
      have e2 : jrowsOf 1 (b :: bs') = relabelRows 1 0 j.events := by
        rw [← hb]
        have := jrowsOf_jblocksFrom j.defStr 0 pss
        simp only [Nat.zero_add] at this
        rw [this]; exact relabelRows_map _ (by simp) 1 0 j.events
      rw [e1, e2]
    · rw [hs, ← hb]
      have : bs.map (·.parts) = pss := jblocksFrom_parts ..
      have h2 : bs.map (fun b => b.parts.map (·.1)) = pss.map (fun ps => ps.map (·.1)) := by
        rw [← this]; simp [List.map_map, Function.comp_def]
      rw [h2]
      simp [pss, partsOf, cellsRow, List.map_map, Function.comp_def]

/-- **write ∘ read ∘ write = write (JETSCAPE).**  `hstrip`: the trailer is kept stripped (`last_line_` is
`get_last_line(...).strip()`), and the first and last line are kept as they are by `obs`. -/
theorem jet_write_fixpoint (c : Codec V) (vals : R → List V) (j : JetObj R) (wf : JetWF vals j)
    (obs : String → LineF) (partons : Bool) (nl : Bool)
    (hdef : j.defStr = if partons then "N_partons" else "N_hadrons")
    (hobs : ObsOK obs .oscar2013 [] partons (jetSpecLines c vals j))
    (hstrip : pyStrip j.lastLine = j.lastLine) :
    let f2 : FileF := ⟨(jetSpecLines c vals j).map (fun t => obs t.text), nl⟩
    ∃ L j2, readJetscape f2 .all partons none = .ok L
      ∧ jetOfLoaded L f2 partons = .ok j2
      ∧ j2.lastLine = j.lastLine ∧ j2.headerLine = j.headerLine
      ∧ ∀ vals2 : PLine → List V,
          (∀ ev ∈ j2.events, ∀ p ∈ ev, cellsOf c fmtJetscape (vals2 p) = p.toks ∧ (vals2 p).length = fmtJetscape.length) →
          JetWF vals2 j2 ∧ writeJetscapeK c vals2 j2 = writeJetscapeK c vals j := by
  intro f2
  obtain ⟨evs, hr, hs⟩ := jet_read_written c vals j wf obs partons nl hobs
  have hN : evs.length = j.events.length := by
    have := congrArg List.length hs
    simpa [strip] using this
  have hlens : evs.map List.length = j.events.map List.length := by
    have := strip_lengths evs _ hs
    simpa [List.map_map, Function.comp_def] using this
  have hraw1 : (obs j.headerLine).raw = j.headerLine := (hobs ⟨.jhdr, j.headerLine⟩ (by simp [jetSpecLines])).2
  have hraw2 : (obs j.lastLine).raw = j.lastLine := (hobs ⟨.jtrail, j.lastLine⟩ (by simp [jetSpecLines])).2
  let j2 : JetObj PLine :=
    { events := evs, numEvents := (j.events.length : Int), counts := .arr2d (relabelRows 1 0 j.events),
      defStr := j.defStr, headerLine := j.headerLine, lastLine := j.lastLine }
  have hhead : f2.lines.head? = some (obs j.headerLine) := by simp [f2, jetSpecLines]
  have hlast : f2.lines.getLast? = some (obs j.lastLine) := by
    simp only [f2, jetSpecLines, List.map_cons, List.map_append, List.map_nil]
    rw [← List.cons_append, List.getLast?_append]; simp
  refine ⟨_, j2, hr, ?_, rfl, rfl, ?_⟩
  · simp only [jetOfLoaded, hhead, hlast, hraw1, hraw2, hstrip, ← hdef]
    rfl
  · intro vals2 hv
    have wf2 : JetWF vals2 j2 := by
      refine ⟨?_, ?_, ⟨1, ?_⟩, ?_⟩
      · intro h; simp only [j2] at h; rw [h] at hN; exact wf.nonempty (List.eq_nil_of_length_eq_zero hN.symm)
      · simp [j2, hN]
      · simp only [j2]; rw [relabelRows_lengths 1 0 evs j.events hlens]
      · intro ev hev p hp; exact (hv ev hev p hp).2
    refine ⟨wf2, ?_⟩
    rw [writeJetscapeK_ok c vals2 j2 wf2, writeJetscapeK_ok c vals j wf]
    congr 1
    simp only [jetSpecLines, j2]
    congr 2
    rw [jetBlocksOf_eq, jetBlocksOf_eq]
    congr 1
    have h1 : partsOf c vals2 fmtJetscape evs = (strip evs).map (fun ts => ts.map (fun t => (t, " ".intercalate t))) := by
      simp only [partsOf, strip, List.map_map, Function.comp_def]
      apply List.map_congr_left
      intro ev hev
      apply List.map_congr_left
      intro p hp
      simp [cellsRow, (hv ev hev p hp).1]
    rw [h1, hs]
    simp only [partsOf, List.map_map, Function.comp_def]
    rfl

end SparkxVerif.Wr
