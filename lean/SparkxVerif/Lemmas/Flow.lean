/-
Helper lemmas for C12 (flow estimators at `ℝ`/`ℂ`): Q-vector sums are list sums, behaviour of every
piece of the model under multiplication of all `u` of an event by a unit complex number, under
permutations of particles / events, closed forms of the reaction-plane loops.
-/
import SparkxVerif.Core.Flow
import SparkxVerif.Lemmas.Num
import Mathlib.Analysis.Complex.Basic
import Mathlib.Analysis.Complex.Trigonometric
import Mathlib.Analysis.SpecialFunctions.Trigonometric.Basic
import Mathlib.Algebra.BigOperators.Group.List.Basic
import Mathlib.Algebra.BigOperators.Group.List.Lemmas
import Mathlib.Algebra.Order.BigOperators.Group.List
import Mathlib.Data.List.Perm.Basic
import Mathlib.Tactic.Ring
import Mathlib.Tactic.Linarith

namespace SparkxVerif.Flow
open Complex

/-- the primitives at `ℝ`/`ℂ` are the mathematical ones; `sqrt`, `abs`, `res`, `isZero`, `le`, `lt`
stay arbitrary -/
structure StdOps (O : Ops ℝ ℂ) : Prop where
  ofReal_eq : ∀ x, O.ofReal x = (x : ℂ)
  re_eq : ∀ z, O.re z = z.re
  conj_eq : ∀ z, O.conj z = (starRingEnd ℂ) z
  cabs_eq : ∀ z, O.cabs z = ‖z‖
  czero_eq : ∀ z, O.czero z = decide (z = 0)

variable {O : Ops ℝ ℂ}

abbrev P := Part ℝ ℂ
abbrev E := Ev ℝ ℂ

theorem foldl_add_eq {β : Type} (f : β → ℂ) (l : List β) (a : ℂ) :
    l.foldl (fun acc p => acc + f p) a = a + (l.map f).sum := by
  induction l generalizing a with
  | nil => simp
  | cons x t ih => simp [ih, add_assoc]

theorem foldl_add_eq_real {β : Type} (f : β → ℝ) (l : List β) (a : ℝ) :
    l.foldl (fun acc p => acc + f p) a = a + (l.map f).sum := by
  induction l generalizing a with
  | nil => simp
  | cons x t ih => simp [ih, add_assoc]

theorem qSum_eq_sum (h : StdOps O) (wq : P → ℝ) (ev : List P) :
    qSum O wq ev = (ev.map fun p => ((wq p : ℝ) : ℂ) * p.u).sum := by
  unfold qSum
  simp only [h.ofReal_eq]
  rw [foldl_add_eq]
  simp

/-! ### rotation -/

/-- a weight function that does not look at the azimuth -/
def RotInv (wq : P → ℝ) : Prop := ∀ (c : ℂ) (p : P), wq (p.rot c) = wq p

theorem chainVal_rotInv (chain : List (String × FlowSel.Attr)) (n : ℕ) (s : String) :
    RotInv (chainVal (κ := ℂ) chain n s) := by
  intro c p
  unfold chainVal
  cases chain.lookup s with
  | none => rfl
  | some a => cases a <;> rfl

theorem pw_rotInv : RotInv (Part.pw (α := ℝ) (κ := ℂ)) := fun _ _ => rfl

theorem qSum_rot (h : StdOps O) {wq : P → ℝ} (hw : RotInv wq) (c : ℂ) (ev : List P) :
    qSum O wq (ev.map (Part.rot c)) = c * qSum O wq ev := by
  rw [qSum_eq_sum h, qSum_eq_sum h, List.map_map, ← List.sum_map_mul_left]
  congr 1
  apply List.map_congr_left
  intro p _
  simp only [Function.comp]
  rw [hw c p]
  simp only [Part.rot]
  ring

theorem filter_rot (pred : P → Bool) (hp : ∀ (c : ℂ) p, pred (p.rot c) = pred p) (c : ℂ) (ev : List P) :
    (ev.map (Part.rot c)).filter pred = (ev.filter pred).map (Part.rot c) := by
  rw [List.filter_map]
  congr 1
  apply List.filter_congr
  intro p _
  exact hp c p

theorem unit_conj_mul {c : ℂ} (hc : ‖c‖ = 1) : (starRingEnd ℂ) c * c = 1 := by
  rw [Complex.conj_mul', hc]; simp

theorem spResTerm_rot (h : StdOps O) {wq : P → ℝ} (hw : RotInv wq) (gap : ℝ) {c : ℂ} (hc : ‖c‖ = 1)
    (ref : List P) : spResTerm O wq gap (ref.map (Part.rot c)) = spResTerm O wq gap ref := by
  unfold spResTerm
  rw [filter_rot _ (fun _ _ => rfl), filter_rot _ (fun _ _ => rfl), qSum_rot h hw, qSum_rot h hw]
  simp only [h.re_eq, h.conj_eq, map_mul]
  have : (starRingEnd ℂ) c * (starRingEnd ℂ) (qSum O wq (ref.filter (inA O gap))) *
      (c * qSum O wq (ref.filter (inB O gap))) =
      ((starRingEnd ℂ) c * c) * ((starRingEnd ℂ) (qSum O wq (ref.filter (inA O gap))) *
      qSum O wq (ref.filter (inB O gap))) := by ring
  rw [this, unit_conj_mul hc, one_mul]

theorem qMinusSelf_rot (h : StdOps O) {wq : P → ℝ} (hw : RotInv wq) (sc : Bool) (c Q : ℂ) (p : P) :
    qMinusSelf O wq sc (c * Q) (p.rot c) = c * qMinusSelf O wq sc Q p := by
  unfold qMinusSelf
  cases sc
  · simp
  · simp only [if_true, h.ofReal_eq]
    rw [hw c p]
    simp only [Part.rot]
    ring

theorem spFlows_rot (h : StdOps O) {wq : P → ℝ} (hw : RotInv wq) (sc : Bool) (R : ℝ) {c : ℂ}
    (hc : ‖c‖ = 1) (e : E) : spFlows O wq sc R (e.rot c) = spFlows O wq sc R e := by
  unfold spFlows
  simp only [Ev.rot, qSum_rot h hw, List.map_map]
  apply List.map_congr_left
  intro p _
  simp only [Function.comp, qMinusSelf_rot h hw, h.re_eq, h.conj_eq]
  have : (starRingEnd ℂ) (p.rot c).u * (c * qMinusSelf O wq sc (qSum O wq e.ref) p) =
      ((starRingEnd ℂ) c * c) * ((starRingEnd ℂ) p.u * qMinusSelf O wq sc (qSum O wq e.ref) p) := by
    simp only [Part.rot, map_mul]; ring
  rw [this, unit_conj_mul hc, one_mul]
  rfl

theorem map_zipWith_inv {γ β δ : Type} (f : γ → β → β) (g : β → δ) :
    ∀ (cs : List γ) (l : List β), cs.length = l.length → (∀ c ∈ cs, ∀ e ∈ l, g (f c e) = g e) →
      (List.zipWith f cs l).map g = l.map g
  | [], [], _, _ => rfl
  | [], _ :: _, hl, _ => by simp at hl
  | _ :: _, [], hl, _ => by simp at hl
  | c :: cs, e :: l, hl, hg => by
    simp only [List.zipWith_cons_cons, List.map_cons]
    rw [hg c (by simp) e (by simp), map_zipWith_inv f g cs l (by simpa using hl)
      (fun c' hc' e' he' => hg c' (by simp [hc']) e' (by simp [he']))]

theorem spResolution_rot (h : StdOps O) {wq : P → ℝ} (hw : RotInv wq) (gap : ℝ) (cs : List ℂ) (evs : List E)
    (hl : cs.length = evs.length) (hc : ∀ c ∈ cs, ‖c‖ = 1) :
    spResolution O wq gap (List.zipWith Ev.rot cs evs) = spResolution O wq gap evs := by
  unfold spResolution
  rw [map_zipWith_inv Ev.rot (fun e => spResTerm O wq gap e.ref) cs evs hl
    (fun c hcm e _ => spResTerm_rot h hw gap (hc c hcm) e.ref)]
  simp [List.length_zipWith, hl]

theorem spWith_rot (h : StdOps O) {wq : P → ℝ} (hw : RotInv wq) (sc : Bool) (R : ℝ) (cs : List ℂ)
    (evs : List E) (hl : cs.length = evs.length) (hc : ∀ c ∈ cs, ‖c‖ = 1) :
    spWith O wq sc R (List.zipWith Ev.rot cs evs) = spWith O wq sc R evs := by
  unfold spWith
  rw [List.flatMap_def, List.flatMap_def, map_zipWith_inv Ev.rot (spFlows O wq sc R) cs evs hl
    (fun c hcm e _ => spFlows_rot h hw sc R (hc c hcm) e)]

theorem inBin_rotInv {val : P → ℝ} (hv : RotInv val) (lo hi : ℝ) (c : ℂ) (p : P) :
    inBin O val lo hi (p.rot c) = inBin O val lo hi p := by
  unfold inBin; rw [hv c p]

theorem restrict_rot {val : P → ℝ} (hv : RotInv val) (b : ℝ × ℝ) (cs : List ℂ) (evs : List E) :
    restrict O val b (List.zipWith Ev.rot cs evs) = List.zipWith Ev.rot cs (restrict O val b evs) := by
  unfold restrict
  rw [List.map_zipWith, List.zipWith_map_right]
  congr 1
  funext c e
  simp only [Ev.rot]
  rw [filter_rot _ (inBin_rotInv hv b.1 b.2)]

theorem restrict_length {val : P → ℝ} (b : ℝ × ℝ) (evs : List E) :
    (restrict O val b evs).length = evs.length := by simp [restrict]

/-- scalar product, integrated: value and error are unchanged by per-event rotations -/
theorem spIntegrated_rot (h : StdOps O) {wq : P → ℝ} (hw : RotInv wq) (gap : ℝ) (sc : Bool)
    (cs : List ℂ) (evs : List E) (hl : cs.length = evs.length) (hc : ∀ c ∈ cs, ‖c‖ = 1) :
    spIntegrated O wq gap sc (List.zipWith Ev.rot cs evs) = spIntegrated O wq gap sc evs := by
  unfold spIntegrated
  rw [spResolution_rot h hw gap cs evs hl hc, spWith_rot h hw sc _ cs evs hl hc]

theorem spDifferential_rot (h : StdOps O) {wq : P → ℝ} (hw : RotInv wq) (gap : ℝ) (sc : Bool)
    (site : FlowSel.Site) (sel : String) (edges : List ℝ)
    (cs : List ℂ) (evs : List E) (hl : cs.length = evs.length) (hc : ∀ c ∈ cs, ‖c‖ = 1) :
    spDifferential O wq gap sc site sel edges (List.zipWith Ev.rot cs evs) =
      spDifferential O wq gap sc site sel edges evs := by
  unfold spDifferential
  split
  · rfl
  · rw [spResolution_rot h hw gap cs evs hl hc]
    simp only []
    congr 1
    apply List.map_congr_left
    intro b _
    rw [restrict_rot (chainVal_rotInv _ _ _), spWith_rot h hw sc _ cs _ (by rw [restrict_length]; exact hl) hc]

/-! ### permutations -/
open List

theorem sumL_perm {xs ys : List ℝ} (hp : xs ~ ys) : sumL xs = sumL ys := by
  rw [sumL_eq_sum, sumL_eq_sum, hp.sum_eq]

theorem eventAverage_perm {xs ys : List (ℝ × ℝ)} (hp : xs ~ ys) : eventAverage O xs = eventAverage O ys := by
  unfold eventAverage
  rw [sumL_perm (hp.map _), sumL_perm (hp.map (fun x => x.1 * x.2)),
    sumL_perm (hp.map (fun x => npow x.1 2 * npow x.2 2))]

theorem qSum_perm (h : StdOps O) (wq : P → ℝ) {ev ev' : List P} (hp : ev ~ ev') :
    qSum O wq ev = qSum O wq ev' := by
  rw [qSum_eq_sum h, qSum_eq_sum h, (hp.map _).sum_eq]

/-- same events, particles reordered inside the flow sample and inside the reference sample -/
def PermParts (e e' : E) : Prop := e.flow ~ e'.flow ∧ e.ref ~ e'.ref

theorem spResTerm_perm (h : StdOps O) (wq : P → ℝ) (gap : ℝ) {r r' : List P} (hp : r ~ r') :
    spResTerm O wq gap r = spResTerm O wq gap r' := by
  unfold spResTerm
  rw [qSum_perm h wq (hp.filter _), qSum_perm h wq (hp.filter (inB O gap))]

theorem spFlows_perm (h : StdOps O) (wq : P → ℝ) (sc : Bool) (R : ℝ) {e e' : E} (hp : PermParts e e') :
    spFlows O wq sc R e ~ spFlows O wq sc R e' := by
  unfold spFlows
  rw [qSum_perm h wq hp.2]
  exact hp.1.map _

theorem map_eq_of_forall₂ {β δ : Type} {r : β → β → Prop} (g : β → δ) (hg : ∀ a b, r a b → g a = g b) :
    ∀ {l l' : List β}, List.Forall₂ r l l' → l.map g = l'.map g
  | _, _, .nil => rfl
  | _, _, .cons hab t => by simp [hg _ _ hab, map_eq_of_forall₂ g hg t]

theorem flatMap_perm_of_forall₂ {β δ : Type} {r : β → β → Prop} (g : β → List δ)
    (hg : ∀ a b, r a b → g a ~ g b) :
    ∀ {l l' : List β}, List.Forall₂ r l l' → l.flatMap g ~ l'.flatMap g
  | _, _, .nil => by simp
  | _, _, .cons hab t => by
    simp only [List.flatMap_cons]
    exact (hg _ _ hab).append (flatMap_perm_of_forall₂ g hg t)

theorem spResolution_perm_particles (h : StdOps O) (wq : P → ℝ) (gap : ℝ) {evs evs' : List E}
    (hp : List.Forall₂ PermParts evs evs') : spResolution O wq gap evs = spResolution O wq gap evs' := by
  unfold spResolution
  rw [map_eq_of_forall₂ (fun e => spResTerm O wq gap e.ref) (fun a b hab => spResTerm_perm h wq gap hab.2) hp,
    hp.length_eq]

theorem spWith_perm_particles (h : StdOps O) (wq : P → ℝ) (sc : Bool) (R : ℝ) {evs evs' : List E}
    (hp : List.Forall₂ PermParts evs evs') : spWith O wq sc R evs = spWith O wq sc R evs' := by
  unfold spWith
  exact eventAverage_perm (flatMap_perm_of_forall₂ _ (fun a b hab => spFlows_perm h wq sc R hab) hp)

theorem restrict_perm_particles (val : P → ℝ) (b : ℝ × ℝ) {evs evs' : List E}
    (hp : List.Forall₂ PermParts evs evs') :
    List.Forall₂ PermParts (restrict O val b evs) (restrict O val b evs') := by
  unfold restrict
  rw [List.forall₂_map_left_iff, List.forall₂_map_right_iff]
  exact hp.imp (fun a b hab => ⟨hab.1.filter _, hab.2⟩)

theorem spIntegrated_perm_particles (h : StdOps O) (wq : P → ℝ) (gap : ℝ) (sc : Bool) {evs evs' : List E}
    (hp : List.Forall₂ PermParts evs evs') : spIntegrated O wq gap sc evs = spIntegrated O wq gap sc evs' := by
  unfold spIntegrated
  rw [spResolution_perm_particles h wq gap hp, spWith_perm_particles h wq sc _ hp]

theorem spDifferential_perm_particles (h : StdOps O) (wq : P → ℝ) (gap : ℝ) (sc : Bool)
    (site : FlowSel.Site) (sel : String) (edges : List ℝ) {evs evs' : List E}
    (hp : List.Forall₂ PermParts evs evs') :
    spDifferential O wq gap sc site sel edges evs = spDifferential O wq gap sc site sel edges evs' := by
  unfold spDifferential
  split
  · rfl
  · rw [spResolution_perm_particles h wq gap hp]
    simp only []
    congr 1
    apply List.map_congr_left
    intro b _
    exact spWith_perm_particles h wq sc _ (restrict_perm_particles _ b hp)

theorem spResolution_perm_events (wq : P → ℝ) (gap : ℝ) {evs evs' : List E} (hp : evs ~ evs') :
    spResolution O wq gap evs = spResolution O wq gap evs' := by
  unfold spResolution
  rw [sumL_perm (hp.map _), hp.length_eq]

theorem spWith_perm_events (wq : P → ℝ) (sc : Bool) (R : ℝ) {evs evs' : List E} (hp : evs ~ evs') :
    spWith O wq sc R evs = spWith O wq sc R evs' := by
  unfold spWith
  exact eventAverage_perm (hp.flatMap_right _)

theorem spIntegrated_perm_events (wq : P → ℝ) (gap : ℝ) (sc : Bool) {evs evs' : List E} (hp : evs ~ evs') :
    spIntegrated O wq gap sc evs = spIntegrated O wq gap sc evs' := by
  unfold spIntegrated
  rw [spResolution_perm_events wq gap hp, spWith_perm_events wq sc _ hp]

theorem spDifferential_perm_events (wq : P → ℝ) (gap : ℝ) (sc : Bool)
    (site : FlowSel.Site) (sel : String) (edges : List ℝ) {evs evs' : List E} (hp : evs ~ evs') :
    spDifferential O wq gap sc site sel edges evs = spDifferential O wq gap sc site sel edges evs' := by
  unfold spDifferential
  split
  · rfl
  · rw [spResolution_perm_events wq gap hp]
    simp only []
    congr 1
    apply List.map_congr_left
    intro b _
    exact spWith_perm_events wq sc _ (hp.map _)


/-! ### event plane -/

theorem dir_zero (h : StdOps O) : dir O 0 = 1 := by
  unfold dir; simp [h.czero_eq, h.ofReal_eq]

theorem unit_ne_zero {c : ℂ} (hc : ‖c‖ = 1) : c ≠ 0 := by
  intro h0; simp [h0] at hc

theorem dir_rot (h : StdOps O) {c z : ℂ} (hc : ‖c‖ = 1) (hz : z ≠ 0) : dir O (c * z) = c * dir O z := by
  unfold dir
  simp [h.czero_eq, h.cabs_eq, h.ofReal_eq, hz, unit_ne_zero hc, hc, mul_div_assoc]

theorem epSubQ_rot (h : StdOps O) {wq : P → ℝ} (hw : RotInv wq) (c : ℂ) (sub : List P) :
    epSubQ O wq (sub.map (Part.rot c)) = c * epSubQ O wq sub := by
  unfold epSubQ
  have hs : (sub.map (Part.rot c)).map (fun p => npow (wq p) 2) = sub.map (fun p => npow (wq p) 2) := by
    rw [List.map_map]; apply List.map_congr_left; intro p _; simp only [Function.comp]; rw [hw c p]
  rw [hs, qSum_rot h hw]
  simp only []
  split
  · simp [h.ofReal_eq]
  · rw [mul_div_assoc]

/-- the input class on which the event-plane estimator is well defined: in every reference event the
two sub-event vectors vanish together or not at all, and no particle's (self-corrected) reference
vector vanishes.  (`arctan2(0,0) = 0` assigns the fixed angle 0 to a vanishing vector.) -/
def EPRegular (O : Ops ℝ ℂ) (wq : P → ℝ) (gap : ℝ) (sc : Bool) (e : E) : Prop :=
  (epSubQ O wq (e.ref.filter (inA O gap)) = 0 ↔ epSubQ O wq (e.ref.filter (inB O gap)) = 0) ∧
  ∀ p ∈ e.flow, qMinusSelf O wq sc (qSum O wq e.ref) p ≠ 0

theorem epResTerm_rot (h : StdOps O) {wq : P → ℝ} (hw : RotInv wq) (gap : ℝ) {c : ℂ} (hc : ‖c‖ = 1)
    (ref : List P)
    (hreg : epSubQ O wq (ref.filter (inA O gap)) = 0 ↔ epSubQ O wq (ref.filter (inB O gap)) = 0) :
    epResTerm O wq gap (ref.map (Part.rot c)) = epResTerm O wq gap ref := by
  unfold epResTerm
  rw [filter_rot _ (fun _ _ => rfl), filter_rot _ (fun _ _ => rfl), epSubQ_rot h hw, epSubQ_rot h hw]
  by_cases hA : epSubQ O wq (ref.filter (inA O gap)) = 0
  · have hB := hreg.mp hA
    rw [hA, hB]; simp
  · have hB : epSubQ O wq (ref.filter (inB O gap)) ≠ 0 := fun hb => hA (hreg.mpr hb)
    rw [dir_rot h hc hA, dir_rot h hc hB]
    simp only [h.re_eq, h.conj_eq, map_mul]
    have : (starRingEnd ℂ) c * (starRingEnd ℂ) (dir O (epSubQ O wq (ref.filter (inA O gap)))) *
        (c * dir O (epSubQ O wq (ref.filter (inB O gap)))) =
        ((starRingEnd ℂ) c * c) * ((starRingEnd ℂ) (dir O (epSubQ O wq (ref.filter (inA O gap)))) *
        dir O (epSubQ O wq (ref.filter (inB O gap)))) := by ring
    rw [this, unit_conj_mul hc, one_mul]

theorem epFlows_rot (h : StdOps O) {wq : P → ℝ} (hw : RotInv wq) (sc : Bool) (R : ℝ) {c : ℂ}
    (hc : ‖c‖ = 1) (e : E) (hreg : ∀ p ∈ e.flow, qMinusSelf O wq sc (qSum O wq e.ref) p ≠ 0) :
    epFlows O wq sc R (e.rot c) = epFlows O wq sc R e := by
  unfold epFlows
  simp only [Ev.rot, qSum_rot h hw, List.map_map]
  apply List.map_congr_left
  intro p hp
  simp only [Function.comp, qMinusSelf_rot h hw, h.re_eq, h.conj_eq]
  rw [dir_rot h hc (hreg p hp)]
  have : (starRingEnd ℂ) (p.rot c).u * (c * dir O (qMinusSelf O wq sc (qSum O wq e.ref) p)) =
      ((starRingEnd ℂ) c * c) * ((starRingEnd ℂ) p.u * dir O (qMinusSelf O wq sc (qSum O wq e.ref) p)) := by
    simp only [Part.rot, map_mul]; ring
  rw [this, unit_conj_mul hc, one_mul]
  rfl

theorem epResolution_rot (h : StdOps O) {wq : P → ℝ} (hw : RotInv wq) (gap : ℝ) (sc : Bool) (cs : List ℂ)
    (evs : List E) (hl : cs.length = evs.length) (hc : ∀ c ∈ cs, ‖c‖ = 1)
    (hreg : ∀ e ∈ evs, EPRegular O wq gap sc e) :
    epResolution O wq gap (List.zipWith Ev.rot cs evs) = epResolution O wq gap evs := by
  unfold epResolution epRn
  rw [map_zipWith_inv Ev.rot (fun e => epResTerm O wq gap e.ref) cs evs hl
    (fun c hcm e he => epResTerm_rot h hw gap (hc c hcm) e.ref (hreg e he).1)]
  simp [List.length_zipWith, hl]

theorem epWith_rot (h : StdOps O) {wq : P → ℝ} (hw : RotInv wq) (sc : Bool) (R : ℝ) (cs : List ℂ)
    (evs : List E) (hl : cs.length = evs.length) (hc : ∀ c ∈ cs, ‖c‖ = 1)
    (hreg : ∀ e ∈ evs, ∀ p ∈ e.flow, qMinusSelf O wq sc (qSum O wq e.ref) p ≠ 0) :
    epWith O wq sc R (List.zipWith Ev.rot cs evs) = epWith O wq sc R evs := by
  unfold epWith
  rw [List.flatMap_def, List.flatMap_def, map_zipWith_inv Ev.rot (epFlows O wq sc R) cs evs hl
    (fun c hcm e he => epFlows_rot h hw sc R (hc c hcm) e (hreg e he))]

theorem epIntegrated_rot (h : StdOps O) {wq : P → ℝ} (hw : RotInv wq) (gap : ℝ) (sc : Bool)
    (cs : List ℂ) (evs : List E) (hl : cs.length = evs.length) (hc : ∀ c ∈ cs, ‖c‖ = 1)
    (hreg : ∀ e ∈ evs, EPRegular O wq gap sc e) :
    epIntegrated O wq gap sc (List.zipWith Ev.rot cs evs) = epIntegrated O wq gap sc evs := by
  unfold epIntegrated
  rw [epResolution_rot h hw gap sc cs evs hl hc hreg,
    epWith_rot h hw sc _ cs evs hl hc (fun e he => (hreg e he).2)]

theorem epDifferential_rot (h : StdOps O) {wq : P → ℝ} (hw : RotInv wq) (gap : ℝ) (sc : Bool)
    (site : FlowSel.Site) (sel : String) (edges : List ℝ)
    (cs : List ℂ) (evs : List E) (hl : cs.length = evs.length) (hc : ∀ c ∈ cs, ‖c‖ = 1)
    (hreg : ∀ e ∈ evs, EPRegular O wq gap sc e) :
    epDifferential O wq gap sc site sel edges (List.zipWith Ev.rot cs evs) =
      epDifferential O wq gap sc site sel edges evs := by
  unfold epDifferential
  split
  · rfl
  · rw [epResolution_rot h hw gap sc cs evs hl hc hreg]
    simp only []
    congr 1
    apply List.map_congr_left
    intro b _
    rw [restrict_rot (chainVal_rotInv _ _ _), epWith_rot h hw sc _ cs _ (by rw [restrict_length]; exact hl) hc]
    intro e he p hp
    unfold restrict at he
    obtain ⟨e0, he0, rfl⟩ := List.mem_map.mp he
    exact (hreg e0 he0).2 p (List.mem_of_mem_filter hp)


theorem epSubQ_perm (h : StdOps O) (wq : P → ℝ) {s s' : List P} (hp : s ~ s') :
    epSubQ O wq s = epSubQ O wq s' := by
  unfold epSubQ
  rw [sumL_perm (hp.map _), qSum_perm h wq hp]

theorem epResTerm_perm (h : StdOps O) (wq : P → ℝ) (gap : ℝ) {r r' : List P} (hp : r ~ r') :
    epResTerm O wq gap r = epResTerm O wq gap r' := by
  unfold epResTerm
  rw [epSubQ_perm h wq (hp.filter _), epSubQ_perm h wq (hp.filter (inB O gap))]

theorem epFlows_perm (h : StdOps O) (wq : P → ℝ) (sc : Bool) (R : ℝ) {e e' : E} (hp : PermParts e e') :
    epFlows O wq sc R e ~ epFlows O wq sc R e' := by
  unfold epFlows
  rw [qSum_perm h wq hp.2]
  exact hp.1.map _

theorem epResolution_perm_particles (h : StdOps O) (wq : P → ℝ) (gap : ℝ) {evs evs' : List E}
    (hp : List.Forall₂ PermParts evs evs') : epResolution O wq gap evs = epResolution O wq gap evs' := by
  unfold epResolution epRn
  rw [map_eq_of_forall₂ (fun e => epResTerm O wq gap e.ref) (fun a b hab => epResTerm_perm h wq gap hab.2) hp,
    hp.length_eq]

theorem epWith_perm_particles (h : StdOps O) (wq : P → ℝ) (sc : Bool) (R : ℝ) {evs evs' : List E}
    (hp : List.Forall₂ PermParts evs evs') : epWith O wq sc R evs = epWith O wq sc R evs' := by
  unfold epWith
  exact eventAverage_perm (flatMap_perm_of_forall₂ _ (fun a b hab => epFlows_perm h wq sc R hab) hp)

theorem epIntegrated_perm_particles (h : StdOps O) (wq : P → ℝ) (gap : ℝ) (sc : Bool) {evs evs' : List E}
    (hp : List.Forall₂ PermParts evs evs') : epIntegrated O wq gap sc evs = epIntegrated O wq gap sc evs' := by
  unfold epIntegrated
  rw [epResolution_perm_particles h wq gap hp, epWith_perm_particles h wq sc _ hp]

theorem epDifferential_perm_particles (h : StdOps O) (wq : P → ℝ) (gap : ℝ) (sc : Bool)
    (site : FlowSel.Site) (sel : String) (edges : List ℝ) {evs evs' : List E}
    (hp : List.Forall₂ PermParts evs evs') :
    epDifferential O wq gap sc site sel edges evs = epDifferential O wq gap sc site sel edges evs' := by
  unfold epDifferential
  split
  · rfl
  · rw [epResolution_perm_particles h wq gap hp]
    simp only []
    congr 1
    apply List.map_congr_left
    intro b _
    exact epWith_perm_particles h wq sc _ (restrict_perm_particles _ b hp)

theorem epResolution_perm_events (wq : P → ℝ) (gap : ℝ) {evs evs' : List E} (hp : evs ~ evs') :
    epResolution O wq gap evs = epResolution O wq gap evs' := by
  unfold epResolution epRn
  rw [sumL_perm (hp.map _), hp.length_eq]

theorem epWith_perm_events (wq : P → ℝ) (sc : Bool) (R : ℝ) {evs evs' : List E} (hp : evs ~ evs') :
    epWith O wq sc R evs = epWith O wq sc R evs' := by
  unfold epWith
  exact eventAverage_perm (hp.flatMap_right _)

theorem epIntegrated_perm_events (wq : P → ℝ) (gap : ℝ) (sc : Bool) {evs evs' : List E} (hp : evs ~ evs') :
    epIntegrated O wq gap sc evs = epIntegrated O wq gap sc evs' := by
  unfold epIntegrated
  rw [epResolution_perm_events wq gap hp, epWith_perm_events wq sc _ hp]

theorem epDifferential_perm_events (wq : P → ℝ) (gap : ℝ) (sc : Bool)
    (site : FlowSel.Site) (sel : String) (edges : List ℝ) {evs evs' : List E} (hp : evs ~ evs') :
    epDifferential O wq gap sc site sel edges evs = epDifferential O wq gap sc site sel edges evs' := by
  unfold epDifferential
  split
  · rfl
  · rw [epResolution_perm_events wq gap hp]
    simp only []
    congr 1
    apply List.map_congr_left
    intro b _
    exact epWith_perm_events wq sc _ (hp.map _)

/-! ### single bin -/

theorem restrict_all {val : P → ℝ} (b : ℝ × ℝ) (evs : List E)
    (hall : ∀ e ∈ evs, ∀ p ∈ e.flow, inBin O val b.1 b.2 p = true) : restrict O val b evs = evs := by
  unfold restrict
  conv_rhs => rw [← List.map_id evs]
  apply List.map_congr_left
  intro e he
  have : e.flow.filter (inBin O val b.1 b.2) = e.flow := List.filter_eq_self.mpr (hall e he)
  simp [this]

theorem binPairs_two (lo hi : ℝ) : binPairs [lo, hi] = [(lo, hi)] := rfl

/-! ### reaction plane -/

/-- total weight and weighted vector sum of one event -/
def evW (ev : List P) : ℝ := (ev.map Part.pw).sum
def evS (ev : List P) : ℂ := (ev.map fun p => ((p.pw : ℝ) : ℂ) * p.u).sum

theorem rp_np (ev : List P) (b : ℝ) : ev.foldl (fun acc p => acc + p.pw) b = b + evW ev := by
  unfold evW; rw [foldl_add_eq_real]

theorem rpStep_eq (h : StdOps O) (st : ℂ × ℝ) (ev : List P) :
    rpStep O st ev = if O.isZero (st.2 + evW ev) then (0, st.2 + evW ev) else (st.1 + evS ev, st.2 + evW ev) := by
  unfold rpStep
  simp only [rp_np, qSum_eq_sum h, h.ofReal_eq]
  simp [evS]

theorem evS_rot (c : ℂ) (ev : List P) : evS (ev.map (Part.rot c)) = c * evS ev := by
  unfold evS
  rw [List.map_map, ← List.sum_map_mul_left]
  congr 1
  apply List.map_congr_left
  intro p _
  simp only [Function.comp, Part.rot, Part.pw]
  ring

theorem evW_rot (c : ℂ) (ev : List P) : evW (ev.map (Part.rot c)) = evW ev := by
  unfold evW; rw [List.map_map]; rfl

theorem rp_fold_rot (h : StdOps O) (c : ℂ) (evs : List (List P)) (a : ℂ) (b : ℝ) :
    (evs.map (List.map (Part.rot c))).foldl (rpStep O) (c * a, b) =
      (c * (evs.foldl (rpStep O) (a, b)).1, (evs.foldl (rpStep O) (a, b)).2) := by
  induction evs generalizing a b with
  | nil => rfl
  | cons ev t ih =>
    simp only [List.map_cons, List.foldl_cons, rpStep_eq h, evS_rot, evW_rot]
    split
    · have := ih 0 (b + evW ev); rw [mul_zero] at this; exact this
    · rw [← mul_add]; exact ih _ _

/-- reaction plane: a common rotation multiplies the result by exactly the phase -/
theorem rpIntegrated_rot (h : StdOps O) (c : ℂ) (evs : List (List P)) :
    rpIntegrated O (evs.map (List.map (Part.rot c))) = (rpIntegrated O evs).map (c * ·) := by
  unfold rpIntegrated
  have := rp_fold_rot h c evs 0 0
  rw [mul_zero] at this
  simp only [h.ofReal_eq, Nat.cast_zero, Complex.ofReal_zero, this]
  split
  · rfl
  · simp [mul_div_assoc]

theorem evS_perm {ev ev' : List P} (hp : ev ~ ev') : evS ev = evS ev' := (hp.map _).sum_eq
theorem evW_perm {ev ev' : List P} (hp : ev ~ ev') : evW ev = evW ev' := (hp.map _).sum_eq

theorem rpIntegrated_perm_particles (h : StdOps O) {evs evs' : List (List P)}
    (hp : List.Forall₂ List.Perm evs evs') : rpIntegrated O evs = rpIntegrated O evs' := by
  unfold rpIntegrated
  have : ∀ (st : ℂ × ℝ), evs.foldl (rpStep O) st = evs'.foldl (rpStep O) st := by
    induction hp with
    | nil => intro st; rfl
    | cons hab _ ih =>
      intro st
      simp only [List.foldl_cons, rpStep_eq h, evS_perm hab, evW_perm hab]
      exact ih _
  rw [this]

theorem evW_nonneg {ev : List P} (hw : ∀ p ∈ ev, 0 ≤ p.pw) : 0 ≤ evW ev := by
  unfold evW
  apply List.sum_nonneg
  intro x hx
  obtain ⟨p, hp, rfl⟩ := List.mem_map.mp hx
  exact hw p hp

theorem evS_zero_of_evW_zero {ev : List P} (hw : ∀ p ∈ ev, 0 ≤ p.pw) (h0 : evW ev = 0) : evS ev = 0 := by
  induction ev with
  | nil => rfl
  | cons p t ih =>
    have hp : 0 ≤ p.pw := hw p (by simp)
    have ht : ∀ q ∈ t, 0 ≤ q.pw := fun q hq => hw q (by simp [hq])
    have hsum : p.pw + evW t = 0 := by simpa [evW] using h0
    have hpt := (add_eq_zero_iff_of_nonneg hp (evW_nonneg ht)).mp hsum
    have : evS (p :: t) = ((p.pw : ℝ) : ℂ) * p.u + evS t := by simp [evS]
    rw [this, ih ht hpt.2, hpt.1]; simp

/-- with non-negative particle weights the event loop of `integrated_flow` accumulates plain sums -/
theorem rp_fold_sums (h : StdOps O) (hz : ∀ x, O.isZero x = decide (x = 0)) (evs : List (List P))
    (hw : ∀ ev ∈ evs, ∀ p ∈ ev, 0 ≤ p.pw) (a : ℂ) (b : ℝ) (hb : 0 ≤ b) (hab : b = 0 → a = 0) :
    evs.foldl (rpStep O) (a, b) = (a + (evs.map evS).sum, b + (evs.map evW).sum) := by
  induction evs generalizing a b with
  | nil => simp
  | cons ev t ih =>
    have hev : ∀ p ∈ ev, 0 ≤ p.pw := hw ev (by simp)
    have ht : ∀ ev' ∈ t, ∀ p ∈ ev', 0 ≤ p.pw := fun ev' he => hw ev' (by simp [he])
    have hnn : 0 ≤ b + evW ev := add_nonneg hb (evW_nonneg hev)
    simp only [List.foldl_cons, rpStep_eq h, hz, List.map_cons, List.sum_cons]
    by_cases h0 : b + evW ev = 0
    · have hbe := (add_eq_zero_iff_of_nonneg hb (evW_nonneg hev)).mp h0
      simp only [h0, decide_true, if_true]
      rw [ih ht 0 0 le_rfl (fun _ => rfl), hab hbe.1, evS_zero_of_evW_zero hev hbe.2, hbe.1, hbe.2]
      simp
    · simp only [h0, decide_false, Bool.false_eq_true, if_false]
      rw [ih ht _ _ hnn (fun hx => absurd hx h0)]
      simp [add_assoc]


theorem sum_evS_flatten (evs : List (List P)) :
    (evs.map evS).sum = (evs.flatten.map fun p => ((p.pw : ℝ) : ℂ) * p.u).sum := by
  rw [List.map_flatten, List.sum_flatten, List.map_map]; rfl

theorem sum_evW_flatten (evs : List (List P)) : (evs.map evW).sum = (evs.flatten.map Part.pw).sum := by
  rw [List.map_flatten, List.sum_flatten, List.map_map]; rfl

/-- closed form of `integrated_flow` for non-negative particle weights -/
theorem rpIntegrated_eq (h : StdOps O) (hz : ∀ x, O.isZero x = decide (x = 0)) (evs : List (List P))
    (hw : ∀ ev ∈ evs, ∀ p ∈ ev, 0 ≤ p.pw) :
    rpIntegrated O evs = if (evs.map evW).sum = 0 then none
      else some ((evs.map evS).sum / (((evs.map evW).sum : ℝ) : ℂ)) := by
  unfold rpIntegrated
  simp only [h.ofReal_eq, Nat.cast_zero, Complex.ofReal_zero]
  rw [rp_fold_sums h hz evs hw 0 0 le_rfl (fun _ => rfl)]
  simp [hz]

theorem rpBin_fold (h : StdOps O) (evs : List (List P)) (a : ℂ) (b : ℝ) :
    evs.foldl (fun (st : ℂ × ℝ) ev => (st.1 + qSum O Part.pw ev, ev.foldl (fun acc p => acc + p.pw) st.2)) (a, b)
      = (a + (evs.map evS).sum, b + (evs.map evW).sum) := by
  induction evs generalizing a b with
  | nil => simp
  | cons ev t ih =>
    simp only [List.foldl_cons, List.map_cons, List.sum_cons]
    rw [ih, rp_np, qSum_eq_sum h]
    simp [evS, add_assoc]

/-- closed form of one bin of `differential_flow` -/
theorem rpBin_eq (h : StdOps O) (evs : List (List P)) :
    rpBin O evs = if O.isZero (evs.map evW).sum then 0 else (evs.map evS).sum / (((evs.map evW).sum : ℝ) : ℂ) := by
  unfold rpBin
  simp only [h.ofReal_eq, Nat.cast_zero, Complex.ofReal_zero]
  rw [rpBin_fold h]
  simp

theorem rpBin_rot (h : StdOps O) (c : ℂ) (evs : List (List P)) :
    rpBin O (evs.map (List.map (Part.rot c))) = c * rpBin O evs := by
  rw [rpBin_eq h, rpBin_eq h]
  have hW : ((evs.map (List.map (Part.rot c))).map evW) = evs.map evW := by
    rw [List.map_map]; apply List.map_congr_left; intro ev _; exact evW_rot c ev
  have hS : ((evs.map (List.map (Part.rot c))).map evS).sum = c * (evs.map evS).sum := by
    rw [List.map_map, ← List.sum_map_mul_left]; congr 1
    apply List.map_congr_left; intro ev _; exact evS_rot c ev
  rw [hW, hS]
  split
  · simp
  · rw [mul_div_assoc]

theorem rpDifferential_rot (h : StdOps O) (site : FlowSel.Site) (sel : String) (edges : List ℝ) (c : ℂ)
    (evs : List (List P)) :
    rpDifferential O site sel edges (evs.map (List.map (Part.rot c))) =
      (rpDifferential O site sel edges evs).map (List.map (c * ·)) := by
  unfold rpDifferential
  split
  · rfl
  · simp only [Option.map_some, List.map_map]
    congr 1
    apply List.map_congr_left
    intro b _
    simp only [Function.comp]
    rw [← rpBin_rot h, List.map_map]
    congr 1
    apply List.map_congr_left
    intro ev _
    simp only [Function.comp]
    exact filter_rot _ (inBin_rotInv (chainVal_rotInv _ _ _) b.1 b.2) c ev

theorem rpBin_perm_particles (h : StdOps O) {evs evs' : List (List P)}
    (hp : List.Forall₂ List.Perm evs evs') : rpBin O evs = rpBin O evs' := by
  rw [rpBin_eq h, rpBin_eq h,
    map_eq_of_forall₂ evW (fun _ _ hab => evW_perm hab) hp,
    map_eq_of_forall₂ evS (fun _ _ hab => evS_perm hab) hp]

theorem rpBin_perm_events (h : StdOps O) {evs evs' : List (List P)} (hp : evs ~ evs') :
    rpBin O evs = rpBin O evs' := by
  rw [rpBin_eq h, rpBin_eq h, (hp.map evW).sum_eq, (hp.map evS).sum_eq]

theorem rpDifferential_perm_particles (h : StdOps O) (site : FlowSel.Site) (sel : String) (edges : List ℝ)
    {evs evs' : List (List P)} (hp : List.Forall₂ List.Perm evs evs') :
    rpDifferential O site sel edges evs = rpDifferential O site sel edges evs' := by
  unfold rpDifferential
  split
  · rfl
  · congr 1
    apply List.map_congr_left
    intro b _
    apply rpBin_perm_particles h
    rw [List.forall₂_map_left_iff, List.forall₂_map_right_iff]
    exact hp.imp (fun _ _ hab => hab.filter _)

theorem rpDifferential_perm_events (h : StdOps O) (site : FlowSel.Site) (sel : String) (edges : List ℝ)
    {evs evs' : List (List P)} (hp : evs ~ evs') :
    rpDifferential O site sel edges evs = rpDifferential O site sel edges evs' := by
  unfold rpDifferential
  split
  · rfl
  · congr 1
    apply List.map_congr_left
    intro b _
    exact rpBin_perm_events h (hp.map _)

theorem rpIntegrated_perm_events (h : StdOps O) (hz : ∀ x, O.isZero x = decide (x = 0))
    {evs evs' : List (List P)} (hw : ∀ ev ∈ evs, ∀ p ∈ ev, 0 ≤ p.pw) (hp : evs ~ evs') :
    rpIntegrated O evs = rpIntegrated O evs' := by
  rw [rpIntegrated_eq h hz evs hw,
    rpIntegrated_eq h hz evs' (fun ev he => hw ev (hp.mem_iff.mpr he)),
    (hp.map evW).sum_eq, (hp.map evS).sum_eq]

/-! ### angles -/

/-- `exp(i n a)` -/
noncomputable def phase (n : ℕ) (a : ℝ) : ℂ := Complex.exp (((n : ℝ) * a : ℝ) * Complex.I)

theorem phase_norm (n : ℕ) (a : ℝ) : ‖phase n a‖ = 1 := Complex.norm_exp_ofReal_mul_I _

/-- shifting the azimuth by `a` and by any whole number of turns multiplies `exp(i n φ)` by `exp(i n a)` -/
theorem phase_shift (n : ℕ) (φ a : ℝ) (m : ℤ) :
    phase n (φ + a + 2 * Real.pi * m) = phase n a * phase n φ := by
  unfold phase
  rw [← Complex.exp_add]
  have : (((n : ℝ) * (φ + a + 2 * Real.pi * m) : ℝ) : ℂ) * Complex.I =
      ((((n : ℝ) * a : ℝ) : ℂ) * Complex.I + (((n : ℝ) * φ : ℝ) : ℂ) * Complex.I) +
        (((n * m : ℤ) : ℤ) : ℂ) * (2 * Real.pi * Complex.I) := by
    push_cast; ring
  rw [this, Complex.exp_add, Complex.exp_int_mul_two_pi_mul_I, mul_one]

/-- the concrete primitives (`Real.sqrt`, `|·|`, genuine comparisons), any resolution correction -/
noncomputable def realOps (res : ℝ → ℝ) : Ops ℝ ℂ where
  ofReal x := (x : ℂ)
  re z := z.re
  conj z := (starRingEnd ℂ) z
  cabs z := ‖z‖
  czero z := decide (z = 0)
  sqrt := Real.sqrt
  abs x := |x|
  res := res
  isZero x := decide (x = 0)
  le a b := decide (a ≤ b)
  lt a b := decide (a < b)

theorem realOps_std (res : ℝ → ℝ) : StdOps (realOps res) :=
  ⟨fun _ => rfl, fun _ => rfl, fun _ => rfl, fun _ => rfl, fun _ => rfl⟩

end SparkxVerif.Flow
