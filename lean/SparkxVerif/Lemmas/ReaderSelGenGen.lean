/-
C02, tie T — the selection arithmetic REGENERATED from the current `loader/OscarLoader.py` / `loader/JetscapeLoader.py`
(`Gen/ReaderSelGen.lean`) equals the hand-written arithmetic of the shared reader model (`Core/Reader.lean`) for ALL
inputs, and therefore the reader driven by the generated arithmetic is the reader of the C02 theorems.

Per generated definition (`Oscar` and `Jetscape` each):
  genValid…_eq        validation of `events`            = `validSel`                       (all selectors)
  genSkip…_eq         `_get_num_skip_lines`             = `skipLines hdr extra`            (selectors that pass validation;
                                                           for a negative start the code's `range(0, k)` is empty where the
                                                           model's checked prefix raises — never reached, validation comes first)
  genNread…_eq        `__get_num_read_lines`            = `readLines extra` (+1 JETSCAPE)  (all rows, all selectors)
  genPrelude…_eq      rows kept / `num_events_` / `first_label` = `selectRows` + first label (all rows, all selectors)
  genFirstHeaderJetscape_eq, genEventIndexOscar_eq, genCountRows…_eq, genImpactPick_eq
and  genReadOscar_eq / genReadJetscape_eq : the generated readers equal `readOscar` / `readJetscape` on every file,
selector and filter (no hypothesis).

The arithmetic side goals are closed by `omega` after unfolding, so reordered sums, renamed locals, hoisted
subexpressions and loop <-> `sum(...)` rewrites of the source re-prove; a changed coefficient, sign, bound or
comparison does not.  No Mathlib.
-/
import SparkxVerif.Gen.ReaderSelGen
import SparkxVerif.Lemmas.ReaderSelGenPrim

namespace SparkxVerif.RdSel
open SparkxVerif.Rd SparkxVerif.Gen.ReaderSelGen

/-! ### the parametrised readers at the hand-written arithmetic are the readers of the shared model -/

theorem readOscarWith_core (f : FileF) (sel : Sel) (filt : Option EvFilter) :
    readOscarWith coreOscar f sel filt = readOscar f sel filt := rfl

theorem readJetscapeWith_core (f : FileF) (sel : Sel) (partons : Bool) (filt : Option EvFilter) :
    readJetscapeWith coreJetscape f sel partons filt = readJetscape f sel partons filt := by
  unfold readJetscapeWith readJetscape coreJetscape
  simp only [bind, Except.bind, pure, Except.pure]
  cases jetscapeInitOk f with
  | error e => rfl
  | ok u =>
    dsimp only
    cases validSel sel with
    | error e => rfl
    | ok u =>
      dsimp only
      cases jetscapeScan partons f.lines with
      | error e => rfl
      | ok rows =>
        dsimp only
        cases skipLines 1 1 rows sel with
        | error e => rfl
        | ok skip =>
          dsimp only
          cases readLines 1 rows sel with
          | error e => rfl
          | ok n =>
            dsimp only
            split <;> rfl

/-! ### generic facts used below -/

theorem validSel_one {k : Int} (h : validSel (.one k) = .ok ()) : 0 ≤ k := by
  simp only [validSel] at h
  split at h
  · cases h
  · omega

theorem validSel_range {a b : Int} (h : validSel (.range a b) = .ok ()) : 0 ≤ a ∧ a ≤ b := by
  simp only [validSel] at h
  split at h
  · cases h
  · split at h
    · cases h
    · rename_i h1 h2
      simp only [Bool.or_eq_true, decide_eq_true_eq, not_or] at h2
      omega

@[simp] theorem npRow_cons_zero (r : Int × Int) (t : List (Int × Int)) : npRow (r :: t) 0 = .ok r := by
  simp [npRow] <;> omega

/-- a counting loop over `range(a, b+1)` followed by a final expression -/
theorem forAcc_read_g (rows : List (Int × Int)) (h : Int → Int × Int → Int) (extra a b : Int)
    (hh : ∀ acc r, h acc r = acc + (r.2 + extra)) (g : Int → Int) :
    eBind (forAcc (fun i acc => eBind (npRow rows i) (fun r => .ok (h acc r))) (pyRangeI a (b + 1)) 0) (fun s => .ok (g s))
      = match readLines extra rows (.range a b) with
        | .ok n => .ok (g n)
        | .error e => .error e := by
  have := forAcc_read rows h extra a b hh (fun s => s) (fun _ => rfl)
  rw [← this]
  cases forAcc (fun i acc => eBind (npRow rows i) (fun r => .ok (h acc r))) (pyRangeI a (b + 1)) 0 <;> rfl

/-! ### Oscar: generated definition = hand-written model -/

theorem genValidOscar_eq (sel : Sel) : genValidOscar sel = validSel sel := by
  cases sel <;> simp [genValidOscar, validSel]

theorem genSkipOscar_eq (rows : List (Int × Int)) (sel : Sel) (hv : validSel sel = .ok ()) :
    genSkipOscar rows sel = skipLines 3 2 rows sel := by
  cases sel with
  | all => simp only [genSkipOscar, skipLines]
  | one k =>
    have hk := validSel_one hv
    simp only [genSkipOscar, skipLines]
    split
    · rfl
    · apply forAcc_skip (extra := 2) (hdr := 3)
      · exact hk
      · intro acc r; omega
      · intro s; omega
  | range a b =>
    have hk := (validSel_range hv).1
    simp only [genSkipOscar, skipLines]
    split
    · rfl
    · apply forAcc_skip (extra := 2) (hdr := 3)
      · exact hk
      · intro acc r; omega
      · intro s; omega

theorem genNreadOscar_eq (rows : List (Int × Int)) (sel : Sel) :
    genNreadOscar rows sel = readLines 2 rows sel := by
  cases sel with
  | all =>
    simp only [genNreadOscar, readLines, npSumCol1_eq, npLen] <;> (congr 1; omega)
  | one k =>
    simp only [genNreadOscar, readLines]
    cases npRow rows k with
    | error e => rfl
    | ok r => simp only [eBind_ok, bind, Except.bind, pure, Except.pure] <;> (congr 1; omega)
  | range a b =>
    simp only [genNreadOscar]
    rw [forAcc_read_g (extra := 2)]
    · cases readLines 2 rows (.range a b) with
      | error e => rfl
      | ok n => first | rfl | (simp only []; congr 1; omega)
    · intro acc r; omega

theorem genPreludeOscar_eq (rows : List (Int × Int)) (ne : Int) (sel : Sel) :
    genPreludeOscar rows ne sel = coreOscar.prelude rows ne sel := by
  cases sel with
  | all =>
    simp only [genPreludeOscar, coreOscar, selectRows]
    cases rows <;> simp [npLen] <;> omega
  | one k =>
    simp only [genPreludeOscar, coreOscar, selectRows]
    generalize npSlice rows k (k + 1) = S
    cases S <;> simp [npLen] <;> omega
  | range a b =>
    simp only [genPreludeOscar, coreOscar, selectRows]
    generalize npSlice rows a (b + 1) = S
    cases S <;> simp [npLen] <;> omega

theorem genFirstHeaderJetscape_eq (sel : Sel) : genFirstHeaderJetscape sel = coreJetscape.firstHeader sel := by
  cases sel <;> simp only [genFirstHeaderJetscape, coreJetscape] <;> (congr 1; omega)

theorem genEventIndexOscar_eq (rows : List (Int × Int)) (ne : Int) (sel : Sel) (hv : validSel sel = .ok ()) :
    genEventIndexOscar rows ne sel = .ok (sel.start : Int) := by
  cases sel with
  | all =>
    simp only [genEventIndexOscar, Sel.start]
    cases rows <;> simp [npLen] <;> omega
  | one k =>
    have hk := validSel_one hv
    simp only [genEventIndexOscar, Sel.start]
    generalize npSlice rows k (k + 1) = S
    cases S <;> simp [npLen] <;> omega
  | range a b =>
    have hk := (validSel_range hv).1
    simp only [genEventIndexOscar, Sel.start]
    generalize npSlice rows a (b + 1) = S
    cases S <;> simp [npLen] <;> omega

theorem genCountRowsOscar_eq (n fl m : Int) : ∀ r ∈ genCountRowsOscar n fl m, r = (n + fl, m) := by
  simp [genCountRowsOscar, Prod.ext_iff] <;> omega

theorem genCountRowsJetscape_eq (n fl m : Int) : ∀ r ∈ genCountRowsJetscape n fl m, r = (n + fl, m) := by
  simp [genCountRowsJetscape, Prod.ext_iff] <;> omega

theorem genImpactPick_eq {α : Type} (xs : List α) (idx : List Int) : genImpactPick xs idx = idx.mapM (pyGet xs) := by
  simp only [genImpactPick, pickAll_eq_mapM]
  try (congr 1; funext i; congr 1; omega)

/-! ### JETSCAPE -/

theorem genValidJetscape_eq (sel : Sel) : genValidJetscape sel = validSel sel := by
  cases sel <;> simp [genValidJetscape, validSel]

theorem genSkipJetscape_eq (rows : List (Int × Int)) (sel : Sel) (hv : validSel sel = .ok ()) :
    genSkipJetscape rows sel = skipLines 1 1 rows sel := by
  cases sel with
  | all => simp only [genSkipJetscape, skipLines]
  | one k =>
    have hk := validSel_one hv
    simp only [genSkipJetscape, skipLines]
    split
    · rfl
    · apply forAcc_skip (extra := 1) (hdr := 1)
      · exact hk
      · intro acc r; omega
      · intro s; omega
  | range a b =>
    have hk := (validSel_range hv).1
    simp only [genSkipJetscape, skipLines]
    split
    · rfl
    · apply forAcc_skip (extra := 1) (hdr := 1)
      · exact hk
      · intro acc r; omega
      · intro s; omega

theorem genPreludeJetscape_eq (rows : List (Int × Int)) (ne : Int) (sel : Sel) :
    genPreludeJetscape rows ne sel = coreJetscape.prelude rows ne sel := by
  cases sel with
  | all =>
    simp only [genPreludeJetscape, coreJetscape, selectRows]
    cases rows <;> simp [npLen] <;> omega
  | one k =>
    simp only [genPreludeJetscape, coreJetscape, selectRows]
    generalize npSlice rows k (k + 1) = S
    cases S <;> simp [npLen] <;> omega
  | range a b =>
    simp only [genPreludeJetscape, coreJetscape, selectRows]
    generalize npSlice rows a (b + 1) = S
    cases S <;> simp [npLen] <;> omega

theorem genNreadJetscape_eq (rows : List (Int × Int)) (sel : Sel) :
    genNreadJetscape rows sel = coreJetscape.nread rows sel := by
  cases sel with
  | all =>
    simp only [genNreadJetscape, coreJetscape, readLines, npSumCol1_eq, npLen] <;> (congr 1; omega)
  | one k =>
    simp only [genNreadJetscape, coreJetscape, readLines]
    cases npRow rows k with
    | error e => rfl
    | ok r => simp only [eBind_ok, bind, Except.bind, pure, Except.pure] <;> (congr 1; omega)
  | range a b =>
    simp only [genNreadJetscape, coreJetscape]
    rw [forAcc_read_g (extra := 1)]
    · cases readLines 1 rows (.range a b) with
      | error e => rfl
      | ok n => first | rfl | (simp only []; congr 1; omega)
    · intro acc r; omega

/-! ### the readers -/

/-- two selection arithmetics that agree (validation everywhere, skip arithmetic on selectors that pass it) drive the
Oscar reader to the same result -/
theorem readOscarWith_congr (P Q : SelArith) (hvalid : ∀ sel, P.valid sel = Q.valid sel)
    (hskip : ∀ rows sel, Q.valid sel = .ok () → P.skip rows sel = Q.skip rows sel)
    (hnread : ∀ rows sel, P.nread rows sel = Q.nread rows sel)
    (hprel : ∀ rows ne sel, P.prelude rows ne sel = Q.prelude rows ne sel)
    (f : FileF) (sel : Sel) (filt : Option EvFilter) :
    readOscarWith P f sel filt = readOscarWith Q f sel filt := by
  unfold readOscarWith
  rw [hvalid]
  cases hv : Q.valid sel with
  | error e => rfl
  | ok u => simp only [hskip _ _ hv, hnread, hprel]

theorem readJetscapeWith_congr (P Q : SelArith) (hvalid : ∀ sel, P.valid sel = Q.valid sel)
    (hskip : ∀ rows sel, Q.valid sel = .ok () → P.skip rows sel = Q.skip rows sel)
    (hnread : ∀ rows sel, P.nread rows sel = Q.nread rows sel)
    (hprel : ∀ rows ne sel, P.prelude rows ne sel = Q.prelude rows ne sel)
    (hfh : ∀ sel, P.firstHeader sel = Q.firstHeader sel)
    (f : FileF) (sel : Sel) (partons : Bool) (filt : Option EvFilter) :
    readJetscapeWith P f sel partons filt = readJetscapeWith Q f sel partons filt := by
  unfold readJetscapeWith
  rw [hvalid, hfh]
  cases hv : Q.valid sel with
  | error e => rfl
  | ok u => simp only [hskip _ _ hv, hnread, hprel]

/-- **the reader driven by the arithmetic regenerated from the current `OscarLoader.py` is `readOscar`** -/
theorem genReadOscar_eq (f : FileF) (sel : Sel) (filt : Option EvFilter) :
    genReadOscar f sel filt = readOscar f sel filt := by
  rw [← readOscarWith_core]
  exact readOscarWith_congr genOscar coreOscar genValidOscar_eq genSkipOscar_eq genNreadOscar_eq genPreludeOscar_eq f sel filt

/-- **the reader driven by the arithmetic regenerated from the current `JetscapeLoader.py` is `readJetscape`** -/
theorem genReadJetscape_eq (f : FileF) (sel : Sel) (partons : Bool) (filt : Option EvFilter) :
    genReadJetscape f sel partons filt = readJetscape f sel partons filt := by
  rw [← readJetscapeWith_core]
  exact readJetscapeWith_congr genJetscape coreJetscape genValidJetscape_eq genSkipJetscape_eq genNreadJetscape_eq
    genPreludeJetscape_eq genFirstHeaderJetscape_eq f sel partons filt

theorem mapM_fst {α : Type} (get : Int → Except Err α) (rows : List (Int × Int)) :
    rows.mapM (fun r => get r.1) = (rows.map (fun r => r.1)).mapM get := by
  induction rows with
  | nil => rfl
  | cons r rs ih => simp only [List.mapM_cons, List.map_cons, ih]

/-- `impact_parameter()` of the model is the generated selection applied to the labels of the held count rows -/
theorem impactLines_eq_gen (L : Loaded) (rows : List (Int × Int)) (h : L.counts = .arr2d rows) :
    impactLines L = genImpactPick L.footers (rows.map (fun r => r.1)) := by
  rw [genImpactPick_eq]
  simp only [impactLines, h]
  exact mapM_fst (pyGet L.footers) rows

end SparkxVerif.RdSel
