/-
Helper lemmas for C14 (bulk observables): the histogram operations of `Core/Bulk.lean` over a
linearly ordered field.  Rows are kept in the form `(binsOf edges).map g`, so that every step of the
pipeline (bin counting, one row per event, unit-weight average, per-bin scaling) is a `map` over the
list of bins and the proofs are plain list inductions.
-/
import SparkxVerif.Core.Bulk
import SparkxVerif.Lemmas.Num
import Mathlib.Algebra.Field.Basic
import Mathlib.Algebra.Order.Ring.Defs
import Mathlib.Algebra.Order.Group.Abs
import Mathlib.Algebra.Order.Field.Basic
import Mathlib.Algebra.BigOperators.Group.List.Basic
import Mathlib.Data.Nat.Cast.Basic
import Mathlib.Algebra.BigOperators.Ring.Finset
import Mathlib.Tactic.Ring
import Mathlib.Tactic.Linarith
import Mathlib.Tactic.FieldSimp

namespace SparkxVerif.Bulk

section order
set_option linter.unusedSectionVars false
variable {K : Type} [Field K] [LinearOrder K]

theorem binsOf_cons_cons (e0 e1 : K) (r : List K) :
    binsOf (e0 :: e1 :: r) = (e0, e1) :: binsOf (e1 :: r) := rfl

theorem length_binsOf (edges : List K) : (binsOf edges).length = nbins edges := by
  simp [binsOf, nbins]

/-- for increasing edges, no edge is `≤ v` exactly when `v` is below the first edge -/
theorem digitize_eq_zero_iff (a : K) (l : List K) (hs : (a :: l).Pairwise (· < ·)) (v : K) :
    digitize (a :: l) v = 0 ↔ v < a := by
  unfold digitize
  rw [List.countP_eq_zero]
  constructor
  · intro h
    have := h a (by simp)
    simpa using this
  · intro h x hx
    rcases List.mem_cons.1 hx with rfl | hx
    · simpa using h
    · have : a < x := (List.pairwise_cons.1 hs).1 x hx
      simpa using lt_trans h this

/-- one step of the edge recursion: the first bin takes `v` iff `e0 ≤ v < e1`, the remaining bins
behave like the histogram over the remaining edges -/
theorem addValue_cons_cons (e0 e1 : K) (r : List K) (hs : (e0 :: e1 :: r).Pairwise (· < ·))
    (c : K) (cs : List K) (v : K) :
    addValue (e0 :: e1 :: r) (c :: cs) v
      = (if e0 ≤ v ∧ v < e1 then c + 1 else c) :: addValue (e1 :: r) cs v := by
  have hs' : (e1 :: r).Pairwise (· < ·) := (List.pairwise_cons.1 hs).2
  have h01 : e0 < e1 := (List.pairwise_cons.1 hs).1 e1 (by simp)
  have hz := digitize_eq_zero_iff e1 r hs' v
  have hd : digitize (e0 :: e1 :: r) v = digitize (e1 :: r) v + if e0 ≤ v then 1 else 0 := by
    unfold digitize; rw [List.countP_cons]; simp
  unfold addValue
  simp only [hd, nbins, List.length_cons, Nat.cast_one]
  generalize hk : digitize (e1 :: r) v = k at *
  by_cases h0 : e0 ≤ v
  · simp only [h0, if_true, true_and]
    rcases Nat.eq_zero_or_pos k with hk0 | hkpos
    · subst hk0
      have : v < e1 := hz.1 rfl
      simp [this]
    · have hne : ¬ v < e1 := fun h => by have := hz.2 h; omega
      simp only [hne, if_false]
      obtain ⟨j, rfl⟩ : ∃ j, k = j + 1 := ⟨k - 1, by omega⟩
      by_cases hbig : j + 1 > r.length
      · have hlt : r.length < j + 1 := by omega
        simp [hlt]
      · have hlt : ¬ r.length < j + 1 := by omega
        simp [hlt]
  · have hv : v < e0 := lt_of_not_ge h0
    have hk0 : k = 0 := hz.2 (lt_trans hv h01)
    subst hk0
    simp [h0]

theorem addValue_map (edges : List K) (hs : edges.Pairwise (· < ·)) (g : K × K → K) (v : K) :
    addValue edges ((binsOf edges).map g) v
      = (binsOf edges).map (fun b => if b.1 ≤ v ∧ v < b.2 then g b + 1 else g b) := by
  induction edges with
  | nil => simp [binsOf, addValue, digitize]
  | cons e0 l ih =>
    cases l with
    | nil => simp [binsOf, addValue]
    | cons e1 r =>
      rw [binsOf_cons_cons, List.map_cons, addValue_cons_cons e0 e1 r hs, ih (List.pairwise_cons.1 hs).2,
        List.map_cons]

theorem countIn_cons (lo hi v : K) (ev : List K) :
    countIn lo hi (v :: ev) = countIn lo hi ev + if lo ≤ v ∧ v < hi then 1 else 0 := by
  unfold countIn; rw [List.countP_cons]; simp

theorem fillEvent_map (edges : List K) (hs : edges.Pairwise (· < ·)) (g : K × K → K) (ev : List K) :
    fillEvent edges ((binsOf edges).map g) (ev.map some)
      = .ok ((binsOf edges).map (fun b => g b + (countIn b.1 b.2 ev : K))) := by
  induction ev generalizing g with
  | nil => simp [fillEvent, countIn]
  | cons v vs ih =>
    simp only [List.map_cons, fillEvent]
    rw [addValue_map edges hs, ih]
    congr 1
    apply List.map_congr_left
    intro b _
    rw [countIn_cons]
    split_ifs <;> push_cast <;> ring

theorem zeros_eq_map (edges : List K) : (zeros (nbins edges) : List K) = (binsOf edges).map (fun _ => 0) := by
  simp [zeros, ← length_binsOf]

/-- any NaN quantity makes the fill raise -/
theorem fillEvent_nan (edges : List K) (row : List K) (ev : List (Option K)) (h : none ∈ ev) :
    fillEvent edges row ev = .error .value := by
  induction ev generalizing row with
  | nil => simp at h
  | cons x xs ih =>
    cases x with
    | none => rfl
    | some v =>
      simp only [fillEvent]
      exact ih _ (by simpa using h)

theorem fillRows_map (edges : List K) (hs : edges.Pairwise (· < ·)) (ev : List K) (evs : List (List K)) :
    fillRows edges (zeros (nbins edges)) ((ev :: evs).map (List.map some))
      = .ok ((ev :: evs).map (fun e => (binsOf edges).map (fun b => (countIn b.1 b.2 e : K)))) := by
  induction evs generalizing ev with
  | nil =>
    simp only [List.map_cons, List.map_nil, fillRows]
    rw [zeros_eq_map, fillEvent_map edges hs]
    simp [bind, Except.bind, pure, Except.pure]
  | cons e' es ih =>
    have := ih e'
    simp only [List.map_cons] at this ⊢
    rw [fillRows, zeros_eq_map, fillEvent_map edges hs, ← zeros_eq_map, this]
    simp [bind, Except.bind, pure, Except.pure]

theorem widths_eq_map (edges : List K) : widths edges = (binsOf edges).map (fun b => b.2 - b.1) := by
  unfold widths binsOf
  rw [List.map_zip_eq_zipWith]
  rfl

theorem zipWith_add_map {ι : Type} (bins : List ι) (a h : ι → K) :
    List.zipWith (fun x y => x + y) (bins.map a) (bins.map h) = bins.map (fun b => a b + h b) := by
  rw [List.zipWith_map, List.zipWith_self]

theorem foldl_zipWith_add {ι κ : Type} (bins : List ι) (R : List κ) (h : κ → ι → K) (a : ι → K) :
    (R.map (fun e => bins.map (h e))).foldl (fun acc r => List.zipWith (fun x y => x + y) acc r) (bins.map a)
      = bins.map (fun b => a b + (R.map (fun e => h e b)).sum) := by
  induction R generalizing a with
  | nil => simp
  | cons e es ih =>
    simp only [List.map_cons, List.foldl_cons, List.sum_cons]
    rw [zipWith_add_map, ih]
    apply List.map_congr_left
    intro b _
    ring

theorem average_map {κ : Type} (edges : List K) (R : List κ) (h : κ → K × K → K) :
    average (nbins edges) (R.map (fun e => (binsOf edges).map (h e)))
      = (binsOf edges).map (fun b => (R.map (fun e => h e b)).sum / (R.length : K)) := by
  unfold average weightedColSum
  simp only [List.map_map, Function.comp_def, Nat.cast_one]
  rw [List.zipWith_map, List.zipWith_self, zeros_eq_map]
  simp only [List.map_map, Function.comp_def, mul_one]
  rw [foldl_zipWith_add]
  simp [sumL_eq_sum]


/-- the whole differential-yield pipeline equals the executable specification -/
theorem differentialYield_eq (edges : List K) (hs : edges.Pairwise (· < ·)) (evs : List (List K)) :
    differentialYield edges (evs.map (List.map some)) = .ok (dNdxSpec edges evs) := by
  unfold differentialYield dNdxSpec
  cases evs with
  | nil =>
    simp only [List.map_nil, fillRows, bind, Except.bind, pure, Except.pure]
    have h1 : ([zeros (nbins edges)] : List (List K))
        = ([()] : List Unit).map (fun _ => (binsOf edges).map (fun _ => (0 : K))) := by
      simp [zeros_eq_map]
    rw [h1, average_map, widths_eq_map]
    simp only [scale, List.map_map, List.zipWith_map, List.zipWith_self, Function.comp_def]
    congr 1
    apply List.map_congr_left
    intro b _
    simp
  | cons ev evs =>
    rw [fillRows_map edges hs]
    simp only [bind, Except.bind, pure, Except.pure]
    rw [average_map, widths_eq_map]
    simp only [scale, List.map_map, List.zipWith_map, List.zipWith_self, Function.comp_def]
    congr 1
    apply List.map_congr_left
    intro b _
    rw [Nat.cast_list_sum]
    simp only [List.map_map, Function.comp_def, Nat.cast_one]
    rw [mul_one_div]


theorem fillEvent_error (edges : List K) (row : List K) (ev : List (Option K)) (e : Err)
    (h : fillEvent edges row ev = .error e) : e = .value := by
  induction ev generalizing row with
  | nil => simp [fillEvent] at h
  | cons x xs ih =>
    cases x with
    | none => simp [fillEvent] at h; exact h.symm
    | some v => exact ih _ (by simpa [fillEvent] using h)

theorem fillRows_nan (edges : List K) (row : List K) (evs : List (List (Option K)))
    (h : ∃ ev ∈ evs, none ∈ ev) : fillRows edges row evs = .error .value := by
  induction evs generalizing row with
  | nil => simp at h
  | cons ev evs ih =>
    rw [fillRows]
    cases hf : fillEvent edges row ev with
    | error e => rw [fillEvent_error edges row ev e hf]; rfl
    | ok r =>
      have hnot : none ∉ ev := fun hm => by rw [fillEvent_nan edges row ev hm] at hf; cases hf
      obtain ⟨ev', hev', hn⟩ := h
      have hmem : ev' ∈ evs := by
        rcases List.mem_cons.1 hev' with rfl | h'
        · exact absurd hn hnot
        · exact h'
      have hne : evs.isEmpty = false := by
        cases evs with
        | nil => simp at hmem
        | cons _ _ => rfl
      simp only [bind, Except.bind, hne]
      rw [ih _ ⟨ev', hmem, hn⟩]
      rfl

theorem mem_binsOf_lt (edges : List K) (hs : edges.Pairwise (· < ·)) (b : K × K) (hb : b ∈ binsOf edges) :
    b.1 < b.2 := by
  induction edges with
  | nil => simp [binsOf] at hb
  | cons e0 l ih =>
    cases l with
    | nil => simp [binsOf] at hb
    | cons e1 r =>
      rw [binsOf_cons_cons] at hb
      rcases List.mem_cons.1 hb with rfl | hb
      · exact (List.pairwise_cons.1 hs).1 e1 (by simp)
      · exact ih (List.pairwise_cons.1 hs).2 hb

theorem countIn_split (a m L : K) (ham : a ≤ m) (hmL : m ≤ L) (ev : List K) :
    countIn a m ev + countIn m L ev = countIn a L ev := by
  induction ev with
  | nil => simp [countIn]
  | cons v vs ih =>
    simp only [countIn_cons]
    have : (if a ≤ v ∧ v < m then 1 else 0) + (if m ≤ v ∧ v < L then 1 else 0)
        = (if a ≤ v ∧ v < L then (1 : ℕ) else 0) := by
      by_cases hvm : v < m
      · have h1 : ¬ m ≤ v := not_le.2 hvm
        have h2 : v < L := lt_of_lt_of_le hvm hmL
        simp [hvm, h1, h2]
      · have hmv : m ≤ v := not_lt.1 hvm
        have h1 : a ≤ v := le_trans ham hmv
        simp [hvm, hmv, h1]
    omega

theorem getLast_le_of_pairwise (a : K) (l : List K) (hs : (a :: l).Pairwise (· < ·)) :
    a ≤ (a :: l).getLast (by simp) := by
  have hm : (a :: l).getLast (by simp) ∈ a :: l := List.getLast_mem _
  rcases List.mem_cons.1 hm with h | h
  · exact le_of_eq h.symm
  · exact le_of_lt ((List.pairwise_cons.1 hs).1 _ h)

/-- the bins of an increasing edge list partition `[first edge, last edge)` -/
theorem sum_countIn_bins (a : K) (l : List K) (hs : (a :: l).Pairwise (· < ·)) (ev : List K) :
    ((binsOf (a :: l)).map (fun b => countIn b.1 b.2 ev)).sum
      = countIn a ((a :: l).getLast (by simp)) ev := by
  induction l generalizing a with
  | nil =>
    simp only [binsOf, List.tail_cons, List.zip_nil_right, List.map_nil, List.sum_nil, List.getLast_singleton, countIn]
    symm
    rw [List.countP_eq_zero]
    intro v _
    simp only [Bool.and_eq_true, decide_eq_true_eq, not_and]
    exact fun h => by simp [not_lt.2 h]
  | cons e1 r ih =>
    have hs' := (List.pairwise_cons.1 hs).2
    rw [binsOf_cons_cons, List.map_cons, List.sum_cons, ih e1 hs']
    have h01 : a < e1 := (List.pairwise_cons.1 hs).1 e1 (by simp)
    have := countIn_split a e1 ((e1 :: r).getLast (by simp)) (le_of_lt h01)
      (getLast_le_of_pairwise e1 r hs') ev
    simpa [List.getLast_cons] using this

theorem sum_swap {ι κ : Type} (bins : List ι) (evs : List κ) (f : ι → κ → ℕ) :
    (bins.map (fun b => (evs.map (f b)).sum)).sum = (evs.map (fun e => (bins.map (fun b => f b e)).sum)).sum := by
  induction evs with
  | nil => simp
  | cons e es ih => simp [List.sum_map_add, ih]

end order

section mid
set_option linter.unusedSectionVars false
variable {K : Type} [Field K] [LinearOrder K]

theorem insideVals_cons (w : K) (p : Option K × K) (ev : List (Option K × K)) :
    insideVals w (p :: ev) = if inWindow w p.1 then p.2 :: insideVals w ev else insideVals w ev := by
  unfold insideVals
  by_cases h : inWindow w p.1 = true <;> simp [h]

theorem foldl_count (w : K) (ev : List (Option K × K)) (c0 : ℕ) :
    ev.foldl (fun c p => if inWindow w p.1 then c + 1 else c) c0 = c0 + (insideVals w ev).length := by
  induction ev generalizing c0 with
  | nil => simp [insideVals]
  | cons p ps ih =>
    rw [List.foldl_cons, ih, insideVals_cons]
    by_cases h : inWindow w p.1 = true
    · simp only [h, if_true, List.length_cons]; omega
    · simp only [h]; rfl

theorem foldl_count_events (w : K) (evs : List (List (Option K × K))) (c0 : ℕ) :
    evs.foldl (fun c ev => ev.foldl (fun c p => if inWindow w p.1 then c + 1 else c) c) c0
      = c0 + (evs.map (fun ev => (insideVals w ev).length)).sum := by
  induction evs generalizing c0 with
  | nil => simp
  | cons e es ih => rw [List.foldl_cons, foldl_count, ih, List.map_cons, List.sum_cons]; omega

theorem foldl_sumCount (w : K) (ev : List (Option K × K)) (s0 : K) (c0 : ℕ) :
    ev.foldl (fun sc p => if inWindow w p.1 then (sc.1 + p.2, sc.2 + 1) else sc) (s0, c0)
      = (s0 + (insideVals w ev).sum, c0 + (insideVals w ev).length) := by
  induction ev generalizing s0 c0 with
  | nil => simp [insideVals]
  | cons p ps ih =>
    rw [List.foldl_cons, insideVals_cons]
    by_cases h : inWindow w p.1 = true
    · simp only [h, if_true, ih, List.sum_cons, List.length_cons]
      refine Prod.ext ?_ ?_
      · show s0 + p.2 + (insideVals w ps).sum = s0 + (p.2 + (insideVals w ps).sum)
        ring
      · show c0 + 1 + (insideVals w ps).length = c0 + ((insideVals w ps).length + 1)
        omega
    · simp only [h, ih]
      rfl

theorem eventSumCount_eq (w : K) (ev : List (Option K × K)) :
    eventSumCount w ev = ((insideVals w ev).sum, (insideVals w ev).length) := by
  unfold eventSumCount
  rw [Nat.cast_zero, foldl_sumCount]
  simp

/-- the events that have at least one particle inside the window, as their inside values -/
def contributing (w : K) (evs : List (List (Option K × K))) : List (List K) :=
  (evs.map (insideVals w)).filter (fun vs => decide (0 < vs.length))

theorem contributing_cons (w : K) (e : List (Option K × K)) (es : List (List (Option K × K))) :
    contributing w (e :: es)
      = if 0 < (insideVals w e).length then insideVals w e :: contributing w es else contributing w es := by
  unfold contributing
  by_cases h : 0 < (insideVals w e).length <;> simp [h]

theorem foldl_means' (w : K) (evs : List (List (Option K × K))) (m0 : K) (n0 : ℕ) :
    evs.foldl (fun (mc : K × ℕ) ev =>
        if 0 < (insideVals w ev).length then
          (mc.1 + (insideVals w ev).sum / ((insideVals w ev).length : K), mc.2 + 1) else mc) (m0, n0)
      = (m0 + ((contributing w evs).map (fun vs => vs.sum / (vs.length : K))).sum,
         n0 + (contributing w evs).length) := by
  induction evs generalizing m0 n0 with
  | nil => simp [contributing]
  | cons e es ih =>
    rw [List.foldl_cons, contributing_cons]
    by_cases h : 0 < (insideVals w e).length
    · simp only [h, if_true, ih, List.map_cons, List.sum_cons, List.length_cons]
      refine Prod.ext ?_ ?_
      · simp only; ring
      · simp only; omega
    · simp only [h, if_false, ih]

theorem foldl_means (w : K) (evs : List (List (Option K × K))) (m0 : K) (n0 : ℕ) :
    evs.foldl (fun mc ev =>
        let sc := eventSumCount w ev
        if sc.2 > 0 then (mc.1 + sc.1 / (sc.2 : K), mc.2 + 1) else mc) (m0, n0)
      = (m0 + ((contributing w evs).map (fun vs => vs.sum / (vs.length : K))).sum,
         n0 + (contributing w evs).length) := by
  rw [← foldl_means']
  congr 1
  funext mc ev
  simp only [eventSumCount_eq, gt_iff_lt]

end mid

end SparkxVerif.Bulk
