/-
Algebra of the string primitives of `Core/Str.lean` (lists of characters): substring tests on concatenations, splitting a
joined token list, the decimal printer inverted by the integer parser.  Core Lean only (no Mathlib).
-/
import SparkxVerif.Core.Str

namespace SparkxVerif.Str

/-! ### prefix / infix -/

theorem isPrefix_iff {p s : List Char} : isPrefix p s = true ↔ ∃ b, s = p ++ b := by
  induction p generalizing s with
  | nil => simp [isPrefix]
  | cons a p ih =>
    cases s with
    | nil => simp [isPrefix]
    | cons c cs =>
      simp only [isPrefix, Bool.and_eq_true, beq_iff_eq, ih, List.cons_append, List.cons.injEq]
      constructor
      · rintro ⟨rfl, b, rfl⟩; exact ⟨b, rfl, rfl⟩
      · rintro ⟨b, rfl, rfl⟩; exact ⟨rfl, b, rfl⟩

theorem isInfix_iff {p s : List Char} : isInfix p s = true ↔ ∃ a b, s = a ++ p ++ b := by
  induction s with
  | nil =>
    simp only [isInfix, List.isEmpty_iff]
    constructor
    · rintro rfl; exact ⟨[], [], rfl⟩
    · rintro ⟨a, b, h⟩
      have := congrArg List.length h
      simp at this
      exact List.eq_nil_of_length_eq_zero (by omega)
  | cons c cs ih =>
    simp only [isInfix, Bool.or_eq_true, isPrefix_iff, ih]
    constructor
    · rintro (⟨b, h⟩ | ⟨a, b, h⟩)
      · exact ⟨[], b, by simpa using h⟩
      · exact ⟨c :: a, b, by simp [h]⟩
    · rintro ⟨a, b, h⟩
      cases a with
      | nil => left; exact ⟨b, by simpa using h⟩
      | cons a0 a =>
        right
        simp only [List.cons_append, List.cons.injEq] at h
        exact ⟨a, b, h.2⟩

theorem isInfix_of_eq {p s : List Char} (a b : List Char) (h : s = a ++ p ++ b) : isInfix p s = true :=
  isInfix_iff.mpr ⟨a, b, h⟩

theorem isInfix_append_of_left {p x : List Char} (y : List Char) (h : isInfix p x = true) : isInfix p (x ++ y) = true := by
  obtain ⟨a, b, rfl⟩ := isInfix_iff.mp h
  exact isInfix_of_eq a (b ++ y) (by simp)

theorem isInfix_append_of_right {p y : List Char} (x : List Char) (h : isInfix p y = true) : isInfix p (x ++ y) = true := by
  obtain ⟨a, b, rfl⟩ := isInfix_iff.mp h
  exact isInfix_of_eq (x ++ a) b (by simp)

/-- a substring test that succeeds needs every character of the pattern -/
theorem mem_of_isInfix {p s : List Char} (h : isInfix p s = true) {c : Char} (hc : c ∈ p) : c ∈ s := by
  obtain ⟨a, b, rfl⟩ := isInfix_iff.mp h
  simp [hc]

theorem isInfix_eq_false_of_not_mem {p s : List Char} (c : Char) (hc : c ∈ p) (hs : c ∉ s) : isInfix p s = false := by
  cases h : isInfix p s with
  | false => rfl
  | true => exact absurd (mem_of_isInfix h hc) hs

/-- the test only looks at the first `p.length` characters -/
theorem isPrefix_append_of_not_mem {p x : List Char} {v : Char} (z : List Char) (hv : v ∉ p) :
    isPrefix p (x ++ v :: z) = isPrefix p x := by
  induction x generalizing p with
  | nil =>
    cases p with
    | nil => rfl
    | cons a p =>
      have : a ≠ v := fun h => hv (by simp [h])
      simp [isPrefix, this]
  | cons c x ih =>
    cases p with
    | nil => rfl
    | cons a p =>
      have hv' : v ∉ p := fun h => hv (by simp [h])
      simp [isPrefix, ih hv']

/-- a non-empty piece none of whose characters occurs in the pattern separates the search -/
theorem isInfix_append_disj {p : List Char} (x v y : List Char) (hne : v ≠ []) (hd : ∀ c ∈ v, c ∉ p) (hp : p ≠ []) :
    isInfix p (x ++ v ++ y) = (isInfix p x || isInfix p y) := by
  obtain ⟨v0, vs, rfl⟩ := List.exists_cons_of_ne_nil hne
  have hpe : p.isEmpty = false := by cases p <;> simp_all
  induction x with
  | nil =>
    simp only [List.nil_append, isInfix, hpe, Bool.false_or]
    -- skip over the piece
    have hskip : ∀ (w : List Char), (∀ c ∈ w, c ∉ p) → isInfix p (w ++ y) = isInfix p y := by
      intro w hw
      induction w with
      | nil => rfl
      | cons c w ihw =>
        have hc : c ∉ p := hw c (by simp)
        have h0 : isPrefix p (c :: (w ++ y)) = false := by
          have := isPrefix_append_of_not_mem (x := []) (w ++ y) hc
          simpa [isPrefix, hpe] using (by
            cases p with
            | nil => simp at hp
            | cons a p => simpa [isPrefix] using this)
        simp only [List.cons_append, isInfix, h0, Bool.false_or]
        exact ihw (fun c hc => hw c (by simp [hc]))
    exact hskip (v0 :: vs) hd
  | cons c x ih =>
    have hv0 : v0 ∉ p := hd v0 (by simp)
    have h1 : isPrefix p (c :: x ++ v0 :: vs ++ y) = isPrefix p (c :: x) := by
      have := isPrefix_append_of_not_mem (x := c :: x) (vs ++ y) hv0
      simpa using this
    simp only [List.cons_append, isInfix] at ih ⊢
    simp only [List.cons_append] at h1
    rw [h1, ih, Bool.or_assoc]


/-! ### splitting on a character -/

theorem splitOnChar_ne_nil (sep : Char) (s : List Char) : splitOnChar sep s ≠ [] := by
  cases s with
  | nil => simp [splitOnChar]
  | cons c cs =>
    simp only [splitOnChar]
    split
    · simp
    · cases splitOnChar sep cs <;> simp [consHead]

theorem consHead_append (c : Char) {l₁ : List (List Char)} (l₂ : List (List Char)) (h : l₁ ≠ []) :
    consHead c (l₁ ++ l₂) = consHead c l₁ ++ l₂ := by
  cases l₁ with
  | nil => exact absurd rfl h
  | cons a l => rfl

/-- a separator closes the piece before it -/
theorem splitOnChar_append_sep (sep : Char) (a x : List Char) :
    splitOnChar sep (a ++ sep :: x) = splitOnChar sep a ++ splitOnChar sep x := by
  induction a with
  | nil => simp [splitOnChar]
  | cons c a ih =>
    simp only [List.cons_append, splitOnChar, ih]
    split
    · rfl
    · exact consHead_append c _ (splitOnChar_ne_nil sep a)

theorem splitOnChar_of_not_mem {sep : Char} {w : List Char} (h : sep ∉ w) : splitOnChar sep w = [w] := by
  induction w with
  | nil => rfl
  | cons c w ih =>
    have hc : c ≠ sep := fun e => h (by simp [e])
    have hw : sep ∉ w := fun e => h (by simp [e])
    simp [splitOnChar, hc, ih hw, consHead]

/-- `sep.join(toks).split(sep) == toks` for a non-empty list of separator-free tokens -/
theorem splitOnChar_intercalate {sep : Char} {toks : List (List Char)} (hne : toks ≠ [])
    (h : ∀ t ∈ toks, sep ∉ t) : splitOnChar sep ([sep].intercalate toks) = toks := by
  induction toks with
  | nil => exact absurd rfl hne
  | cons t ts ih =>
    cases ts with
    | nil => simpa [List.intercalate] using splitOnChar_of_not_mem (h t (by simp))
    | cons u us =>
      have : [sep].intercalate (t :: u :: us) = t ++ sep :: [sep].intercalate (u :: us) := by
        simp [List.intercalate, List.intersperse]
      rw [this, splitOnChar_append_sep, splitOnChar_of_not_mem (h t (by simp)),
        ih (by simp) (fun x hx => h x (by simp [hx]))]
      rfl

/-- a word between two separators is one of the pieces -/
theorem mem_splitOnChar_of_isInfix {sep : Char} {w s : List Char} (hw : sep ∉ w)
    (h : isInfix (sep :: w ++ [sep]) s = true) : w ∈ splitOnChar sep s := by
  obtain ⟨a, b, rfl⟩ := isInfix_iff.mp h
  have : a ++ (sep :: w ++ [sep]) ++ b = a ++ sep :: (w ++ sep :: b) := by simp
  rw [this, splitOnChar_append_sep, splitOnChar_append_sep, splitOnChar_of_not_mem hw]
  simp

theorem mem_intercalate {sep : List Char} {toks : List (List Char)} {c : Char}
    (h : c ∈ sep.intercalate toks) : c ∈ sep ∨ ∃ t ∈ toks, c ∈ t := by
  induction toks with
  | nil => simp [List.intercalate] at h
  | cons t ts ih =>
    cases ts with
    | nil => right; exact ⟨t, by simp, by simpa [List.intercalate] using h⟩
    | cons u us =>
      have e : sep.intercalate (t :: u :: us) = t ++ sep ++ sep.intercalate (u :: us) := by
        simp [List.intercalate, List.intersperse]
      rw [e] at h
      simp only [List.mem_append] at h
      rcases h with (h | h) | h
      · right; exact ⟨t, by simp, h⟩
      · left; exact h
      · rcases ih h with h | ⟨t', ht', hc⟩
        · left; exact h
        · right; exact ⟨t', by simp [ht'], hc⟩


theorem intercalate_cons_cons (sep : List Char) (t u : List Char) (us : List (List Char)) :
    sep.intercalate (t :: u :: us) = t ++ sep ++ sep.intercalate (u :: us) := by
  simp [List.intercalate, List.intersperse]

/-- the last character of a joined list is the last character of its last (non-empty) piece -/
theorem getLast?_intercalate {sep : List Char} {toks : List (List Char)} (hne : toks ≠ [])
    (hl : toks.getLast hne ≠ []) : (sep.intercalate toks).getLast? = (toks.getLast hne).getLast? := by
  induction toks with
  | nil => exact absurd rfl hne
  | cons t ts ih =>
    cases ts with
    | nil => simp [List.intercalate]
    | cons u us =>
      have hne' : (u :: us) ≠ [] := by simp
      have hl' : (u :: us).getLast hne' ≠ [] := by simpa [List.getLast_cons hne'] using hl
      have hI : sep.intercalate (u :: us) ≠ [] := by
        intro e
        have := ih hne' hl'
        rw [e] at this
        simp only [List.getLast?_nil] at this
        exact hl' (List.getLast?_eq_none_iff.mp this.symm)
      have hs : ∃ x, (sep.intercalate (u :: us)).getLast? = some x := by
        cases h : (sep.intercalate (u :: us)).getLast? with
        | none => exact absurd (List.getLast?_eq_none_iff.mp h) hI
        | some x => exact ⟨x, rfl⟩
      obtain ⟨x, hx⟩ := hs
      rw [intercalate_cons_cons, List.getLast?_append, hx, Option.some_or, ← hx, ih hne' hl', List.getLast_cons hne']

theorem isInfix_self (p : List Char) : isInfix p p = true := isInfix_of_eq [] [] (by simp)

/-- every piece of a joined list is a substring of it -/
theorem isInfix_intercalate_of_mem {sep t : List Char} {toks : List (List Char)} (h : t ∈ toks) :
    isInfix t (sep.intercalate toks) = true := by
  induction toks with
  | nil => cases h
  | cons u us ih =>
    cases us with
    | nil =>
      have : t = u := by simpa using h
      subst this
      simpa [List.intercalate] using isInfix_self t
    | cons v vs =>
      rw [intercalate_cons_cons]
      rcases List.mem_cons.mp h with rfl | h'
      · exact isInfix_append_of_left _ (isInfix_append_of_left _ (isInfix_self _))
      · exact isInfix_append_of_right _ (ih h')

theorem map_intercalate (f : Char → Char) (sep : List Char) (toks : List (List Char)) :
    (sep.intercalate toks).map f = (sep.map f).intercalate (toks.map (List.map f)) := by
  induction toks with
  | nil => rfl
  | cons u us ih =>
    cases us with
    | nil => simp [List.intercalate]
    | cons v vs =>
      rw [intercalate_cons_cons, List.map_cons, List.map_cons, intercalate_cons_cons, ← List.map_cons, ← ih]
      simp

/-! ### numerals -/

theorem isDigit_ne_underscore {c : Char} (h : c.isDigit = true) : c ≠ '_' := by
  rintro rfl; simp at h

theorem natDigits?_digits (ds : List Char) (h : ∀ c ∈ ds, c.isDigit = true) (last : Bool) (acc : Nat)
    (hne : ds ≠ [] ∨ last = true) : natDigits? ds last acc = some (Nat.ofDigitChars 10 ds acc) := by
  induction ds generalizing last acc with
  | nil => simp_all [natDigits?]
  | cons c cs ih =>
    have hc := h c (by simp)
    simp only [natDigits?, isDigit_ne_underscore hc, hc, if_false, if_true, Nat.ofDigitChars_cons]
    exact ih (fun x hx => h x (by simp [hx])) true _ (Or.inr rfl)

theorem isDigit_not_ws {c : Char} (h : c.isDigit = true) : c.isWhitespace = false := by
  cases hw : c.isWhitespace with
  | false => rfl
  | true =>
    simp only [Char.isWhitespace, Bool.or_eq_true, decide_eq_true_eq] at hw
    rcases hw with ((rfl | rfl) | rfl) | rfl <;> simp at h

/-- nothing to strip when the first and the last character are not blanks -/
theorem trimWs_eq {l : List Char} (c d : Char) (hc : l.head? = some c) (hd : l.getLast? = some d)
    (hcw : c.isWhitespace = false) (hdw : d.isWhitespace = false) : trimWs l = l := by
  unfold trimWs
  have h1 : l.dropWhile Char.isWhitespace = l := by
    cases l with
    | nil => rfl
    | cons a l => simp at hc; subst hc; simp [List.dropWhile, hcw]
  rw [h1]
  have h2 : l.reverse.dropWhile Char.isWhitespace = l.reverse := by
    have : l.reverse.head? = some d := by simpa using hd
    cases hr : l.reverse with
    | nil => rfl
    | cons a r => rw [hr] at this; simp at this; subst this; simp [List.dropWhile, hdw]
  rw [h2, List.reverse_reverse]

theorem trimWs_digits {ds : List Char} (h : ∀ c ∈ ds, c.isDigit = true) : trimWs ds = ds := by
  cases hl : ds with
  | nil => rfl
  | cons a l =>
    rw [← hl]
    have hne : ds ≠ [] := by simp [hl]
    exact trimWs_eq a (ds.getLast hne) (by simp [hl]) (List.getLast?_eq_some_getLast hne)
      (isDigit_not_ws (h a (by simp [hl]))) (isDigit_not_ws (h _ (List.getLast_mem hne)))

theorem digits_toDigits (n : Nat) : ∀ c ∈ Nat.toDigits 10 n, c.isDigit = true :=
  fun _ hc => Nat.isDigit_of_mem_toDigits (by decide) (by decide) hc

/-- `int(str(n)) == n` -/
theorem pyIntL_toDigits (n : Nat) : pyIntL (Nat.toDigits 10 n) = some (n : Int) := by
  have hd := digits_toDigits n
  have hne : Nat.toDigits 10 n ≠ [] := Nat.toDigits_ne_nil
  unfold pyIntL
  rw [trimWs_digits hd]
  cases hl : Nat.toDigits 10 n with
  | nil => exact absurd hl hne
  | cons c r =>
    have hc : c.isDigit = true := hd c (by simp [hl])
    have h1 : c ≠ '+' := by rintro rfl; simp at hc
    have h2 : c ≠ '-' := by rintro rfl; simp at hc
    simp only [h1, h2, if_false]
    rw [← hl, natDigits?_digits _ hd false 0 (Or.inl hne), Nat.ofDigitChars_ten_toDigits]
    rfl

theorem pyIntL_neg_toDigits (n : Nat) : pyIntL ('-' :: Nat.toDigits 10 n) = some (Int.negOfNat n) := by
  have hd := digits_toDigits n
  have hne : Nat.toDigits 10 n ≠ [] := Nat.toDigits_ne_nil
  have ht : trimWs ('-' :: Nat.toDigits 10 n) = '-' :: Nat.toDigits 10 n := by
    have hne' : ('-' :: Nat.toDigits 10 n) ≠ [] := by simp
    refine trimWs_eq '-' ((Nat.toDigits 10 n).getLast hne) rfl ?_ (by decide) (isDigit_not_ws (hd _ (List.getLast_mem hne)))
    rw [List.getLast?_cons_of_ne_nil hne] <;> exact List.getLast?_eq_some_getLast hne
  unfold pyIntL
  rw [ht]
  simp only [show ('-' : Char) ≠ '+' by decide, if_false, if_true]
  rw [natDigits?_digits _ hd false 0 (Or.inl hne), Nat.ofDigitChars_ten_toDigits]
  rfl

/-! ### prefixes (towards C07: files cut at an arbitrary character) -/

/-- splitting a prefix: the complete pieces before the cut, then a prefix of the piece the cut falls into -/
theorem splitOnChar_take (c : Char) (s : List Char) (q : Nat) :
    ∃ pre t post r, splitOnChar c s = pre ++ t :: post ∧ splitOnChar c (s.take q) = pre ++ [t.take r] := by
  induction s generalizing q with
  | nil => exact ⟨[], [], [], 0, rfl, by simp [splitOnChar]⟩
  | cons a s ih =>
    cases q with
    | zero =>
      by_cases hac : a = c
      · exact ⟨[], [], splitOnChar c s, 0, by simp [splitOnChar, hac], by simp [splitOnChar]⟩
      · obtain ⟨h, tl, hs⟩ := List.exists_cons_of_ne_nil (splitOnChar_ne_nil c s)
        exact ⟨[], a :: h, tl, 0, by simp [splitOnChar, hac, hs, consHead], by simp [splitOnChar]⟩
    | succ q =>
      obtain ⟨pre, t, post, r, h1, h2⟩ := ih q
      by_cases hac : a = c
      · exact ⟨[] :: pre, t, post, r, by simp [splitOnChar, hac, h1], by simp [splitOnChar, hac, h2]⟩
      · cases pre with
        | nil =>
          exact ⟨[], a :: t, post, r + 1, by simp [splitOnChar, hac, h1, consHead],
            by simp [splitOnChar, hac, h2, consHead]⟩
        | cons p0 ps =>
          exact ⟨(a :: p0) :: ps, t, post, r, by simp [splitOnChar, hac, h1, consHead],
            by simp [splitOnChar, hac, h2, consHead]⟩

/-- `int()` of a string of digits is not negative -/
theorem pyIntL_digits_nonneg {ds : List Char} (h : ∀ c ∈ ds, c.isDigit = true) {v : Int} (hv : pyIntL ds = some v) :
    0 ≤ v := by
  unfold pyIntL at hv
  rw [trimWs_digits h] at hv
  cases ds with
  | nil => simp at hv
  | cons c r =>
    have hc : c.isDigit = true := h c (by simp)
    have h1 : c ≠ '+' := by rintro rfl; simp at hc
    have h2 : c ≠ '-' := by rintro rfl; simp at hc
    simp only [h1, h2, if_false] at hv
    rw [natDigits?_digits _ h false 0 (Or.inl (by simp))] at hv
    simp only [Option.map_some, Option.some.injEq] at hv
    rw [← hv]; exact Int.natCast_nonneg _

/-! ### prefixes of a text -/

/-- every line followed by its newline -/
def joinNL (ls : List (List Char)) : List Char := ls.flatMap (· ++ ['\n'])

/-- a prefix of a text: some complete lines, then a prefix of the next line (without its newline) -/
theorem take_joinNL (ls : List (List Char)) (n : Nat) :
    ∃ j q, j ≤ ls.length ∧ (joinNL ls).take n = joinNL (ls.take j) ++ (ls.getD j []).take q := by
  induction ls generalizing n with
  | nil => exact ⟨0, 0, by simp, by simp [joinNL]⟩
  | cons l ls ih =>
    by_cases hn : n ≤ l.length
    · refine ⟨0, n, by simp, ?_⟩
      simp only [joinNL, List.flatMap_cons, List.take_zero, List.flatMap_nil, List.nil_append, List.getD_cons_zero,
        List.append_assoc]
      rw [List.take_append_of_le_length hn]
    · obtain ⟨j, q, hj, h⟩ := ih (n - (l.length + 1))
      refine ⟨j + 1, q, by simp; omega, ?_⟩
      have hl : (l ++ ['\n']).length ≤ n := by simp; omega
      simp only [joinNL, List.flatMap_cons, List.take_succ_cons, List.getD_cons_succ] at h ⊢
      rw [List.take_append (l₁ := l ++ ['\n']), List.take_of_length_le hl, List.append_assoc _ _ (List.take q _)]
      congr 1
      have : n - (l ++ ['\n']).length = n - (l.length + 1) := by simp
      rw [this]; exact h

theorem intercalate_nl_concat (ls : List (List Char)) (r : List Char) :
    ['\n'].intercalate (ls ++ [r]) = joinNL ls ++ r := by
  induction ls with
  | nil => simp [List.intercalate, joinNL]
  | cons l ls ih =>
    cases hls : ls ++ [r] with
    | nil => simp at hls
    | cons u us =>
      rw [List.cons_append, hls, intercalate_cons_cons, ← hls, ih]
      simp [joinNL]

theorem intercalate_nl_append_nl {ls : List (List Char)} (hne : ls ≠ []) :
    ['\n'].intercalate ls ++ ['\n'] = joinNL ls := by
  obtain ⟨init, last, rfl⟩ : ∃ init last, ls = init ++ [last] :=
    ⟨ls.dropLast, ls.getLast hne, (List.dropLast_concat_getLast hne).symm⟩
  rw [intercalate_nl_concat]
  simp [joinNL]

end SparkxVerif.Str
