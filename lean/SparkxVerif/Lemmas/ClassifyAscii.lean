/-
"Byte" = character for the texts of the file grammar.  `Dmg.takeBytes t n` cuts the CHARACTER list of `t`.  For an ASCII text
the UTF-8 bytes of that prefix are the first `n` bytes of `t`, and `t` has as many bytes as characters (`takeBytes_bytes`);
the rendered texts are ASCII when their free-text lines are (`oscarText_ascii`, `jetText_ascii`: every other character comes
from an alphabet of the grammar).  Core Lean only.
-/
import SparkxVerif.Lemmas.ClassifyPrefixHypJet

set_option linter.unusedSimpArgs false

namespace SparkxVerif.Rd
open SparkxVerif.Str

def asciiCh (c : Char) : Bool := decide (c.val ≤ 127)

/-- all characters of the string are ASCII -/
def isAsciiStr (s : String) : Bool := s.toList.all asciiCh

/-- the UTF-8 encoding of ASCII characters: one byte each, the code point -/
theorem utf8_bytes_ascii {l : List Char} (h : l.all asciiCh = true) :
    l.utf8Encode.data.toList = l.map (fun c => c.val.toUInt8) := by
  unfold List.utf8Encode
  rw [List.toList_data_toByteArray]
  induction l with
  | nil => rfl
  | cons c l ih =>
    simp only [List.all_cons, Bool.and_eq_true] at h
    have hc : c.utf8Size = 1 := Char.utf8Size_eq_one_iff.mpr (of_decide_eq_true h.1)
    simp [List.flatMap_cons, String.utf8EncodeChar_eq_singleton hc, ih h.2]

/-- **cutting an ASCII text after `n` characters is cutting it after `n` bytes** -/
theorem takeBytes_bytes {t : String} (h : isAsciiStr t = true) (n : Nat) :
    (Dmg.takeBytes t n).toByteArray.data.toList = t.toByteArray.data.toList.take n ∧
    t.utf8ByteSize = t.toList.length := by
  have ht : t.toByteArray = t.toList.utf8Encode := String.utf8Encode_toList.symm
  have htake : (t.toList.take n).all asciiCh = true := by
    simp only [isAsciiStr, List.all_eq_true] at h ⊢
    exact fun c hc => h c (List.mem_of_mem_take hc)
  constructor
  · rw [Dmg.takeBytes, String.toByteArray_ofList, utf8_bytes_ascii htake, ht, utf8_bytes_ascii h, List.map_take]
  · have : t.utf8ByteSize = t.toByteArray.data.toList.length := by
      rw [Array.length_toList]; rfl
    rw [this, ht, utf8_bytes_ascii h, List.length_map]

/-! ### the rendered texts are ASCII -/

theorem asciiCh_of_digit {c : Char} (h : c.isDigit = true) : asciiCh c = true := by
  have := Char.isDigit_iff_toNat.mp h
  simp only [asciiCh, decide_eq_true_eq, UInt32.le_iff_toNat_le]
  have e : c.val.toNat = c.toNat := rfl
  rw [e]; simp at this ⊢; omega

theorem asciiCh_of_numCh {c : Char} (h : numCh c = true) : asciiCh c = true := by
  simp only [numCh, Bool.or_eq_true, beq_iff_eq] at h
  rcases h with ((((h | rfl) | rfl) | rfl) | rfl) | rfl
  · exact asciiCh_of_digit h
  all_goals decide

theorem asciiCh_of_wordCh {c : Char} (h : (c.isAlphanum || c == '_') = true) : asciiCh c = true := by
  simp only [Bool.or_eq_true, beq_iff_eq] at h
  rcases h with h | rfl
  · simp only [Char.isAlphanum, Char.isAlpha, Char.isUpper, Char.isLower, Bool.or_eq_true, Bool.and_eq_true,
      decide_eq_true_eq] at h
    rcases h with (h | h) | h
    · simp only [asciiCh, decide_eq_true_eq, UInt32.le_iff_toNat_le, ge_iff_le] at h ⊢
      have := h.2; simp at this ⊢; omega
    · simp only [asciiCh, decide_eq_true_eq, UInt32.le_iff_toNat_le, ge_iff_le] at h ⊢
      have := h.2; simp at this ⊢; omega
    · exact asciiCh_of_digit h
  · decide

/-- a character that belongs to an alphabet `A` all of whose non-digit, non-numeric members are listed -/
theorem isAsciiStr_of_alphabet {s : String} (A : Char → Bool) (hs : ∀ c ∈ s.toList, A c = true)
    (hA : ∀ c, A c = true → asciiCh c = true) : isAsciiStr s = true := by
  simp only [isAsciiStr, List.all_eq_true]
  exact fun c hc => hA c (hs c hc)

theorem asciiCh_of_lineCh {c : Char} (h : lineCh c = true) : asciiCh c = true := by
  simp only [lineCh, Bool.or_eq_true, beq_iff_eq] at h
  rcases h with h | rfl
  · exact asciiCh_of_numCh h
  · decide

theorem asciiCh_of_mem {l : List Char} (hl : l.all asciiCh = true) {c : Char} (h : l.contains c = true) : asciiCh c = true := by
  simp only [List.contains_iff_mem] at h
  exact List.all_eq_true.mp hl c h

theorem asciiCh_of_outCh {c : Char} (h : outCh c = true) : asciiCh c = true := by
  simp only [outCh, Bool.or_eq_true] at h
  rcases h with h | h
  · exact asciiCh_of_digit h
  · exact asciiCh_of_mem (by decide) h

theorem asciiCh_of_endCh {c : Char} (h : endCh c = true) : asciiCh c = true := by
  simp only [endCh, Bool.or_eq_true] at h
  rcases h with h | h
  · exact asciiCh_of_numCh h
  · exact asciiCh_of_mem (by decide) h

theorem asciiCh_of_jhCh {pt : Bool} {c : Char} (h : jhCh pt c = true) : asciiCh c = true := by
  simp only [jhCh, Bool.or_eq_true, beq_iff_eq] at h
  rcases h with (((h | rfl) | rfl) | rfl) | h
  · exact asciiCh_of_digit h
  · decide
  · decide
  · decide
  · cases pt
    · exact asciiCh_of_mem (by decide) h
    · exact asciiCh_of_mem (by decide) h

theorem asciiCh_of_jtCh {c : Char} (h : jtCh c = true) : asciiCh c = true := by
  simp only [jtCh, Bool.or_eq_true] at h
  rcases h with h | h
  · exact asciiCh_of_numCh h
  · exact asciiCh_of_mem (by decide) h

/-- a text is ASCII when its lines are -/
theorem textOfLines_ascii {ls : List String} (h : ∀ l ∈ ls, isAsciiStr l = true) (nl : Bool) :
    isAsciiStr (textOfLines ls nl) = true := by
  simp only [isAsciiStr, List.all_eq_true] at h ⊢
  intro c hc
  simp only [textOfLines, String.toList_append, List.mem_append] at hc
  rcases hc with hc | hc
  · rcases mem_toList_intercalate hc with hc | ⟨l, hl, hc⟩
    · have : c = '\n' := by simpa using hc
      subst this; decide
    · exact h l hl c hc
  · cases nl
    · simp at hc
    · have : c = '\n' := by simpa using hc
      subst this; decide

/-- **the rendered Oscar text is ASCII** when its two free header lines are -/
theorem oscarText_ascii (F : OscarSpec) (hg : grammarOscar F = true) (h2a : isAsciiStr F.h2 = true)
    (h3a : isAsciiStr F.h3 = true) : isAsciiStr (oscarText F) = true := by
  obtain ⟨hc, _, _, _, _, _, hev⟩ := grammarOscar_unpack hg
  apply textOfLines_ascii
  intro l hl
  simp only [oscarLinesText, List.cons_append, List.nil_append, List.mem_cons, List.mem_flatMap] at hl
  rcases hl with rfl | rfl | rfl | ⟨e, he, hl⟩
  · simp only [isAsciiStr, List.all_eq_true]
    intro c hcm
    rcases mem_toList_intercalate hcm with hcm | ⟨t, ht, hcm⟩
    · have : c = ' ' := by simpa using hcm
      subst this; decide
    · simp only [headToks, List.mem_cons] at ht
      have lit : ∀ s : String, s.toList.all asciiCh = true → c ∈ s.toList → asciiCh c = true :=
        fun s hs hm => List.all_eq_true.mp hs c hm
      rcases ht with rfl | rfl | ht
      · exact lit _ (by cases F.fmt <;> decide) hcm
      · exact lit _ (by decide) hcm
      · have := hc t ht
        simp only [colTok, wordTok, Bool.and_eq_true, List.all_eq_true] at this
        exact asciiCh_of_wordCh (this.1.1.2 c hcm)
  · exact h2a
  · exact h3a
  · have hok := hev e he
    simp only [eventLinesText, List.mem_cons, List.mem_append, List.mem_map, List.not_mem_nil, or_false] at hl
    rcases hl with rfl | ⟨r, hr, rfl⟩ | rfl
    · exact isAsciiStr_of_alphabet outCh (outLine_alphabet e) (fun _ => asciiCh_of_outCh)
    · exact isAsciiStr_of_alphabet lineCh (partLine_alphabet (hok.rows r hr).2.1) (fun _ => asciiCh_of_lineCh)
    · obtain ⟨pad, tail, hpad, htail, hfoot⟩ := hok.shape
      rw [hfoot]
      exact isAsciiStr_of_alphabet endCh (footer_alphabet e.label hpad htail hok.impactTok) (fun _ => asciiCh_of_endCh)

/-- **the rendered JETSCAPE text is ASCII** when its free first line is -/
theorem jetText_ascii (F : JetSpec) (hg : grammarJet F = true) (h1a : isAsciiStr F.h1 = true) :
    isAsciiStr (jetText F) = true := by
  obtain ⟨_, _, s1, _, s2, _, ⟨sep, hsep, htr⟩, hev⟩ := grammarJet_unpack hg
  apply textOfLines_ascii
  intro l hl
  simp only [jetLinesText, List.mem_cons, List.mem_append, List.mem_flatMap, List.mem_map, List.not_mem_nil, or_false] at hl
  rcases hl with rfl | ⟨e, he, rfl | ⟨r, hr, rfl⟩⟩ | rfl
  · exact h1a
  · obtain ⟨sep', hsep', hh⟩ := (hev e he).shape
    rw [hh]
    exact isAsciiStr_of_alphabet (jhCh F.partons) (jetHeader_alphabet F.partons hsep' e.label e.parts.length)
      (fun _ => asciiCh_of_jhCh)
  · exact isAsciiStr_of_alphabet lineCh (partLine_alphabet ((hev e he).rows r hr).2.1) (fun _ => asciiCh_of_lineCh)
  · rw [htr]
    exact isAsciiStr_of_alphabet jtCh (jetTrailer_alphabet hsep s1 s2) (fun _ => asciiCh_of_jtCh)

end SparkxVerif.Rd
