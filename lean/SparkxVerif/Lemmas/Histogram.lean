/-
Helper lemmas for the Histogram model (C09, C10): list surgery, `digitize` on increasing edges,
the shape invariant.  No property statements here.
-/
import SparkxVerif.Core.Histogram
import SparkxVerif.Lemmas.Num
import Mathlib.Algebra.Order.Field.Basic
import Mathlib.Algebra.BigOperators.Group.List.Basic
import Mathlib.Algebra.BigOperators.Ring.List
import Mathlib.Tactic.Ring
import Mathlib.Tactic.Linarith
import Mathlib.Tactic.FieldSimp

set_option linter.unusedSectionVars false

namespace SparkxVerif.Hist

/-! ### the shape invariant (any carrier) -/

/-- `a` is a 2-D array of shape `(h, n)` -/
def RowsOK {β : Type} (h n : Nat) (a : List (List β)) : Prop := a.length = h ∧ ∀ r ∈ a, r.length = n

/-- every per-histogram array has the shape (number of histograms, number of bins), there is at least
one histogram and there is one edge more than there are bins -/
structure Shape {β : Type} (s : State β) : Prop where
  nh : 1 ≤ s.nHist
  edges : s.edges.length = s.nBins + 1
  hist : RowsOK s.nHist s.nBins s.hist
  raw : RowsOK s.nHist s.nBins s.raw
  err : RowsOK s.nHist s.nBins s.err
  scal : RowsOK s.nHist s.nBins s.scal
  sys : RowsOK s.nHist s.nBins s.sys

section lists
variable {β : Type}

theorem modifyLast_length (f : β → β) (a : List β) : (modifyLast f a).length = a.length := by
  induction a using modifyLast.induct <;> simp_all [modifyLast]

theorem getLast?_modifyLast (f : β → β) (a : List β) : (modifyLast f a).getLast? = a.getLast?.map f := by
  induction a using modifyLast.induct with
  | case1 => simp [modifyLast]
  | case2 x => simp [modifyLast]
  | case3 x y r ih =>
    simp only [modifyLast]
    rw [List.getLast?_cons_cons] at *
    have : modifyLast f (y :: r) ≠ [] := by
      intro h; have := modifyLast_length f (y :: r); rw [h] at this; simp at this
    obtain ⟨z, zs, hz⟩ := List.exists_cons_of_ne_nil this
    rw [hz] at ih ⊢
    rw [List.getLast?_cons_cons, ih]

theorem dropLast_modifyLast (f : β → β) (a : List β) : (modifyLast f a).dropLast = a.dropLast := by
  induction a using modifyLast.induct with
  | case1 => simp [modifyLast]
  | case2 x => simp [modifyLast]
  | case3 x y r ih =>
    simp only [modifyLast]
    have : modifyLast f (y :: r) ≠ [] := by
      intro h; have := modifyLast_length f (y :: r); rw [h] at this; simp at this
    obtain ⟨z, zs, hz⟩ := List.exists_cons_of_ne_nil this
    rw [hz] at ih ⊢
    simp only [List.dropLast_cons_cons] at ih ⊢
    rw [ih]

theorem mem_modifyLast (f : β → β) (a : List β) (x : β) (hx : x ∈ modifyLast f a) :
    x ∈ a ∨ ∃ y ∈ a, x = f y := by
  induction a using modifyLast.induct with
  | case1 => simp [modifyLast] at hx
  | case2 z => simp [modifyLast] at hx; right; exact ⟨z, by simp, hx⟩
  | case3 z y r ih =>
    simp only [modifyLast, List.mem_cons] at hx
    rcases hx with h | h
    · left; simp [h]
    · rcases ih (by simpa [List.mem_cons] using h) with h1 | ⟨w, hw, h2⟩
      · left; exact List.mem_cons_of_mem _ h1
      · right; exact ⟨w, List.mem_cons_of_mem _ hw, h2⟩

theorem lastRow_modifyLast (f : List β → List β) {a : List (List β)} (h : a ≠ []) :
    lastRow (modifyLast f a) = f (lastRow a) := by
  unfold lastRow
  rw [getLast?_modifyLast]
  obtain ⟨x, hx⟩ : ∃ x, a.getLast? = some x := by
    cases hh : a.getLast? with
    | none => exact absurd (List.getLast?_eq_none_iff.mp hh) h
    | some x => exact ⟨x, rfl⟩
  simp [hx]

theorem RowsOK.modifyLast {h n : Nat} {a : List (List β)} (f : List β → List β)
    (hf : ∀ r, r.length = n → (f r).length = n) (ha : RowsOK h n a) : RowsOK h n (modifyLast f a) := by
  refine ⟨by rw [modifyLast_length]; exact ha.1, ?_⟩
  intro r hr
  rcases mem_modifyLast f a r hr with h1 | ⟨y, hy, rfl⟩
  · exact ha.2 r h1
  · exact hf y (ha.2 y hy)

theorem RowsOK.ne_nil {h n : Nat} {a : List (List β)} (ha : RowsOK h n a) (hh : 1 ≤ h) : a ≠ [] := by
  intro e; have := ha.1; rw [e] at this; simp at this; omega

theorem RowsOK.lastRow_length {h n : Nat} {a : List (List β)} (ha : RowsOK h n a) (hh : 1 ≤ h) :
    (lastRow a).length = n := by
  unfold lastRow
  cases hl : a.getLast? with
  | none => exact absurd (List.getLast?_eq_none_iff.mp hl) (ha.ne_nil hh)
  | some x => simpa using ha.2 x (List.mem_of_getLast? hl)

theorem RowsOK.map {h n m : Nat} {a : List (List β)} (f : List β → List β)
    (hf : ∀ r, r.length = n → (f r).length = m) (ha : RowsOK h n a) : RowsOK h m (a.map f) := by
  refine ⟨by simpa using ha.1, ?_⟩
  intro r hr
  obtain ⟨y, hy, rfl⟩ := List.mem_map.mp hr
  exact hf y (ha.2 y hy)

theorem RowsOK.append_row {h n : Nat} {a : List (List β)} (r : List β) (hr : r.length = n)
    (ha : RowsOK h n a) : RowsOK (h + 1) n (a ++ [r]) := by
  refine ⟨by simp [ha.1], ?_⟩
  intro x hx
  rcases List.mem_append.mp hx with h1 | h1
  · exact ha.2 x h1
  · simp at h1; rw [h1]; exact hr

theorem RowsOK.single {n : Nat} (r : List β) (hr : r.length = n) : RowsOK 1 n [r] :=
  ⟨rfl, by intro x hx; simp at hx; rw [hx]; exact hr⟩

end lists


/-! ### `digitize` on strictly increasing edges (order only) -/

section order
variable {V : Type} [LinearOrder V]

theorem digitize_nil (v : V) : digitize ([] : List V) v = 0 := rfl

theorem digitize_cons (e : V) (es : List V) (v : V) :
    digitize (e :: es) v = (if e ≤ v then 1 else 0) + digitize es v := by
  unfold digitize
  by_cases h : e ≤ v
  · simp [h]; omega
  · simp [h]

theorem digitize_eq_zero_of_lt {es : List V} {v : V} (h : ∀ e ∈ es, v < e) : digitize es v = 0 := by
  induction es with
  | nil => rfl
  | cons e es ih =>
    rw [digitize_cons, ih (fun x hx => h x (List.mem_cons_of_mem _ hx))]
    simp [not_le.mpr (h e (by simp))]

theorem digitize_eq_length_of_le {es : List V} {v : V} (h : ∀ e ∈ es, e ≤ v) : digitize es v = es.length := by
  induction es with
  | nil => rfl
  | cons e es ih =>
    rw [digitize_cons, ih (fun x hx => h x (List.mem_cons_of_mem _ hx))]
    simp [h e (by simp)]; omega

theorem digitize_le_length (es : List V) (v : V) : digitize es v ≤ es.length := by
  unfold digitize; exact List.length_filter_le _ _

/-- numpy's `digitize` on increasing edges puts `v` into bin `i` exactly when `edge_i ≤ v < edge_{i+1}` -/
theorem digitize_eq_succ_iff {es : List V} (hs : es.Pairwise (· < ·)) {i : Nat} {a b : V} {v : V}
    (ha : es[i]? = some a) (hb : es[i + 1]? = some b) :
    digitize es v = i + 1 ↔ a ≤ v ∧ v < b := by
  induction es generalizing i with
  | nil => simp at ha
  | cons e es ih =>
    rw [List.pairwise_cons] at hs
    obtain ⟨hlt, hs'⟩ := hs
    rw [digitize_cons]
    cases i with
    | zero =>
      simp only [List.getElem?_cons_zero, Option.some.injEq] at ha
      simp only [zero_add, List.getElem?_cons_succ] at hb
      subst ha
      by_cases hev : e ≤ v
      · simp only [hev, if_true, true_and]
        constructor
        · intro h
          have h0 : digitize es v = 0 := by omega
          by_contra hnb
          have hbv : b ≤ v := not_lt.mp hnb
          cases es with
          | nil => simp at hb
          | cons x xs =>
            simp only [List.getElem?_cons_zero, Option.some.injEq] at hb
            subst hb
            rw [digitize_cons] at h0
            simp [hbv] at h0
        · intro h
          have : digitize es v = 0 := by
            apply digitize_eq_zero_of_lt
            intro x hx
            cases es with
            | nil => simp at hx
            | cons y ys =>
              simp only [List.getElem?_cons_zero, Option.some.injEq] at hb
              subst hb
              rcases List.mem_cons.mp hx with rfl | hx'
              · exact h
              · exact lt_trans h ((List.pairwise_cons.mp hs').1 x hx')
          omega
      · simp only [hev, if_false, false_and, iff_false]
        have : digitize es v = 0 := digitize_eq_zero_of_lt
          (fun x hx => lt_trans (not_le.mp hev) (hlt x hx))
        omega
    | succ i =>
      simp only [List.getElem?_cons_succ] at ha hb
      by_cases hev : e ≤ v
      · simp only [hev, if_true]
        rw [← ih hs' ha hb]; omega
      · simp only [hev, if_false]
        have h0 : digitize es v = 0 := digitize_eq_zero_of_lt
          (fun x hx => lt_trans (not_le.mp hev) (hlt x hx))
        have hea : e < a := hlt a (List.mem_of_getElem? ha)
        constructor
        · intro h; omega
        · intro h; exact absurd (le_trans (le_of_lt hea) h.1) hev

theorem inBin_iff {es : List V} {i : Nat} {v : V} :
    inBin es i v = true ↔ ∃ a b, es[i]? = some a ∧ es[i + 1]? = some b ∧ a ≤ v ∧ v < b := by
  unfold inBin
  cases h1 : es[i]? with
  | none => simp
  | some a =>
    cases h2 : es[i + 1]? with
    | none => simp
    | some b => simp

/-- on increasing edges: `v` lies in bin `i` iff `digitize` says `i + 1` -/
theorem inBin_iff_digitize {es : List V} (hs : es.Pairwise (· < ·)) {i : Nat} (hi : i + 1 < es.length) (v : V) :
    inBin es i v = true ↔ digitize es v = i + 1 := by
  have h1 : es[i]? = some es[i] := List.getElem?_eq_getElem (by omega)
  have h2 : es[i + 1]? = some es[i + 1] := List.getElem?_eq_getElem hi
  rw [digitize_eq_succ_iff hs h1 h2, inBin_iff]
  constructor
  · rintro ⟨a, b, ha, hb, h⟩
    rw [h1] at ha; rw [h2] at hb
    simp only [Option.some.injEq] at ha hb
    subst ha; subst hb; exact h
  · intro h; exact ⟨_, _, h1, h2, h⟩

end order


/-! ### contents over an ordered field -/

section field
variable {K : Type} [Field K] [LinearOrder K] [IsStrictOrderedRing K]

@[simp] theorem zero_eq : (zero : K) = 0 := by simp [zero]
@[simp] theorem one_eq : (one : K) = 1 := by simp [one]
@[simp] theorem two_eq : (two : K) = 2 := by simp [two]

/-- bin `i` of the current (last) histogram of an array -/
def cell (a : List (List K)) (i : Nat) : K := (lastRow a).getD i 0

theorem addAt_length (r : List K) (j : Nat) (w : K) : (addAt r j w).length = r.length := by
  induction r generalizing j with
  | nil => simp [addAt]
  | cons x xs ih => cases j <;> simp [addAt, ih]

theorem addAt_getD (r : List K) (j i : Nat) (w : K) :
    (addAt r j w).getD i 0 = r.getD i 0 + (if i = j ∧ i < r.length then w else 0) := by
  induction r generalizing j i with
  | nil => simp [addAt]
  | cons x xs ih =>
    cases j with
    | zero =>
      cases i with
      | zero => simp [addAt]
      | succ i => simp [addAt]
    | succ j =>
      cases i with
      | zero => simp [addAt]
      | succ i =>
        show (x :: addAt xs j w).getD (i + 1) 0 = _
        rw [List.getD_cons_succ, List.getD_cons_succ, ih]
        simp

theorem isZero_iff (x : K) : isZero x = true ↔ x = 0 := by
  unfold isZero
  simp only [Bool.and_eq_true, decide_eq_true_eq, zero_eq]
  exact ⟨fun h => le_antisymm h.1 h.2, fun h => by simp [h]⟩

theorem getD_map_mul (r : List K) (c : K) (i : Nat) : (r.map (· * c)).getD i 0 = r.getD i 0 * c := by
  simp only [List.getD_eq_getElem?_getD, List.getElem?_map]
  cases r[i]? <;> simp

theorem getD_mulRow (r cs : List K) (i : Nat) (h : r.length = cs.length) :
    (mulRow r cs).getD i 0 = r.getD i 0 * cs.getD i 1 := by
  simp only [mulRow, List.getD_eq_getElem?_getD, List.getElem?_zipWith]
  by_cases hi : i < r.length
  · have h1 : r[i]? = some r[i] := List.getElem?_eq_getElem hi
    have h2 : cs[i]? = some cs[i] := List.getElem?_eq_getElem (h ▸ hi)
    simp [h1, h2]
  · have h1 : r[i]? = none := List.getElem?_eq_none (by omega)
    simp [h1]

theorem mulRow_length (r cs : List K) (h : r.length = cs.length) : (mulRow r cs).length = r.length := by
  simp [mulRow, h]

/-! widths of increasing edges -/

theorem widths_cons_cons (a b : K) (r : List K) : widths (a :: b :: r) = (b - a) :: widths (b :: r) := by
  simp [widths, List.dropLast_cons_cons]

theorem centers_cons_cons (a b : K) (r : List K) :
    centers (a :: b :: r) = ((a + b) / 2) :: centers (b :: r) := by
  simp [centers, List.dropLast_cons_cons]

theorem widths_length (es : List K) : (widths es).length = es.length - 1 := by
  simp [widths]

theorem centers_length (es : List K) : (centers es).length = es.length - 1 := by
  simp [centers]

theorem widths_getElem? (es : List K) (i : Nat) (hi : i + 1 < es.length) :
    (widths es)[i]? = some (es[i + 1] - es[i]) := by
  induction es generalizing i with
  | nil => simp at hi
  | cons a r ih =>
    cases r with
    | nil => simp at hi
    | cons b r =>
      rw [widths_cons_cons]
      cases i with
      | zero => simp
      | succ i =>
        simp only [List.getElem?_cons_succ]
        rw [ih i (by simpa using hi)]
        simp

theorem centers_getElem? (es : List K) (i : Nat) (hi : i + 1 < es.length) :
    (centers es)[i]? = some ((es[i] + es[i + 1]) / 2) := by
  induction es generalizing i with
  | nil => simp at hi
  | cons a r ih =>
    cases r with
    | nil => simp at hi
    | cons b r =>
      rw [centers_cons_cons]
      cases i with
      | zero => simp
      | succ i =>
        simp only [List.getElem?_cons_succ]
        rw [ih i (by simpa using hi)]
        simp

theorem widths_pos {es : List K} (hs : es.Pairwise (· < ·)) : ∀ x ∈ widths es, 0 < x := by
  induction es with
  | nil => simp [widths]
  | cons a r ih =>
    cases r with
    | nil => simp [widths]
    | cons b r =>
      rw [widths_cons_cons]
      intro x hx
      rcases List.mem_cons.mp hx with rfl | hx'
      · have : a < b := (List.pairwise_cons.mp hs).1 b (by simp)
        linarith
      · exact ih (List.pairwise_cons.mp hs).2 x hx'


/-! ### one filling step -/

theorem fillCore_frame (s : State K) (v w : K) :
    (fillCore s v w).edges = s.edges ∧ (fillCore s v w).nBins = s.nBins ∧ (fillCore s v w).nHist = s.nHist ∧
    (fillCore s v w).err = s.err ∧ (fillCore s v w).scal = s.scal ∧ (fillCore s v w).sys = s.sys := by
  unfold fillCore
  simp only
  split <;> simp

theorem fillCore_shape {s : State K} (hs : Shape s) (v w : K) : Shape (fillCore s v w) := by
  unfold fillCore
  simp only
  split
  · exact hs
  · exact { nh := hs.nh, edges := hs.edges,
            hist := hs.hist.modifyLast _ (fun r hr => by rw [addAt_length]; exact hr),
            raw := hs.raw.modifyLast _ (fun r hr => by rw [addAt_length]; exact hr),
            err := hs.err, scal := hs.scal, sys := hs.sys }

theorem cell_modifyLast_addAt {h n : Nat} {a : List (List K)} (ha : RowsOK h n a) (hh : 1 ≤ h)
    (j i : Nat) (w : K) :
    cell (modifyLast (fun r => addAt r j w) a) i = cell a i + (if i = j ∧ i < n then w else 0) := by
  unfold cell
  rw [lastRow_modifyLast _ (ha.ne_nil hh), addAt_getD, ha.lastRow_length hh]

/-- the content of bin `i` grows by `w` exactly when `edge_i ≤ v < edge_{i+1}` -/
theorem fillCore_cell {s : State K} (hs : Shape s) (hsort : s.edges.Pairwise (· < ·)) (v w : K)
    (i : Nat) (hi : i < s.nBins) :
    cell (fillCore s v w).hist i = cell s.hist i + (if inBin s.edges i v = true then w else 0) ∧
    cell (fillCore s v w).raw i = cell s.raw i + (if inBin s.edges i v = true then w else 0) := by
  have hlen : i + 1 < s.edges.length := by rw [hs.edges]; omega
  have hiff := inBin_iff_digitize hsort hlen v
  unfold fillCore
  simp only
  split
  · rename_i hc
    have : ¬ (inBin s.edges i v = true) := by
      rw [hiff]; intro h; rcases hc with h0 | h0 <;> omega
    simp [this]
  · rename_i hc
    have hb : digitize s.edges v ≠ 0 ∧ digitize s.edges v ≤ s.nBins := by
      constructor
      · intro h; exact hc (Or.inl h)
      · by_contra h; exact hc (Or.inr (by omega))
    simp only
    rw [cell_modifyLast_addAt hs.hist hs.nh, cell_modifyLast_addAt hs.raw hs.nh]
    have hcond : (i = digitize s.edges v - 1 ∧ i < s.nBins) ↔ inBin s.edges i v = true := by
      rw [hiff]; constructor
      · rintro ⟨h, _⟩; omega
      · intro h; exact ⟨by omega, hi⟩
    simp only [hcond]
    exact ⟨trivial, trivial⟩


/-! ### the fill / scale fragment: what one call does to the current histogram -/

/-- the calls C09 is about: `add_value`, `scale_histogram`, `statistical_error` -/
def FillScale : Op K → Prop
  | .fill _ _ => True
  | .fillList _ _ => True
  | .scale _ => True
  | .scaleList _ => True
  | .statErr => True
  | _ => False

/-- `s'` has the binning of `s`, is well-shaped, and bin `i` of its current histogram is
`old · m i + f i`, its raw count `old + g i` -/
structure CStep (s s' : State K) (m f g : Nat → K) : Prop where
  shape : Shape s'
  edges : s'.edges = s.edges
  nBins : s'.nBins = s.nBins
  hist : ∀ i, i < s.nBins → cell s'.hist i = cell s.hist i * m i + f i
  raw : ∀ i, i < s.nBins → cell s'.raw i = cell s.raw i + g i

theorem CStep.same {s : State K} (hs : Shape s) {m f g : Nat → K} (hm : ∀ i, m i = 1) (hf : ∀ i, f i = 0)
    (hg : ∀ i, g i = 0) : CStep s s m f g :=
  ⟨hs, rfl, rfl, fun i _ => by rw [hm, hf]; ring, fun i _ => by rw [hg]; ring⟩

theorem CStep.trans {s s' s'' : State K} {m f g m' f' g' : Nat → K} (h1 : CStep s s' m f g)
    (h2 : CStep s' s'' m' f' g') :
    CStep s s'' (fun i => m i * m' i) (fun i => f i * m' i + f' i) (fun i => g i + g' i) where
  shape := h2.shape
  edges := h2.edges.trans h1.edges
  nBins := h2.nBins.trans h1.nBins
  hist := fun i hi => by
    rw [h2.hist i (h1.nBins ▸ hi), h1.hist i hi]; ring
  raw := fun i hi => by
    rw [h2.raw i (h1.nBins ▸ hi), h1.raw i hi]; ring

theorem CStep.congr {s s' : State K} {m f g m' f' g' : Nat → K} (h : CStep s s' m f g)
    (hm : ∀ i, m i = m' i) (hf : ∀ i, f i = f' i) (hg : ∀ i, g i = g' i) : CStep s s' m' f' g' :=
  ⟨h.shape, h.edges, h.nBins, fun i hi => by rw [← hm, ← hf]; exact h.hist i hi,
    fun i hi => by rw [← hg]; exact h.raw i hi⟩

theorem binWeight_nil (es : List K) (i : Nat) : binWeight es i [] = 0 := by
  simp [binWeight]

theorem binWeight_cons (es : List K) (i : Nat) (p : K × K) (fs : List (K × K)) :
    binWeight es i (p :: fs) = (if inBin es i p.1 = true then p.2 else 0) + binWeight es i fs := by
  unfold binWeight
  by_cases h : inBin es i p.1 = true <;> simp [h]

theorem fillCore_cstep {s : State K} (hs : Shape s) (hsort : s.edges.Pairwise (· < ·)) (v w : K) :
    CStep s (fillCore s v w) (fun _ => 1) (fun i => binWeight s.edges i [(v, w)])
      (fun i => binWeight s.edges i [(v, w)]) where
  shape := fillCore_shape hs v w
  edges := (fillCore_frame s v w).1
  nBins := (fillCore_frame s v w).2.1
  hist := fun i hi => by
    rw [(fillCore_cell hs hsort v w i hi).1, binWeight_cons, binWeight_nil]; ring
  raw := fun i hi => by
    rw [(fillCore_cell hs hsort v w i hi).2, binWeight_cons, binWeight_nil]; ring

/-- `for element in value: self.add_value(element)` -/
theorem foldl_fillCore_cstep (xs : List K) {s : State K} (hs : Shape s) (hsort : s.edges.Pairwise (· < ·)) :
    CStep s (xs.foldl (fun s v => fillCore s v one) s) (fun _ => 1)
      (fun i => binWeight s.edges i (xs.map (fun v => (v, one))))
      (fun i => binWeight s.edges i (xs.map (fun v => (v, one)))) := by
  induction xs generalizing s with
  | nil => exact CStep.same hs (fun _ => rfl) (fun i => binWeight_nil _ _) (fun i => binWeight_nil _ _)
  | cons x xs ih =>
    simp only [List.foldl_cons, List.map_cons]
    have h1 := fillCore_cstep hs hsort x one
    have h2 := ih h1.shape (h1.edges ▸ hsort)
    refine (h1.trans h2).congr (fun i => by ring) (fun i => ?_) (fun i => ?_)
    · rw [h1.edges, binWeight_cons, binWeight_cons, binWeight_nil]; ring
    · rw [h1.edges, binWeight_cons, binWeight_cons, binWeight_nil]; ring

/-- `for element, w in zip(value, weight): self.add_value(element, weight=w)` up to the first NaN weight -/
theorem fillSeq_cstep (ps : List (K × Option K)) {s : State K} (hs : Shape s)
    (hsort : s.edges.Pairwise (· < ·)) :
    CStep s (fillSeq s ps).1 (fun _ => 1) (fun i => binWeight s.edges i (prefixPairs ps))
      (fun i => binWeight s.edges i (prefixPairs ps)) := by
  induction ps generalizing s with
  | nil => exact CStep.same hs (fun _ => rfl) (fun i => binWeight_nil _ _) (fun i => binWeight_nil _ _)
  | cons p ps ih =>
    obtain ⟨v, w⟩ := p
    cases w with
    | none => exact CStep.same hs (fun _ => rfl) (fun i => binWeight_nil _ _) (fun i => binWeight_nil _ _)
    | some w =>
      simp only [fillSeq, prefixPairs]
      have h1 := fillCore_cstep hs hsort v w
      have h2 := ih h1.shape (h1.edges ▸ hsort)
      refine (h1.trans h2).congr (fun i => by ring) (fun i => ?_) (fun i => ?_)
      · rw [h1.edges, binWeight_cons, binWeight_cons, binWeight_nil]; ring
      · rw [h1.edges, binWeight_cons, binWeight_cons, binWeight_nil]; ring

theorem cell_modifyLast {h n : Nat} {a : List (List K)} (ha : RowsOK h n a) (hh : 1 ≤ h)
    (f : List K → List K) (i : Nat) : cell (modifyLast f a) i = (f (lastRow a)).getD i 0 := by
  unfold cell; rw [lastRow_modifyLast _ (ha.ne_nil hh)]

theorem scale_cstep {s : State K} (hs : Shape s) (c : K) :
    CStep s (scale s c).1 (fun i => scaleOf s.nBins i (.scale c)) (fun _ => 0) (fun _ => 0) := by
  unfold scale
  by_cases hc : c < 0
  · simp only [zero_eq, hc, if_true]
    exact CStep.same hs (fun i => by simp [scaleOf, hc]) (fun _ => rfl) (fun _ => rfl)
  · simp only [zero_eq, hc, if_false]
    exact {
      shape := { nh := hs.nh, edges := hs.edges,
                 hist := hs.hist.modifyLast _ (fun r hr => by simpa using hr),
                 raw := hs.raw,
                 err := hs.err.modifyLast _ (fun r hr => by simpa using hr),
                 scal := hs.scal.modifyLast _ (fun r hr => by simpa using hr),
                 sys := hs.sys }
      edges := rfl
      nBins := rfl
      hist := fun i _ => by
        simp only [cell_modifyLast hs.hist hs.nh, getD_map_mul, scaleOf, zero_eq, hc, if_false, add_zero]
        rfl
      raw := fun i _ => by simp }

theorem scaleOf_scaleList (n i : Nat) (cs : List K) :
    scaleOf n i (.scaleList cs) =
      if cs.any (fun c => decide (c < (zero : K))) = true ∨ cs.length ≠ n then (one : K) else cs.getD i one := rfl

theorem scaleList_cstep {s : State K} (hs : Shape s) (cs : List K) :
    CStep s (scaleList s cs).1 (fun i => scaleOf s.nBins i (.scaleList cs)) (fun _ => 0) (fun _ => 0) := by
  have hl := hs.hist.lastRow_length hs.nh
  have hls := hs.scal.lastRow_length hs.nh
  have hle := hs.err.lastRow_length hs.nh
  by_cases h1 : cs.any (fun c => decide (c < (zero : K))) = true
  · have e : scaleList s cs = (s, some .value) := by unfold scaleList; rw [if_pos h1]
    rw [e]
    exact CStep.same hs (fun i => by rw [scaleOf_scaleList, if_pos (Or.inl h1)]; exact one_eq)
      (fun _ => rfl) (fun _ => rfl)
  · by_cases h2 : cs.length ≠ s.nBins
    · have e : scaleList s cs = (s, some .value) := by unfold scaleList; rw [if_neg h1, if_pos h2]
      rw [e]
      exact CStep.same hs (fun i => by rw [scaleOf_scaleList, if_pos (Or.inr h2)]; exact one_eq)
        (fun _ => rfl) (fun _ => rfl)
    · have h2' : cs.length = s.nBins := not_not.mp h2
      unfold scaleList
      rw [if_neg h1, if_neg h2, if_neg (by rw [hl]; exact h2), if_neg (by rw [hls, hle]; omega)]
      exact {
        shape := { nh := hs.nh, edges := hs.edges,
                   hist := hs.hist.modifyLast _ (fun r hr => by rw [mulRow_length _ _ (hr.trans h2'.symm)]; exact hr),
                   raw := hs.raw,
                   err := hs.err.modifyLast _ (fun r hr => by rw [mulRow_length _ _ (hr.trans h2'.symm)]; exact hr),
                   scal := hs.scal.modifyLast _ (fun r hr => by rw [mulRow_length _ _ (hr.trans h2'.symm)]; exact hr),
                   sys := hs.sys }
        edges := rfl
        nBins := rfl
        hist := fun i _ => by
          show cell (modifyLast (fun r => mulRow r cs) s.hist) i = cell s.hist i * scaleOf s.nBins i (.scaleList cs) + 0
          rw [cell_modifyLast hs.hist hs.nh, getD_mulRow _ _ _ (hl.trans h2'.symm), scaleOf_scaleList,
            if_neg (by rintro (h | h); exact h1 h; exact h2 h), one_eq, add_zero]
          rfl
        raw := fun i _ => by show cell s.raw i = cell s.raw i + 0; rw [add_zero] }

theorem sameShape_of_rowsOK {h n : Nat} {a b : List (List K)} (ha : RowsOK h n a) (hb : RowsOK h n b) :
    sameShape a b = true := by
  unfold sameShape
  simp only [Bool.and_eq_true, beq_iff_eq, List.all_eq_true]
  refine ⟨ha.1.trans hb.1.symm, ?_⟩
  intro x hx
  obtain ⟨i, hi, rfl⟩ := List.mem_iff_getElem.mp hx
  simp only [List.length_zipWith] at hi
  simp only [List.getElem_zipWith, id, beq_iff_eq]
  rw [ha.2 _ (List.getElem_mem _), hb.2 _ (List.getElem_mem _)]

theorem statErr_shape (sqrt : K → K) {s : State K} (hs : Shape s) : Shape (statErr sqrt s).1 := by
  unfold statErr
  rw [sameShape_of_rowsOK hs.err hs.hist]
  exact { nh := hs.nh, edges := hs.edges, hist := hs.hist, raw := hs.raw,
          err := hs.hist.map _ (fun r hr => by simpa using hr), scal := hs.scal, sys := hs.sys }

theorem statErr_eq (sqrt : K → K) {s : State K} (hs : Shape s) :
    statErr sqrt s = ({ s with err := s.hist.map (fun r => r.map sqrt) }, none) := by
  unfold statErr
  rw [sameShape_of_rowsOK hs.err hs.hist]; rfl

theorem statErr_cstep (sqrt : K → K) {s : State K} (hs : Shape s) :
    CStep s (statErr sqrt s).1 (fun _ => 1) (fun _ => 0) (fun _ => 0) := by
  have h := statErr_shape sqrt hs
  rw [statErr_eq sqrt hs] at h ⊢
  exact ⟨h, rfl, rfl, fun i _ => by simp, fun i _ => by simp⟩

theorem allSome_eq_none_or {β : Type} (vs : List (Option β)) : allSome vs = none ∨ ∃ xs, allSome vs = some xs := by
  cases allSome vs <;> simp

theorem CStep.noop {s : State K} (hs : Shape s) (op : Op K) (hm : ∀ i, scaleOf s.nBins i op = 1)
    (hf : fillsOf op = []) :
    CStep s s (fun i => scaleOf s.nBins i op) (fun i => binWeight s.edges i (fillsOf op))
      (fun i => binWeight s.edges i (fillsOf op)) :=
  CStep.same hs hm (fun _ => by rw [hf, binWeight_nil]) (fun _ => by rw [hf, binWeight_nil])

/-- one call of the fill / scale fragment -/
theorem step_cstep (sqrt : K → K) {s : State K} (hs : Shape s) (hsort : s.edges.Pairwise (· < ·))
    (op : Op K) (hop : FillScale op) :
    CStep s (step sqrt s op).1 (fun i => scaleOf s.nBins i op)
      (fun i => binWeight s.edges i (fillsOf op)) (fun i => binWeight s.edges i (fillsOf op)) := by
  cases op with
  | fill v w =>
    cases v with
    | none =>
      have e : step sqrt s (.fill none w) = (s, some .value) := by
        cases w with
        | none => rfl
        | some w => cases w <;> rfl
      have e2 : fillsOf (Op.fill (none : Option K) w) = [] := by
        cases w with
        | none => rfl
        | some w => cases w <;> rfl
      rw [e]
      exact CStep.noop hs _ (fun _ => by simp [scaleOf]) e2
    | some v =>
      cases w with
      | none =>
        exact (fillCore_cstep hs hsort v one).congr (fun _ => by simp [scaleOf]) (fun _ => by simp [fillsOf])
          (fun _ => by simp [fillsOf])
      | some w =>
        cases w with
        | none => exact CStep.noop hs _ (fun _ => by simp [scaleOf]) rfl
        | some w =>
          exact (fillCore_cstep hs hsort v w).congr (fun _ => by simp [scaleOf]) (fun _ => by simp [fillsOf])
            (fun _ => by simp [fillsOf])
  | fillList vs w =>
    cases w with
    | none =>
      simp only [step, fillList]
      rcases allSome_eq_none_or vs with h | ⟨xs, h⟩
      · rw [h]
        exact CStep.noop hs _ (fun _ => by simp [scaleOf]) (by simp [fillsOf, h])
      · rw [h]
        exact (foldl_fillCore_cstep xs hs hsort).congr (fun _ => by simp [scaleOf]) (fun _ => by simp [fillsOf, h])
          (fun _ => by simp [fillsOf, h])
    | scalar w => exact CStep.noop hs _ (fun _ => by simp [scaleOf]) rfl
    | list ws =>
      simp only [step, fillList]
      by_cases hl : ws.length ≠ vs.length
      · rw [if_pos hl]
        exact CStep.noop hs _ (fun _ => by simp [scaleOf]) (by simp [fillsOf, hl])
      · rw [if_neg hl]
        rcases allSome_eq_none_or vs with h | ⟨xs, h⟩
        · rw [h]
          exact CStep.noop hs _ (fun _ => by simp [scaleOf]) (by simp [fillsOf, hl, h])
        · rw [h]
          exact (fillSeq_cstep (xs.zip ws) hs hsort).congr (fun _ => by simp [scaleOf])
            (fun _ => by simp [fillsOf, hl, h]) (fun _ => by simp [fillsOf, hl, h])
  | scale c =>
    exact (scale_cstep hs c).congr (fun _ => rfl) (fun _ => by simp [fillsOf, binWeight_nil])
      (fun _ => by simp [fillsOf, binWeight_nil])
  | scaleList cs =>
    exact (scaleList_cstep hs cs).congr (fun _ => rfl) (fun _ => by simp [fillsOf, binWeight_nil])
      (fun _ => by simp [fillsOf, binWeight_nil])
  | statErr =>
    exact (statErr_cstep sqrt hs).congr (fun _ => by simp [scaleOf]) (fun _ => by simp [fillsOf, binWeight_nil])
      (fun _ => by simp [fillsOf, binWeight_nil])
  | _ => exact absurd hop (by simp [FillScale])

/-! ### histories of the fragment -/

theorem run_cons (sqrt : K → K) (s : State K) (op : Op K) (ops : List (Op K)) :
    run sqrt s (op :: ops) = run sqrt (step sqrt s op).1 ops := rfl

theorem run_append (sqrt : K → K) (s : State K) (ops ops' : List (Op K)) :
    run sqrt s (ops ++ ops') = run sqrt (run sqrt s ops) ops' := by
  simp [run, List.foldl_append]

theorem run_cstep (sqrt : K → K) (ops : List (Op K)) {s : State K} (hs : Shape s)
    (hsort : s.edges.Pairwise (· < ·)) (hops : ∀ op ∈ ops, FillScale op) :
    CStep s (run sqrt s ops) (fun i => scaleProd s.nBins i ops)
      (fun i => closedContent s.edges s.nBins i ops) (fun i => closedRaw s.edges i ops) := by
  induction ops generalizing s with
  | nil =>
    exact CStep.same hs (fun _ => by simp [scaleProd]) (fun _ => by simp [closedContent])
      (fun _ => by simp [closedRaw])
  | cons op rest ih =>
    rw [run_cons]
    have h1 := step_cstep sqrt hs hsort op (hops op (by simp))
    have h2 := ih h1.shape (h1.edges ▸ hsort) (fun o ho => hops o (List.mem_cons_of_mem _ ho))
    refine (h1.trans h2).congr (fun i => ?_) (fun i => ?_) (fun i => ?_)
    · rw [h1.nBins]; rfl
    · rw [h1.nBins, h1.edges]; rfl
    · rw [h1.edges]; rfl

theorem rowsHave_of_rowsOK {h n : Nat} {a : List (List K)} (ha : RowsOK h n a) : rowsHave n a = true := by
  unfold rowsHave
  simp only [List.all_eq_true, beq_iff_eq]
  exact ha.2

theorem lastRow_append_single {β : Type} (a : List (List β)) (r : List β) : lastRow (a ++ [r]) = r := by
  simp [lastRow]

theorem addHist_eq {s : State K} (hs : Shape s) :
    addHist s =
      ({ s with
          hist := s.hist ++ [List.replicate s.nBins zero],
          raw := s.raw ++ [List.replicate s.nBins zero],
          scal := s.scal ++ [List.replicate s.nBins one],
          err := s.err ++ [List.replicate s.nBins zero],
          sys := s.sys ++ [List.replicate s.nBins zero],
          nHist := s.nHist + 1 }, none) := by
  unfold addHist
  simp [rowsHave_of_rowsOK hs.hist, rowsHave_of_rowsOK hs.raw, rowsHave_of_rowsOK hs.scal,
    rowsHave_of_rowsOK hs.err, rowsHave_of_rowsOK hs.sys]

theorem addHist_shape {s : State K} (hs : Shape s) : Shape (addHist s).1 := by
  rw [addHist_eq hs]
  exact { nh := Nat.le_add_left 1 _, edges := hs.edges,
          hist := hs.hist.append_row _ (by simp), raw := hs.raw.append_row _ (by simp),
          err := hs.err.append_row _ (by simp), scal := hs.scal.append_row _ (by simp),
          sys := hs.sys.append_row _ (by simp) }

theorem addHist_cell {s : State K} (hs : Shape s) (i : Nat) :
    cell (addHist s).1.hist i = 0 ∧ cell (addHist s).1.raw i = 0 ∧
    (addHist s).1.edges = s.edges ∧ (addHist s).1.nBins = s.nBins := by
  rw [addHist_eq hs]
  simp only [cell, lastRow_append_single, zero_eq, and_self, and_true]
  by_cases hi : i < s.nBins <;> simp [List.getD_eq_getElem?_getD, List.getElem?_replicate, hi]

theorem sinceLastAddHist_of_none (ops : List (Op K)) (h : ops.any isAddHist = false) :
    sinceLastAddHist ops = ops := by
  cases ops with
  | nil => rfl
  | cons op rest =>
    simp only [List.any_cons, Bool.or_eq_false_iff] at h
    simp [sinceLastAddHist, h.1, h.2]

theorem isAddHist_of_fillScale {op : Op K} (h : FillScale op) : isAddHist op = false := by
  cases op <;> first | rfl | exact absurd h (by simp [FillScale])

/-- histories of filling, scaling, `statistical_error` and `add_histogram` from any well-shaped state:
the current histogram holds the closed form over the calls since the last `add_histogram` -/
theorem run_fragment (sqrt : K → K) (ops : List (Op K)) {s : State K} (hs : Shape s)
    (hsort : s.edges.Pairwise (· < ·)) (hops : ∀ op ∈ ops, FillScale op ∨ op = .addHist) :
    Shape (run sqrt s ops) ∧ (run sqrt s ops).edges = s.edges ∧ (run sqrt s ops).nBins = s.nBins ∧
    ∀ i, i < s.nBins →
      cell (run sqrt s ops).hist i =
        (if ops.any isAddHist then 0 else cell s.hist i) * scaleProd s.nBins i (sinceLastAddHist ops)
          + closedContent s.edges s.nBins i (sinceLastAddHist ops) ∧
      cell (run sqrt s ops).raw i =
        (if ops.any isAddHist then 0 else cell s.raw i) + closedRaw s.edges i (sinceLastAddHist ops) := by
  induction ops generalizing s with
  | nil =>
    refine ⟨hs, rfl, rfl, fun i _ => ?_⟩
    simp [run, sinceLastAddHist, scaleProd, closedContent, closedRaw]
  | cons op rest ih =>
    rw [run_cons]
    have hrest : ∀ o ∈ rest, FillScale o ∨ o = .addHist := fun o ho => hops o (List.mem_cons_of_mem _ ho)
    rcases hops op (by simp) with hop | hop
    · -- a fill / scale call
      have h1 := step_cstep sqrt hs hsort op hop
      obtain ⟨i1, i2, i3, i4⟩ := ih h1.shape (h1.edges ▸ hsort) hrest
      refine ⟨i1, i2.trans h1.edges, i3.trans h1.nBins, fun i hi => ?_⟩
      have hna := isAddHist_of_fillScale hop
      obtain ⟨c1, c2⟩ := i4 i (h1.nBins ▸ hi)
      rw [h1.nBins, h1.edges] at c1
      rw [h1.edges] at c2
      by_cases hr : rest.any isAddHist = true
      · simp only [sinceLastAddHist, List.any_cons, hr, Bool.or_true, if_true] at c1 c2 ⊢
        exact ⟨c1, c2⟩
      · have hr' : rest.any isAddHist = false := by simpa using hr
        rw [sinceLastAddHist_of_none rest hr'] at c1 c2
        simp only [sinceLastAddHist, List.any_cons, hr', hna, Bool.or_false, if_false, Bool.false_eq_true,
          scaleProd, closedContent, closedRaw] at c1 c2 ⊢
        rw [c1, c2, h1.hist i hi, h1.raw i hi]
        constructor <;> ring
    · -- add_histogram
      subst hop
      have hsh : Shape (step sqrt s .addHist).1 := addHist_shape hs
      have hc := fun i => addHist_cell hs i
      have he : (step sqrt s Op.addHist).1.edges = s.edges := (hc 0).2.2.1
      have hn : (step sqrt s Op.addHist).1.nBins = s.nBins := (hc 0).2.2.2
      obtain ⟨i1, i2, i3, i4⟩ := ih hsh (he ▸ hsort) hrest
      refine ⟨i1, i2.trans he, i3.trans hn, fun i hi => ?_⟩
      obtain ⟨c1, c2⟩ := i4 i (hn ▸ hi)
      rw [hn, he] at c1
      rw [he] at c2
      have z1 : cell (step sqrt s Op.addHist).1.hist i = 0 := (hc i).1
      have z2 : cell (step sqrt s Op.addHist).1.raw i = 0 := (hc i).2.1
      by_cases hr : rest.any isAddHist = true
      · simp only [sinceLastAddHist, List.any_cons, hr, Bool.or_true, if_true] at c1 c2 ⊢
        exact ⟨c1, c2⟩
      · have hr' : rest.any isAddHist = false := by simpa using hr
        rw [sinceLastAddHist_of_none rest hr'] at c1 c2
        simp only [sinceLastAddHist, List.any_cons, hr', isAddHist, Bool.or_false, if_false, if_true,
          Bool.false_eq_true] at c1 c2 ⊢
        rw [c1, c2, z1, z2]
        exact ⟨rfl, rfl⟩

theorem init_shape (edges : List K) (h : edges ≠ []) : Shape (init edges) := by
  have hl : 1 ≤ edges.length := by
    cases edges with
    | nil => exact absurd rfl h
    | cons a r => simp
  exact { nh := le_refl 1, edges := by simp [init]; omega,
          hist := RowsOK.single _ (by simp [init]), raw := RowsOK.single _ (by simp [init]),
          err := RowsOK.single _ (by simp [init]), scal := RowsOK.single _ (by simp [init]),
          sys := RowsOK.single _ (by simp [init]) }

theorem init_cell (edges : List K) (i : Nat) : cell (init edges).hist i = 0 ∧ cell (init edges).raw i = 0 := by
  simp only [cell, init, lastRow, List.getLast?_singleton, Option.getD_some, zero_eq, and_self]
  by_cases hi : i < edges.length - 1 <;> simp [List.getD_eq_getElem?_getD, List.getElem?_replicate, hi]

/-! ### make_density -/

theorem zipWith_div_mul_cancel (l w : List K) (hw : ∀ x ∈ w, x ≠ 0) (h : l.length = w.length) :
    List.zipWith (· * ·) (List.zipWith (· / ·) l w) w = l := by
  induction l generalizing w with
  | nil => simp
  | cons a l ih =>
    cases w with
    | nil => simp at h
    | cons b w =>
      simp only [List.zipWith_cons_cons, List.cons.injEq]
      refine ⟨div_mul_cancel₀ a (hw b (by simp)), ih w (fun x hx => hw x (List.mem_cons_of_mem _ hx)) (by simpa using h)⟩

theorem zipWith_mulRow_density (l w : List K) (sf : K) (hw : ∀ x ∈ w, x ≠ 0) (h : l.length = w.length) :
    List.zipWith (· * ·) (mulRow l (w.map (fun x => sf / x))) w = l.map (· * sf) := by
  induction l generalizing w with
  | nil => simp [mulRow]
  | cons a l ih =>
    cases w with
    | nil => simp at h
    | cons b w =>
      have hb : b ≠ 0 := hw b (by simp)
      simp only [mulRow, List.map_cons, List.zipWith_cons_cons, List.cons.injEq]
      refine ⟨by field_simp, ?_⟩
      exact ih w (fun x hx => hw x (List.mem_cons_of_mem _ hx)) (by simpa using h)

theorem scaleList_eq {s : State K} (hs : Shape s) (cs : List K) (hnn : ∀ c ∈ cs, 0 ≤ c)
    (hlen : cs.length = s.nBins) :
    scaleList s cs =
      ({ s with
          hist := modifyLast (fun r => mulRow r cs) s.hist,
          scal := modifyLast (fun r => mulRow r cs) s.scal,
          err := modifyLast (fun r => mulRow r cs) s.err }, none) := by
  have hl := hs.hist.lastRow_length hs.nh
  have hls := hs.scal.lastRow_length hs.nh
  have hle := hs.err.lastRow_length hs.nh
  have h1 : ¬ (cs.any (fun c => decide (c < (zero : K))) = true) := by
    simp only [List.any_eq_true, decide_eq_true_eq, zero_eq, not_exists, not_and, not_lt]
    exact hnn
  unfold scaleList
  rw [if_neg h1, if_neg (by omega), if_neg (by omega), if_neg (by omega)]

/-- `make_density()` on a current histogram of positive total content -/
theorem makeDensity_spec (sqrt : K → K) {s : State K} (hs : Shape s) (hsort : s.edges.Pairwise (· < ·))
    (hpos : 0 < (lastRow s.hist).sum) :
    (makeDensity sqrt s).2 = none ∧ Shape (makeDensity sqrt s).1 ∧
    (makeDensity sqrt s).1.edges = s.edges ∧ (makeDensity sqrt s).1.nBins = s.nBins ∧
    lastRow (makeDensity sqrt s).1.hist =
      mulRow (lastRow s.hist) ((widths s.edges).map (fun x => 1 / (lastRow s.hist).sum / x)) ∧
    (List.zipWith (· * ·) (lastRow (makeDensity sqrt s).1.hist) (widths s.edges)).sum = 1 := by
  have hl := hs.hist.lastRow_length hs.nh
  have hwl : (widths s.edges).length = s.nBins := by rw [widths_length, hs.edges]; omega
  have hwpos := widths_pos hsort
  have hwne : ∀ x ∈ widths s.edges, x ≠ 0 := fun x hx => ne_of_gt (hwpos x hx)
  have hint : sumL (List.zipWith (· * ·) (List.zipWith (· / ·) (lastRow s.hist) (widths s.edges))
      (widths s.edges)) = (lastRow s.hist).sum := by
    rw [sumL_eq_sum, zipWith_div_mul_cancel _ _ hwne (hl.trans hwl.symm)]
  have hsf : 0 < 1 / (lastRow s.hist).sum := by positivity
  have hs1 := statErr_shape sqrt hs
  rw [statErr_eq sqrt hs] at hs1
  have hcs : ∀ c ∈ (widths s.edges).map (fun x => 1 / (lastRow s.hist).sum / x), 0 ≤ c := by
    intro c hc
    obtain ⟨x, hx, rfl⟩ := List.mem_map.mp hc
    exact le_of_lt (div_pos hsf (hwpos x hx))
  have e : makeDensity sqrt s = scaleList { s with err := s.hist.map (fun r => r.map sqrt) }
      ((widths s.edges).map (fun x => 1 / (lastRow s.hist).sum / x)) := by
    unfold makeDensity
    simp only [hint, statErr_eq sqrt hs, one_eq]
    rw [if_neg (by have := hs.nh; omega), if_neg (by omega),
      if_neg (by rw [Bool.not_eq_true]; cases h : isZero (lastRow s.hist).sum with
        | false => rfl
        | true => exact absurd ((isZero_iff _).mp h) (ne_of_gt hpos))]
  rw [e, scaleList_eq hs1 _ hcs (by simpa using hwl)]
  have hsh := (scaleList_cstep hs1 ((widths s.edges).map (fun x => 1 / (lastRow s.hist).sum / x))).shape
  rw [scaleList_eq hs1 _ hcs (by simpa using hwl)] at hsh
  refine ⟨rfl, hsh, rfl, rfl, ?_, ?_⟩
  · exact lastRow_modifyLast _ (hs.hist.ne_nil hs.nh)
  · show (List.zipWith (· * ·) (lastRow (modifyLast _ s.hist)) (widths s.edges)).sum = 1
    rw [lastRow_modifyLast _ (hs.hist.ne_nil hs.nh),
      zipWith_mulRow_density _ _ _ hwne (hl.trans hwl.symm), List.sum_map_mul_right, List.map_id']
    field_simp

theorem makeDensity_zero (sqrt : K → K) {s : State K} (hs : Shape s) (hsort : s.edges.Pairwise (· < ·))
    (hz : (lastRow s.hist).sum = 0) : makeDensity sqrt s = (s, some .value) := by
  have hl := hs.hist.lastRow_length hs.nh
  have hwl : (widths s.edges).length = s.nBins := by rw [widths_length, hs.edges]; omega
  have hwne : ∀ x ∈ widths s.edges, x ≠ 0 := fun x hx => ne_of_gt (widths_pos hsort x hx)
  have hint : sumL (List.zipWith (· * ·) (List.zipWith (· / ·) (lastRow s.hist) (widths s.edges))
      (widths s.edges)) = (lastRow s.hist).sum := by
    rw [sumL_eq_sum, zipWith_div_mul_cancel _ _ hwne (hl.trans hwl.symm)]
  unfold makeDensity
  simp only [hint]
  rw [if_neg (by have := hs.nh; omega), if_neg (by omega), if_pos ((isZero_iff _).mpr hz)]

end field

end SparkxVerif.Hist
