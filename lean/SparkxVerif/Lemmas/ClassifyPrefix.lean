/-
Observations of a PREFIX of a rendered line (towards C07's byte-granular statement, `Dmg.prefixHyp` / `jprefixHyp`) — the
cheap part: a substring test that fails on a line fails on each of its prefixes, so every keyword flag that is `false` on a
rendered line is `false` on all its prefixes; a non-empty prefix of a line starting with `#` contains `#`; a prefix of a
newline-free line is newline-free.  Consequences: every prefix of a particle line shows no keyword at all; every non-empty
prefix of a SMASH footer satisfies the `end`-line clause of `prefixHyp` (`hasHash ∧ ¬evSkip`) and is never taken for an
`out` line by the scan.  The remaining clauses of `prefixHyp` / `jprefixHyp` (count read from a cut `out` line / event header, cut header lines,
first `out` line) are in `Lemmas/ClassifyPrefixHyp.lean` / `ClassifyPrefixHypJet.lean`; `takeBytes` vs. bytes in
`Lemmas/ClassifyAscii.lean`.
Core Lean only.
-/
import SparkxVerif.Lemmas.ClassifyDamage

set_option linter.unusedSimpArgs false

namespace SparkxVerif.Rd
open SparkxVerif.Str

/-- the first `n` characters of `s` -/
def prefixOf (s : String) (n : Nat) : String := String.ofList (s.toList.take n)

theorem prefixOf_toList (s : String) (n : Nat) : (prefixOf s n).toList = s.toList.take n := by
  simp [prefixOf, String.toList_ofList]

/-- a substring of a prefix is a substring of the line -/
theorem hasSub_of_prefix {s p : String} {n : Nat} (h : hasSub (prefixOf s n) p = true) : hasSub s p = true := by
  rw [hasSub_def, prefixOf_toList] at h
  rw [hasSub_def, ← List.take_append_drop n s.toList]
  exact isInfix_append_of_left _ h

/-- a keyword test that fails on a line fails on every prefix of it -/
theorem hasSub_prefix_false {s p : String} (h : hasSub s p = false) (n : Nat) : hasSub (prefixOf s n) p = false := by
  cases h' : hasSub (prefixOf s n) p with
  | false => rfl
  | true => rw [hasSub_of_prefix h'] at h; cases h

theorem prefix_no_newline {s : String} (h : '\n' ∉ s.toList) (n : Nat) : '\n' ∉ (prefixOf s n).toList := by
  rw [prefixOf_toList]; exact fun hm => h (List.mem_of_mem_take hm)

/-- a non-empty prefix of a line that starts with `#` contains `#` -/
theorem hasHash_prefix {s : String} {r : List Char} (hs : s.toList = '#' :: r) {n : Nat} (hn : 0 < n) :
    (analyse (prefixOf s n)).hasHash = true := by
  show hasSub (prefixOf s n) "#" = true
  rw [hasSub_def, prefixOf_toList, hs]
  obtain ⟨m, rfl⟩ := Nat.exists_eq_succ_of_ne_zero (Nat.pos_iff_ne_zero.mp hn)
  exact isInfix_of_eq [] (r.take m) (by simp)

/-- every prefix of a particle line shows none of the loaders' keywords (so it is never taken for a comment, an event
header, an `out` / `end` line or the trailer) -/
theorem prefix_particle_line_flags {r : List String} (hne : r ≠ []) (h : ∀ t ∈ r, numTok t = true) (n : Nat) :
    let P := analyse (prefixOf (" ".intercalate r) n)
    P.hasHash = false ∧ P.hasEvent = false ∧ P.hasOut = false ∧ P.hasOutSp = false ∧ P.hasInSp = false ∧
    P.hasSpIn = false ∧ P.hasStart = false ∧ P.hasEnd = false ∧ P.hasEndSp = false ∧ P.hasSigma = false ∧
    P.hasWeight = false ∧ P.hasEventCap = false ∧ P.hasNHadrons = false ∧ P.hasNPartons = false := by
  have hl := analyse_particle_line hne h
  have F : ∀ p : String, hasSub (" ".intercalate r) p = false → hasSub (prefixOf (" ".intercalate r) n) p = false :=
    fun p hp => hasSub_prefix_false hp n
  simp only [analyse]
  refine ⟨F _ ?_, F _ ?_, F _ ?_, F _ ?_, F _ ?_, F _ ?_, F _ ?_, F _ ?_, F _ ?_, F _ ?_, F _ ?_, F _ ?_, F _ ?_, F _ ?_⟩
  · exact (congrArg LineF.hasHash hl : _)
  · exact (congrArg LineF.hasEvent hl : _)
  · exact (congrArg LineF.hasOut hl : _)
  · exact (congrArg LineF.hasOutSp hl : _)
  · exact (congrArg LineF.hasInSp hl : _)
  · exact (congrArg LineF.hasSpIn hl : _)
  · exact (congrArg LineF.hasStart hl : _)
  · exact (congrArg LineF.hasEnd hl : _)
  · exact (congrArg LineF.hasEndSp hl : _)
  · exact (congrArg LineF.hasSigma hl : _)
  · exact (congrArg LineF.hasWeight hl : _)
  · exact (congrArg LineF.hasEventCap hl : _)
  · exact (congrArg LineF.hasNHadrons hl : _)
  · exact (congrArg LineF.hasNPartons hl : _)

/-- hence the first clause of `prefixHyp` / the second of `jprefixHyp` (about a count read by the scan) and the `sigmaGen`
clause hold trivially for a cut particle line -/
theorem prefix_particle_line_notScanned {r : List String} (hne : r ≠ []) (h : ∀ t ∈ r, numTok t = true) (n : Nat) :
    let P := analyse (prefixOf (" ".intercalate r) n)
    (P.hasHash && P.hasOutSp && !P.hasEndSp) = false ∧ P.hasSigma = false ∧ (P.hasHash && Dmg.jKey true P) = false ∧
    (P.hasHash && Dmg.jKey false P) = false := by
  obtain ⟨h1, _, _, _, _, _, _, _, _, h10, _⟩ := prefix_particle_line_flags hne h n
  intro P
  have h1' : P.hasHash = false := h1
  have h10' : P.hasSigma = false := h10
  simp [h1', h10']

/-- a cut SMASH footer (any non-empty prefix): still contains its `#`, has not acquired `out` / `in ` / ` start`
(the `end`-line clause of `Dmg.prefixHyp`), and is never taken for an `out` line by the scan (first clause) -/
theorem prefix_footer_endHyp (label : Int) {pad b tail : String} (hpad : pad ∈ [" ", "  ", "   "]) (htail : tail ∈ ["yes", "no"])
    (hb : numTok b = true) {n : Nat} (hn : 0 < n) :
    let P := analyse (prefixOf (footerText label pad b tail) n)
    (P.hasHash && !Dmg.evSkip P) = true ∧ (P.hasHash && P.hasOutSp && !P.hasEndSp) = false := by
  obtain ⟨_, _, _, h3, h4, h5, _, h7, _⟩ := footer_flags label hpad htail hb
  have hs : (footerText label pad b tail).toList = '#' :: (" event ".toList ++ (toString label).toList ++
      " end 0 impact".toList ++ pad.toList ++ b.toList ++ " scattering_projectile_target ".toList ++ tail.toList) := by
    rw [footerText_toList]; simp
  have hh := hasHash_prefix hs hn
  simp only [analyse] at h3 h4 h5 h7 hh
  intro P
  have e1 : P.hasHash = true := hh
  have e2 : P.hasOut = false := hasSub_prefix_false h3 n
  have e3 : P.hasOutSp = false := hasSub_prefix_false h4 n
  have e4 : P.hasInSp = false := hasSub_prefix_false h5 n
  have e5 : P.hasStart = false := hasSub_prefix_false h7 n
  simp [Dmg.evSkip, e1, e2, e3, e4, e5]

/-- a cut `# event L out N` line has not acquired `end` / ` end ` / `in ` / ` start` / `sigmaGen` -/
theorem prefix_out_line_flags (e : OEvent) (n : Nat) :
    let P := analyse (prefixOf (outLineText e) n)
    P.hasEnd = false ∧ P.hasEndSp = false ∧ P.hasInSp = false ∧ P.hasStart = false ∧ P.hasSigma = false := by
  have hl := analyse_out_line e
  have F : ∀ p : String, hasSub (outLineText e) p = false → hasSub (prefixOf (outLineText e) n) p = false :=
    fun p hp => hasSub_prefix_false hp n
  simp only [analyse]
  refine ⟨F _ ?_, F _ ?_, F _ ?_, F _ ?_, F _ ?_⟩
  · exact (congrArg LineF.hasEnd hl : _)
  · exact (congrArg LineF.hasEndSp hl : _)
  · exact (congrArg LineF.hasInSp hl : _)
  · exact (congrArg LineF.hasStart hl : _)
  · exact (congrArg LineF.hasSigma hl : _)

/-- JETSCAPE: a cut event header or particle line does not contain `sigmaGen` (first clause of `Dmg.jprefixHyp` for every
line but the trailer and the free first line) -/
theorem prefix_jet_header_noSigma (partons : Bool) {sep : String} (hsep : sep ∈ ["\t", " "]) (label : Int) (m n : Nat) :
    (analyse (prefixOf (jetHeaderText partons sep label m) n)).hasSigma = false := by
  obtain ⟨_, _, h3, _⟩ := jet_header_line partons hsep label m
  simp only [analyse] at h3 ⊢
  exact hasSub_prefix_false h3 n

end SparkxVerif.Rd
