/-
Tie T for C20: the definitions regenerated from the current source of `JetAnalysis.py` (`Gen/Jets.lean`) are equal
to the hand-written model (`Core/Jets.lean`) for ALL inputs.

  genNormalise       = normalise                       (`__initialize_and_check_parameters`)
  genPseudoJets      = map Part.mom                    (`create_fastjet_PseudoJets`: every particle, in order, (px,py,pz,E))
  genDeltaR          = coneDist                        (the `delta_r` expression; over a commutative ring)
  genFillLoop/genFill = fill                           (`fill_associated_particles`)
  genHoleLoop/genSubtract = holeSum / subtract         (`jet_hole_subtraction`; needs only `a + b = b + a`)
  genJetCells, genPartCells, genReadCols = jetCells, partCells, readCols   (row layout, reader conversions)
  genRowLoop/genWriteJetOutput = partRows / output + writeOut            (`write_jet_output`)
  genJetLoop/genEventLoop/genPerform = jetsLoop / runEvents / perform repaired   (`perform_jet_finding`)
  genReadLoop/genRead = readGo / read                  (`read_jet_data`)

No order or ring axioms are used except commutativity of `+` for the hole sums (so that `E = hole.E + E` is the same
function) and a commutative ring for the `delta_r` formula.  The proof scripts do not mention the names of the source's
locals and close every step by case analysis + `simp` / `tauto` / `ring1`, so renamed locals, hoisted sub-expressions,
reordered independent statements, flipped `if`/`else` and commuted `and`/`or`/`+` operands are re-proved.
-/
import SparkxVerif.Lemmas.Jets
import SparkxVerif.Lemmas.Num
import SparkxVerif.Gen.Jets
import Mathlib.Tactic.Tauto
import Mathlib.Tactic.Ring
import Mathlib.Algebra.Ring.Defs

set_option linter.unusedSectionVars false
set_option linter.unusedVariables false
set_option linter.unusedSimpArgs false
set_option linter.unreachableTactic false
set_option linter.unusedTactic false

namespace SparkxVerif.JetsGen
open SparkxVerif SparkxVerif.Jets SparkxVerif.Gen.Jets

/-! ### `__initialize_and_check_parameters` -/

section norm
variable {α : Type} [LT α] [LE α] [DecidableLT α] [DecidableLE α] [NatCast α]

/-- **Tie T, parameter validation and normalisation.** -/
theorem genNormalise_eq (r : Raw α) : genNormalise r = normalise r := by
  obtain ⟨R, ea, eb, pa, pb, oc⟩ := r
  have hz : ((0 : Nat) : α) = zero := rfl
  cases ea <;> cases eb <;> cases pa <;> cases pb <;>
    simp only [genNormalise, normalise, etaRange, ptRange, isNeg, hz, List.any_cons, List.any_nil,
      Bool.or_false, Bool.false_or, Bool.or_eq_true, Bool.and_eq_true, Bool.not_eq_true', decide_eq_true_eq,
      decide_eq_false_iff_not, ge_iff_le, gt_iff_lt] <;>
    (repeat' split) <;> (try simp_all [Ext.ltb, Ext.leb]) <;> (try tauto)

end norm

/-! ### `create_fastjet_PseudoJets` -/

/-- every particle of the event goes into the clustering, in order, as `PseudoJet(px, py, pz, E)` -/
theorem genPseudoJets_eq {α : Type} (ps : List (Part α)) : genPseudoJets ps = ps.map Part.mom := by
  unfold genPseudoJets
  apply List.map_congr_left
  intro p _
  first
    | rfl
    | (cases p; rename_i m; cases m; rfl)

/-! ### the `delta_r` expression -/

section deltar
variable {K : Type} [CommRing K]

/-- **Tie T, cone distance**: the generated `delta_r` is `sqrt(Delta eta ^ 2 + Delta phi ^ 2)` of the particle's
four-momentum (`PseudoJet(px, py, pz, E)`) and the jet, for any `sqrt`, `eta()`, `delta_phi_to(jet)` -/
theorem genDeltaR_eq (sqrt : K → K) (fjEta fjDphi : Mom K → K) (jetEta : K) (t : Triple K) :
    genDeltaR sqrt fjEta fjDphi jetEta t = coneDist sqrt (fjEta t.2.1.mom) jetEta (fjDphi t.2.1.mom) := by
  obtain ⟨i, ⟨st, ch, ⟨px, py, pz, e⟩⟩, d⟩ := t
  simp only [genDeltaR, coneDist, npow_eq_pow] <;>
  first
    | rfl
    | (congr 1 <;> ring1)

end deltar

/-! ### `fill_associated_particles` -/

section fill
variable {α : Type} [LT α] [DecidableLT α]

/-- result of the model's loop, prefixed by what the generated loop has accumulated so far -/
def withAcc (acc : List (Triple α)) : Except Err (List (Triple α)) → Except Err (List (Triple α))
  | .error e => .error e
  | .ok r => .ok (acc ++ r)

theorem genFillLoop_eq (R : α) (sel : Sel) (only : Bool) (ts : List (Triple α)) :
    ∀ acc : List (Triple α), genFillLoop R sel only ts acc = withAcc acc (fill R sel only ts) := by
  induction ts with
  | nil => intro acc; simp [genFillLoop, fill, withAcc]
  | cons t ts ih =>
    intro acc
    cases hs : t.2.1.status with
    | none => simp [genFillLoop, fill, withAcc, hs]
    | some s =>
      simp only [genFillLoop, fill, hs, ih, skip]
      cases hf : fill R sel only ts <;> cases sel <;> cases only <;> cases hc : t.2.1.charged <;>
        rcases (by omega : ((0 : Int) ≤ s ∧ ¬ s < 0) ∨ (¬ (0 : Int) ≤ s ∧ s < 0)) with ⟨h1, h1'⟩ | ⟨h1, h1'⟩ <;>
        by_cases h2 : t.2.2 < R <;>
        simp [withAcc, h1, h1', h2, hf, hc, List.append_assoc] <;> (try omega) <;> (try tauto)

/-- **Tie T, cone association.** -/
theorem genFill_eq (R : α) (sel : Sel) (only : Bool) (ts : List (Triple α)) :
    genFill R sel only ts = fill R sel only ts := by
  unfold genFill
  rw [genFillLoop_eq]
  cases fill R sel only ts <;> simp [withAcc]

end fill

/-! ### `jet_hole_subtraction` -/

section holes
variable {α : Type} [Add α] [Sub α] [NatCast α]

/-- the four running sums, components in the order px, py, pz, E -/
def holeAcc : List (Triple α) → α → α → α → α → α × α × α × α
  | [], a, b, c, d => (a, b, c, d)
  | h :: hs, a, b, c, d => holeAcc hs (a + h.2.1.mom.px) (b + h.2.1.mom.py) (c + h.2.1.mom.pz) (d + h.2.1.mom.e)

omit [Sub α] [NatCast α] in
theorem genHoleLoop_eq (hadd : ∀ a b : α, a + b = b + a) (hs : List (Triple α)) :
    ∀ a b c d : α, genHoleLoop hs a b c d = holeAcc hs a b c d := by
  induction hs with
  | nil => intro a b c d; rfl
  | cons h hs ih =>
    intro a b c d
    simp only [genHoleLoop, holeAcc, ih] <;>
    first
      | rfl
      | (congr 1 <;> first | rfl | exact hadd _ _)
      | (simp only [hadd]; done)
      | (simp only [hadd _ a, hadd _ b, hadd _ c, hadd _ d])

omit [Sub α] [NatCast α] in
theorem holeAcc_foldl (hs : List (Triple α)) : ∀ a b c d : α,
    holeAcc hs a b c d =
      ((hs.foldl (fun acc t => addMom acc t.2.1.mom) ⟨a, b, c, d⟩).px,
       (hs.foldl (fun acc t => addMom acc t.2.1.mom) ⟨a, b, c, d⟩).py,
       (hs.foldl (fun acc t => addMom acc t.2.1.mom) ⟨a, b, c, d⟩).pz,
       (hs.foldl (fun acc t => addMom acc t.2.1.mom) ⟨a, b, c, d⟩).e) := by
  induction hs with
  | nil => intro a b c d; rfl
  | cons h hs ih => intro a b c d; simp only [holeAcc, List.foldl_cons, ih, addMom]

/-- **Tie T, hole subtraction**: accumulate from `0.0` left to right, then subtract component by component.  The only
law used is `a + b = b + a` (true of IEEE doubles as well). -/
theorem genSubtract_eq (hadd : ∀ a b : α, a + b = b + a) (m : Mom α) (hs : List (Triple α)) :
    genSubtract m hs = subtract m hs := by
  have hz : ((0 : Nat) : α) = zero := rfl
  simp only [genSubtract, genHoleLoop_eq hadd, holeAcc_foldl, subtract, holeSum, hz]

end holes

/-! ### `write_jet_output` -/

section write
variable {α : Type}

/-- **Tie T, layout of the jet line** -/
theorem genJetCells_eq (ev : Nat) (m : Mom α) : genJetCells ev m = jetCells ev m := by
  first
    | rfl
    | (cases m; rfl)

/-- **Tie T, layout of the line of an associated particle** -/
theorem genPartCells_eq (i ev : Nat) (t : Triple α) : genPartCells i ev t = partCells i ev t := by
  first
    | rfl
    | (obtain ⟨k, ⟨st, ch, ⟨px, py, pz, e⟩⟩, d⟩ := t; rfl)

theorem genRowLoop_eq (ev : Nat) (ts : List (Triple α)) :
    ∀ (i : Nat) (acc : List (Row α)), genRowLoop ev ts i acc = acc ++ partRows ev i ts := by
  induction ts with
  | nil => intro i acc; simp [genRowLoop, partRows]
  | cons t ts ih => intro i acc; simp [genRowLoop, partRows, ih, List.append_assoc]

variable [LT α] [LE α] [DecidableLT α] [DecidableLE α] [Add α] [Sub α] [Mul α] [NatCast α]

/-- **Tie T, `write_jet_output`**: upper pT cut on the jet it is handed, jet line + numbered particle lines, mode `"w"`
iff `new_file`, returns `False` -/
theorem genWriteJetOutput_eq (sqrt : α → α) (P : Params α) (f : FS α) (m : Mom α) (assoc : List (Triple α))
    (ev : Nat) (nf : Bool) :
    genWriteJetOutput sqrt P f m assoc ev nf = (writeOut f nf (output sqrt P ev m assoc), false) := by
  unfold genWriteJetOutput output writeOut
  cases nf <;> by_cases h : (Ext.fin (perp sqrt m)).ltb P.ptHi = true <;>
    simp [h, genRowLoop_eq, FS.writeRows]

end write

/-! ### `perform_jet_finding` -/

section perform
variable {α : Type} [LT α] [LE α] [DecidableLT α] [DecidableLE α] [Add α] [Sub α] [Mul α] [NatCast α]

/-- the file component of what the generated jet loop returns -/
def sndE {β γ : Type} : Except Err (β × γ) → Except Err γ
  | .error e => .error e
  | .ok p => .ok p.2

theorem genJetLoop_eq (hadd : ∀ a b : α, a + b = b + a) (sqrt : α → α) (P : Params α) (ev : Event α) (i : Nat)
    (js : List (Jet α)) : ∀ (nf : Bool) (f : FS α),
      sndE (genJetLoop sqrt P ev i js nf f) = jetsLoop repaired sqrt P i ev nf f js := by
  induction js with
  | nil => intro nf f; simp [genJetLoop, jetsLoop, sndE]
  | cons j js ih =>
    intro nf f
    simp only [genJetLoop, jetsLoop, repaired, Bool.false_and, genFill_eq, genSubtract_eq hadd,
      genWriteJetOutput_eq]
    cases fill P.R Sel.negative false (triples ev.parts j.dr) with
    | error e => simp [sndE]
    | ok holes =>
      cases fill P.R Sel.positive P.onlyCharged (triples ev.parts j.dr) with
      | error e => simp [sndE]
      | ok assoc =>
        simp only [genWriteJetOutput_eq, genSubtract_eq hadd]
        exact ih false _

theorem selected_eq (P : Params α) (ev : Event α) :
    fjSelectEta P.etaLo P.etaHi (fjJets ev P.ptLo) = selected P ev := by
  simp [fjSelectEta, fjJets, selected, ptOk, etaOk]

theorem genEventLoop_eq (hadd : ∀ a b : α, a + b = b + a) (sqrt : α → α) (P : Params α) (evs : List (Event α)) :
    ∀ (i : Nat) (f : FS α), genEventLoop sqrt P evs i f = runEvents repaired sqrt P i f evs := by
  induction evs with
  | nil => intro i f; simp [genEventLoop, runEvents]
  | cons ev evs ih =>
    intro i f
    have hnf : (if decide (i = 0) then true else false) = decide (i = 0) := by
      by_cases h : i = 0 <;> simp [h]
    simp only [genEventLoop, runEvents, selected_eq, ← genJetLoop_eq hadd]
    first
      | (rw [hnf]; cases genJetLoop sqrt P ev i (selected P ev) (decide (i = 0)) f <;> simp [sndE, ih])
      | (cases genJetLoop sqrt P ev i (selected P ev) (decide (i = 0)) f <;> simp [sndE, ih])
      | (by_cases h : i = 0 <;> simp only [h, decide_true, decide_false, if_true, if_false] <;>
          (rename_i x; cases genJetLoop sqrt P ev _ (selected P ev) _ f <;> simp [sndE, ih]))

/-- **Tie T, `perform_jet_finding`**: validation, truncation of the output file before the event loop, per event the
pT lower bound and the eta selector on what fastjet delivers, per jet holes (`only_charged=False`) / associated
particles / subtraction / write with the `new_file` flag — equal to the repaired model for every input -/
theorem genPerform_eq (hadd : ∀ a b : α, a + b = b + a) (sqrt : α → α) (raw : Raw α) (prior : FS α)
    (evs : List (Event α)) :
    genPerform sqrt raw prior evs = perform repaired sqrt raw prior evs := by
  unfold genPerform perform
  rw [genNormalise_eq]
  cases normalise raw with
  | error e => rfl
  | ok P =>
    simp only [genEventLoop_eq hadd, FS.writeRows, repaired, if_true]
    cases runEvents ⟨true, false⟩ sqrt P 0 (some []) evs <;> rfl

end perform

/-! ### `read_jet_data` -/

section reader
variable {ρ : Type} (idx : ρ → Nat)

/-- the flush after the loop: `if current_jet: jet_data.append(current_jet)` -/
def flush (p : List ρ × List (List ρ)) : List (List ρ) := if p.1.isEmpty then p.2 else p.2 ++ [p.1]

theorem genReadLoop_eq (rows : List ρ) : ∀ (cur : List ρ) (acc : List (List ρ)),
    flush (genReadLoop idx rows cur acc) = readGo idx rows cur acc := by
  induction rows with
  | nil => intro cur acc; simp [genReadLoop, readGo, flush]
  | cons r rs ih =>
    intro cur acc
    simp only [genReadLoop, readGo]
    have hc : (0 = idx r) = (idx r = 0) := propext eq_comm
    by_cases h0 : idx r = 0 <;> cases cur <;> simp [h0, hc, ih]

/-- **Tie T, `read_jet_data`** (grouping) -/
theorem genRead_eq (rows : List ρ) : genRead idx rows = Jets.read idx rows := by
  unfold genRead Jets.read
  rw [← genReadLoop_eq]
  generalize genReadLoop idx rows [] [] = p
  obtain ⟨c, d⟩ := p
  cases c <;> simp [flush]

/-- **Tie T, `read_jet_data`** (conversions): `int`/`float` of the columns 0..7 in order -/
theorem genReadCols_eq : genReadCols = readCols := by
  first
    | rfl
    | decide

end reader

end SparkxVerif.JetsGen
