/-
Helper lemmas for C10: sessions on one long-lived object (`Core/HistSession.lean`) — the k-th observation
of a session is the call made in the state reached by the mutating calls before it; the geometry accessors
in terms of the current edges; what `remove_bin` / `add_bin` do to the edges.  No property statements here.
-/
import SparkxVerif.Core.HistSession
import SparkxVerif.Lemmas.HistWrite

set_option linter.unusedSectionVars false
set_option linter.unusedSimpArgs false

namespace SparkxVerif.Hist

section any
variable {α : Type} [Add α] [Sub α] [Mul α] [Div α] [NatCast α]
  [LE α] [LT α] [DecidableLE α] [DecidableLT α]

theorem opsOf_append (a b : List (Call α)) : opsOf (a ++ b) = opsOf a ++ opsOf b := by
  induction a with
  | nil => rfl
  | cons c r ih => cases c <;> simp [opsOf, ih]

theorem trace_length (sqrt : α → α) (s : State α) (cs : List (Call α)) : (trace sqrt s cs).length = cs.length := by
  induction cs generalizing s with
  | nil => rfl
  | cons c r ih => simp [trace, ih]

/-- the state a call leaves = the state its mutating part leaves -/
theorem call_state (sqrt : α → α) (s : State α) (c : Call α) (ops : List (Op α)) :
    run sqrt (call sqrt s c).1 ops = run sqrt s (opsOf [c] ++ ops) := by
  cases c <;> simp [call, opsOf, run]

/-- the observation at position `pre.length` of a session is the call made in the state reached by the
mutating calls of `pre` alone -/
theorem trace_getElem? (sqrt : α → α) (s : State α) (pre : List (Call α)) (c : Call α) (post : List (Call α)) :
    (trace sqrt s (pre ++ c :: post))[pre.length]? = some (call sqrt (run sqrt s (opsOf pre)) c) := by
  induction pre generalizing s with
  | nil => simp [trace, opsOf, run]
  | cons d pre ih =>
    have e : run sqrt (call sqrt s d).1 (opsOf pre) = run sqrt s (opsOf (d :: pre)) := by
      rw [call_state]
      rw [← opsOf_append]
      rfl
    simp only [List.cons_append, trace, List.length_cons, List.getElem?_cons_succ]
    rw [ih, e]

/-- the state after a whole session is the state after its mutating calls -/
theorem trace_last_state (sqrt : α → α) (s : State α) (pre : List (Call α)) (c : Call α) :
    (trace sqrt s (pre ++ [c])).getLast?.map (·.1) = some (run sqrt s (opsOf (pre ++ [c]))) := by
  have h := trace_getElem? sqrt s pre c []
  have hl : (trace sqrt s (pre ++ [c])).length = pre.length + 1 := by simp [trace_length]
  rw [List.getLast?_eq_getElem?, hl, Nat.add_sub_cancel, h, Option.map_some]
  congr 1
  rw [opsOf_append]
  have h2 := call_state sqrt (run sqrt s (opsOf pre)) c []
  rw [List.append_nil] at h2
  exact h2.trans (by simp [run, List.foldl_append])

end any

section field
variable {K : Type} [Field K] [LinearOrder K] [IsStrictOrderedRing K]

/-! ### the geometry accessors, from the current edges -/

theorem boundsLeft_length (es : List K) : (boundsLeft es).length = es.length - 1 := by simp [boundsLeft]
theorem boundsRight_length (es : List K) : (boundsRight es).length = es.length - 1 := by simp [boundsRight]

theorem boundsLeft_getElem? (es : List K) (i : Nat) (hi : i + 1 < es.length) :
    (boundsLeft es)[i]? = some (es.getD i 0) := by
  have : i < es.length := by omega
  simp [boundsLeft, List.getElem?_dropLast, List.getD_eq_getElem?_getD, this, hi]

theorem boundsRight_getElem? (es : List K) (i : Nat) (hi : i + 1 < es.length) :
    (boundsRight es)[i]? = some (es.getD (i + 1) 0) := by
  simp [boundsRight, List.getD_eq_getElem?_getD, hi]

theorem centers_getElem?_getD (es : List K) (i : Nat) (hi : i + 1 < es.length) :
    (centers es)[i]? = some ((es.getD i 0 + es.getD (i + 1) 0) / 2) := by
  have : i < es.length := by omega
  rw [centers_getElem? es i hi]
  simp [List.getD_eq_getElem?_getD, hi, this]

theorem widths_getElem?_getD (es : List K) (i : Nat) (hi : i + 1 < es.length) :
    (widths es)[i]? = some (es.getD (i + 1) 0 - es.getD i 0) := by
  have : i < es.length := by omega
  rw [widths_getElem? es i hi]
  simp [List.getD_eq_getElem?_getD, hi, this]

/-- in a well-shaped state every geometry accessor has one entry per bin, computed from the edges of
that state -/
theorem geometry_of_shape {s : State K} (hs : Shape s) :
    (centers s.edges).length = s.nBins ∧ (widths s.edges).length = s.nBins ∧
    (boundsLeft s.edges).length = s.nBins ∧ (boundsRight s.edges).length = s.nBins ∧
    ∀ i, i < s.nBins →
      (centers s.edges)[i]? = some ((s.edges.getD i 0 + s.edges.getD (i + 1) 0) / 2) ∧
      (widths s.edges)[i]? = some (s.edges.getD (i + 1) 0 - s.edges.getD i 0) ∧
      (boundsLeft s.edges)[i]? = some (s.edges.getD i 0) ∧
      (boundsRight s.edges)[i]? = some (s.edges.getD (i + 1) 0) := by
  have he := hs.edges
  refine ⟨by rw [centers_length, he]; rfl, by rw [widths_length, he]; rfl,
    by rw [boundsLeft_length, he]; rfl, by rw [boundsRight_length, he]; rfl, ?_⟩
  intro i hi
  have h : i + 1 < s.edges.length := by omega
  exact ⟨centers_getElem?_getD _ i h, widths_getElem?_getD _ i h, boundsLeft_getElem? _ i h,
    boundsRight_getElem? _ i h⟩

/-! ### what the bin surgery does to the edges -/

theorem removeBin_of_ok (s : State K) (i : Int) (h : (removeBin s i).2 = none) :
    (removeBin s i).1.edges = s.edges.eraseIdx i.toNat ∧ (removeBin s i).1.nBins = s.nBins - 1 ∧
    (removeBin s i).1.nHist = s.nHist := by
  unfold removeBin at h ⊢
  simp only at h ⊢
  split_ifs at h ⊢
  simp_all

theorem addBin_of_ok (s : State K) (i : Int) (e : K) (h : (addBin s i e).2 = none) :
    (addBin s i e).1.edges = s.edges.insertIdx i.toNat e ∧ (addBin s i e).1.nBins = s.nBins + 1 ∧
    (addBin s i e).1.nHist = s.nHist := by
  unfold addBin at h ⊢
  simp only at h ⊢
  split_ifs at h ⊢
  simp_all

end field

end SparkxVerif.Hist
