/-
C05 — the reader side: what `readOscar` / `readJetscape` do when an event filter is supplied, *relative to* what
they do without one (a simulation between the two runs of the same line loop on the same lines).

No assumption on the file is needed beyond "the plain load succeeds and its counts describe its events": the
two runs classify every line identically, build the same `data`, and differ only at the end of an event
(`closeEvent`): the plain run appends `data`; the filtered run appends the filtered event and rewrites its row,
or — when the filters emptied an event that had particles — drops it, deletes its row and decrements the later
labels.  No Mathlib.
-/
import SparkxVerif.Core.Dispatch

namespace SparkxVerif.Dsp
open SparkxVerif.Flt SparkxVerif.Rd

theorem bind_eq_ok {ε β γ : Type} {x : Except ε β} {f : β → Except ε γ} {b : γ} :
    (x >>= f) = .ok b ↔ ∃ a, x = .ok a ∧ f a = .ok b := by
  cases x with
  | error e => simp [bind, Except.bind]
  | ok a => simp [bind, Except.bind]

/-- what the loader does with a closed event when constructor filters are given: the filtered event, or
nothing when the filters emptied an event that had particles -/
def keepOf (E : List PLine → List PLine) (e : List PLine) : Option (List PLine) :=
  if (E e).length != 0 || e.length == 0 then some (E e) else none

/-- the counts array while reading with filters: rows `R1` of the events already appended, rows `R2` still
to come; `np.array([])` once the last row has been deleted -/
def CInv (c : Counts) (R1 R2 : List (Int × Int)) : Prop :=
  c = .arr2d (R1 ++ R2) ∨ (c = .empty ∧ R1 = [] ∧ R2 = [])

def cntCol (c : Counts) : List Int := (rowsOf c).map (·.2)

theorem closeEvent_none (st : LoopSt) (lb : Int) :
    closeEvent st none lb = .ok { st with plist := st.plist ++ [st.data], data := [] } := by
  have h : (st.data.length != 0 || st.data.length == 0) = true := by
    cases hd : st.data.length <;> simp
  simp only [closeEvent, h, if_true, bind, Except.bind, pure, Except.pure]

theorem closeEvent_some (st : LoopSt) (ef : EvFilter) (E : List PLine → List PLine) (lb : Int)
    (R1 R2 : List (Int × Int)) (r : Int × Int)
    (hef : ef st.data = .ok (E st.data))
    (hc : CInv st.counts R1 (r :: R2)) (hl : R1.length = st.plist.length) :
    ∃ st' R1' R2', closeEvent st (some ef) lb = .ok st' ∧
      st'.plist = st.plist ++ (keepOf E st.data).toList ∧ st'.data = [] ∧
      st'.cut = st.cut + (if (keepOf E st.data).isSome then 0 else 1) ∧
      CInv st'.counts R1' R2' ∧ R1'.length = st'.plist.length ∧
      R1'.map (·.2) = R1.map (·.2) ++ ((keepOf E st.data).toList.map (fun d => (d.length : Int))) ∧
      R2'.map (·.2) = R2.map (·.2) ∧ R2'.length = R2.length := by
  have hcounts : st.counts = .arr2d (R1 ++ r :: R2) := by
    rcases hc with h | ⟨_, _, h⟩
    · exact h
    · cases h
  unfold closeEvent keepOf
  by_cases hk : ((E st.data).length != 0 || st.data.length == 0) = true
  · -- the event stays: its row is rewritten
    have hlt : st.plist.length < (R1 ++ r :: R2).length := by simp [← hl]
    refine ⟨{ st with plist := st.plist ++ [E st.data], data := [], counts := .arr2d ((R1 ++ r :: R2).set st.plist.length ((st.plist.length : Int) + lb, ((E st.data).length : Int))) },
            R1 ++ [((st.plist.length : Int) + lb, ((E st.data).length : Int))], R2, ?_, ?_, rfl, ?_, ?_, ?_, ?_, rfl, rfl⟩
    · simp only [hef, hcounts, setRow, hlt, hk, if_true, bind, Except.bind, pure, Except.pure]
    · simp [hk]
    · simp [hk]
    · left
      have : (R1 ++ r :: R2).set st.plist.length ((st.plist.length : Int) + lb, ((E st.data).length : Int))
          = (R1 ++ [((st.plist.length : Int) + lb, ((E st.data).length : Int))]) ++ R2 := by
        rw [← hl, List.set_append_right _ _ (Nat.le_refl _)]
        simp
      simp [this]
    · simp [hl]
    · simp [hk]
  · -- the filters emptied the event: its row is deleted, later labels decrease
    have hk' : ((E st.data).length != 0 || st.data.length == 0) = false := by simpa using hk
    have hlt : st.plist.length < (R1 ++ r :: R2).length := by simp [← hl]
    have herase : (R1 ++ r :: R2).eraseIdx st.plist.length = R1 ++ R2 := by
      rw [← hl, List.eraseIdx_append_of_length_le (Nat.le_refl _)]
      simp
    by_cases hemp : (R1 ++ R2).isEmpty = true
    · have h12 : R1 = [] ∧ R2 = [] := by simpa using hemp
      refine ⟨{ st with data := [], counts := .empty, cut := st.cut + 1 }, [], [], ?_, ?_, rfl, ?_, ?_, ?_, ?_, ?_, ?_⟩
      · simp only [hef, hcounts, deleteRow, hlt, herase, hemp, hk', if_true, bind, Except.bind, pure, Except.pure]
        rfl
      · simp [hk']
      · simp [hk']
      · right; exact ⟨rfl, rfl, rfl⟩
      · simp [← hl, h12.1]
      · simp [hk', h12.1]
      · simp [h12.2]
      · simp [h12.2]
    · have hemp' : (R1 ++ R2).isEmpty = false := by simpa using hemp
      refine ⟨{ st with data := [], cut := st.cut + 1, counts := .arr2d (((R1 ++ R2).take st.plist.length) ++ ((R1 ++ R2).drop st.plist.length).map (fun q => (q.1 - 1, q.2))) },
              R1, R2.map (fun q => (q.1 - 1, q.2)), ?_, ?_, rfl, ?_, ?_, hl, ?_, ?_, ?_⟩
      · simp only [hef, hcounts, deleteRow, hlt, herase, hemp', hk', if_true, bind, Except.bind, pure, Except.pure]
        rfl
      · simp [hk']
      · simp [hk']
      · left
        rw [← hl]
        simp
      · simp [hk']
      · simp [Function.comp_def]
      · simp

theorem oscarLoop_succ_cons (fmt : Fmt) (attrs : List String) (filt : Option EvFilter) (fl : Int)
    (n lineNo : Nat) (first : Bool) (l : LineF) (ls : List LineF) (st : LoopSt) :
    oscarLoop fmt attrs filt fl (n + 1) lineNo first (l :: ls) st =
      if first && !l.hasHash && !l.hasOut then .error .value
      else if l.hasEvent && (l.hasOut || l.hasInSp || l.hasStart) then
        oscarLoop fmt attrs filt fl n (lineNo + 1) false ls st
      else if l.hasHash && l.hasEnd then
        (closeEvent st filt fl) >>= fun st' => oscarLoop fmt attrs filt fl n (lineNo + 1) false ls st'
      else if l.hasHash then .error .value
      else if !colsOk fmt l.toks.length then .error .value
      else if !fieldsOk (colKinds fmt attrs l.toks.length) l.toks then .error .value
      else oscarLoop fmt attrs filt fl n (lineNo + 1) false ls { st with data := st.data ++ [⟨lineNo, l.toks⟩] } := by
  rfl

/-- what the filtered run does, given what the plain run did -/
def SimConcl (ef : EvFilter) (E : List PLine → List PLine) (news : List (List PLine))
    (run : LoopSt → Except Rd.Err LoopSt) (s0 : LoopSt) : Prop :=
  ∀ (s1 : LoopSt) (R1 R2 : List (Int × Int)),
    s1.data = s0.data → CInv s1.counts R1 R2 → R1.length = s1.plist.length →
    news.length ≤ R2.length → (∀ e ∈ news, ef e = .ok (E e)) →
    ∃ s1', run s1 = .ok s1' ∧
      s1'.plist = s1.plist ++ news.filterMap (keepOf E) ∧
      s1'.cut + ((news.filterMap (keepOf E)).length : Int) = s1.cut + (news.length : Int) ∧
      cntCol s1'.counts = R1.map (·.2) ++ (news.filterMap (keepOf E)).map (fun d => (d.length : Int))
        ++ (R2.drop news.length).map (·.2)

theorem cntCol_of_CInv {c : Counts} {R1 R2 : List (Int × Int)} (h : CInv c R1 R2) :
    cntCol c = R1.map (·.2) ++ R2.map (·.2) := by
  rcases h with h | ⟨h, h1, h2⟩
  · simp [h, cntCol, rowsOf]
  · simp [h, h1, h2, cntCol, rowsOf]

theorem sim_congr {ef : EvFilter} {E : List PLine → List PLine} {news : List (List PLine)}
    {run run' : LoopSt → Except Rd.Err LoopSt} {s0 : LoopSt} (h : ∀ s, run' s = run s)
    (hs : SimConcl ef E news run s0) : SimConcl ef E news run' s0 := by
  intro s1 R1 R2 hd hc hl hle hef
  obtain ⟨s1', hr, rest⟩ := hs s1 R1 R2 hd hc hl hle hef
  exact ⟨s1', by rw [h]; exact hr, rest⟩

theorem sim_nil (ef : EvFilter) (E : List PLine → List PLine) (s0 : LoopSt) :
    SimConcl ef E [] (fun s => .ok s) s0 := by
  intro s1 R1 R2 _ hc _ _ _
  refine ⟨s1, rfl, by simp, by simp, ?_⟩
  simp [cntCol_of_CInv hc]

/-- a particle line: both runs append the same particle to `data` -/
theorem sim_data {ef : EvFilter} {E : List PLine → List PLine} {news : List (List PLine)}
    {run : LoopSt → Except Rd.Err LoopSt} {s0 : LoopSt} (x : PLine)
    (hs : SimConcl ef E news run { s0 with data := s0.data ++ [x] }) :
    SimConcl ef E news (fun s1 => run { s1 with data := s1.data ++ [x] }) s0 := by
  intro s1 R1 R2 hd hc hl hle hef
  exact hs { s1 with data := s1.data ++ [x] } R1 R2 (by simp [hd]) hc hl hle hef

/-- an event ends: the plain run appends `data`; the filtered run appends the filtered event or drops it -/
theorem sim_close {ef : EvFilter} {E : List PLine → List PLine} {news : List (List PLine)}
    {run : LoopSt → Except Rd.Err LoopSt} {s0 : LoopSt} (fl : Int)
    (hs : SimConcl ef E news run { s0 with plist := s0.plist ++ [s0.data], data := [] }) :
    SimConcl ef E (s0.data :: news) (fun s1 => closeEvent s1 (some ef) fl >>= run) s0 := by
  intro s1 R1 R2 hd hc hl hle hef
  cases R2 with
  | nil => simp at hle
  | cons r R2 =>
    have hef0 : ef s1.data = .ok (E s1.data) := by rw [hd]; exact hef _ (by simp)
    obtain ⟨s1c, R1', R2', hclose, hpl, hdat, hcut, hinv, hlen, hR1, hR2, hR2l⟩ :=
      closeEvent_some s1 ef E fl R1 R2 r hef0 hc hl
    obtain ⟨s1', hr, h1, h2, h3⟩ := hs s1c R1' R2' (by simp [hdat]) hinv hlen
      (by simp at hle; omega) (fun e he => hef e (by simp [he]))
    refine ⟨s1', ?_, ?_, ?_, ?_⟩
    · simp only [hclose]; exact hr
    · rw [h1, hpl, hd]
      cases hk : keepOf E s0.data <;> simp [hk]
    · rw [hd] at hcut
      cases hk : keepOf E s0.data <;> simp [hk] at hcut ⊢ <;> omega
    · rw [h3, hR1, hd]
      have : (R2'.drop news.length).map (·.2) = (R2.drop news.length).map (·.2) := by
        rw [List.map_drop, List.map_drop, hR2]
      rw [this]
      cases hk : keepOf E s0.data <;> simp [hk]

theorem oscarLoop_sim (ef : EvFilter) (E : List PLine → List PLine) (fmt : Fmt) (attrs : List String) (fl : Int) :
    ∀ (n lineNo : Nat) (first : Bool) (lines : List LineF) (s0 s0' : LoopSt),
      oscarLoop fmt attrs none fl n lineNo first lines s0 = .ok s0' →
      ∃ news, s0'.plist = s0.plist ++ news ∧ s0'.counts = s0.counts ∧ s0'.cut = s0.cut ∧
        SimConcl ef E news (oscarLoop fmt attrs (some ef) fl n lineNo first lines) s0 := by
  intro n
  induction n with
  | zero =>
    intro lineNo first lines s0 s0' h
    have : s0' = s0 := by
      cases lines <;> simp [oscarLoop] at h <;> exact h.symm
    subst this
    exact ⟨[], by simp, rfl, rfl, sim_congr (by intro s; cases lines <;> rfl) (sim_nil ef E s0')⟩
  | succ n ih =>
    intro lineNo first lines s0 s0' h
    cases lines with
    | nil => simp [oscarLoop] at h
    | cons l ls =>
      rw [oscarLoop_succ_cons] at h
      cases c1 : (first && !l.hasHash && !l.hasOut) with
      | true => simp [c1] at h
      | false =>
      simp only [c1, Bool.false_eq_true, if_false] at h
      cases c2 : (l.hasEvent && (l.hasOut || l.hasInSp || l.hasStart)) with
      | true =>
        simp only [c2, if_true] at h
        obtain ⟨news, hp, hcn, hcu, hsim⟩ := ih _ _ _ _ _ h
        refine ⟨news, hp, hcn, hcu, sim_congr ?_ hsim⟩
        intro s
        rw [oscarLoop_succ_cons]
        simp only [c1, Bool.false_eq_true, if_false]
        simp only [c2, if_true]
      | false =>
      simp only [c2, Bool.false_eq_true, if_false] at h
      cases c3 : (l.hasHash && l.hasEnd) with
      | true =>
        simp only [c3, if_true, closeEvent_none] at h
        have h' : oscarLoop fmt attrs none fl n (lineNo + 1) false ls
            { s0 with plist := s0.plist ++ [s0.data], data := [] } = .ok s0' := h
        obtain ⟨news, hp, hcn, hcu, hsim⟩ := ih _ _ _ _ _ h'
        refine ⟨s0.data :: news, by simpa using hp, hcn, hcu, sim_congr ?_ (sim_close fl hsim)⟩
        intro s
        rw [oscarLoop_succ_cons]
        simp only [c1, Bool.false_eq_true, if_false]
        simp only [c2, Bool.false_eq_true, if_false]
        simp only [c3, if_true]
      | false =>
      simp only [c3, Bool.false_eq_true, if_false] at h
      cases c4 : l.hasHash with
      | true => simp [c4] at h
      | false =>
      simp only [c4, Bool.false_eq_true, if_false] at h
      cases c5 : (!colsOk fmt l.toks.length) with
      | true => simp [c5] at h
      | false =>
      simp only [c5, Bool.false_eq_true, if_false] at h
      cases c6 : (!fieldsOk (colKinds fmt attrs l.toks.length) l.toks) with
      | true => simp [c6] at h
      | false =>
        simp only [c6, Bool.false_eq_true, if_false] at h
        obtain ⟨news, hp, hcn, hcu, hsim⟩ := ih _ _ _ _ _ h
        refine ⟨news, hp, hcn, hcu, sim_congr ?_ (sim_data ⟨lineNo, l.toks⟩ hsim)⟩
        intro s
        rw [oscarLoop_succ_cons]
        simp only [c1, Bool.false_eq_true, if_false]
        simp only [c2, Bool.false_eq_true, if_false]
        simp only [c3, Bool.false_eq_true, if_false]
        simp only [c4, Bool.false_eq_true, if_false]
        simp only [c5, Bool.false_eq_true, if_false]
        simp only [c6, Bool.false_eq_true, if_false]

theorem jetscapeLoop_succ_cons (filt : Option EvFilter) (fl fh : Int)
    (n lineNo : Nat) (first : Bool) (l : LineF) (ls : List LineF) (st : LoopSt) :
    jetscapeLoop filt fl fh (n + 1) lineNo first (l :: ls) st =
      if l.hasHash && l.hasSigma then
        (closeEvent st filt fl) >>= fun st' => jetscapeLoop filt fl fh n (lineNo + 1) false ls st'
      else if first && !l.hasHash && !l.hasWeight then .error .value
      else if l.hasEventCap && l.hasWeight then
        match l.toksTab[2]? with
        | none => .error .index
        | some t =>
          match pyInt? t with
          | none => .error .value
          | some e =>
            if e == fh then jetscapeLoop filt fl fh n (lineNo + 1) false ls st
            else (closeEvent st filt fl) >>= fun st' => jetscapeLoop filt fl fh n (lineNo + 1) false ls st'
      else if l.toksTab.length != 7 then .error .value
      else if !fieldsOk [false, false, false, true, true, true, true] l.toksTab then .error .value
      else jetscapeLoop filt fl fh n (lineNo + 1) false ls { st with data := st.data ++ [⟨lineNo, l.toksTab⟩] } := by
  rfl

theorem jetscapeLoop_sim (ef : EvFilter) (E : List PLine → List PLine) (fl fh : Int) :
    ∀ (n lineNo : Nat) (first : Bool) (lines : List LineF) (s0 s0' : LoopSt),
      jetscapeLoop none fl fh n lineNo first lines s0 = .ok s0' →
      ∃ news, s0'.plist = s0.plist ++ news ∧ s0'.counts = s0.counts ∧ s0'.cut = s0.cut ∧
        SimConcl ef E news (jetscapeLoop (some ef) fl fh n lineNo first lines) s0 := by
  intro n
  induction n with
  | zero =>
    intro lineNo first lines s0 s0' h
    have : s0' = s0 := by
      cases lines <;> simp [jetscapeLoop] at h <;> exact h.symm
    subst this
    exact ⟨[], by simp, rfl, rfl, sim_congr (by intro s; cases lines <;> rfl) (sim_nil ef E s0')⟩
  | succ n ih =>
    intro lineNo first lines s0 s0' h
    cases lines with
    | nil => simp [jetscapeLoop] at h
    | cons l ls =>
      rw [jetscapeLoop_succ_cons] at h
      cases c1 : (l.hasHash && l.hasSigma) with
      | true =>
        simp only [c1, if_true, closeEvent_none] at h
        have h' : jetscapeLoop none fl fh n (lineNo + 1) false ls
            { s0 with plist := s0.plist ++ [s0.data], data := [] } = .ok s0' := h
        obtain ⟨news, hp, hcn, hcu, hsim⟩ := ih _ _ _ _ _ h'
        refine ⟨s0.data :: news, by simpa using hp, hcn, hcu, sim_congr ?_ (sim_close fl hsim)⟩
        intro s
        rw [jetscapeLoop_succ_cons]
        simp only [c1, if_true]
      | false =>
      simp only [c1, Bool.false_eq_true, if_false] at h
      cases c2 : (first && !l.hasHash && !l.hasWeight) with
      | true => simp [c2] at h
      | false =>
      simp only [c2, Bool.false_eq_true, if_false] at h
      cases c3 : (l.hasEventCap && l.hasWeight) with
      | true =>
        simp only [c3, if_true] at h
        cases ht : l.toksTab[2]? with
        | none => simp [ht] at h
        | some t =>
          simp only [ht] at h
          cases hi : pyInt? t with
          | none => simp [hi] at h
          | some e =>
            simp only [hi] at h
            cases he : (e == fh) with
            | true =>
              simp only [he, if_true] at h
              obtain ⟨news, hp, hcn, hcu, hsim⟩ := ih _ _ _ _ _ h
              refine ⟨news, hp, hcn, hcu, sim_congr ?_ hsim⟩
              intro s
              rw [jetscapeLoop_succ_cons]
              simp only [c1, Bool.false_eq_true, if_false]
              simp only [c2, Bool.false_eq_true, if_false]
              simp only [c3, if_true, ht, hi, he]
            | false =>
              simp only [he, Bool.false_eq_true, if_false, closeEvent_none] at h
              have h' : jetscapeLoop none fl fh n (lineNo + 1) false ls
                  { s0 with plist := s0.plist ++ [s0.data], data := [] } = .ok s0' := h
              obtain ⟨news, hp, hcn, hcu, hsim⟩ := ih _ _ _ _ _ h'
              refine ⟨s0.data :: news, by simpa using hp, hcn, hcu, sim_congr ?_ (sim_close fl hsim)⟩
              intro s
              rw [jetscapeLoop_succ_cons]
              simp only [c1, Bool.false_eq_true, if_false]
              simp only [c2, Bool.false_eq_true, if_false]
              simp only [c3, if_true, ht, hi, he, Bool.false_eq_true, if_false]
      | false =>
      simp only [c3, Bool.false_eq_true, if_false] at h
      cases c4 : (l.toksTab.length != 7) with
      | true => simp [c4] at h
      | false =>
      simp only [c4, Bool.false_eq_true, if_false] at h
      cases c5 : (!fieldsOk [false, false, false, true, true, true, true] l.toksTab) with
      | true => simp [c5] at h
      | false =>
        simp only [c5, Bool.false_eq_true, if_false] at h
        obtain ⟨news, hp, hcn, hcu, hsim⟩ := ih _ _ _ _ _ h
        refine ⟨news, hp, hcn, hcu, sim_congr ?_ (sim_data ⟨lineNo, l.toksTab⟩ hsim)⟩
        intro s
        rw [jetscapeLoop_succ_cons]
        simp only [c1, Bool.false_eq_true, if_false]
        simp only [c2, Bool.false_eq_true, if_false]
        simp only [c3, Bool.false_eq_true, if_false]
        simp only [c4, Bool.false_eq_true, if_false]
        simp only [c5, Bool.false_eq_true, if_false]

/-- everything `OscarLoader.load` computes before the line loop (independent of `filters=`) -/
structure OCtx where
  fmt : Fmt
  attrs : List String
  footers : List String
  firstLabel : Int
  nread : Nat
  skip : Nat
  body : List LineF
  rowsSel : List (Int × Int)
  neSel : Int

def oscarPrefix (f : FileF) (sel : Sel) : Except Rd.Err OCtx := do
  validSel sel
  let first ← match f.lines.head? with | some l => pure l | none => throw Rd.Err.type
  let (fmt, attrs) ← oscarFormat first
  if fmt == .extendedIC || fmt == .extendedPhotons then throw Rd.Err.type
  let numEvents ← oscarNumEvents f
  let (rows, footers) ← oscarScan f.lines
  let skip ← skipLines 3 2 rows sel
  let nread ← readLines 2 rows sel
  if nread < 0 || skip < 0 then throw Rd.Err.index
  let body := f.lines.drop skip.toNat
  let (rowsSel, neSel) := selectRows rows numEvents sel
  let firstLabel : Int := match rowsSel with | r :: _ => r.1 | [] => 0
  pure ⟨fmt, attrs, footers, firstLabel, nread.toNat, skip.toNat, body, rowsSel, neSel⟩

def oscarBody (c : OCtx) (sel : Sel) (filt : Option EvFilter) : Except Rd.Err Loaded := do
  let st ← oscarLoop c.fmt c.attrs filt c.firstLabel c.nread c.skip true c.body ⟨[], [], .arr2d c.rowsSel, 0⟩
  let (plist, ne, counts) ← finish st c.neSel sel
  pure { events := plist, numEvents := ne, counts := counts, fmt := some c.fmt, customAttrs := c.attrs, footers := c.footers }

theorem readOscar_eq (f : FileF) (sel : Sel) (filt : Option EvFilter) :
    readOscar f sel filt = (oscarPrefix f sel >>= fun c => oscarBody c sel filt) := by
  unfold readOscar oscarPrefix oscarBody
  simp only [bind, Except.bind, pure, Except.pure, throw, throwThe, MonadExceptOf.throw]
  cases validSel sel with
  | error e => rfl
  | ok u =>
  dsimp only
  cases f.lines.head? with
  | none => rfl
  | some l =>
  dsimp only
  cases oscarFormat l with
  | error e => rfl
  | ok fa =>
  dsimp only
  split
  · rfl
  cases oscarNumEvents f with
  | error e => rfl
  | ok ne =>
  dsimp only
  cases oscarScan f.lines with
  | error e => rfl
  | ok rf =>
  dsimp only
  cases skipLines 3 2 rf.1 sel with
  | error e => rfl
  | ok skip =>
  dsimp only
  cases readLines 2 rf.1 sel with
  | error e => rfl
  | ok nread =>
  dsimp only
  split
  · rfl
  · rfl

/-- everything `JetscapeLoader.__init__` / `load` compute before the line loop -/
structure JCtx where
  firstLabel : Int
  firstHeader : Int
  nread : Nat
  skip : Nat
  body : List LineF
  rowsSel : List (Int × Int)
  neSel : Int

def jetscapePrefix (f : FileF) (sel : Sel) (partons : Bool) : Except Rd.Err JCtx := do
  jetscapeInitOk f
  validSel sel
  let rows ← jetscapeScan partons f.lines
  let numEvents : Int := rows.length
  let skip ← skipLines 1 1 rows sel
  let nread0 ← readLines 1 rows sel
  let nread := nread0 + 1
  if nread < 0 || skip < 0 then throw Rd.Err.index
  let firstHeader : Int := match sel with | .all => 1 | .one k => 1 + k | .range a _ => 1 + a
  let body := f.lines.drop skip.toNat
  let (rowsSel, neSel) := selectRows rows numEvents sel
  let firstLabel : Int := match rowsSel with | r :: _ => r.1 | [] => 1
  pure ⟨firstLabel, firstHeader, nread.toNat, skip.toNat, body, rowsSel, neSel⟩

def jetscapeBody (c : JCtx) (sel : Sel) (filt : Option EvFilter) : Except Rd.Err Loaded := do
  let st ← jetscapeLoop filt c.firstLabel c.firstHeader c.nread c.skip true c.body ⟨[], [], .arr2d c.rowsSel, 0⟩
  let (plist, ne, counts) ← finish st c.neSel sel
  pure { events := plist, numEvents := ne, counts := counts, fmt := none, customAttrs := [], footers := [] }

theorem readJetscape_eq (f : FileF) (sel : Sel) (partons : Bool) (filt : Option EvFilter) :
    readJetscape f sel partons filt = (jetscapePrefix f sel partons >>= fun c => jetscapeBody c sel filt) := by
  unfold readJetscape jetscapePrefix jetscapeBody
  simp only [bind, Except.bind, pure, Except.pure, throw, throwThe, MonadExceptOf.throw]
  cases jetscapeInitOk f with
  | error e => rfl
  | ok u =>
  dsimp only
  cases validSel sel with
  | error e => rfl
  | ok u =>
  dsimp only
  cases jetscapeScan partons f.lines with
  | error e => rfl
  | ok rows =>
  dsimp only
  cases skipLines 1 1 rows sel with
  | error e => rfl
  | ok skip =>
  dsimp only
  cases readLines 1 rows sel with
  | error e => rfl
  | ok nread =>
  dsimp only
  split
  · rfl
  · rfl

def finishBad (st : LoopSt) (neSel : Int) (sel : Sel) : Bool :=
  match sel with
  | .all => (st.plist.length : Int) != neSel - st.cut
  | _ => false

theorem finish_eq (st : LoopSt) (neSel : Int) (sel : Sel) :
    finish st neSel sel =
      if finishBad st neSel sel then .error .index
      else .ok (if st.plist.isEmpty then [[]] else st.plist, neSel - st.cut, st.counts) := by
  cases sel with
  | all =>
    by_cases h : ((st.plist.length : Int) != neSel - st.cut) = true
    · have hb : finishBad st neSel .all = true := h
      rw [hb, if_pos rfl]
      simp only [finish, h, if_true, bind, Except.bind]; rfl
    · have hb : finishBad st neSel .all = false := by simpa [finishBad] using h
      rw [hb]
      simp only [finish, h, bind, Except.bind, pure, Except.pure]; rfl
  | one k => rfl
  | range a b => rfl

theorem nonempty_filterMap_keepOf (E : List PLine → List PLine) (news : List (List PLine)) :
    nonempty (news.filterMap (keepOf E)) = nonempty (news.map E) := by
  induction news with
  | nil => rfl
  | cons e es ih =>
    have hcons : ∀ (x : List PLine) (xs : List (List PLine)), nonempty (x :: xs) = nonempty [x] ++ nonempty xs := by
      intro x xs; exact List.filter_append (l₁ := [x]) (l₂ := xs) ..
    cases hk : keepOf E e with
    | some d =>
      have hd : d = E e := by
        unfold keepOf at hk
        split at hk
        · cases hk; rfl
        · cases hk
      simp only [List.filterMap_cons, hk, List.map_cons]
      rw [hcons, hcons (E e), ih, hd]
    | none =>
      have hE : E e = [] := by
        unfold keepOf at hk
        split at hk
        · cases hk
        · rename_i hc
          have : (E e).length = 0 := by
            cases h : (E e).length with
            | zero => rfl
            | succ n => simp [h] at hc
          exact List.eq_nil_of_length_eq_zero this
      simp only [List.filterMap_cons, hk, List.map_cons]
      rw [hcons (E e), ih, hE]
      rfl

theorem nonzero_lengths {β : Type} (evs : List (List β)) :
    (evs.map (fun e => (e.length : Int))).filter (fun n => n != 0) = (nonempty evs).map (fun e => (e.length : Int)) := by
  induction evs with
  | nil => rfl
  | cons e es ih =>
    cases e with
    | nil => simpa [nonempty] using ih
    | cons x xs =>
      have : ((↑(x :: xs).length : Int) != 0) = true := by
        simp only [List.length_cons, bne_iff_ne, ne_eq]; omega
      simp only [List.map_cons, List.filter_cons, this, if_true, nonempty, List.isEmpty_cons, Bool.not_false] at ih ⊢
      rw [ih]

theorem nonempty_placeholder {β : Type} (l : List (List β)) :
    nonempty (if l.isEmpty then [[]] else l) = nonempty l := by
  cases l <;> rfl

/-- the result of a successful load "describes its events": the counts are a 2-D array with one row per
held event whose second column is the number of particles of that event (what C01 / C02 establish) -/
def Booked (l : Loaded) : Prop :=
  l.events ≠ [] ∧ ∃ rows, l.counts = .arr2d rows ∧ rows.map (·.2) = l.events.map (fun e => (e.length : Int))

theorem finish_sim (E : List PLine → List PLine) (hE : E [] = [])
    (news : List (List PLine)) (rowsSel : List (Int × Int)) (neSel : Int) (sel : Sel)
    (s0' s1' : LoopSt) (pl0 : List (List PLine)) (ne0 : Int) (c0 : Counts)
    (hp0 : s0'.plist = news) (hu0 : s0'.cut = 0)
    (hfin0 : finish s0' neSel sel = .ok (pl0, ne0, c0))
    (hbook : rowsSel.map (·.2) = pl0.map (fun e => (e.length : Int)))
    (hp1 : s1'.plist = news.filterMap (keepOf E))
    (hu1 : s1'.cut + ((news.filterMap (keepOf E)).length : Int) = (0 : Int) + (news.length : Int))
    (hc1 : cntCol s1'.counts = ([] : List (Int × Int)).map (·.2)
        ++ (news.filterMap (keepOf E)).map (fun d => (d.length : Int)) ++ (rowsSel.drop news.length).map (·.2)) :
    ∃ pl1 ne1 c1, finish s1' neSel sel = .ok (pl1, ne1, c1) ∧
      nonempty pl1 = nonempty (pl0.map E) ∧
      nonzeroCounts c1 = (nonempty pl1).map (fun e => (e.length : Int)) := by
  rw [finish_eq] at hfin0
  cases hbad : finishBad s0' neSel sel with
  | true => simp [hbad] at hfin0
  | false =>
  simp only [hbad, Bool.false_eq_true, if_false, Except.ok.injEq, Prod.mk.injEq] at hfin0
  obtain ⟨hpl0, _, _⟩ := hfin0
  rw [hp0] at hpl0
  have hbad1 : finishBad s1' neSel sel = false := by
    cases sel with
    | all =>
      simp only [finishBad, hp0, hu0, bne_eq_false_iff_eq] at hbad ⊢
      rw [hp1]; omega
    | one k => rfl
    | range a b => rfl
  refine ⟨_, _, _, by rw [finish_eq, hbad1]; rfl, ?_, ?_⟩
  · rw [hp1, nonempty_placeholder, nonempty_filterMap_keepOf, ← hpl0]
    cases news with
    | nil => simp [nonempty, hE]
    | cons e es => rfl
  · rw [hp1, nonempty_placeholder]
    have hrest : ((rowsSel.drop news.length).map (·.2)).filter (fun n => n != 0) = [] := by
      cases news with
      | nil =>
        simp only [List.length_nil, List.drop_zero, hbook, ← hpl0]
        rfl
      | cons e es =>
        have hl : rowsSel.length = (e :: es).length := by
          have := congrArg List.length hbook
          simp only [List.length_map] at this
          rw [this, ← hpl0]; rfl
        rw [List.drop_of_length_le (by omega)]
        rfl
    unfold nonzeroCounts
    change (cntCol s1'.counts).filter _ = _
    rw [hc1]
    simp only [List.map_nil, List.nil_append, List.filter_append, hrest, List.append_nil]
    exact nonzero_lengths _


theorem finish_ok_inv {st : LoopSt} {neSel : Int} {sel : Sel} {pl : List (List PLine)} {n : Int} {c : Counts}
    (h : finish st neSel sel = .ok (pl, n, c)) :
    pl = (if st.plist.isEmpty then [[]] else st.plist) ∧ n = neSel - st.cut ∧ c = st.counts := by
  rw [finish_eq] at h
  cases hbad : finishBad st neSel sel with
  | true => simp [hbad] at h
  | false =>
    simp only [hbad, Bool.false_eq_true, if_false, Except.ok.injEq, Prod.mk.injEq] at h
    exact ⟨h.1.symm, h.2.1.symm, h.2.2.symm⟩

/-- the part after the prefix, for either loader -/
theorem body_sim (ef : EvFilter) (E : List PLine → List PLine) (hE : E [] = [])
    (rowsSel : List (Int × Int)) (neSel : Int) (sel : Sel)
    (run1 : LoopSt → Except Rd.Err LoopSt) (s0' : LoopSt)
    (pl0 : List (List PLine)) (ne0 : Int) (c0 : Counts)
    (hsimAll : ∃ news, s0'.plist = ([] : List (List PLine)) ++ news ∧ s0'.counts = Counts.arr2d rowsSel ∧ s0'.cut = 0 ∧
      SimConcl ef E news run1 ⟨[], [], .arr2d rowsSel, 0⟩)
    (hfin : finish s0' neSel sel = .ok (pl0, ne0, c0))
    (hbook : rowsSel.map (·.2) = pl0.map (fun e => (e.length : Int)))
    (hef : ∀ e ∈ pl0, ef e = .ok (E e)) :
    ∃ s1' pl1 ne1 c1, run1 ⟨[], [], .arr2d rowsSel, 0⟩ = .ok s1' ∧ finish s1' neSel sel = .ok (pl1, ne1, c1) ∧
      nonempty pl1 = nonempty (pl0.map E) ∧
      nonzeroCounts c1 = (nonempty pl1).map (fun e => (e.length : Int)) := by
  obtain ⟨news, hp, hcn, hcu, hsim⟩ := hsimAll
  simp only [List.nil_append] at hp
  obtain ⟨hpl0, _, _⟩ := finish_ok_inv hfin
  rw [hp] at hpl0
  have hlen : news.length ≤ rowsSel.length := by
    have := congrArg List.length hbook
    simp only [List.length_map] at this
    rw [this, hpl0]
    cases news <;> simp
  have hef' : ∀ e ∈ news, ef e = .ok (E e) := by
    intro e he
    apply hef
    rw [hpl0]
    cases news with
    | nil => cases he
    | cons x xs => exact he
  obtain ⟨s1', hr, h1, h2, h3⟩ := hsim ⟨[], [], .arr2d rowsSel, 0⟩ [] rowsSel rfl (Or.inl rfl) rfl hlen hef'
  obtain ⟨pl1, ne1, c1, hf1, hn1, hz1⟩ := finish_sim E hE news rowsSel neSel sel s0' s1' pl0 ne0 c0 hp hcu hfin hbook
    (by simpa using h1) (by simpa using h2) h3
  exact ⟨s1', pl1, ne1, c1, hr, hf1, hn1, hz1⟩

/-- **reading with constructor filters, relative to reading without** (Oscar) -/
theorem readOscar_ctor (F : FileF) (sel : Sel) (ef : EvFilter) (E : List PLine → List PLine) (L0 : Loaded)
    (hE : E [] = []) (h0 : readOscar F sel none = .ok L0) (hbook : Booked L0)
    (hef : ∀ e ∈ L0.events, ef e = .ok (E e)) :
    ∃ L1, readOscar F sel (some ef) = .ok L1 ∧
      nonempty L1.events = nonempty (L0.events.map E) ∧
      nonzeroCounts L1.counts = (nonempty L1.events).map (fun e => (e.length : Int)) := by
  rw [readOscar_eq] at h0 ⊢
  obtain ⟨c, hc, hb⟩ := bind_eq_ok.1 h0
  unfold oscarBody at hb
  obtain ⟨s0', hloop, hb⟩ := bind_eq_ok.1 hb
  obtain ⟨⟨pl0, ne0, c0⟩, hfin, hb⟩ := bind_eq_ok.1 hb
  simp only [pure, Except.pure, Except.ok.injEq] at hb
  subst hb
  obtain ⟨_, rows, hrows, hbk⟩ := hbook
  simp only at hrows hbk hef
  have hsimAll := oscarLoop_sim ef E c.fmt c.attrs c.firstLabel c.nread c.skip true c.body _ _ hloop
  have hc0 : c0 = .arr2d c.rowsSel := by
    obtain ⟨_, _, h3⟩ := finish_ok_inv hfin
    obtain ⟨_, _, hcn, _, _⟩ := hsimAll
    rw [h3, hcn]
  have hrs : rows = c.rowsSel := by
    rw [hc0] at hrows; cases hrows; rfl
  subst hrs
  obtain ⟨s1', pl1, ne1, c1, hr, hf1, hn1, hz1⟩ :=
    body_sim ef E hE c.rowsSel c.neSel sel _ s0' pl0 ne0 c0 hsimAll hfin hbk hef
  refine ⟨{ events := pl1, numEvents := ne1, counts := c1, fmt := some c.fmt, customAttrs := c.attrs, footers := c.footers },
    ?_, hn1, hz1⟩
  simp only [hc, oscarBody, hr, hf1, bind, Except.bind, pure, Except.pure]

/-- **the same for JETSCAPE** -/
theorem readJetscape_ctor (F : FileF) (sel : Sel) (partons : Bool) (ef : EvFilter) (E : List PLine → List PLine)
    (L0 : Loaded) (hE : E [] = []) (h0 : readJetscape F sel partons none = .ok L0) (hbook : Booked L0)
    (hef : ∀ e ∈ L0.events, ef e = .ok (E e)) :
    ∃ L1, readJetscape F sel partons (some ef) = .ok L1 ∧
      nonempty L1.events = nonempty (L0.events.map E) ∧
      nonzeroCounts L1.counts = (nonempty L1.events).map (fun e => (e.length : Int)) := by
  rw [readJetscape_eq] at h0 ⊢
  obtain ⟨c, hc, hb⟩ := bind_eq_ok.1 h0
  unfold jetscapeBody at hb
  obtain ⟨s0', hloop, hb⟩ := bind_eq_ok.1 hb
  obtain ⟨⟨pl0, ne0, c0⟩, hfin, hb⟩ := bind_eq_ok.1 hb
  simp only [pure, Except.pure, Except.ok.injEq] at hb
  subst hb
  obtain ⟨_, rows, hrows, hbk⟩ := hbook
  simp only at hrows hbk hef
  have hsimAll := jetscapeLoop_sim ef E c.firstLabel c.firstHeader c.nread c.skip true c.body _ _ hloop
  have hc0 : c0 = .arr2d c.rowsSel := by
    obtain ⟨_, _, h3⟩ := finish_ok_inv hfin
    obtain ⟨_, _, hcn, _, _⟩ := hsimAll
    rw [h3, hcn]
  have hrs : rows = c.rowsSel := by
    rw [hc0] at hrows; cases hrows; rfl
  subst hrs
  obtain ⟨s1', pl1, ne1, c1, hr, hf1, hn1, hz1⟩ :=
    body_sim ef E hE c.rowsSel c.neSel sel _ s0' pl0 ne0 c0 hsimAll hfin hbk hef
  refine ⟨{ events := pl1, numEvents := ne1, counts := c1, fmt := none, customAttrs := [], footers := [] },
    ?_, hn1, hz1⟩
  simp only [hc, jetscapeBody, hr, hf1, bind, Except.bind, pure, Except.pure]


/-! ### a filter that raises makes the load raise (as soon as one event ends) -/

theorem closeEvent_err (st : LoopSt) (ef : EvFilter) (lb : Int) (x : Rd.Err) (h : ef st.data = .error x) :
    closeEvent st (some ef) lb = .error x := by
  simp only [closeEvent, h, bind, Except.bind]

theorem oscarLoop_err (ef : EvFilter) (hef : ∀ d, ∃ x, ef d = .error x)
    (fmt : Fmt) (attrs : List String) (fl : Int) :
    ∀ (n lineNo : Nat) (first : Bool) (lines : List LineF) (s0 s0' : LoopSt),
      oscarLoop fmt attrs none fl n lineNo first lines s0 = .ok s0' →
      s0'.plist = s0.plist ∨ ∀ s1, ∃ x, oscarLoop fmt attrs (some ef) fl n lineNo first lines s1 = .error x := by
  intro n
  induction n with
  | zero =>
    intro lineNo first lines s0 s0' h
    left
    cases lines <;> simp [oscarLoop] at h <;> rw [h]
  | succ n ih =>
    intro lineNo first lines s0 s0' h
    cases lines with
    | nil => simp [oscarLoop] at h
    | cons l ls =>
      rw [oscarLoop_succ_cons] at h
      cases c1 : (first && !l.hasHash && !l.hasOut) with
      | true => simp [c1] at h
      | false =>
      simp only [c1, Bool.false_eq_true, if_false] at h
      cases c2 : (l.hasEvent && (l.hasOut || l.hasInSp || l.hasStart)) with
      | true =>
        simp only [c2, if_true] at h
        rcases ih _ _ _ _ _ h with hl | hr
        · exact Or.inl hl
        · right; intro s1
          rw [oscarLoop_succ_cons]
          simp only [c1, Bool.false_eq_true, if_false]
          simp only [c2, if_true]; exact hr s1
      | false =>
      simp only [c2, Bool.false_eq_true, if_false] at h
      cases c3 : (l.hasHash && l.hasEnd) with
      | true =>
        right; intro s1
        obtain ⟨x, hx⟩ := hef s1.data
        refine ⟨x, ?_⟩
        rw [oscarLoop_succ_cons]
        simp only [c1, Bool.false_eq_true, if_false]
        simp only [c2, Bool.false_eq_true, if_false]
        simp only [c3, if_true, closeEvent_err s1 ef fl x hx]; rfl
      | false =>
      simp only [c3, Bool.false_eq_true, if_false] at h
      cases c4 : l.hasHash with
      | true => simp [c4] at h
      | false =>
      simp only [c4, Bool.false_eq_true, if_false] at h
      cases c5 : (!colsOk fmt l.toks.length) with
      | true => simp [c5] at h
      | false =>
      simp only [c5, Bool.false_eq_true, if_false] at h
      cases c6 : (!fieldsOk (colKinds fmt attrs l.toks.length) l.toks) with
      | true => simp [c6] at h
      | false =>
        simp only [c6, Bool.false_eq_true, if_false] at h
        rcases ih _ _ _ _ _ h with hl | hr
        · exact Or.inl hl
        · right; intro s1
          rw [oscarLoop_succ_cons]
          simp only [c1, Bool.false_eq_true, if_false]
          simp only [c2, Bool.false_eq_true, if_false]
          simp only [c3, Bool.false_eq_true, if_false]
          simp only [c4, Bool.false_eq_true, if_false]
          simp only [c5, Bool.false_eq_true, if_false]
          simp only [c6, Bool.false_eq_true, if_false]; exact hr _

theorem jetscapeLoop_err (ef : EvFilter) (hef : ∀ d, ∃ x, ef d = .error x) (fl fh : Int) :
    ∀ (n lineNo : Nat) (first : Bool) (lines : List LineF) (s0 s0' : LoopSt),
      jetscapeLoop none fl fh n lineNo first lines s0 = .ok s0' →
      s0'.plist = s0.plist ∨ ∀ s1, ∃ x, jetscapeLoop (some ef) fl fh n lineNo first lines s1 = .error x := by
  intro n
  induction n with
  | zero =>
    intro lineNo first lines s0 s0' h
    left
    cases lines <;> simp [jetscapeLoop] at h <;> rw [h]
  | succ n ih =>
    intro lineNo first lines s0 s0' h
    cases lines with
    | nil => simp [jetscapeLoop] at h
    | cons l ls =>
      rw [jetscapeLoop_succ_cons] at h
      cases c1 : (l.hasHash && l.hasSigma) with
      | true =>
        right; intro s1
        obtain ⟨x, hx⟩ := hef s1.data
        refine ⟨x, ?_⟩
        rw [jetscapeLoop_succ_cons]
        simp only [c1, if_true, closeEvent_err s1 ef fl x hx]; rfl
      | false =>
      simp only [c1, Bool.false_eq_true, if_false] at h
      cases c2 : (first && !l.hasHash && !l.hasWeight) with
      | true => simp [c2] at h
      | false =>
      simp only [c2, Bool.false_eq_true, if_false] at h
      cases c3 : (l.hasEventCap && l.hasWeight) with
      | true =>
        simp only [c3, if_true] at h
        cases ht : l.toksTab[2]? with
        | none => simp [ht] at h
        | some t =>
          simp only [ht] at h
          cases hi : pyInt? t with
          | none => simp [hi] at h
          | some e =>
            simp only [hi] at h
            cases he : (e == fh) with
            | true =>
              simp only [he, if_true] at h
              rcases ih _ _ _ _ _ h with hl | hr
              · exact Or.inl hl
              · right; intro s1
                rw [jetscapeLoop_succ_cons]
                simp only [c1, Bool.false_eq_true, if_false]
                simp only [c2, Bool.false_eq_true, if_false]
                simp only [c3, if_true, ht, hi, he]; exact hr _
            | false =>
              right; intro s1
              obtain ⟨x, hx⟩ := hef s1.data
              refine ⟨x, ?_⟩
              rw [jetscapeLoop_succ_cons]
              simp only [c1, Bool.false_eq_true, if_false]
              simp only [c2, Bool.false_eq_true, if_false]
              simp only [c3, if_true, ht, hi, he, Bool.false_eq_true, if_false, closeEvent_err s1 ef fl x hx]; rfl
      | false =>
      simp only [c3, Bool.false_eq_true, if_false] at h
      cases c4 : (l.toksTab.length != 7) with
      | true => simp [c4] at h
      | false =>
      simp only [c4, Bool.false_eq_true, if_false] at h
      cases c5 : (!fieldsOk [false, false, false, true, true, true, true] l.toksTab) with
      | true => simp [c5] at h
      | false =>
        simp only [c5, Bool.false_eq_true, if_false] at h
        rcases ih _ _ _ _ _ h with hl | hr
        · exact Or.inl hl
        · right; intro s1
          rw [jetscapeLoop_succ_cons]
          simp only [c1, Bool.false_eq_true, if_false]
          simp only [c2, Bool.false_eq_true, if_false]
          simp only [c3, Bool.false_eq_true, if_false]
          simp only [c4, Bool.false_eq_true, if_false]
          simp only [c5, Bool.false_eq_true, if_false]; exact hr _

/-- a constructor filter that raises on every event makes the load raise, unless the plain load holds nothing
but the placeholder event -/
theorem readOscar_ctor_err (F : FileF) (sel : Sel) (ef : EvFilter) (L0 : Loaded)
    (hef : ∀ d, ∃ x, ef d = .error x) (h0 : readOscar F sel none = .ok L0) (hne : L0.events ≠ [[]]) :
    ∃ x, readOscar F sel (some ef) = .error x := by
  rw [readOscar_eq] at h0 ⊢
  obtain ⟨c, hc, hb⟩ := bind_eq_ok.1 h0
  unfold oscarBody at hb
  obtain ⟨s0', hloop, hb⟩ := bind_eq_ok.1 hb
  obtain ⟨⟨pl0, ne0, c0⟩, hfin, hb⟩ := bind_eq_ok.1 hb
  simp only [pure, Except.pure, Except.ok.injEq] at hb
  subst hb
  rcases oscarLoop_err ef hef c.fmt c.attrs c.firstLabel c.nread c.skip true c.body _ _ hloop with hl | hr
  · exfalso
    apply hne
    obtain ⟨h1, _, _⟩ := finish_ok_inv hfin
    simp only at hl
    rw [h1, hl]; rfl
  · obtain ⟨x, hx⟩ := hr ⟨[], [], .arr2d c.rowsSel, 0⟩
    exact ⟨x, by simp only [hc, oscarBody, hx, bind, Except.bind]⟩

theorem readJetscape_ctor_err (F : FileF) (sel : Sel) (partons : Bool) (ef : EvFilter) (L0 : Loaded)
    (hef : ∀ d, ∃ x, ef d = .error x) (h0 : readJetscape F sel partons none = .ok L0) (hne : L0.events ≠ [[]]) :
    ∃ x, readJetscape F sel partons (some ef) = .error x := by
  rw [readJetscape_eq] at h0 ⊢
  obtain ⟨c, hc, hb⟩ := bind_eq_ok.1 h0
  unfold jetscapeBody at hb
  obtain ⟨s0', hloop, hb⟩ := bind_eq_ok.1 hb
  obtain ⟨⟨pl0, ne0, c0⟩, hfin, hb⟩ := bind_eq_ok.1 hb
  simp only [pure, Except.pure, Except.ok.injEq] at hb
  subst hb
  rcases jetscapeLoop_err ef hef c.firstLabel c.firstHeader c.nread c.skip true c.body _ _ hloop with hl | hr
  · exfalso
    apply hne
    obtain ⟨h1, _, _⟩ := finish_ok_inv hfin
    simp only at hl
    rw [h1, hl]; rfl
  · obtain ⟨x, hx⟩ := hr ⟨[], [], .arr2d c.rowsSel, 0⟩
    exact ⟨x, by simp only [hc, jetscapeBody, hx, bind, Except.bind]⟩

end SparkxVerif.Dsp
