/-
Helper lemmas for C19 (centrality classes): Python indexing, the descending insertion sort, what the
extraction loop stores, the lookup chain, edge cleaning.  Property theorems are in `Props/C19.lean`.
-/
import SparkxVerif.Core.Centrality
import Mathlib.Order.Defs.LinearOrder
import Mathlib.Order.Basic

set_option linter.unusedSectionVars false

namespace SparkxVerif.Centrality

/-! ### Python indexing -/

theorem pyIdx_nat {β : Type} (xs : List β) (i : Nat) (v : β) :
    pyIdx xs (i : Int) = .ok v ↔ xs[i]? = some v := by
  unfold pyIdx
  have h : ¬ ((i : Int) < 0) := by omega
  simp only [h, if_false, Int.toNat_natCast]
  cases hx : xs[i]? <;> simp

theorem pyIdx_nat_err {β : Type} (xs : List β) (i : Nat) (e : Err) :
    pyIdx xs (i : Int) = .error e → xs.length ≤ i := by
  unfold pyIdx
  have h : ¬ ((i : Int) < 0) := by omega
  simp only [h, if_false, Int.toNat_natCast]
  cases hx : xs[i]? with
  | none => intro _; exact List.getElem?_eq_none_iff.mp hx
  | some v => simp

theorem pyIdx_pred {β : Type} (xs : List β) (i : Nat) (hi : 0 < i) :
    pyIdx xs ((i : Int) - 1) = pyIdx xs ((i - 1 : Nat) : Int) := by
  congr 1; omega

theorem pyIdx_ok_of_lt {β : Type} (xs : List β) (i : Nat) (h : i < xs.length) :
    pyIdx xs (i : Int) = .ok xs[i] := by
  rw [pyIdx_nat]; exact List.getElem?_eq_getElem h

/-- `xs[-1]` is the last element -/
theorem pyIdx_neg_one {β : Type} (xs : List β) (h : 0 < xs.length) :
    pyIdx xs (-1) = pyIdx xs ((xs.length - 1 : Nat) : Int) := by
  unfold pyIdx
  have h1 : ((-1 : Int) < 0) := by omega
  have h2 : ¬ (((xs.length - 1 : Nat) : Int) < 0) := by omega
  simp only [h1, h2, if_true, if_false]
  have : (-1 + (xs.length : Int)) = ((xs.length - 1 : Nat) : Int) := by omega
  rw [this, if_neg h2]
section order
variable {α : Type} [LinearOrder α]

/-! ### descending insertion sort -/

theorem insDesc_perm (x : α) (l : List α) : (insDesc x l).Perm (x :: l) := by
  induction l with
  | nil => exact List.Perm.refl _
  | cons y ys ih =>
    unfold insDesc
    split
    · exact List.Perm.refl _
    · exact (List.Perm.cons y ih).trans (List.Perm.swap x y ys)

theorem insDesc_pairwise (x : α) (l : List α) (h : l.Pairwise (fun a b => b ≤ a)) :
    (insDesc x l).Pairwise (fun a b => b ≤ a) := by
  induction l with
  | nil => simp [insDesc]
  | cons y ys ih =>
    unfold insDesc
    rw [List.pairwise_cons] at h
    split
    · rename_i hyx
      refine List.pairwise_cons.2 ⟨?_, List.pairwise_cons.2 h⟩
      intro a ha
      rcases List.mem_cons.1 ha with rfl | ha
      · exact hyx
      · exact le_trans (h.1 a ha) hyx
    · rename_i hyx
      refine List.pairwise_cons.2 ⟨?_, ih h.2⟩
      intro a ha
      rcases List.mem_cons.1 ((insDesc_perm x ys).subset ha) with rfl | ha
      · exact le_of_lt (not_le.1 hyx)
      · exact h.1 a ha

theorem sortDesc_perm (l : List α) : (sortDesc l).Perm l := by
  induction l with
  | nil => exact List.Perm.refl _
  | cons x xs ih => exact (insDesc_perm x _).trans (List.Perm.cons x ih)

theorem sortDesc_pairwise (l : List α) : (sortDesc l).Pairwise (fun a b => b ≤ a) := by
  induction l with
  | nil => exact List.Pairwise.nil
  | cons x xs ih => exact insDesc_pairwise x _ ih

theorem sortDesc_length (l : List α) : (sortDesc l).length = l.length := (sortDesc_perm l).length_eq

/-- any descending rearrangement of the sample is the model's `sortDesc` (so "rank" is well defined and
Python's `sorted(..., reverse=True)` returns the same list) -/
theorem sortDesc_unique (l s : List α) (hp : s.Perm l) (hs : s.Pairwise (fun a b => b ≤ a)) :
    s = sortDesc l :=
  List.Perm.eq_of_pairwise (fun _ _ _ _ h1 h2 => le_antisymm h2 h1) hs (sortDesc_pairwise l)
    (hp.trans (sortDesc_perm l).symm)

/-- in a descending list a later rank holds a smaller-or-equal multiplicity -/
theorem desc_getElem? {s : List α} (hs : s.Pairwise (fun a b => b ≤ a)) {i j : Nat} {a b : α}
    (hij : i ≤ j) (ha : s[i]? = some a) (hb : s[j]? = some b) : b ≤ a := by
  rcases Nat.lt_or_eq_of_le hij with h | rfl
  · obtain ⟨hi, rfl⟩ := List.getElem?_eq_some_iff.1 ha
    obtain ⟨hj, rfl⟩ := List.getElem?_eq_some_iff.1 hb
    exact (List.pairwise_iff_getElem.1 hs) i j hi hj h
  · rw [ha] at hb; cases hb; exact le_refl _


/-! ### what the extraction loop stores -/

/-- stored minimum of a class whose rank interval ends at `hi` (repaired code): the multiplicity at rank
`hi - 1`, or `inf` when no event ranks above `hi` -/
def MinSpec (srt : List α) (hi : Nat) (b : Bnd α) : Prop :=
  (hi = 0 ∧ b = .inf) ∨ (0 < hi ∧ ∃ m, srt[hi - 1]? = some m ∧ b = .fin m)

theorem minAt_ok {srt : List α} {hi : Nat} {b : Bnd α} (h : minAt srt hi = .ok b) : MinSpec srt hi b := by
  unfold minAt at h
  split at h
  · rename_i hpos
    right
    refine ⟨hpos, ?_⟩
    rw [pyIdx_pred _ _ hpos] at h
    cases hp : pyIdx srt ((hi - 1 : Nat) : Int) with
    | error e => rw [hp] at h; cases h
    | ok m =>
      rw [hp] at h
      refine ⟨m, (pyIdx_nat _ _ _).1 hp, ?_⟩
      cases h; rfl
  · rename_i hpos
    left
    refine ⟨by omega, ?_⟩
    cases h; rfl

theorem extract_spec {srt : List α} : ∀ (R : List Nat) (lo : Nat) (ms : List (Bnd α)) (xs : List α),
    extractWith minAt srt lo R = .ok (ms, xs) →
    ms.length = R.length ∧ xs.length = R.length ∧
    (∀ (i hi : Nat), R[i]? = some hi → ∃ b, ms[i]? = some b ∧ MinSpec srt hi b) ∧
    (∀ (i l : Nat), (lo :: R)[i]? = some l → i < R.length → ∃ M, xs[i]? = some M ∧ srt[l]? = some M) := by
  intro R
  induction R with
  | nil =>
    intro lo ms xs h
    simp only [extractWith] at h
    cases h
    simp
  | cons hi rest ih =>
    intro lo ms xs h
    simp only [extractWith] at h
    cases hmx : pyIdx srt (lo : Int) with
    | error e => rw [hmx] at h; cases h
    | ok mx =>
      rw [hmx] at h
      cases hmn : minAt srt hi with
      | error e => rw [hmn] at h; cases h
      | ok m =>
        rw [hmn] at h
        cases hrec : extractWith minAt srt hi rest with
        | error e => rw [hrec] at h; cases h
        | ok p =>
          obtain ⟨ms', xs'⟩ := p
          rw [hrec] at h
          cases h
          obtain ⟨h1, h2, h3, h4⟩ := ih hi ms' xs' hrec
          refine ⟨by simp [h1], by simp [h2], ?_, ?_⟩
          · intro i hi' hget
            cases i with
            | zero =>
              simp only [List.getElem?_cons_zero, Option.some.injEq] at hget
              subst hget
              exact ⟨m, by simp, minAt_ok hmn⟩
            | succ i =>
              simp only [List.getElem?_cons_succ] at hget ⊢
              exact h3 i hi' hget
          · intro i l hget hlt
            cases i with
            | zero =>
              simp only [List.getElem?_cons_zero, Option.some.injEq] at hget
              subst hget
              exact ⟨mx, by simp, (pyIdx_nat _ _ _).1 hmx⟩
            | succ i =>
              simp only [List.getElem?_cons_succ] at hget ⊢
              exact h4 i l hget (by simpa using hlt)

/-- everything the property needs to know about a successfully constructed object (repaired code) -/
structure Built (zero : α) (sample : List α) (R : List Nat) (C : Classes α) : Prop where
  len_sample : 4 ≤ sample.length
  nonneg : ∀ m ∈ sample, zero ≤ m
  len_mins : C.mins.length + 1 = R.length
  len_maxs : C.maxs.length + 1 = R.length
  mins : ∀ (i hi : Nat), R[i + 1]? = some hi → ∃ b, C.mins[i]? = some b ∧ MinSpec (sortDesc sample) hi b
  maxs : ∀ (i lo : Nat), R[i]? = some lo → i + 1 < R.length →
    ∃ M, C.maxs[i]? = some M ∧ (sortDesc sample)[lo]? = some M

theorem build_spec {zero : α} {sample : List α} {R : List Nat} {C : Classes α}
    (h : build zero sample R = .ok C) : Built zero sample R C := by
  unfold build buildWith at h
  split at h
  · cases h
  rename_i hlen
  split at h
  · cases h
  rename_i hneg
  cases R with
  | nil => cases h
  | cons r0 rest =>
    simp only at h
    cases hrec : extractWith minAt (sortDesc sample) r0 rest with
    | error e => rw [hrec] at h; cases h
    | ok p =>
      obtain ⟨ms, xs⟩ := p
      rw [hrec] at h
      cases h
      obtain ⟨h1, h2, h3, h4⟩ := extract_spec rest r0 ms xs hrec
      refine ⟨by omega, ?_, by simp [h1], by simp [h2], ?_, ?_⟩
      · intro m hm
        simp only [List.any_eq_true, decide_eq_true_eq, not_exists, not_and, not_lt] at hneg
        exact hneg m hm
      · intro i hi hget
        simp only [List.getElem?_cons_succ] at hget
        exact h3 i hi hget
      · intro i lo hget hlt
        exact h4 i lo hget (by simpa using hlt)

/-! ### the lookup -/

theorem gtVal_eq_not_leVal (b : Bnd α) (x : α) : b.gtVal x = !b.leVal x := by
  cases b with
  | inf => rfl
  | fin m =>
    simp only [Bnd.gtVal, Bnd.leVal]
    by_cases h : m ≤ x
    · simp [h, not_lt.2 h]
    · simp [h, not_le.1 h]

theorem scan_finds (mins : List (Bnd α)) (x : α) : ∀ (k s : Nat), 1 ≤ s → s + k ≤ mins.length →
    (∃ b, mins[s - 1]? = some b ∧ b.leVal x = false) →
    (∃ (i : Nat) (a : Bnd α), s ≤ i ∧ i < s + k ∧ mins[i]? = some a ∧ a.leVal x = true) →
    ∃ c : Nat, scan mins x (List.range' s k) = .ok (c : Int) ∧ s ≤ c ∧ c < s + k ∧
      (∃ b, mins[c - 1]? = some b ∧ b.gtVal x = true) ∧ (∃ a, mins[c]? = some a ∧ a.leVal x = true) := by
  intro k
  induction k with
  | zero =>
    intro s _ _ _ ⟨i, a, h1, h2, _⟩
    omega
  | succ k ih =>
    intro s hs hlen ⟨b, hb, hbx⟩ ⟨i, a, hsi, hik, hia, hax⟩
    have hsl : s < mins.length := by omega
    rw [List.range'_succ]
    simp only [scan]
    rw [pyIdx_ok_of_lt mins s hsl]
    simp only
    by_cases hsx : (mins[s]).leVal x = true
    · rw [if_pos hsx, pyIdx_pred _ _ hs]
      have hb' : pyIdx mins ((s - 1 : Nat) : Int) = .ok b := (pyIdx_nat _ _ _).2 hb
      rw [hb']
      simp only
      have : b.gtVal x = true := by rw [gtVal_eq_not_leVal, hbx]; rfl
      rw [if_pos this]
      exact ⟨s, rfl, Nat.le_refl _, by omega, ⟨b, hb, this⟩, ⟨mins[s], List.getElem?_eq_getElem hsl, hsx⟩⟩
    · rw [if_neg hsx]
      have hne : i ≠ s := by
        rintro rfl
        rw [List.getElem?_eq_getElem hsl] at hia
        cases hia
        exact hsx hax
      obtain ⟨c, hc, h1, h2, h3, h4⟩ := ih (s + 1) (by omega) (by omega)
        ⟨mins[s], by simp [List.getElem?_eq_getElem hsl], by simpa using hsx⟩
        ⟨i, a, by omega, by omega, hia, hax⟩
      exact ⟨c, hc, by omega, by omega, h3, h4⟩

/-- **Lookup, for any non-empty list of stored minima** (no monotonicity needed): the result is a class
index `k < N`, never the `-1` fall-through; unless `k = 0` the query is below the stored minimum of class
`k-1`, unless `k = N-1` it is at or above the stored minimum of class `k`. -/
theorem lookup_spec (mins : List (Bnd α)) (hne : mins ≠ []) (x : α) :
    ∃ k : Nat, lookup mins x = .ok (k : Int) ∧ k < mins.length ∧
      (k ≠ 0 → ∃ b, mins[k - 1]? = some b ∧ b.gtVal x = true) ∧
      (k + 1 ≠ mins.length → ∃ a, mins[k]? = some a ∧ a.leVal x = true) := by
  have hN : 0 < mins.length := List.length_pos_iff.2 hne
  unfold lookup
  have h0 : pyIdx mins 0 = .ok mins[0] := pyIdx_ok_of_lt mins 0 hN
  rw [h0]
  simp only
  by_cases hx0 : (mins[0]).leVal x = true
  · rw [if_pos hx0]
    exact ⟨0, rfl, hN, fun h => absurd rfl h, fun _ => ⟨mins[0], List.getElem?_eq_getElem hN, hx0⟩⟩
  · rw [if_neg hx0]
    by_cases hN1 : mins.length = 1
    · have : ((mins.length : Int) - 2) = -1 := by omega
      rw [this, pyIdx_neg_one mins hN]
      have hl : mins.length - 1 = 0 := by omega
      rw [hl, show ((0 : Nat) : Int) = 0 from rfl, h0]
      simp only
      have hg : (mins[0]).gtVal x = true := by
        rw [gtVal_eq_not_leVal]; simpa using hx0
      rw [if_pos hg]
      refine ⟨0, ?_, hN, fun h => absurd rfl h, fun h => absurd (by omega) h⟩
      congr 1; omega
    · have hN2 : 2 ≤ mins.length := by omega
      have : ((mins.length : Int) - 2) = ((mins.length - 2 : Nat) : Int) := by omega
      rw [this, pyIdx_ok_of_lt mins (mins.length - 2) (by omega)]
      simp only
      by_cases hp : (mins[mins.length - 2]).gtVal x = true
      · rw [if_pos hp]
        refine ⟨mins.length - 1, ?_, by omega, fun _ => ⟨mins[mins.length - 2], ?_, hp⟩,
          fun h => absurd (by omega) h⟩
        · congr 1; omega
        · have : mins.length - 1 - 1 = mins.length - 2 := by omega
          rw [this]; exact List.getElem?_eq_getElem (by omega)
      · rw [if_neg hp]
        have hp' : (mins[mins.length - 2]).leVal x = true := by
          rw [gtVal_eq_not_leVal] at hp
          simpa using hp
        have hne2 : mins.length - 2 ≠ 0 := by
          intro h
          have : mins[mins.length - 2] = mins[0] := by congr 1
          rw [this] at hp'
          exact hx0 hp'
        obtain ⟨c, hc, h1, h2, h3, h4⟩ := scan_finds mins x (mins.length - 2) 1 (Nat.le_refl _) (by omega)
          ⟨mins[0], by simp [List.getElem?_eq_getElem hN], by simpa using hx0⟩
          ⟨mins.length - 2, mins[mins.length - 2], by omega, by omega,
            List.getElem?_eq_getElem (by omega), hp'⟩
        exact ⟨c, hc, by omega, fun _ => h3, fun _ => h4⟩

/-! ### success of the constructor on admissible input -/

theorem minAt_succeeds (srt : List α) (hi : Nat) (h : hi ≤ srt.length) : ∃ b, minAt srt hi = .ok b := by
  unfold minAt
  split
  · rename_i hpos
    rw [pyIdx_pred _ _ hpos, pyIdx_ok_of_lt srt (hi - 1) (by omega)]
    exact ⟨_, rfl⟩
  · exact ⟨_, rfl⟩

theorem extract_succeeds (srt : List α) : ∀ (R : List Nat) (lo : Nat),
    (∀ r ∈ (lo :: R).dropLast, r < srt.length) → (∀ r ∈ R, r ≤ srt.length) →
    ∃ p, extractWith minAt srt lo R = .ok p := by
  intro R
  induction R with
  | nil => intro lo _ _; exact ⟨_, rfl⟩
  | cons hi rest ih =>
    intro lo h1 h2
    have hlo : lo < srt.length := h1 lo (by simp [List.dropLast])
    obtain ⟨b, hb⟩ := minAt_succeeds srt hi (h2 hi (by simp))
    obtain ⟨p, hp⟩ := ih hi (fun r hr => h1 r (by
      rw [List.dropLast_cons_of_ne_nil (by simp)]; exact List.mem_cons_of_mem _ hr))
      (fun r hr => h2 r (List.mem_cons_of_mem _ hr))
    simp only [extractWith]
    rw [pyIdx_ok_of_lt srt lo hlo, hb, hp]
    exact ⟨_, rfl⟩

/-! ### edge cleaning -/

theorem isSortedLE_iff (l : List α) : isSortedLE l = true ↔ l.Pairwise (· ≤ ·) := by
  induction l with
  | nil => simp [isSortedLE]
  | cons a t ih =>
    cases t with
    | nil => simp [isSortedLE]
    | cons b t' =>
      simp only [isSortedLE, Bool.and_eq_true, decide_eq_true_eq, ih]
      constructor
      · rintro ⟨hab, hp⟩
        refine List.pairwise_cons.2 ⟨?_, hp⟩
        intro c hc
        rcases List.mem_cons.1 hc with rfl | hc
        · exact hab
        · exact le_trans hab ((List.pairwise_cons.1 hp).1 c hc)
      · intro hp
        have := List.pairwise_cons.1 hp
        exact ⟨this.1 b (by simp), this.2⟩

theorem insAsc_perm (x : α) (l : List α) : (insAsc x l).Perm (x :: l) := by
  induction l with
  | nil => exact List.Perm.refl _
  | cons y ys ih =>
    unfold insAsc
    split
    · exact List.Perm.refl _
    · exact (List.Perm.cons y ih).trans (List.Perm.swap x y ys)

theorem insAsc_pairwise (x : α) (l : List α) (h : l.Pairwise (· ≤ ·)) :
    (insAsc x l).Pairwise (· ≤ ·) := by
  induction l with
  | nil => simp [insAsc]
  | cons y ys ih =>
    unfold insAsc
    rw [List.pairwise_cons] at h
    split
    · rename_i hxy
      refine List.pairwise_cons.2 ⟨?_, List.pairwise_cons.2 h⟩
      intro a ha
      rcases List.mem_cons.1 ha with rfl | ha
      · exact hxy
      · exact le_trans hxy (h.1 a ha)
    · rename_i hxy
      refine List.pairwise_cons.2 ⟨?_, ih h.2⟩
      intro a ha
      rcases List.mem_cons.1 ((insAsc_perm x ys).subset ha) with rfl | ha
      · exact le_of_lt (not_le.1 hxy)
      · exact h.1 a ha

theorem sortAsc_perm (l : List α) : (sortAsc l).Perm l := by
  induction l with
  | nil => exact List.Perm.refl _
  | cons x xs ih => exact (insAsc_perm x _).trans (List.Perm.cons x ih)

theorem sortAsc_pairwise (l : List α) : (sortAsc l).Pairwise (· ≤ ·) := by
  induction l with
  | nil => exact List.Pairwise.nil
  | cons x xs ih => exact insAsc_pairwise x _ ih

theorem mem_dedupFrom (l : List α) : ∀ (seen : List α) (y : α),
    y ∈ dedupFrom seen l ↔ y ∈ l ∧ y ∉ seen := by
  induction l with
  | nil => intro seen y; simp [dedupFrom]
  | cons x xs ih =>
    intro seen y
    unfold dedupFrom
    split
    · rename_i hx
      rw [ih]
      constructor
      · rintro ⟨h1, h2⟩; exact ⟨List.mem_cons_of_mem _ h1, h2⟩
      · rintro ⟨h1, h2⟩
        rcases List.mem_cons.1 h1 with rfl | h1
        · exact absurd hx h2
        · exact ⟨h1, h2⟩
    · rename_i hx
      rw [List.mem_cons, ih]
      constructor
      · rintro (rfl | ⟨h1, h2⟩)
        · exact ⟨List.mem_cons_self, hx⟩
        · exact ⟨List.mem_cons_of_mem _ h1, fun h => h2 (List.mem_cons_of_mem _ h)⟩
      · rintro ⟨h1, h2⟩
        by_cases hyx : y = x
        · exact Or.inl hyx
        · right
          rcases List.mem_cons.1 h1 with h | h1
          · exact absurd h hyx
          · exact ⟨h1, fun h => by rcases List.mem_cons.1 h with h | h; exact hyx h; exact h2 h⟩

theorem dedupFrom_strict (l : List α) : ∀ (seen : List α), l.Pairwise (· ≤ ·) →
    (dedupFrom seen l).Pairwise (· < ·) := by
  induction l with
  | nil => intro seen _; simp [dedupFrom]
  | cons x xs ih =>
    intro seen h
    rw [List.pairwise_cons] at h
    unfold dedupFrom
    split
    · exact ih seen h.2
    · refine List.pairwise_cons.2 ⟨?_, ih _ h.2⟩
      intro y hy
      rw [mem_dedupFrom] at hy
      exact lt_of_le_of_ne (h.1 y hy.1) (fun e => hy.2 (by rw [e]; exact List.mem_cons_self))

theorem dedupFrom_of_strict (l : List α) : ∀ (seen : List α), l.Pairwise (· < ·) →
    (∀ y ∈ l, y ∉ seen) → dedupFrom seen l = l := by
  induction l with
  | nil => intro seen _ _; rfl
  | cons x xs ih =>
    intro seen h hs
    rw [List.pairwise_cons] at h
    unfold dedupFrom
    rw [if_neg (hs x List.mem_cons_self)]
    congr 1
    apply ih _ h.2
    intro y hy hmem
    rcases List.mem_cons.1 hmem with rfl | hmem
    · exact lt_irrefl _ (h.1 _ hy)
    · exact hs y (List.mem_cons_of_mem _ hy) hmem

theorem mem_cleanEdges (l : List α) (y : α) : y ∈ cleanEdges l ↔ y ∈ l := by
  unfold cleanEdges
  rw [mem_dedupFrom]
  split
  · simp
  · simp [(sortAsc_perm l).mem_iff]

theorem cleanEdges_strict (l : List α) : (cleanEdges l).Pairwise (· < ·) := by
  unfold cleanEdges
  apply dedupFrom_strict
  split
  · rename_i h; exact (isSortedLE_iff l).1 h
  · exact sortAsc_pairwise l

/-- a strictly increasing list is determined by its members -/
theorem strict_ext {l₁ l₂ : List α} (h₁ : l₁.Pairwise (· < ·)) (h₂ : l₂.Pairwise (· < ·))
    (h : ∀ y, y ∈ l₁ ↔ y ∈ l₂) : l₁ = l₂ := by
  have n₁ : l₁.Nodup := h₁.imp (fun h => ne_of_lt h)
  have n₂ : l₂.Nodup := h₂.imp (fun h => ne_of_lt h)
  have p : l₁.Perm l₂ := (List.perm_ext_iff_of_nodup n₁ n₂).2 h
  exact List.Perm.eq_of_pairwise (le := (· ≤ ·)) (fun _ _ _ _ h1 h2 => le_antisymm h1 h2)
    (h₁.imp le_of_lt) (h₂.imp le_of_lt) p

theorem cleanEdges_of_strict (l : List α) (h : l.Pairwise (· < ·)) : cleanEdges l = l := by
  unfold cleanEdges
  rw [if_pos ((isSortedLE_iff l).2 (h.imp le_of_lt))]
  exact dedupFrom_of_strict l [] h (fun _ _ => by simp)

theorem asc_getElem? {s : List Nat} (hs : s.Pairwise (· ≤ ·)) {i j a b : Nat}
    (hij : i ≤ j) (ha : s[i]? = some a) (hb : s[j]? = some b) : a ≤ b := by
  rcases Nat.lt_or_eq_of_le hij with h | rfl
  · obtain ⟨hi, rfl⟩ := List.getElem?_eq_some_iff.1 ha
    obtain ⟨hj, rfl⟩ := List.getElem?_eq_some_iff.1 hb
    exact (List.pairwise_iff_getElem.1 hs) i j hi hj h
  · rw [ha] at hb; cases hb; exact Nat.le_refl _

/-! ### facts about a built object used by several property theorems -/

theorem mins_ne_nil {zero : α} {sample : List α} {R : List Nat} {C : Classes α}
    (hB : Built zero sample R C) (h2 : 2 ≤ R.length) : C.mins ≠ [] := by
  intro h
  have := hB.len_mins
  rw [h] at this
  simp at this
  omega

/-- the stored minima never increase with the class index, seen from a query: if class `j`'s minimum is
`≤ x` then so is that of every later class -/
theorem mins_antitone {zero : α} {sample : List α} {R : List Nat} {C : Classes α}
    (hB : Built zero sample R C) (hR : R.Pairwise (· ≤ ·)) {j i : Nat} {a b : Bnd α} {x : α}
    (hji : j ≤ i) (ha : C.mins[j]? = some a) (hb : C.mins[i]? = some b) (hax : a.leVal x = true) :
    b.leVal x = true := by
  have hj : j < C.mins.length := (List.getElem?_eq_some_iff.1 ha).1
  have hi : i < C.mins.length := (List.getElem?_eq_some_iff.1 hb).1
  have hlen := hB.len_mins
  obtain ⟨rj, hrj⟩ : ∃ r, R[j + 1]? = some r := ⟨R[j + 1]'(by omega), List.getElem?_eq_getElem _⟩
  obtain ⟨ri, hri⟩ : ∃ r, R[i + 1]? = some r := ⟨R[i + 1]'(by omega), List.getElem?_eq_getElem _⟩
  obtain ⟨a', ha', hsa⟩ := hB.mins j rj hrj
  obtain ⟨b', hb', hsb⟩ := hB.mins i ri hri
  rw [ha] at ha'; cases ha'
  rw [hb] at hb'; cases hb'
  have hrr : rj ≤ ri := asc_getElem? hR (by omega) hrj hri
  rcases hsa with ⟨_, rfl⟩ | ⟨hpos, m, hm, rfl⟩
  · simp [Bnd.leVal] at hax
  · rcases hsb with ⟨h0, _⟩ | ⟨_, m', hm', rfl⟩
    · omega
    · simp only [Bnd.leVal, decide_eq_true_eq] at hax ⊢
      exact le_trans (desc_getElem? (sortDesc_pairwise sample) (by omega) hm hm') hax

end order
end SparkxVerif.Centrality
