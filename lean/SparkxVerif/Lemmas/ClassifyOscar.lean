/-
Classification, Oscar files: the text `oscarText F` rendered for a specification of the grammar (`grammarOscar F`) is
observed (`Proto.fileOfText`, `Rd.analyse`) as the lines of `F` — the Oscar conjunct of `C01.C01_classification`.
Core Lean only (no Mathlib).
-/
import SparkxVerif.Lemmas.ClassifyLines

set_option linter.unusedSimpArgs false

namespace SparkxVerif.Rd
open SparkxVerif.Str

/-! ### the lines of an Oscar event are observed as their kind -/

theorem out_line_obs (e : OEvent) : isOutLine (analyse (outLineText e)) e = true := by
  rw [analyse_out_line]
  simp [isOutLine, tokInt, pyInt?_int_repr, pyInt?_nat_repr]

theorem part_line_obs (fmt : Fmt) (attrs : List String) {r : List String} (hne : r ≠ []) (h : ∀ t ∈ r, numTok t = true)
    (hc : colsOk fmt r.length = true) (hf : fieldsOk (colKinds fmt attrs r.length) r = true) :
    isPartLine fmt attrs (analyse (" ".intercalate r)) r = true := by
  rw [analyse_particle_line hne h]
  simp [isPartLine, hc, hf]

/-- the footer shapes of the grammar -/
def footerShape (e : OEvent) : Prop :=
  ∃ pad tail, pad ∈ [" ", "  ", "   "] ∧ tail ∈ ["yes", "no"] ∧ e.footer = footerText e.label pad e.impact tail

theorem end_line_obs {e : OEvent} (hs : footerShape e) (hb : numTok e.impact = true) (hf : isPyFloat e.impact = true) :
    isEndLine (analyse e.footer) e = true := by
  obtain ⟨pad, tail, hpad, htail, hfoot⟩ := hs
  have hfl := footer_flags e.label hpad htail hb
  have htk := footer_toks e.label hpad htail hb
  have hi := footer_impactTok e.label hpad htail hb hf
  rw [← hfoot] at hfl htk hi
  obtain ⟨h0, h1, h2, h3, h4, h5, _, h7, h8, h9, _⟩ := hfl
  simp only [isEndLine, h0, h1, h2, h3, h4, h5, h7, h8, h9, htk, hi, okEq]
  simp [footerToks, tokInt, pyInt?_int_repr]

/-! ### the body of an Oscar file -/

/-- what the grammar says about one event -/
structure EventOk (fmt : Fmt) (attrs : List String) (e : OEvent) : Prop where
  rows : ∀ r ∈ e.parts, r ≠ [] ∧ (∀ t ∈ r, numTok t = true) ∧ colsOk fmt r.length = true ∧
    fieldsOk (colKinds fmt attrs r.length) r = true
  impactTok : numTok e.impact = true
  impactFloat : isPyFloat e.impact = true
  shape : footerShape e

theorem obsParts_rows (fmt : Fmt) (attrs : List String) (rows : List (List String))
    (h : ∀ r ∈ rows, r ≠ [] ∧ (∀ t ∈ r, numTok t = true) ∧ colsOk fmt r.length = true ∧
      fieldsOk (colKinds fmt attrs r.length) r = true) :
    obsParts fmt attrs ((rows.map (fun r => " ".intercalate r)).map analyse) rows = true := by
  induction rows with
  | nil => rfl
  | cons r rs ih =>
    obtain ⟨h1, h2, h3, h4⟩ := h r (by simp)
    simp only [List.map_cons, obsParts, Bool.and_eq_true]
    exact ⟨part_line_obs fmt attrs h1 h2 h3 h4, ih (fun r' hr' => h r' (by simp [hr']))⟩

theorem obsBody_events (fmt : Fmt) (attrs : List String) (es : List OEvent) (h : ∀ e ∈ es, EventOk fmt attrs e) :
    obsBody fmt attrs ((es.flatMap eventLinesText).map analyse) es = true := by
  induction es with
  | nil => rfl
  | cons e es ih =>
    have he := h e (by simp)
    have hlen : ((e.parts.map (fun r => " ".intercalate r)).map analyse).length = e.parts.length := by simp
    simp only [List.flatMap_cons, eventLinesText, List.map_append, List.map_cons, List.cons_append, List.append_assoc,
      List.map_nil, List.nil_append, obsBody]
    rw [List.drop_left' hlen, List.take_left' hlen]
    simp only [List.cons_append, List.nil_append, Bool.and_eq_true]
    exact ⟨⟨⟨out_line_obs e, obsParts_rows fmt attrs e.parts he.rows⟩, end_line_obs he.shape he.impactTok he.impactFloat⟩,
      ih (fun e' he' => h e' (by simp [he']))⟩

/-! ### the whole file -/

theorem grammarOscar_unpack {F : OscarSpec} (hg : grammarOscar F = true) :
    (∀ c ∈ F.cols, colTok c = true) ∧ notScanned (analyse F.h2) = true ∧ notScanned (analyse F.h3) = true ∧
    '\n' ∉ F.h2.toList ∧ '\n' ∉ F.h3.toList ∧ F.h3 ≠ "" ∧ ∀ e ∈ F.events, EventOk F.fmt (attrsOf F) e := by
  simp only [grammarOscar, Bool.and_eq_true, List.all_eq_true, Bool.not_eq_true', List.any_eq_true, beq_iff_eq] at hg
  obtain ⟨⟨⟨⟨⟨⟨hc, h2⟩, h3⟩, n2⟩, n3⟩, e3⟩, hev⟩ := hg
  refine ⟨hc, h2, h3, not_mem_of_hasSub_false rfl n2, not_mem_of_hasSub_false rfl n3, ?_, ?_⟩
  · intro h; rw [h] at e3; simp at e3
  · intro e he
    obtain ⟨⟨⟨hrows, hi⟩, hf⟩, pad, hpad, tail, htail, hfoot⟩ := hev e he
    refine ⟨?_, hi, hf, ⟨pad, tail, hpad, htail, hfoot⟩⟩
    intro r hr
    obtain ⟨⟨⟨hne, hnum⟩, hcols⟩, hfields⟩ := hrows r hr
    refine ⟨?_, hnum, hcols, hfields⟩
    rintro rfl; simp at hne

theorem headLine_no_nl (F : OscarSpec) (hc : ∀ c ∈ F.cols, colTok c = true) :
    '\n' ∉ (" ".intercalate (headToks F)).toList := by
  intro hm
  rcases mem_toList_intercalate hm with hm | ⟨t, ht, hm⟩
  · revert hm; decide
  · simp only [headToks, List.mem_cons] at ht
    rcases ht with rfl | rfl | ht
    · revert hm; cases F.fmt <;> decide
    · revert hm; decide
    · have := hc t ht
      simp only [colTok, wordTok, Bool.and_eq_true, String.all_bool_eq, List.all_eq_true] at this
      have := this.1.1.2 _ hm
      revert this; decide

theorem eventLines_no_nl {fmt : Fmt} {attrs : List String} {e : OEvent} (he : EventOk fmt attrs e) :
    ∀ l ∈ eventLinesText e, '\n' ∉ l.toList := by
  intro l hl hm
  simp only [eventLinesText, List.mem_cons, List.mem_append, List.mem_map, List.not_mem_nil, or_false] at hl
  rcases hl with rfl | ⟨r, hr, rfl⟩ | rfl
  · have := outLine_alphabet e _ hm
    revert this; decide
  · have := partLine_alphabet (he.rows r hr).2.1 _ hm
    revert this; decide
  · obtain ⟨pad, tail, hpad, htail, hfoot⟩ := he.shape
    rw [hfoot] at hm
    have := footer_alphabet e.label hpad htail he.impactTok _ hm
    revert this; decide

theorem footer_ne_empty {e : OEvent} (hs : footerShape e) : e.footer ≠ "" := by
  obtain ⟨pad, tail, _, _, hfoot⟩ := hs
  intro h
  have := congrArg String.toList (hfoot.symm.trans h)
  rw [footerText_toList] at this
  simp at this

/-- the lines of a rendered Oscar text -/
theorem fileOfText_oscarText (F : OscarSpec) (hg : grammarOscar F = true) :
    Proto.fileOfText (oscarText F) = { lines := (oscarLinesText F).map analyse, trailingNL := F.trailingNL } := by
  obtain ⟨hc, h2, h3, n2, n3, e3, hev⟩ := grammarOscar_unpack hg
  have hne : oscarLinesText F ≠ [] := by simp [oscarLinesText]
  have hnl : ∀ l ∈ oscarLinesText F, '\n' ∉ l.toList := by
    intro l hl
    simp only [oscarLinesText, List.cons_append, List.nil_append, List.mem_cons, List.mem_flatMap] at hl
    rcases hl with rfl | rfl | rfl | ⟨e, he, hl⟩
    · exact headLine_no_nl F hc
    · exact n2
    · exact n3
    · exact eventLines_no_nl (hev e he) l hl
  have hlast : (oscarLinesText F).getLast hne ≠ "" := by
    rcases List.eq_nil_or_concat F.events with hE | ⟨es, e, hE⟩
    · simp [oscarLinesText, hE, e3]
    · have hf := footer_ne_empty (hev e (by simp [hE])).shape
      have : oscarLinesText F =
          ([" ".intercalate (headToks F), F.h2, F.h3] ++ es.flatMap eventLinesText ++
            (outLineText e :: e.parts.map (fun r => " ".intercalate r))) ++ [e.footer] := by
        simp [oscarLinesText, hE, List.flatMap_append, eventLinesText]
      have hg : (oscarLinesText F).getLast hne = e.footer := by
        simp only [this, List.getLast_concat]
      rw [hg]; exact hf
  unfold oscarText
  exact fileOfText_textOfLines _ _ hne hnl hlast

/-- C01 classification, Oscar: the text rendered for a specification of the grammar is observed as that specification -/
theorem oscar_classification (F : OscarSpec) (hg : grammarOscar F = true) :
    obsOscar (Proto.fileOfText (oscarText F)) F = true := by
  obtain ⟨hc, h2, h3, n2, n3, e3, hev⟩ := grammarOscar_unpack hg
  rw [fileOfText_oscarText F hg]
  simp only [obsOscar, oscarLinesText, List.cons_append, List.nil_append, List.map_cons, beq_self_eq_true, Bool.true_and,
    Bool.and_eq_true, beq_iff_eq]
  exact ⟨⟨⟨⟨⟨head_line F hc, h2⟩, h3⟩, rfl⟩, rfl⟩, obsBody_events F.fmt (attrsOf F) F.events hev⟩

end SparkxVerif.Rd
