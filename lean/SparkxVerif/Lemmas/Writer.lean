/-
Lemmas for C06 (Oscar part; no Mathlib needed).

Part A — the writer model on a well-formed object produces exactly `oscarSpecLines`: the three copied header lines, then
for the `i`-th event held the block `# event i out n`, the `n` particle lines, the event's own end line carrying `i`.
Part B — the shared reader model `Rd.readOscar`, run on any file whose lines are *observed* (by an arbitrary
`obs : String → LineF`) as such blocks, returns those events, counts `(i, n_i)`, the end lines, the format.
-/
import SparkxVerif.Core.Writer

set_option linter.unusedSimpArgs false
set_option linter.unusedVariables false

namespace SparkxVerif.Wr
open SparkxVerif.Rd SparkxVerif.Gen.WriterTables

/-- one written event: text of the `out` line, (cells, text) of every particle line, text of the end line -/
structure EvBlock where
  out : String
  parts : List (List String × String)
  foot : String

/-! ## Part A : writer = specification -/

variable {R V : Type}

def EvBlock.tlines (i : Nat) (b : EvBlock) : List TLine :=
  ⟨.out i b.parts.length, b.out⟩ :: (b.parts.map (fun p => ⟨.part p.1, p.2⟩) ++ [⟨.endl i, b.foot⟩])

def tlinesOf : Nat → List EvBlock → List TLine
  | _, [] => []
  | i, b :: bs => b.tlines i ++ tlinesOf (i + 1) bs

/-- conversions of a row with `n` columns -/
def specsOf (fmt : Fmt) (custom : List Spec) (n : Nat) : List Spec :=
  match fmt with
  | .oscar2013 => fmtOscar2013
  | .ascii => custom
  | _ => fmtExtended20 ++ List.replicate (n - 20) fmtExtensionSpec

def cellsRow (c : Codec V) (specs : List Spec) (vals : R → List V) (r : R) : List String × String :=
  (cellsOf c specs (vals r), " ".intercalate (cellsOf c specs (vals r)))

/-- the end line written after the `i`-th event held: its own end line, carrying the number `i` -/
def footOf (o : OscarObj R) (i : Nat) : String :=
  substLabel 2 i (o.endLines.getD (o.origin.getD i 0) "")

def oscarBlocksOf (c : Codec V) (vals : R → List V) (specs : List Spec) (foot : Nat → String) :
    Nat → List (List R) → List EvBlock
  | _, [] => []
  | i, ev :: evs =>
    ⟨outLine i ev.length, ev.map (cellsRow c specs vals), foot i⟩ :: oscarBlocksOf c vals specs foot (i + 1) evs

theorem rowLines_ok (c : Codec V) (jet : Bool) (specs : List Spec) (vals : R → List V) (ev : List R)
    (h : ∀ r ∈ ev, (vals r).length = specs.length) :
    rowLines c jet specs (ev.map vals)
      = .ok (ev.map (fun r => ⟨if jet then .jpart (cellsOf c specs (vals r)) else .part (cellsOf c specs (vals r)),
                               " ".intercalate (cellsOf c specs (vals r))⟩)) := by
  induction ev with
  | nil => rfl
  | cons r ev ih =>
    have hr := h r (by simp)
    have ih' := ih (fun q hq => h q (by simp [hq]))
    unfold rowLines at ih' ⊢
    simp only [List.map_cons, List.mapM_cons, ih', bind, Except.bind, rowLine, hr, bne_self_eq_false,
      Bool.false_eq_true, ↓reduceIte, pure, Except.pure]

theorem pyIndex_nat {α : Type} (xs : List α) (i : Nat) (h : i < xs.length) : pyIndex xs (i : Int) = .ok xs[i] := by
  have h0 : ¬ ((i : Int) < 0) := by omega
  simp [pyIndex, h0, h]

theorem oscarFooter_ok (o : OscarObj R) (i : Nat) (hi : i < o.origin.length)
    (hj : ∀ j ∈ o.origin, j < o.endLines.length) :
    oscarFooter o (i : Int) = .ok (footOf o i) := by
  have hj' := hj (o.origin[i]) (List.getElem_mem hi)
  simp only [oscarFooter, oscarFooterIdx, oscarFooterRule, footerSubstIndex, pyIndex_nat _ _ hi, pyIndex_nat _ _ hj', hj',
    bind, Except.bind, pure, Except.pure, ↓reduceIte, footOf]
  simp [hi, hj']

theorem widen_spec (fmt : Fmt) (custom cur : List Spec) (n : Nat)
    (hfmt : fmt = .oscar2013 ∨ fmt = .extended ∨ fmt = .ascii) (hcur : n ≤ 20 → cur = fmtExtended20) :
    oscarSpecs fmt custom (widen fmt true n cur) = specsOf fmt custom n
      ∧ (n ≤ 20 → widen fmt true n cur = fmtExtended20) := by
  constructor
  · rcases hfmt with h | h | h <;> subst h
    · simp [oscarSpecs, specsOf]
    · by_cases hn : n > 20
      · simp [oscarSpecs, specsOf, widen, hn, extFirstEventOnly]
      · have : n - 20 = 0 := by omega
        simp [oscarSpecs, specsOf, widen, hn, this, hcur (by omega)]
    · simp [oscarSpecs, specsOf]
  · intro hn
    have : ¬ n > 20 := by omega
    simp [widen, this, hcur hn]

theorem oscarEvents_ok (c : Codec V) (vals : R → List V) (o : OscarObj R) (custom : List Spec) (n : Nat)
    (hfmt : o.fmt = .oscar2013 ∨ o.fmt = .extended ∨ o.fmt = .ascii)
    (hspecs : (specsOf o.fmt custom n).length = n)
    (hj : ∀ j ∈ o.origin, j < o.endLines.length)
    (first : Int) (evs : List (List R)) (i : Nat) (cur : List Spec)
    (hcur : n ≤ 20 → cur = fmtExtended20)
    (hcols : ∀ ev ∈ evs, ∀ r ∈ ev, (vals r).length = n)
    (hi : i + evs.length ≤ o.origin.length) :
    oscarEvents c vals o custom i cur (relabelRows first i evs) evs
      = .ok (tlinesOf i (oscarBlocksOf c vals (specsOf o.fmt custom n) (footOf o) i evs)) := by
  induction evs generalizing i cur with
  | nil => simp [oscarEvents, oscarBlocksOf, tlinesOf]
  | cons ev evs ih =>
    have hi' : i < o.origin.length := by simp at hi; omega
    have hfoot := oscarFooter_ok o i hi' hj
    have hlab : labelOf oscarLabelMulti i (first + i) = (i : Int) := by simp [labelOf, oscarLabelMulti]
    cases ev with
    | nil =>
      have ih' := ih (i + 1) cur hcur (fun e he => hcols e (by simp [he])) (by simp at hi ⊢; omega)
      simp only [relabelRows, oscarEvents, hlab, hfoot, ih', bind, Except.bind, pure, Except.pure]
      simp [oscarBlocksOf, tlinesOf, EvBlock.tlines]
    | cons p ps =>
      have hp : (vals p).length = n := hcols (p :: ps) (by simp) p (by simp)
      obtain ⟨hw1, hw2⟩ := widen_spec o.fmt custom cur n hfmt hcur
      have hrows := rowLines_ok c false (specsOf o.fmt custom n) vals (p :: ps)
        (fun r hr => by rw [hspecs]; exact hcols (p :: ps) (by simp) r hr)
      have ih' := ih (i + 1) (widen o.fmt true n cur) hw2 (fun e he => hcols e (by simp [he])) (by simp at hi ⊢; omega)
      have hg : (!extFirstEventOnly || i == 0) = true := by simp [extFirstEventOnly]
      simp only [relabelRows, oscarEvents, hlab, hfoot, hp, hg, hw1, hrows, ih', bind, Except.bind, pure, Except.pure]
      simp [oscarBlocksOf, tlinesOf, EvBlock.tlines, cellsRow]

theorem takeRows_self (ev : List R) : takeRows ev (ev.length : Int) = .ok ev := by
  unfold takeRows
  cases ev with
  | nil => simp
  | cons r rs =>
    have : ¬ (((r :: rs).length : Nat) : Int) ≤ 0 := by simp
    simp [this]

theorem nestedRows_ok (first : Int) (evs : List (List R)) (i : Nat) :
    nestedRows evs.length (relabelRows first i evs) evs = .ok evs := by
  induction evs generalizing i with
  | nil => rfl
  | cons ev evs ih =>
    simp only [List.length_cons, relabelRows, nestedRows, takeRows_self, ih (i + 1), bind, Except.bind, pure, Except.pure]

structure OscarWF (vals : R → List V) (custom : List Spec) (n : Nat) (o : OscarObj R) : Prop where
  nonempty : o.events ≠ []
  ne : o.numEvents = o.events.length
  counts : ∃ first, o.counts = .arr2d (relabelRows first 0 o.events)
  origin_len : o.origin.length = o.events.length
  origin_lt : ∀ j ∈ o.origin, j < o.endLines.length
  cols : ∀ ev ∈ o.events, ∀ r ∈ ev, (vals r).length = n
  fmt : o.fmt = .oscar2013 ∨ o.fmt = .extended ∨ o.fmt = .ascii
  custom_ok : oscarCustom o.fmt o.attrs = .ok custom
  specs_len : (specsOf o.fmt custom n).length = n

/-- the written file of a well-formed object: the copied header, then one block per event held -/
def oscarSpecLines (c : Codec V) (vals : R → List V) (custom : List Spec) (n : Nat) (o : OscarObj R) : List TLine :=
  hdrLines o.header ++ tlinesOf 0 (oscarBlocksOf c vals (specsOf o.fmt custom n) (footOf o) 0 o.events)

theorem writeOscarK_ok (c : Codec V) (vals : R → List V) (custom : List Spec) (n : Nat) (o : OscarObj R)
    (wf : OscarWF vals custom n o) :
    writeOscarK c vals o = .ok (oscarSpecLines c vals custom n o) := by
  obtain ⟨first, hc⟩ := wf.counts
  have hol := wf.origin_len
  cases hev : o.events with
  | nil => exact absurd hev wf.nonempty
  | cons ev evs =>
    have hne := wf.ne
    rw [hev] at hne hc hol
    cases evs with
    | nil =>
      -- one event: the `else` branch
      have hn1 : o.numEvents = 1 := by simpa using hne
      have horg : o.origin.isEmpty = false := by
        cases ho : o.origin with
        | nil => rw [ho] at hol; simp at hol
        | cons _ _ => rfl
      have hfoot : oscarFooter o (0 : Int) = .ok (footOf o 0) := by
        have := oscarFooter_ok o 0 (by rw [hol]; simp) wf.origin_lt
        simpa using this
      have hpl : particleList o.toStore = .ok (.flat ev) := by
        simp [particleList, hn1, hc, relabelRows, hev, takeRows_self, Except.map]
      unfold writeOscarK
      have h10 : ((1 : Int) == 0) = false := by decide
      simp only [wf.custom_ok, hpl, hn1, h10, Bool.and_false, Bool.false_or, hc, relabelRows, bind, Except.bind, pure, Except.pure, zeroNeedsNoOrigin, horg,
        Bool.not_true, Bool.false_or, Bool.and_false, Bool.false_eq_true, ↓reduceIte, oscarLabelSingle, labelOf]
      have hgt : ¬ ((1 : Int) > 1) := by omega
      simp only [hgt, ↓reduceIte]
      cases ev with
      | nil =>
        simp [hfoot, oscarSpecLines, hev, oscarBlocksOf, tlinesOf, EvBlock.tlines]
      | cons p ps =>
        have hp : (vals p).length = n := wf.cols (p :: ps) (by rw [hev]; simp) p (by simp)
        obtain ⟨hw1, _⟩ := widen_spec o.fmt custom fmtExtended20 n wf.fmt (fun _ => rfl)
        have hrows := rowLines_ok c false (specsOf o.fmt custom n) vals (p :: ps)
          (fun r hr => by rw [wf.specs_len]; exact wf.cols (p :: ps) (by rw [hev]; simp) r hr)
        simp only [hp, hw1, hrows, hfoot]
        simp [oscarSpecLines, hev, oscarBlocksOf, tlinesOf, EvBlock.tlines, cellsRow, hfoot, Function.comp_def]
    | cons ev2 evs =>
      have hn2 : o.numEvents = (evs.length : Int) + 2 := by
        rw [hne]; simp only [List.length_cons]; push_cast; omega
      have hne1 : (o.numEvents == 1) = false := by rw [hn2]; simp; omega
      have hne0 : (o.numEvents == 0) = false := by rw [hn2]; simp; omega
      have hgt : o.numEvents > 1 := by rw [hn2]; omega
      have hnat : o.numEvents.toNat = (ev :: ev2 :: evs).length := by
        rw [hn2]; simp only [List.length_cons]; omega
      have hpl : particleList o.toStore = .ok (.nested (ev :: ev2 :: evs)) := by
        simp only [particleList, hne1, hne0, hc, hnat, hev, Bool.false_eq_true, ↓reduceIte]
        rw [nestedRows_ok]; rfl
      have hev' := oscarEvents_ok c vals o custom n wf.fmt wf.specs_len wf.origin_lt first (ev :: ev2 :: evs) 0
        fmtExtended20 (fun _ => rfl) (by rw [← hev]; exact wf.cols) (by rw [hol]; simp)
      unfold writeOscarK
      simp only [wf.custom_ok, hpl, hne1, hne0, Bool.and_false, Bool.false_or, hgt, hc, hev', bind, Except.bind, pure, Except.pure, Bool.false_and,
        Bool.false_eq_true, ↓reduceIte]
      simp [oscarSpecLines, hev]


/-! ## Part B : the reader on observed blocks -/

def EvBlock.lines (b : EvBlock) : List String := b.out :: (b.parts.map (·.2) ++ [b.foot])

def EvBlock.obsLines (obs : String → LineF) (b : EvBlock) : List LineF :=
  obs b.out :: (b.parts.map (fun p => obs p.2) ++ [obs b.foot])

theorem EvBlock.map_lines (obs : String → LineF) (b : EvBlock) : b.lines.map obs = b.obsLines obs := by
  simp [EvBlock.lines, EvBlock.obsLines, List.map_map, Function.comp_def]

theorem intTok_some {toks : List String} {k : Nat} {e : Int} (h : intTok toks k = some e) :
    ∃ t, toks[k]? = some t ∧ pyInt? t = some e := by
  unfold intTok at h
  cases ht : toks[k]? with
  | none => simp [ht] at h
  | some t => exact ⟨t, rfl, by simpa [ht] using h⟩

structure BlockOK (obs : String → LineF) (fmt : Fmt) (attrs : List String) (i : Nat) (b : EvBlock) : Prop where
  out : obsOut (obs b.out) i b.parts.length = true
  parts : ∀ p ∈ b.parts, obsPart fmt attrs (obs p.2) p.1 = true
  foot : obsEnd (obs b.foot) i = true
  raw : (obs b.foot).raw = b.foot

def BlocksOK (obs : String → LineF) (fmt : Fmt) (attrs : List String) : Nat → List EvBlock → Prop
  | _, [] => True
  | i, b :: bs => BlockOK obs fmt attrs i b ∧ BlocksOK obs fmt attrs (i + 1) bs

def rowsOf : Nat → List EvBlock → List (Int × Int)
  | _, [] => []
  | i, b :: bs => ((i : Int), (b.parts.length : Int)) :: rowsOf (i + 1) bs

variable {obs : String → LineF} {fmt : Fmt} {attrs : List String}

theorem oscarScan_parts (ps : List (List String × String)) (rest : List LineF)
    (h : ∀ p ∈ ps, obsPart fmt attrs (obs p.2) p.1 = true) :
    oscarScan (ps.map (fun p => obs p.2) ++ rest) = oscarScan rest := by
  induction ps with
  | nil => rfl
  | cons p ps ih =>
    have hp := h p (by simp)
    simp only [obsPart, Bool.and_eq_true, Bool.not_eq_true'] at hp
    simp only [List.map_cons, List.cons_append]
    rw [oscarScan]
    simp [hp.1.1.1.1]
    exact ih (fun q hq => h q (by simp [hq]))

theorem oscarScan_blocks (i : Nat) (bs : List EvBlock) (h : BlocksOK obs fmt attrs i bs) :
    oscarScan (bs.flatMap (EvBlock.obsLines obs)) = .ok (rowsOf i bs, bs.map (·.foot)) := by
  induction bs generalizing i with
  | nil => simp [oscarScan, rowsOf]
  | cons b bs ih =>
    obtain ⟨hb, hbs⟩ := h
    have ho := hb.out
    have hf := hb.foot
    simp only [obsOut, Bool.and_eq_true, Bool.not_eq_true', beq_iff_eq] at ho
    simp only [obsEnd, Bool.and_eq_true, Bool.not_eq_true', beq_iff_eq] at hf
    obtain ⟨⟨⟨⟨⟨⟨h1, h2⟩, h3⟩, h4⟩, h5⟩, h6⟩, h7⟩ := ho
    obtain ⟨t2, ht2, ht2'⟩ := intTok_some h6
    obtain ⟨t4, ht4, ht4'⟩ := intTok_some h7
    simp only [List.flatMap_cons, EvBlock.obsLines, List.cons_append]
    rw [oscarScan]
    simp only [h1, h2, h3, Bool.and_false, Bool.false_eq_true, ↓reduceIte, Bool.and_self]
    rw [List.append_assoc, oscarScan_parts b.parts _ hb.parts]
    simp only [List.cons_append, List.nil_append]
    rw [oscarScan]
    simp only [hf.1.1.1.1.1.1, hf.1.1.1.1.1.2, Bool.and_self, ↓reduceIte]
    rw [ih (i + 1) hbs]
    simp [ht2, ht4, ht2', ht4', rowsOf, hb.raw, bind, Except.bind, pure, Except.pure]

theorem closeEvent_none (st : LoopSt) (fl : Int) :
    closeEvent st none fl = .ok { st with plist := st.plist ++ [st.data], data := [] } := by
  unfold closeEvent
  by_cases h : st.data.length = 0 <;> simp [h, bind, Except.bind, pure, Except.pure]

theorem oscarLoop_parts (fl : Int) (ps : List (List String × String)) (rest : List LineF) (k : Nat)
    (h : ∀ p ∈ ps, obsPart fmt attrs (obs p.2) p.1 = true) (lineNo : Nat) (st : LoopSt) :
    ∃ d, oscarLoop fmt attrs none fl (ps.length + k) lineNo false (ps.map (fun p => obs p.2) ++ rest) st
        = oscarLoop fmt attrs none fl k (lineNo + ps.length) false rest { st with data := st.data ++ d }
      ∧ d.map (·.toks) = ps.map (·.1) := by
  induction ps generalizing lineNo st with
  | nil => exact ⟨[], by simp, rfl⟩
  | cons p ps ih =>
    have hp := h p (by simp)
    simp only [obsPart, Bool.and_eq_true, Bool.not_eq_true', beq_iff_eq] at hp
    obtain ⟨⟨⟨⟨hh, he⟩, ht⟩, hc⟩, hf⟩ := hp
    obtain ⟨d, hd, hd'⟩ := ih (fun q hq => h q (by simp [hq])) (lineNo + 1)
      { st with data := st.data ++ [⟨lineNo, (obs p.2).toks⟩] }
    refine ⟨⟨lineNo, (obs p.2).toks⟩ :: d, ?_, by simp [hd', ht]⟩
    have e : (p :: ps).length + k = (ps.length + k) + 1 := by simp; omega
    rw [e]
    simp only [List.map_cons, List.cons_append]
    rw [oscarLoop]
    have hc' : colsOk fmt (obs p.2).toks.length = true := by rw [ht]; exact hc
    have hf' : fieldsOk (colKinds fmt attrs (obs p.2).toks.length) (obs p.2).toks = true := by rw [ht]; exact hf
    simp only [Bool.false_and, Bool.false_eq_true, ↓reduceIte, hh, he, hc', hf', Bool.not_true]
    rw [hd]
    simp [Nat.add_assoc, Nat.add_comm 1]

def strip (evs : List (List PLine)) : List (List (List String)) := evs.map (fun ev => ev.map (·.toks))

def linesLen : List EvBlock → Nat
  | [] => 0
  | b :: bs => (b.parts.length + 2) + linesLen bs

theorem linesLen_eq (obs : String → LineF) (bs : List EvBlock) :
    (bs.flatMap (EvBlock.obsLines obs)).length = linesLen bs := by
  induction bs with
  | nil => rfl
  | cons b bs ih => simp [EvBlock.obsLines, linesLen, ih]; omega

theorem oscarLoop_block (fl : Int) (i : Nat) (b : EvBlock) (hb : BlockOK obs fmt attrs i b) (rest : List LineF)
    (k lineNo : Nat) (first : Bool) (st : LoopSt) (hd : st.data = []) :
    ∃ ev, oscarLoop fmt attrs none fl ((b.parts.length + 2) + k) lineNo first (b.obsLines obs ++ rest) st
        = oscarLoop fmt attrs none fl k (lineNo + (b.parts.length + 2)) false rest
            { st with plist := st.plist ++ [ev], data := [] }
      ∧ ev.map (·.toks) = b.parts.map (·.1) := by
  have ho := hb.out
  have hf := hb.foot
  simp only [obsOut, Bool.and_eq_true, Bool.not_eq_true', beq_iff_eq] at ho
  simp only [obsEnd, Bool.and_eq_true, Bool.not_eq_true', beq_iff_eq, Bool.not_eq_eq_eq_not, Bool.not_true] at hf
  obtain ⟨⟨⟨⟨⟨⟨h1, h2⟩, h3⟩, h4⟩, h5⟩, h6⟩, h7⟩ := ho
  obtain ⟨⟨⟨⟨⟨⟨f1, f2⟩, f3⟩, f4⟩, f5⟩, f6⟩, f7⟩ := hf
  obtain ⟨d, hd1, hd2⟩ := oscarLoop_parts (obs := obs) (fmt := fmt) (attrs := attrs) fl b.parts (obs b.foot :: rest) (1 + k)
    hb.parts (lineNo + 1) st
  refine ⟨d, ?_, hd2⟩
  have e : (b.parts.length + 2) + k = (b.parts.length + (1 + k)) + 1 := by omega
  rw [e]
  simp only [EvBlock.obsLines, List.cons_append, List.append_assoc, List.nil_append]
  rw [oscarLoop]
  simp only [h1, h4, h5, Bool.not_true, Bool.and_false, Bool.false_and, Bool.false_eq_true, ↓reduceIte, Bool.true_or,
    Bool.and_self]
  rw [hd1]
  have e2 : 1 + k = k + 1 := by omega
  rw [e2, oscarLoop]
  simp only [Bool.false_and, Bool.false_eq_true, ↓reduceIte, f4, f1, f3, Bool.and_self, closeEvent_none, hd,
    List.nil_append, bind, Except.bind]
  congr 1
  omega

theorem oscarLoop_blocks (fl : Int) (bs : List EvBlock) (i : Nat) (h : BlocksOK obs fmt attrs i bs)
    (lineNo : Nat) (first : Bool) (st : LoopSt) (hd : st.data = []) :
    ∃ evs, oscarLoop fmt attrs none fl (linesLen bs) lineNo first (bs.flatMap (EvBlock.obsLines obs)) st
        = .ok { st with plist := st.plist ++ evs, data := [] }
      ∧ strip evs = bs.map (fun b => b.parts.map (·.1)) := by
  induction bs generalizing i lineNo first st with
  | nil => exact ⟨[], by simp [linesLen, oscarLoop, hd.symm], rfl⟩
  | cons b bs ih =>
    obtain ⟨hb, hbs⟩ := h
    obtain ⟨ev, he1, he2⟩ := oscarLoop_block fl i b hb (bs.flatMap (EvBlock.obsLines obs)) (linesLen bs) lineNo first st hd
    obtain ⟨evs, hs1, hs2⟩ := ih (i + 1) hbs (lineNo + (b.parts.length + 2)) false
      { st with plist := st.plist ++ [ev], data := [] } rfl
    refine ⟨ev :: evs, ?_, by simp [strip] at hs2 ⊢; exact ⟨he2, hs2⟩⟩
    simp only [List.flatMap_cons, linesLen]
    rw [he1, hs1]
    simp

theorem blocksOK_last (i : Nat) (bs : List EvBlock) (h : BlocksOK obs fmt attrs i bs) (hne : bs ≠ []) :
    BlockOK obs fmt attrs (i + (bs.length - 1)) (bs.getLast hne) := by
  induction bs generalizing i with
  | nil => exact absurd rfl hne
  | cons b bs ih =>
    obtain ⟨hb, hbs⟩ := h
    cases bs with
    | nil => simpa using hb
    | cons b' bs' =>
      have := ih (i + 1) hbs (by simp)
      simp only [List.getLast_cons_cons, List.length_cons] at this ⊢
      have e : i + (bs'.length + 1 + 1 - 1) = i + 1 + (bs'.length + 1 - 1) := by omega
      rw [e]; exact this

theorem foldl_sum (rows : List (Int × Int)) (extra acc : Int) :
    rows.foldl (fun acc r => acc + (r.2 + extra)) acc = acc + rows.foldl (fun acc r => acc + (r.2 + extra)) 0 := by
  induction rows generalizing acc with
  | nil => simp
  | cons r rows ih =>
    simp only [List.foldl_cons]
    rw [ih (acc + (r.2 + extra)), ih (0 + (r.2 + extra))]
    omega

theorem sumCounts_rowsOf (i : Nat) (bs : List EvBlock) :
    sumCounts (rowsOf i bs) 0 + 2 * ((rowsOf i bs).length : Int) = (linesLen bs : Int) := by
  induction bs generalizing i with
  | nil => simp [sumCounts, rowsOf, linesLen]
  | cons b bs ih =>
    have := ih (i + 1)
    simp only [sumCounts, rowsOf, List.foldl_cons, List.length_cons, linesLen] at this ⊢
    rw [foldl_sum]
    push_cast
    omega

theorem rowsOf_length (i : Nat) (bs : List EvBlock) : (rowsOf i bs).length = bs.length := by
  induction bs generalizing i with
  | nil => rfl
  | cons b bs ih => simp [rowsOf, ih]

theorem strip_length (evs : List (List PLine)) : (strip evs).length = evs.length := by simp [strip]

theorem oscarLoop_fl (fl fl' : Int) (n : Nat) : ∀ (lineNo : Nat) (first : Bool) (lines : List LineF) (st : LoopSt),
    oscarLoop fmt attrs none fl n lineNo first lines st = oscarLoop fmt attrs none fl' n lineNo first lines st := by
  induction n with
  | zero => intro lineNo first lines st; simp [oscarLoop]
  | succ n ih =>
    intro lineNo first lines st
    cases lines with
    | nil => simp [oscarLoop]
    | cons l ls =>
      rw [oscarLoop, oscarLoop]
      simp only [closeEvent_none, bind, Except.bind, ih]

theorem flatMap_getLast (bs : List EvBlock) (hne : bs ≠ []) :
    (bs.flatMap (EvBlock.obsLines obs)).getLast? = some (obs (bs.getLast hne).foot) := by
  induction bs with
  | nil => exact absurd rfl hne
  | cons b bs ih =>
    cases bs with
    | nil =>
      simp only [List.flatMap_cons, List.flatMap_nil, List.append_nil, EvBlock.obsLines, List.getLast_singleton]
      rw [← List.cons_append, List.getLast?_append]; simp
    | cons b' bs' =>
      have := ih (by simp)
      rw [List.flatMap_cons, List.getLast?_append, this]
      simp

theorem readOscar_written (h0 h1 h2 : String) (bs : List EvBlock) (nl : Bool)
    (hfmt : oscarFormat (obs h0) = .ok (fmt, attrs)) (hf1 : fmt ≠ .extendedIC) (hf2 : fmt ≠ .extendedPhotons)
    (hs0 : obsScanSkip (obs h0) = true) (hs1 : obsScanSkip (obs h1) = true) (hs2 : obsScanSkip (obs h2) = true)
    (hbs : BlocksOK obs fmt attrs 0 bs) (hne : bs ≠ []) :
    ∃ evs, readOscar ⟨obs h0 :: obs h1 :: obs h2 :: bs.flatMap (EvBlock.obsLines obs), nl⟩ .all none
        = .ok { events := evs, numEvents := bs.length, counts := .arr2d (rowsOf 0 bs), fmt := some fmt,
                customAttrs := attrs, footers := bs.map (·.foot) }
      ∧ strip evs = bs.map (fun b => b.parts.map (·.1)) := by
  obtain ⟨evs, hl, hs⟩ := oscarLoop_blocks (obs := obs) (fmt := fmt) (attrs := attrs) 0 bs 0 hbs 3 true
    ⟨[], [], .arr2d (rowsOf 0 bs), 0⟩ rfl
  refine ⟨evs, ?_, hs⟩
  have hlen : evs.length = bs.length := by
    have := congrArg List.length hs
    simpa [strip] using this
  have hbl : 0 < bs.length := List.length_pos_iff.mpr hne
  -- number of events from the last line
  have hlast := blocksOK_last 0 bs hbs hne
  have hf := hlast.foot
  simp only [obsEnd, Bool.and_eq_true, beq_iff_eq] at hf
  obtain ⟨⟨⟨_, f5⟩, f6⟩, f7⟩ := hf
  obtain ⟨t2, ht2, ht2'⟩ := intTok_some f7
  have hne' : bs.flatMap (EvBlock.obsLines obs) ≠ [] := by
    cases bs with
    | nil => exact absurd rfl hne
    | cons b bs => simp [EvBlock.obsLines]
  have hgl : (obs h0 :: obs h1 :: obs h2 :: bs.flatMap (EvBlock.obsLines obs)).getLast?
      = some (obs (bs.getLast hne).foot) := by
    rw [List.getLast?_cons_cons, List.getLast?_cons_cons]
    cases hfm : bs.flatMap (EvBlock.obsLines obs) with
    | nil => exact absurd hfm hne'
    | cons x xs => rw [List.getLast?_cons_cons, ← hfm]; exact flatMap_getLast bs hne
  have hnum : oscarNumEvents ⟨obs h0 :: obs h1 :: obs h2 :: bs.flatMap (EvBlock.obsLines obs), nl⟩
      = .ok (bs.length : Int) := by
    simp only [oscarNumEvents, lastLine, hgl, List.length_cons, bind, Except.bind]
    have : ¬ (bs.flatMap (EvBlock.obsLines obs)).length + 1 + 1 + 1 < 2 := by omega
    simp only [this, ↓reduceIte, f5, f6, Bool.and_self, ht2, ht2']
    simp
    omega
  -- header scan
  simp only [obsScanSkip, Bool.and_eq_true, Bool.not_eq_true', Bool.not_eq_eq_eq_not, Bool.not_true] at hs0 hs1 hs2
  have hscan : oscarScan (obs h0 :: obs h1 :: obs h2 :: bs.flatMap (EvBlock.obsLines obs))
      = .ok (rowsOf 0 bs, bs.map (·.foot)) := by
    rw [oscarScan]; simp only [hs0.1, hs0.2, Bool.false_eq_true, ↓reduceIte]
    rw [oscarScan]; simp only [hs1.1, hs1.2, Bool.false_eq_true, ↓reduceIte]
    rw [oscarScan]; simp only [hs2.1, hs2.2, Bool.false_eq_true, ↓reduceIte]
    exact oscarScan_blocks 0 bs hbs
  have hsum := sumCounts_rowsOf 0 bs
  have hrl : rowsOf 0 bs ≠ [] := by
    intro h; have := rowsOf_length 0 bs; rw [h] at this; simp at this; omega
  have hfe : (fmt == Fmt.extendedIC || fmt == Fmt.extendedPhotons) = false := by
    cases fmt <;> simp_all
  have hnn : decide (sumCounts (rowsOf 0 bs) 0 + 2 * ((rowsOf 0 bs).length : Int) < 0) = false := by
    rw [hsum]; simp
  have htn : (sumCounts (rowsOf 0 bs) 0 + 2 * ((rowsOf 0 bs).length : Int)).toNat = linesLen bs := by
    rw [hsum]; simp
  have hfl : (match rowsOf 0 bs with | r :: _ => r.1 | [] => (0 : Int)) = 0 := by
    cases bs with
    | nil => exact absurd rfl hne
    | cons b bs => simp [rowsOf]
  have h3 : Int.toNat 3 = 3 := rfl
  unfold readOscar
  simp only [validSel, List.head?_cons, hfmt, hnum, hscan, skipLines, readLines, bind, Except.bind, pure, Except.pure,
    selectRows, finish, hfe, hnn, htn, h3, List.drop_succ_cons, List.drop_zero]
  rw [oscarLoop_fl _ 0, hl]
  simp [hlen]
  intro h
  rw [h] at hlen
  simp at hlen
  omega


end SparkxVerif.Wr
