/-
Bridge from C01's classification to C07's hypotheses: the rendered text of a specification of the grammar, grouped the way
`Core/ReaderDamage.lean` groups a file (`ofileOf`, `jfileOf`), is well-formed as observed in C07's sense (`OFile.wf`,
`JFile.wf`), and its lines are the lines of `Proto.fileOfText` of the text.  Core Lean only.
-/
import SparkxVerif.Lemmas.ReaderDamage
import SparkxVerif.Lemmas.Reader
import SparkxVerif.Lemmas.ClassifyOscar
import SparkxVerif.Lemmas.ClassifyJet

set_option linter.unusedSimpArgs false

namespace SparkxVerif.Bridge
open SparkxVerif.Rd

/-! ### Oscar: the rendered text as a C07 file -/

def blockOf (e : Rd.OEvent) : Dmg.Block :=
  ⟨e.label, (e.parts.length : Int), analyse (outLineText e), e.parts.map (fun r => analyse (" ".intercalate r)), analyse e.footer⟩

/-- the rendered text of `F`, grouped as C07 groups a file -/
def ofileOf (F : OscarSpec) : Dmg.OFile :=
  ⟨analyse (" ".intercalate (headToks F)), analyse F.h2, analyse F.h3, F.events.map blockOf⟩

theorem ofileOf_lines (F : OscarSpec) : (ofileOf F).lines = (oscarLinesText F).map analyse := by
  have : ∀ es : List Rd.OEvent, Dmg.blocksLines (es.map blockOf) = (es.flatMap eventLinesText).map analyse := by
    intro es
    induction es with
    | nil => rfl
    | cons e es ih =>
      simp only [List.map_cons, Dmg.blocksLines, List.flatMap_cons, List.map_append] at ih ⊢
      rw [ih]
      simp [Dmg.Block.lines, blockOf, eventLinesText]
  simp [ofileOf, Dmg.OFile.lines, oscarLinesText, this]

/-- the lines of the parsed text are the lines of `ofileOf F` -/
theorem fileOfText_lines_ofileOf (F : OscarSpec) (hg : grammarOscar F = true) :
    (Proto.fileOfText (oscarText F)).lines = (ofileOf F).lines := by
  rw [fileOfText_oscarText F hg, ofileOf_lines]

/-- the two free header lines are not taken for an event line by `set_num_events` (needed by C07 only: a file cut behind
such a line would be accepted) -/
def hdrNotEvent (F : OscarSpec) : Bool :=
  !Dmg.lastLineOk (analyse F.h2) && !Dmg.lastLineOk (analyse F.h3)

theorem labelsFrom_map : ∀ (es : List Rd.OEvent) (base : Nat),
    (∀ i (h : i < es.length), (es[i]).label = ((base + i : Nat) : Int)) → Dmg.labelsFrom (base : Int) (es.map blockOf) = true
  | [], _, _ => rfl
  | e :: es, base, hlab => by
    have h0 : e.label = (base : Int) := by
      have := hlab 0 (by simp)
      simpa only [List.getElem_cons_zero, Nat.add_zero] using this
    have ih := labelsFrom_map es (base + 1) (by
      intro i hi
      have := hlab (i + 1) (by simp; omega)
      simp only [List.getElem_cons_succ] at this
      rw [this]; congr 1; omega)
    simp only [List.map_cons, Dmg.labelsFrom, Bool.and_eq_true, beq_iff_eq]
    exact ⟨by simp [blockOf, h0], by simpa using ih⟩

theorem block_obs {fmt : Fmt} {attrs : List String} {e : Rd.OEvent} (he : EventOk fmt attrs e) :
    Dmg.Block.obs fmt attrs (blockOf e) = true := by
  have ho := out_line_obs e
  have hen := end_line_obs he.shape he.impactTok he.impactFloat
  simp only [Rd.isOutLine, Bool.and_eq_true, Bool.not_eq_true'] at ho
  obtain ⟨⟨⟨⟨⟨⟨o1, o2⟩, o3⟩, o4⟩, o5⟩, o6⟩, o7⟩ := ho
  simp only [Rd.isEndLine, Bool.and_eq_true, Bool.not_eq_true'] at hen
  obtain ⟨⟨⟨⟨⟨⟨⟨⟨⟨⟨e1, e2⟩, e3⟩, e4⟩, e5⟩, e6⟩, e7⟩, e8⟩, e9⟩, _⟩, _⟩ := hen
  simp only [Dmg.Block.obs, blockOf, Bool.and_eq_true]
  refine ⟨⟨?_, ?_⟩, ?_⟩
  · simp only [Dmg.isOut, Dmg.tokInt, o1, o2, o3, o4, o5, Bool.and_eq_true]
    exact ⟨⟨by simp, o6⟩, o7⟩
  · simp only [List.all_map, List.all_eq_true]
    intro r hr
    obtain ⟨r1, r2, r3, r4⟩ := he.rows r hr
    simp only [Function.comp, analyse_particle_line r1 r2]
    simp [Dmg.isPart, Dmg.evSkip, r3, r4]
  · simp only [Dmg.isEnd, Dmg.evSkip, Dmg.lastLineOk, Dmg.tokInt, e1, e2, e3, e5, e7, e8, Bool.and_eq_true]
    exact ⟨by simp, e9⟩

/-- **bridge (Oscar, C07)**: the rendered text of a well-formed specification of the grammar is a well-formed file in
C07's sense -/
theorem ofileOf_wf (F : OscarSpec) (hg : grammarOscar F = true) (hwf : wfOscar F) (hh : hdrNotEvent F = true) :
    (ofileOf F).wf F.fmt (attrsOf F) = true := by
  obtain ⟨hc, h2, h3, n2, n3, e3, hev⟩ := grammarOscar_unpack hg
  obtain ⟨hne, hlab, hfmt⟩ := hwf
  have hh1 := head_line F hc
  have hfm := oscarFormat_head hh1 hfmt
  have hmod : Dmg.fmtModelled F.fmt = true := by
    revert hfmt; cases F.fmt <;> simp [Dmg.fmtModelled]
  simp only [isHeadLine, Bool.and_eq_true, beq_iff_eq] at hh1
  have hl1 : Dmg.lastLineOk (analyse (" ".intercalate (headToks F))) = false := by
    have : (headTag F.fmt == "#") = false := by cases F.fmt <;> decide
    rw [Dmg.lastLineOk, hh1.1]
    simp [headToks, this]
  simp only [hdrNotEvent, Bool.and_eq_true, Bool.not_eq_true'] at hh
  have hobs : (F.events.map blockOf).all (Dmg.Block.obs F.fmt (attrsOf F)) = true := by
    simp only [List.all_map, List.all_eq_true]
    intro e he
    exact block_obs (hev e he)
  have hlabs := labelsFrom_map F.events 0 (by simpa using hlab)
  have hcons : Dmg.consistent (F.events.map blockOf) = true := by
    simp [Dmg.consistent, blockOf]
  have hne' : (F.events.map blockOf).isEmpty = false := by
    cases hE : F.events with
    | nil => exact absurd hE hne
    | cons _ _ => rfl
  simp only [notScanned] at h2 h3
  have hs1 := hh1.2
  simp only [notScanned] at hs1
  simp only [Dmg.OFile.wf, Dmg.OFile.obs, ofileOf, hfm, hmod, Dmg.isHdr, Dmg.scanSilent, hs1, h2, h3, hl1, hh.1, hh.2, hobs,
    hcons, hne', beq_self_eq_true, Bool.and_self, Bool.not_false, Bool.and_true]
  simpa using hlabs

/-! ### JETSCAPE: the rendered text as a C07 file -/

def jblockOf (e : Rd.JEvent) : Dmg.JBlock :=
  ⟨e.label, (e.parts.length : Int), analyse e.header, e.parts.map (fun r => analyse (" ".intercalate r))⟩

def jfileOf (F : JetSpec) : Dmg.JFile := ⟨analyse F.h1, F.events.map jblockOf, analyse F.trailer⟩

theorem jfileOf_lines (F : JetSpec) : (jfileOf F).lines = (jetLinesText F).map analyse := by
  have : ∀ es : List Rd.JEvent, Dmg.jblocksLines (es.map jblockOf) =
      (es.flatMap (fun e => e.header :: e.parts.map (fun r => " ".intercalate r))).map analyse := by
    intro es
    induction es with
    | nil => rfl
    | cons e es ih =>
      simp only [List.map_cons, Dmg.jblocksLines, List.flatMap_cons, List.map_append] at ih ⊢
      rw [ih]
      simp [Dmg.JBlock.lines, jblockOf]
  simp [jfileOf, Dmg.JFile.lines, jetLinesText, this]

theorem fileOfText_lines_jfileOf (F : JetSpec) (hg : grammarJet F = true) :
    (Proto.fileOfText (jetText F)).lines = (jfileOf F).lines := by
  rw [fileOfText_jetText F hg, jfileOf_lines]

theorem jlabelsFrom_map : ∀ (es : List Rd.JEvent) (base : Nat),
    (∀ i (h : i < es.length), (es[i]).label = ((base + i : Nat) : Int)) → Dmg.jlabelsFrom (base : Int) (es.map jblockOf) = true
  | [], _, _ => rfl
  | e :: es, base, hlab => by
    have h0 : e.label = (base : Int) := by
      have := hlab 0 (by simp)
      simpa only [List.getElem_cons_zero, Nat.add_zero] using this
    have ih := jlabelsFrom_map es (base + 1) (by
      intro i hi
      have := hlab (i + 1) (by simp; omega)
      simp only [List.getElem_cons_succ] at this
      rw [this]; congr 1; omega)
    simp only [List.map_cons, Dmg.jlabelsFrom, Bool.and_eq_true, beq_iff_eq]
    exact ⟨by simp [jblockOf, h0], by simpa using ih⟩

theorem jblock_obs {pt : Bool} {e : Rd.JEvent} (he : JEventOk pt e) : Dmg.JBlock.obs pt (jblockOf e) = true := by
  obtain ⟨sep, hsep, hh⟩ := he.shape
  obtain ⟨h1, h2, h3, h4, h5, h6, h7⟩ := jet_header_line pt hsep e.label e.parts.length
  rw [← hh] at h1 h2 h3 h4 h5 h6 h7
  have hk : Dmg.jKey pt (analyse e.header) = true := by
    cases pt <;> simp [Dmg.jKey, h6, h7]
  simp only [Dmg.JBlock.obs, jblockOf, Bool.and_eq_true]
  refine ⟨?_, ?_⟩
  · simp only [Dmg.isJHead, h1, h2, h3, h4, h5, hk, Bool.and_eq_true]
    simp [jetHdrToks, Dmg.tokInt, pyInt?_int_repr, pyInt?_nat_repr]
  · simp only [List.all_map, List.all_eq_true]
    intro r hr
    obtain ⟨r1, r2, r3⟩ := he.rows r hr
    have hne : r ≠ [] := by rintro rfl; simp at r1
    simp only [Function.comp, analyse_particle_line hne r2]
    simp [Dmg.isJPart, r1]
    exact r3

/-- **bridge (JETSCAPE, C07)**; the first line must not contain `sigmaGen` (a file cut behind it would pass the
constructor's check) -/
theorem jfileOf_wf (F : JetSpec) (hg : grammarJet F = true) (hwf : wfJetSeq F) (hs : hasSub F.h1 "sigmaGen" = false) :
    (jfileOf F).wf F.partons = true := by
  obtain ⟨hk, n1, s1, f1, s2, f2, ⟨sep, hsep, htr⟩, hev⟩ := grammarJet_unpack hg
  obtain ⟨hne, hlab⟩ := hwf
  have hj := jet_head_obs F hg
  simp only [isJHead] at hj
  have hh1 : Dmg.isJHdr F.partons (analyse F.h1) = true := by
    have : (analyse F.h1).hasSigma = false := hs
    simp only [Dmg.isJHdr, this, Bool.not_false, Bool.and_true]
    simpa [Dmg.jKey, hasKey] using hj
  have hobs : (F.events.map jblockOf).all (Dmg.JBlock.obs F.partons) = true := by
    simp only [List.all_map, List.all_eq_true]
    intro e he
    exact jblock_obs (hev e he)
  have hlabs := jlabelsFrom_map F.events 1 (by intro i h; rw [hlab i h]; congr 1; omega)
  obtain ⟨t1, t2, t3, t4, _, _, _⟩ := jet_trailer_line hsep s1 s2 f1 f2
  rw [← htr] at t1 t2 t3 t4
  have htrl : Dmg.isJTrail F.partons (analyse F.trailer) = true := by
    cases hp : F.partons <;> simp [Dmg.isJTrail, Dmg.jKey, t1, t2, t3, t4]
  have hcons : Dmg.jconsistent (F.events.map jblockOf) = true := by
    simp [Dmg.jconsistent, jblockOf]
  have hne' : (F.events.map jblockOf).isEmpty = false := by
    cases hE : F.events with
    | nil => exact absurd hE hne
    | cons _ _ => rfl
  simp only [Dmg.JFile.wf, Dmg.JFile.obs, jfileOf, hh1, hobs, htrl, hcons, hne', Bool.and_self, Bool.not_false, Bool.and_true,
    Bool.true_and]
  simpa using hlabs

end SparkxVerif.Bridge
