/-
C02 — lemmas about the shared reader model (`Core/Reader.lean`) for well-formed files (as observed):
the scan, the skip/read line arithmetic, the line loops as folds of `closeEvent` over the events read,
and `closeEvent` folds as the constructor-filter semantics.  Core Lean only (no Mathlib needed).
-/
import SparkxVerif.Core.ReaderSel

namespace SparkxVerif.RdSel
open SparkxVerif.Rd

/-! ### `closeEvent` and its fold -/


/-- fold of `closeEvent` over already-read events -/
def closeAllP (filt : Option EvFilter) (fl : Int) : List (List PLine) → LoopSt → Except Err LoopSt
  | [], st => .ok st
  | e :: es, st =>
    match closeEvent { st with data := e } filt fl with
    | .error x => .error x
    | .ok st' => closeAllP filt fl es st'

theorem closeEvent_none (st : LoopSt) (fl : Int) :
    closeEvent st none fl = .ok { st with plist := st.plist ++ [st.data], data := [] } := by
  unfold closeEvent
  by_cases h : st.data.length = 0
  · simp [h, bind, Except.bind, pure, Except.pure]
  · simp [h, bind, Except.bind, pure, Except.pure]

theorem closeEvent_some (st : LoopSt) (f : EvFilter) (fl : Int) :
    closeEvent st (some f) fl =
      match f st.data with
      | .error x => .error x
      | .ok d =>
        if d.length != 0 || st.data.length == 0 then
          match setRow st.counts st.plist.length ((st.plist.length : Int) + fl, d.length) with
          | .error x => .error x
          | .ok c => .ok { st with plist := st.plist ++ [d], data := [], counts := c }
        else
          match deleteRow st.counts st.plist.length with
          | .error x => .error x
          | .ok c => .ok { st with data := [], counts := c, cut := st.cut + 1 } := by
  unfold closeEvent
  cases hf : f st.data with
  | error x => simp [bind, Except.bind, hf]
  | ok d =>
    by_cases h : (d.length != 0 || st.data.length == 0) = true
    · simp only [bind, Except.bind, hf, h, if_true]
      cases hs : setRow st.counts st.plist.length ((st.plist.length : Int) + fl, d.length) with
      | error x => simp
      | ok c => simp [pure, Except.pure, h]
    · simp only [bind, Except.bind, hf, h]
      cases hs : deleteRow st.counts st.plist.length with
      | error x => simp
      | ok c => simp [pure, Except.pure, h]

theorem closeAllP_none (fl : Int) (es pl : List (List PLine)) (c : Counts) (cut : Int) :
    closeAllP none fl es ⟨pl, [], c, cut⟩ = .ok ⟨pl ++ es, [], c, cut⟩ := by
  induction es generalizing pl with
  | nil => simp [closeAllP]
  | cons e es ih => simp [closeAllP, closeEvent_none, ih]

/-- the counts array after all events of a non-empty selection were closed -/
def mkCounts (es : List (List PLine)) (rows : List (Int × Int)) : Counts :=
  if es.isEmpty then .arr2d rows else if rows.isEmpty then .empty else .arr2d rows

theorem filterEvents_length_le (f : EvFilter) (es kept : List (List PLine)) (h : filterEvents f es = .ok kept) :
    kept.length ≤ es.length := by
  induction es generalizing kept with
  | nil => simp [filterEvents] at h; subst h; simp
  | cons e es ih =>
    simp only [filterEvents] at h
    cases hf : f e with
    | error x => simp [hf] at h
    | ok d =>
      cases hr : filterEvents f es with
      | error x => simp [hf, hr] at h
      | ok rest =>
        have := ih rest hr
        simp only [hf, hr] at h
        injection h with h
        subst h
        split <;> simp <;> omega

theorem closeAllP_some (f : EvFilter) (fl : Int) (es : List (List PLine)) :
    ∀ (pl : List (List PLine)) (krows prows : List (Int × Int)) (cut : Int),
      krows.length = pl.length → prows.length = es.length →
      closeAllP (some f) fl es ⟨pl, [], .arr2d (krows ++ prows), cut⟩ =
        match filterEvents f es with
        | .error x => .error x
        | .ok kept => .ok ⟨pl ++ kept, [], mkCounts es (krows ++ relabel ((pl.length : Int) + fl) kept),
                           cut + ((es.length : Int) - (kept.length : Int))⟩ := by
  induction es with
  | nil =>
    intro pl krows prows cut hk hp
    have : prows = [] := List.eq_nil_of_length_eq_zero (by simpa using hp)
    subst this
    simp [closeAllP, filterEvents, mkCounts, relabel]
  | cons e es ih =>
    intro pl krows prows cut hk hp
    cases prows with
    | nil => simp at hp
    | cons r prows =>
      have hp' : prows.length = es.length := by simpa using hp
      simp only [closeAllP, closeEvent_some, filterEvents]
      cases hf : f e with
      | error x => simp
      | ok d =>
        by_cases hkeep : (d.length != 0 || e.length == 0) = true
        · -- kept: the row is rewritten
          have hset : setRow (.arr2d (krows ++ r :: prows)) pl.length ((pl.length : Int) + fl, d.length)
              = .ok (.arr2d ((krows ++ [((pl.length : Int) + fl, (d.length : Int))]) ++ prows)) := by
            simp [setRow, ← hk]
          simp only [hkeep, if_true, hset]
          have := ih (pl ++ [d]) (krows ++ [((pl.length : Int) + fl, (d.length : Int))]) prows cut (by simp [hk]) hp'
          rw [this]
          cases hr : filterEvents f es with
          | error x => simp
          | ok rest =>
            simp only [mkCounts, relabel, List.length_append, List.length_cons, List.length_nil, List.isEmpty_cons]
            simp
            refine ⟨?_, ?_⟩
            · have : ((pl.length : Int) + 1 + fl) = ((pl.length : Int) + fl + 1) := by omega
              rw [this]
            · omega
        · -- dropped: the row is deleted, later labels decremented
          have hkeep' : (d.length != 0 || e.length == 0) = false := by simpa using hkeep
          simp only [hkeep', Bool.false_eq_true, if_false]
          by_cases hemp : krows = [] ∧ prows = []
          · obtain ⟨h1, h2⟩ := hemp
            subst h1; subst h2
            have : es = [] := List.eq_nil_of_length_eq_zero (by simpa using hp'.symm)
            subst this
            have : pl = [] := List.eq_nil_of_length_eq_zero (by simpa using hk.symm)
            subst this
            simp [deleteRow, closeAllP, filterEvents, mkCounts, relabel]
          · have hdel : deleteRow (.arr2d (krows ++ r :: prows)) pl.length
                = .ok (.arr2d (krows ++ prows.map (fun r => (r.1 - 1, r.2)))) := by
              have hne : (krows ++ prows).isEmpty = false := by
                cases krows <;> cases prows <;> simp_all
              simp [deleteRow, ← hk, List.eraseIdx_append_of_length_le, hne]
            simp only [hdel]
            have := ih pl krows (prows.map (fun r => (r.1 - 1, r.2))) (cut + 1) hk (by simpa using hp')
            rw [this]
            cases hr : filterEvents f es with
            | error x => simp
            | ok rest =>
              have hle := filterEvents_length_le f es rest hr
              simp only [mkCounts, List.isEmpty_cons]
              simp
              refine ⟨?_, by omega⟩
              by_cases hes : es = []
              · subst hes
                simp [filterEvents] at hr
                subst hr
                have : prows = [] := List.eq_nil_of_length_eq_zero (by simpa using hp')
                subst this
                have : krows ≠ [] := by intro h; exact hemp ⟨h, rfl⟩
                simp [relabel, this]
              · simp [hes]

/-! ### the Oscar line loop on well-formed events -/


theorem closeEvent_data (st st' : LoopSt) (filt : Option EvFilter) (fl : Int)
    (h : closeEvent st filt fl = .ok st') : st'.data = [] := by
  cases filt with
  | none => rw [closeEvent_none] at h; injection h with h; subst h; rfl
  | some f =>
    rw [closeEvent_some] at h
    split at h
    · simp at h
    · split at h
      · split at h
        · simp at h
        · injection h with h; subst h; rfl
      · split at h
        · simp at h
        · injection h with h; subst h; rfl

def plinesOf (ln : Nat) : List LineF → List PLine
  | [] => []
  | p :: ps => ⟨ln, p.toks⟩ :: plinesOf (ln + 1) ps

def evPLines (ln : Nat) : List OEvent → List (List PLine)
  | [] => []
  | e :: es => plinesOf (ln + 1) e.parts :: evPLines (ln + e.parts.length + 2) es

variable (fmt : Fmt) (attrs : List String) (filt : Option EvFilter) (fl : Int)

theorem step_hdr (l : LineF) (h1 : l.hasHash = true) (h2 : headerLike l = true)
    (n ln : Nat) (first : Bool) (ls : List LineF) (st : LoopSt) :
    oscarLoop fmt attrs filt fl (n + 1) ln first (l :: ls) st = oscarLoop fmt attrs filt fl n (ln + 1) false ls st := by
  simp only [headerLike] at h2
  simp [oscarLoop, h1, h2]

theorem step_end (l : LineF) (h1 : l.hasHash = true) (h2 : headerLike l = false) (h3 : l.hasEnd = true)
    (n ln : Nat) (ls : List LineF) (st : LoopSt) :
    oscarLoop fmt attrs filt fl (n + 1) ln false (l :: ls) st =
      match closeEvent st filt fl with
      | .error x => .error x
      | .ok st' => oscarLoop fmt attrs filt fl n (ln + 1) false ls st' := by
  simp only [headerLike] at h2
  rw [oscarLoop]
  simp only [h1, h2, h3, bind, Except.bind]
  simp
  cases closeEvent st filt fl <;> rfl

theorem step_part (l : LineF) (h : isPartLine fmt attrs l = true)
    (n ln : Nat) (ls : List LineF) (st : LoopSt) :
    oscarLoop fmt attrs filt fl (n + 1) ln false (l :: ls) st =
      oscarLoop fmt attrs filt fl n (ln + 1) false ls { st with data := st.data ++ [⟨ln, l.toks⟩] } := by
  simp only [isPartLine, Bool.and_eq_true, Bool.not_eq_true'] at h
  obtain ⟨⟨⟨h1, h2⟩, h3⟩, h4⟩ := h
  simp only [headerLike] at h2
  rw [oscarLoop]
  simp [h1, h2, h3, h4]

theorem loop_parts (ps : List LineF) (hps : ps.all (isPartLine fmt attrs) = true) :
    ∀ (ln k : Nat) (rest : List LineF) (st : LoopSt),
      oscarLoop fmt attrs filt fl (ps.length + k) ln false (ps ++ rest) st =
        oscarLoop fmt attrs filt fl k (ln + ps.length) false rest { st with data := st.data ++ plinesOf ln ps } := by
  induction ps with
  | nil => intro ln k rest st; simp [plinesOf]
  | cons p ps ih =>
    intro ln k rest st
    simp only [List.all_cons, Bool.and_eq_true] at hps
    obtain ⟨hp, hps⟩ := hps
    have hlen : (p :: ps).length + k = (ps.length + k) + 1 := by simp; omega
    rw [hlen, List.cons_append, step_part fmt attrs filt fl p hp, ih hps]
    simp [plinesOf, Nat.add_assoc, Nat.add_comm 1]

theorem loop_event (e : OEvent) (label : Nat) (he : wfEvent fmt attrs label e = true)
    (ln k : Nat) (first : Bool) (rest : List LineF) (st : LoopSt) (hd : st.data = []) :
    oscarLoop fmt attrs filt fl (e.parts.length + 2 + k) ln first (e.lines ++ rest) st =
      match closeEvent { st with data := plinesOf (ln + 1) e.parts } filt fl with
      | .error x => .error x
      | .ok st' => oscarLoop fmt attrs filt fl k (ln + e.parts.length + 2) false rest st' := by
  simp only [wfEvent, Bool.and_eq_true] at he
  obtain ⟨⟨ho, hp⟩, hend⟩ := he
  simp only [isOutLine, Bool.and_eq_true, Bool.not_eq_true'] at ho
  obtain ⟨⟨⟨⟨⟨o1, o2⟩, o3⟩, o4⟩, o5⟩, o6⟩ := ho
  simp only [isEndLine, Bool.and_eq_true, Bool.not_eq_true'] at hend
  obtain ⟨⟨⟨⟨⟨⟨e1, e2⟩, e3⟩, e4⟩, e5⟩, e6⟩, e7⟩ := hend
  have hlen : e.parts.length + 2 + k = (e.parts.length + (k + 1)) + 1 := by omega
  rw [hlen, OEvent.lines, List.cons_append, step_hdr fmt attrs filt fl e.out o1 o4, List.append_assoc,
    loop_parts fmt attrs filt fl e.parts hp, List.cons_append, List.nil_append,
    step_end fmt attrs filt fl e.endl e1 e4 e3, hd,
    show ln + 1 + e.parts.length + 1 = ln + e.parts.length + 2 by omega]
  simp

theorem bodyLines_cons (e : OEvent) (es : List OEvent) : bodyLines (e :: es) = e.lines ++ bodyLines es := by
  simp [bodyLines]

theorem lines_length (e : OEvent) : e.lines.length = e.parts.length + 2 := by simp [OEvent.lines]

theorem loop_events (es : List OEvent) :
    ∀ (base ln : Nat) (first : Bool) (rest : List LineF) (st : LoopSt),
      wfEvents fmt attrs base es = true → st.data = [] →
      oscarLoop fmt attrs filt fl (bodyLines es).length ln first (bodyLines es ++ rest) st =
        closeAllP filt fl (evPLines ln es) st := by
  induction es with
  | nil => intro base ln first rest st _ _; simp [bodyLines, oscarLoop, evPLines, closeAllP]
  | cons e es ih =>
    intro base ln first rest st hwf hd
    simp only [wfEvents, Bool.and_eq_true] at hwf
    obtain ⟨he, hes⟩ := hwf
    rw [bodyLines_cons, List.length_append, lines_length, List.append_assoc,
      loop_event fmt attrs filt fl e base he ln _ first _ st hd]
    simp only [evPLines, closeAllP]
    cases hc : closeEvent { st with data := plinesOf (ln + 1) e.parts } filt fl with
    | error x => rfl
    | ok st' => exact ih (base + 1) _ false rest st' hes (closeEvent_data _ _ _ _ hc)

/-! ### the header scan -/


def rowsFrom (base : Nat) : List OEvent → List (Int × Int)
  | [] => []
  | e :: es => ((base : Int), (e.parts.length : Int)) :: rowsFrom (base + 1) es

def footersOf (es : List OEvent) : List String := es.map (fun e => e.endl.raw)

theorem tokInt_eq {toks : List String} {i : Nat} {v : Int} (h : (tokInt toks i == some v) = true) :
    ∃ t, toks[i]? = some t ∧ pyInt? t = some v := by
  have h' : tokInt toks i = some v := by simpa using h
  unfold tokInt at h'
  cases ht : toks[i]? with
  | none => simp [ht] at h'
  | some t => exact ⟨t, rfl, by simpa [ht] using h'⟩

theorem scan_skip (l : LineF) (h1 : (l.hasHash && l.hasEndSp) = false) (h2 : (l.hasHash && l.hasOutSp) = false)
    (ls : List LineF) : oscarScan (l :: ls) = oscarScan ls := by
  rw [oscarScan]
  simp [h1, h2]

theorem scan_end (l : LineF) (h1 : l.hasHash = true) (h2 : l.hasEndSp = true) (ls : List LineF) :
    oscarScan (l :: ls) =
      match oscarScan ls with
      | .error x => .error x
      | .ok (rows, foot) => .ok (rows, l.raw :: foot) := by
  rw [oscarScan]
  simp only [h1, h2, Bool.and_self, if_true, bind, Except.bind, pure, Except.pure]
  cases oscarScan ls with
  | error x => rfl
  | ok v => rfl

theorem scan_out (l : LineF) (label : Int) (n : Nat) (h : isOutLine l label n = true) (ls : List LineF) :
    oscarScan (l :: ls) =
      match oscarScan ls with
      | .error x => .error x
      | .ok (rows, foot) => .ok ((label, (n : Int)) :: rows, foot) := by
  simp only [isOutLine, Bool.and_eq_true, Bool.not_eq_true'] at h
  obtain ⟨⟨⟨⟨⟨o1, o2⟩, o3⟩, o4⟩, o5⟩, o6⟩ := h
  obtain ⟨t2, ht2, hp2⟩ := tokInt_eq o5
  obtain ⟨t4, ht4, hp4⟩ := tokInt_eq o6
  rw [oscarScan]
  simp only [o1, o2, o3, ht2, ht4, hp2, hp4, bind, Except.bind, pure, Except.pure]
  simp
  cases oscarScan ls with
  | error x => rfl
  | ok v => rfl

theorem scan_parts (fmt : Fmt) (attrs : List String) (ps : List LineF) (hps : ps.all (isPartLine fmt attrs) = true)
    (rest : List LineF) : oscarScan (ps ++ rest) = oscarScan rest := by
  induction ps with
  | nil => rfl
  | cons p ps ih =>
    simp only [List.all_cons, Bool.and_eq_true] at hps
    obtain ⟨hp, hps⟩ := hps
    simp only [isPartLine, Bool.and_eq_true, Bool.not_eq_true'] at hp
    rw [List.cons_append, scan_skip p (by simp [hp.1.1.1]) (by simp [hp.1.1.1]), ih hps]

theorem scan_body (fmt : Fmt) (attrs : List String) (es : List OEvent) :
    ∀ (base : Nat) (rest : List LineF), wfEvents fmt attrs base es = true →
      oscarScan (bodyLines es ++ rest) =
        match oscarScan rest with
        | .error x => .error x
        | .ok (rows, foot) => .ok (rowsFrom base es ++ rows, footersOf es ++ foot) := by
  induction es with
  | nil =>
    intro base rest _
    simp only [bodyLines, List.flatMap_nil, List.nil_append, rowsFrom, footersOf, List.map_nil]
    cases oscarScan rest with
    | error x => rfl
    | ok v => rfl
  | cons e es ih =>
    intro base rest hwf
    simp only [wfEvents, Bool.and_eq_true] at hwf
    obtain ⟨he, hes⟩ := hwf
    simp only [wfEvent, Bool.and_eq_true] at he
    obtain ⟨⟨ho, hp⟩, hend⟩ := he
    have hend' := hend
    simp only [isEndLine, Bool.and_eq_true, Bool.not_eq_true'] at hend'
    obtain ⟨⟨⟨⟨⟨⟨e1, e2⟩, e3⟩, e4⟩, e5⟩, e6⟩, e7⟩ := hend'
    have : bodyLines (e :: es) ++ rest = e.out :: (e.parts ++ (e.endl :: (bodyLines es ++ rest))) := by
      simp [bodyLines, OEvent.lines]
    rw [this, scan_out e.out base e.parts.length ho, scan_parts fmt attrs e.parts hp, scan_end e.endl e1 e2, ih (base + 1) rest hes]
    cases oscarScan rest with
    | error x => rfl
    | ok v => simp [rowsFrom, footersOf]

/-! ### skip / read arithmetic -/


theorem foldl_sum (rows : List (Int × Int)) (extra a : Int) :
    rows.foldl (fun acc r => acc + (r.2 + extra)) a = a + (rows.map (fun r => r.2 + extra)).sum := by
  induction rows generalizing a with
  | nil => simp
  | cons r rows ih => simp [ih]; omega

theorem sumCounts_eq (rows : List (Int × Int)) (extra : Int) :
    sumCounts rows extra = (rows.map (fun r => r.2 + extra)).sum := by
  simp [sumCounts, foldl_sum]

theorem sumCounts_nil (extra : Int) : sumCounts [] extra = 0 := by simp [sumCounts]

theorem sumCounts_all (rows : List (Int × Int)) (extra : Int) :
    sumCounts rows 0 + extra * rows.length = sumCounts rows extra := by
  rw [sumCounts_eq, sumCounts_eq]
  induction rows with
  | nil => simp
  | cons r rows ih =>
    simp only [List.map_cons, List.sum_cons, List.length_cons]
    have : extra * ((rows.length + 1 : Nat) : Int) = extra * (rows.length : Int) + extra := by
      push_cast; rw [Int.mul_add]; simp
    omega

theorem npRow_nat (rows : List (Int × Int)) (i : Nat) (h : i < rows.length) :
    npRow rows (i : Int) = .ok rows[i] := by
  unfold npRow
  have h1 : ¬ ((i : Int) < 0) := by omega
  have h2 : ((i : Int) < 0 || decide ((i : Int) ≥ (rows.length : Int))) = false := by
    simp; omega
  simp [h1, h]

theorem mapM_npRow (rows : List (Int × Int)) (m : Nat) :
    ∀ a : Nat, a + m ≤ rows.length →
      ((List.range m).map (fun (i : Nat) => (a : Int) + (i : Int))).mapM (npRow rows) = .ok ((rows.drop a).take m) := by
  induction m with
  | zero => intro a _; simp [pure, Except.pure]
  | succ m ih =>
    intro a h
    have ha : a < rows.length := by omega
    rw [List.range_succ_eq_map]
    simp only [List.map_cons, List.map_map, List.mapM_cons]
    have h0 : ((a : Int) + ((0 : Nat) : Int)) = (a : Int) := by simp
    rw [h0, npRow_nat rows a ha]
    have hf : ((fun (i : Nat) => (a : Int) + (i : Int)) ∘ Nat.succ) = (fun (i : Nat) => ((a + 1 : Nat) : Int) + (i : Int)) := by
      funext i; simp; omega
    rw [hf, ih (a + 1) (by omega)]
    simp only [bind, Except.bind, pure, Except.pure]
    rw [List.drop_eq_getElem_cons ha]
    rfl

theorem validSel_valid (n : Nat) (sel : Sel) (hv : sel.validFor n = true) : validSel sel = .ok () := by
  cases sel with
  | all => rfl
  | one k =>
    simp only [Sel.validFor, Bool.and_eq_true, decide_eq_true_eq] at hv
    simp [validSel]; omega
  | range a b =>
    simp only [Sel.validFor, Bool.and_eq_true, decide_eq_true_eq] at hv
    have h1 : ¬ (a > b) := by omega
    have h2 : (decide (a < 0) || decide (b < 0)) = false := by simp; omega
    simp [validSel, h1, h2]

theorem takeChecked_nat (rows : List (Int × Int)) (a : Nat) (h : a ≤ rows.length) :
    takeChecked rows (a : Int) = .ok (rows.take a) := by
  unfold takeChecked
  have : ¬ ((a : Int) < 0) := by omega
  simp [this, h]

theorem skipLines_valid (hdr extra : Int) (rows : List (Int × Int)) (sel : Sel)
    (hv : sel.validFor rows.length = true) :
    skipLines hdr extra rows sel = .ok (hdr + sumCounts (rows.take sel.start) extra) := by
  cases sel with
  | all => simp [skipLines, Sel.start, sumCounts_nil]
  | one k =>
    simp only [Sel.validFor, Bool.and_eq_true, decide_eq_true_eq] at hv
    obtain ⟨k', rfl⟩ := Int.eq_ofNat_of_zero_le hv.1
    have hk : k' ≤ rows.length := by omega
    simp only [skipLines, Sel.start, Int.toNat_natCast]
    split
    · rename_i h0
      have : k' = 0 := by simpa using h0
      subst this; simp [sumCounts_nil]
    · rw [takeChecked_nat rows k' hk]; rfl
  | range a b =>
    simp only [Sel.validFor, Bool.and_eq_true, decide_eq_true_eq] at hv
    obtain ⟨a', rfl⟩ := Int.eq_ofNat_of_zero_le hv.1.1
    have hk : a' ≤ rows.length := by omega
    simp only [skipLines, Sel.start, Int.toNat_natCast]
    split
    · rename_i h0
      have : a' = 0 := by simpa using h0
      subst this; simp [sumCounts_nil]
    · rw [takeChecked_nat rows a' hk]; rfl

theorem readLines_valid (extra : Int) (rows : List (Int × Int)) (sel : Sel)
    (hv : sel.validFor rows.length = true) :
    readLines extra rows sel = .ok (sumCounts ((rows.drop sel.start).take (sel.count rows.length)) extra) := by
  cases sel with
  | all => simp [readLines, Sel.start, Sel.count, sumCounts_all]
  | one k =>
    simp only [Sel.validFor, Bool.and_eq_true, decide_eq_true_eq] at hv
    obtain ⟨k', rfl⟩ := Int.eq_ofNat_of_zero_le hv.1
    have hk : k' < rows.length := by omega
    simp only [readLines, Sel.start, Sel.count, Int.toNat_natCast, npRow_nat rows k' hk, bind, Except.bind,
      pure, Except.pure]
    rw [List.drop_eq_getElem_cons hk]
    simp only [List.take_succ_cons, List.take_zero, sumCounts, List.foldl_cons, List.foldl_nil]
    simp
  | range a b =>
    simp only [Sel.validFor, Bool.and_eq_true, decide_eq_true_eq] at hv
    obtain ⟨a', rfl⟩ := Int.eq_ofNat_of_zero_le hv.1.1
    obtain ⟨b', rfl⟩ := Int.eq_ofNat_of_zero_le (by omega : 0 ≤ b)
    have hm : a' + ((b' : Int) + 1 - (a' : Int)).toNat ≤ rows.length := by omega
    have he : ((b' : Int) - (a' : Int) + 1).toNat = ((b' : Int) + 1 - (a' : Int)).toNat := by omega
    simp only [readLines, Sel.start, Sel.count, Int.toNat_natCast, mapM_npRow rows _ a' hm, bind, Except.bind,
      pure, Except.pure, he]

theorem selectRows_valid (rows : List (Int × Int)) (sel : Sel) (hv : sel.validFor rows.length = true) :
    selectRows rows (rows.length : Int) sel =
      ((rows.drop sel.start).take (sel.count rows.length), ((sel.count rows.length : Nat) : Int)) := by
  cases sel with
  | all => simp [selectRows, Sel.start, Sel.count]
  | one k =>
    simp only [Sel.validFor, Bool.and_eq_true, decide_eq_true_eq] at hv
    obtain ⟨k', rfl⟩ := Int.eq_ofNat_of_zero_le hv.1
    simp only [selectRows, npSlice, Sel.start, Sel.count, Int.toNat_natCast, List.drop_take]
    have : ((k' : Int) + 1).toNat - k' = 1 := by omega
    simp
  | range a b =>
    simp only [Sel.validFor, Bool.and_eq_true, decide_eq_true_eq] at hv
    obtain ⟨a', rfl⟩ := Int.eq_ofNat_of_zero_le hv.1.1
    obtain ⟨b', rfl⟩ := Int.eq_ofNat_of_zero_le (by omega : 0 ≤ b)
    simp only [selectRows, npSlice, Sel.start, Sel.count, Int.toNat_natCast, List.drop_take]
    have h1 : ((b' : Int) + 1).toNat - a' = ((b' : Int) - (a' : Int) + 1).toNat := by omega
    have h2 : (((b' : Int) - (a' : Int) + 1).toNat : Int) = (b' : Int) - (a' : Int) + 1 := by omega
    rw [h1, h2]

theorem sel_window (n : Nat) (sel : Sel) (hv : sel.validFor n = true) :
    sel.start + sel.count n ≤ n ∧ 1 ≤ sel.count n ∨ sel = .all := by
  cases sel with
  | all => right; rfl
  | one k =>
    simp only [Sel.validFor, Bool.and_eq_true, decide_eq_true_eq] at hv
    left; simp [Sel.start, Sel.count]; omega
  | range a b =>
    simp only [Sel.validFor, Bool.and_eq_true, decide_eq_true_eq] at hv
    left; simp [Sel.start, Sel.count]; omega

/-! ### `readOscar` on a well-formed file -/


theorem rowsFrom_length (es : List OEvent) : ∀ base, (rowsFrom base es).length = es.length := by
  induction es with
  | nil => intro; rfl
  | cons e es ih => intro base; simp [rowsFrom, ih]

theorem rowsFrom_take (es : List OEvent) : ∀ (base a : Nat), (rowsFrom base es).take a = rowsFrom base (es.take a) := by
  induction es with
  | nil => intro base a; simp [rowsFrom]
  | cons e es ih =>
    intro base a
    cases a with
    | zero => simp [rowsFrom]
    | succ a => simp [rowsFrom, ih]

theorem rowsFrom_drop (es : List OEvent) :
    ∀ (base a : Nat), (rowsFrom base es).drop a = rowsFrom (base + a) (es.drop a) := by
  induction es with
  | nil => intro base a; simp [rowsFrom]
  | cons e es ih =>
    intro base a
    cases a with
    | zero => simp [rowsFrom]
    | succ a => simp [rowsFrom, ih, Nat.add_assoc, Nat.add_comm 1]

theorem sumCounts_rowsFrom (es : List OEvent) : ∀ base, sumCounts (rowsFrom base es) 2 = ((bodyLines es).length : Int) := by
  induction es with
  | nil => intro; simp [rowsFrom, sumCounts_nil, bodyLines]
  | cons e es ih =>
    intro base
    have := ih (base + 1)
    rw [sumCounts_eq] at this ⊢
    simp only [rowsFrom, List.map_cons, List.sum_cons, bodyLines_cons, List.length_append, lines_length, this]
    push_cast
    omega

theorem evPLines_take (es : List OEvent) : ∀ (ln a : Nat), (evPLines ln es).take a = evPLines ln (es.take a) := by
  induction es with
  | nil => intro ln a; simp [evPLines]
  | cons e es ih =>
    intro ln a
    cases a with
    | zero => simp [evPLines]
    | succ a => simp [evPLines, ih]

theorem evPLines_drop (es : List OEvent) :
    ∀ (ln a : Nat), (evPLines ln es).drop a = evPLines (ln + (bodyLines (es.take a)).length) (es.drop a) := by
  induction es with
  | nil => intro ln a; simp [evPLines]
  | cons e es ih =>
    intro ln a
    cases a with
    | zero => simp [evPLines, bodyLines]
    | succ a =>
      simp only [evPLines, List.drop_succ_cons, List.take_succ_cons, bodyLines_cons, List.length_append, lines_length, ih]
      congr 1
      omega

theorem evPLines_length (es : List OEvent) : ∀ ln, (evPLines ln es).length = es.length := by
  induction es with
  | nil => intro; rfl
  | cons e es ih => intro ln; simp [evPLines, ih]

theorem wfEvents_take (fmt : Fmt) (attrs : List String) (es : List OEvent) :
    ∀ (base a : Nat), wfEvents fmt attrs base es = true → wfEvents fmt attrs base (es.take a) = true := by
  induction es with
  | nil => intro base a h; simpa using h
  | cons e es ih =>
    intro base a h
    cases a with
    | zero => simp [wfEvents]
    | succ a =>
      simp only [wfEvents, Bool.and_eq_true, List.take_succ_cons] at h ⊢
      exact ⟨h.1, ih _ _ h.2⟩

theorem wfEvents_drop (fmt : Fmt) (attrs : List String) (es : List OEvent) :
    ∀ (base a : Nat), wfEvents fmt attrs base es = true → wfEvents fmt attrs (base + a) (es.drop a) = true := by
  induction es with
  | nil => intro base a h; simp [wfEvents]
  | cons e es ih =>
    intro base a h
    cases a with
    | zero => simpa using h
    | succ a =>
      simp only [wfEvents, Bool.and_eq_true, List.drop_succ_cons] at h ⊢
      have := ih (base + 1) a h.2
      rwa [show base + (a + 1) = base + 1 + a by omega]

theorem bodyLines_append (xs ys : List OEvent) : bodyLines (xs ++ ys) = bodyLines xs ++ bodyLines ys := by
  simp [bodyLines]

theorem wfEvents_getLast (fmt : Fmt) (attrs : List String) (init : List OEvent) (e : OEvent) :
    ∀ base, wfEvents fmt attrs base (init ++ [e]) = true → wfEvent fmt attrs (base + init.length) e = true := by
  induction init with
  | nil => intro base h; simpa [wfEvents] using h
  | cons x xs ih =>
    intro base h
    simp only [List.cons_append, wfEvents, Bool.and_eq_true] at h
    have := ih (base + 1) h.2
    rwa [show base + (x :: xs).length = base + 1 + xs.length by simp; omega]

/-- well-formed Oscar file, as observed -/
def WFOscar (f : FileF) (fmt : Fmt) (attrs : List String) (evs : List OEvent) : Prop :=
  ∃ h0 h1 h2, f.lines = h0 :: h1 :: h2 :: bodyLines evs ∧ wfOscarB fmt attrs h0 h1 h2 evs = true

theorem bodyLines_getLast? (init : List OEvent) (e : OEvent) (pre : List LineF) :
    (pre ++ bodyLines (init ++ [e])).getLast? = some e.endl := by
  have : pre ++ bodyLines (init ++ [e]) = (pre ++ bodyLines init ++ e.out :: e.parts) ++ [e.endl] := by
    simp [bodyLines, OEvent.lines]
  rw [this, List.getLast?_concat]

theorem oscarNumEvents_wf (f : FileF) (fmt : Fmt) (attrs : List String) (evs : List OEvent) (h0 h1 h2 : LineF)
    (hl : f.lines = h0 :: h1 :: h2 :: bodyLines evs) (hne : evs ≠ []) (hwf : wfEvents fmt attrs 0 evs = true) :
    oscarNumEvents f = .ok (evs.length : Int) := by
  obtain ⟨init, e, rfl⟩ : ∃ init e, evs = init ++ [e] :=
    ⟨evs.dropLast, evs.getLast hne, (List.dropLast_concat_getLast hne).symm⟩
  have he := wfEvents_getLast fmt attrs init e 0 hwf
  simp only [wfEvent, Bool.and_eq_true, Nat.zero_add] at he
  obtain ⟨_, hend⟩ := he
  simp only [isEndLine, Bool.and_eq_true, Bool.not_eq_true'] at hend
  obtain ⟨⟨⟨⟨⟨⟨e1, e2⟩, e3⟩, e4⟩, e5⟩, e6⟩, e7⟩ := hend
  obtain ⟨t, ht, hp⟩ := tokInt_eq e7
  have hlast : f.lines.getLast? = some e.endl := by
    rw [hl]
    exact bodyLines_getLast? init e [h0, h1, h2]
  have hlen : ¬ (f.lines.length < 2) := by rw [hl]; simp
  unfold oscarNumEvents lastLine
  simp only [hlast, hlen, if_false, bind, Except.bind, e5, e6, Bool.and_self, if_true, ht, hp]
  simp

theorem oscarScan_wf (fmt : Fmt) (attrs : List String) (evs : List OEvent) (h0 h1 h2 : LineF)
    (p0 : isPlainHdr h0 = true) (p1 : isPlainHdr h1 = true) (p2 : isPlainHdr h2 = true)
    (hwf : wfEvents fmt attrs 0 evs = true) :
    oscarScan (h0 :: h1 :: h2 :: bodyLines evs) = .ok (rowsFrom 0 evs, footersOf evs) := by
  simp only [isPlainHdr, Bool.and_eq_true, Bool.not_eq_true'] at p0 p1 p2
  rw [scan_skip h0 p0.1 p0.2, scan_skip h1 p1.1 p1.2, scan_skip h2 p2.1 p2.2]
  have := scan_body fmt attrs evs 0 [] hwf
  simp only [List.append_nil] at this
  rw [this]
  simp [oscarScan]


/-- what both loaders do after the skip, on the events `pes` of the selection with their rows `rows`:
fold `closeEvent`, `finish`, pack -/
def loadFrom (filt : Option EvFilter) (sel : Sel) (m : Nat) (pes : List (List PLine)) (rows : List (Int × Int))
    (base : Loaded) : Except Err Loaded :=
  match closeAllP filt (firstLabelOf (.arr2d rows)) pes ⟨[], [], .arr2d rows, 0⟩ with
  | .error x => .error x
  | .ok st =>
    match finish st (m : Int) sel with
    | .error x => .error x
    | .ok (plist, ne, counts) => .ok { base with events := plist, numEvents := ne, counts := counts }

def oscarBase (fmt : Fmt) (attrs : List String) (evs : List OEvent) : Loaded :=
  { events := [], numEvents := 0, counts := .empty, fmt := some fmt, customAttrs := attrs, footers := footersOf evs }

theorem readOscar_wf (f : FileF) (fmt : Fmt) (attrs : List String) (evs : List OEvent) (sel : Sel)
    (filt : Option EvFilter) (hwf : WFOscar f fmt attrs evs) (hv : sel.validFor evs.length = true) :
    readOscar f sel filt =
      loadFrom filt sel (sel.count evs.length)
        (evPLines (3 + (bodyLines (evs.take sel.start)).length) ((evs.drop sel.start).take (sel.count evs.length)))
        (rowsFrom sel.start ((evs.drop sel.start).take (sel.count evs.length)))
        (oscarBase fmt attrs evs) := by
  unfold loadFrom oscarBase
  obtain ⟨h0, h1, h2, hl, hb⟩ := hwf
  simp only [wfOscarB, Bool.and_eq_true, Bool.not_eq_true'] at hb
  obtain ⟨⟨⟨⟨⟨⟨hfmt, hIC⟩, p0⟩, p1⟩, p2⟩, hne⟩, hevs⟩ := hb
  have hne' : evs ≠ [] := by intro h; simp [h] at hne
  have hfmt' : oscarFormat h0 = .ok (fmt, attrs) := by
    cases hf : oscarFormat h0 with
    | error x => simp [hf] at hfmt
    | ok v =>
      obtain ⟨fm, ats⟩ := v
      simp only [hf, Bool.and_eq_true, beq_iff_eq] at hfmt
      rw [hfmt.1, hfmt.2]
  have hhead : f.lines.head? = some h0 := by rw [hl]; rfl
  have hnum := oscarNumEvents_wf f fmt attrs evs h0 h1 h2 hl hne' hevs
  have hscan : oscarScan f.lines = .ok (rowsFrom 0 evs, footersOf evs) := by
    rw [hl]; exact oscarScan_wf fmt attrs evs h0 h1 h2 p0 p1 p2 hevs
  have hlenr : (rowsFrom 0 evs).length = evs.length := rowsFrom_length evs 0
  have hv' : sel.validFor (rowsFrom 0 evs).length = true := by rw [hlenr]; exact hv
  have hvalid := validSel_valid evs.length sel hv
  have hskip := skipLines_valid 3 2 (rowsFrom 0 evs) sel hv'
  have hread := readLines_valid 2 (rowsFrom 0 evs) sel hv'
  have hselr := selectRows_valid (rowsFrom 0 evs) sel hv'
  rw [hlenr] at hread hselr
  rw [rowsFrom_take, sumCounts_rowsFrom] at hskip
  rw [rowsFrom_drop, rowsFrom_take, sumCounts_rowsFrom] at hread
  rw [rowsFrom_drop, rowsFrom_take, Nat.zero_add] at hselr
  generalize hes : (evs.drop sel.start).take (sel.count evs.length) = es at *
  generalize hpre : evs.take sel.start = pre at *
  have hsplit : evs = pre ++ (es ++ (evs.drop sel.start).drop (sel.count evs.length)) := by
    rw [← hes, ← hpre, List.take_append_drop, List.take_append_drop]
  have hdrop : f.lines.drop (3 + (bodyLines pre).length) = bodyLines es ++ bodyLines ((evs.drop sel.start).drop (sel.count evs.length)) := by
    rw [hl]
    conv => lhs; rw [hsplit]
    rw [bodyLines_append, bodyLines_append]
    have : h0 :: h1 :: h2 :: (bodyLines pre ++ (bodyLines es ++ bodyLines ((evs.drop sel.start).drop (sel.count evs.length))))
        = ([h0, h1, h2] ++ bodyLines pre) ++ (bodyLines es ++ bodyLines ((evs.drop sel.start).drop (sel.count evs.length))) := by simp
    rw [this, List.drop_left' (by simp; omega)]
  have hwfes : wfEvents fmt attrs sel.start es = true := by
    rw [← hes]
    have := wfEvents_drop fmt attrs evs 0 sel.start hevs
    rw [Nat.zero_add] at this
    exact wfEvents_take fmt attrs _ _ _ this
  have hneg : (decide (((bodyLines es).length : Int) < 0) || decide ((3 : Int) + ((bodyLines pre).length : Int) < 0)) = false := by
    simp; omega
  have hsk : ((3 : Int) + ((bodyLines pre).length : Int)).toNat = 3 + (bodyLines pre).length := by omega
  unfold readOscar
  simp only [hvalid, hhead, hfmt', hIC, hnum, hscan, hskip, hread, hselr, hneg, hsk, hdrop, Int.toNat_natCast,
    bind, Except.bind, pure, Except.pure, Bool.false_eq_true, if_false]
  rw [loop_events fmt attrs filt _ es sel.start (3 + (bodyLines pre).length) true _ _ hwfes rfl]
  have hfl : ∀ rows : List (Int × Int), firstLabelOf (.arr2d rows) = (match rows with | r :: _ => r.1 | [] => (0 : Int)) := by
    intro rows; cases rows <;> rfl
  rw [hfl]
  cases closeAllP filt (match rowsFrom sel.start es with | r :: _ => r.1 | [] => (0 : Int)) (evPLines (3 + (bodyLines pre).length) es)
      ⟨[], [], .arr2d (rowsFrom sel.start es), 0⟩ with
  | error x => rfl
  | ok st =>
    simp only
    cases finish st (sel.count evs.length : Int) sel with
    | error x => rfl
    | ok v => rfl

/-! ### JETSCAPE -/

section Jetscape


def plinesOfJ (ln : Nat) : List LineF → List PLine
  | [] => []
  | p :: ps => ⟨ln, p.toksTab⟩ :: plinesOfJ (ln + 1) ps

def evPLinesJ (ln : Nat) : List JEvent → List (List PLine)
  | [] => []
  | e :: es => plinesOfJ (ln + 1) e.parts :: evPLinesJ (ln + e.parts.length + 1) es

/-- the event lines `es` followed by `cont` -/
def jTail : List JEvent → List LineF → List LineF
  | [], cont => cont
  | e :: es, cont => e.hdr :: (e.parts ++ jTail es cont)

def jBody (es : List JEvent) : List LineF := jTail es []

theorem jLines_eq (es : List JEvent) (tr : LineF) : jLines es tr = jTail es [tr] := by
  induction es with
  | nil => rfl
  | cons e es ih => simp [jLines, jTail, ih]

theorem jTail_append (xs ys : List JEvent) (cont : List LineF) : jTail (xs ++ ys) cont = jTail xs (jTail ys cont) := by
  induction xs with
  | nil => rfl
  | cons e es ih => simp [jTail, ih]

theorem jTail_body (xs : List JEvent) (cont : List LineF) : jTail xs cont = jBody xs ++ cont := by
  induction xs with
  | nil => rfl
  | cons e es ih => simp [jTail, jBody, ih] at *

def rowsFromJ (base : Nat) : List JEvent → List (Int × Int)
  | [] => []
  | e :: es => ((base : Int), (e.parts.length : Int)) :: rowsFromJ (base + 1) es

variable (partons : Bool) (filt : Option EvFilter) (fl fh : Int)

/-- a line that ends the current event: the trailer, or the header of an event other than the first one read -/
def isCloser (c : LineF) : Prop :=
  (c.hasHash && c.hasSigma) = true ∨ ∃ (label : Int) (n : Nat), isJHdr partons c label n = true ∧ label ≠ fh

theorem jstep_closer (c : LineF) (hc : isCloser partons fh c) (n ln : Nat) (ls : List LineF) (st : LoopSt) :
    jetscapeLoop filt fl fh (n + 1) ln false (c :: ls) st =
      match closeEvent st filt fl with
      | .error x => .error x
      | .ok st' => jetscapeLoop filt fl fh n (ln + 1) false ls st' := by
  rcases hc with hc | ⟨label, m, hh, hne⟩
  · rw [jetscapeLoop]
    simp only [hc, if_true, bind, Except.bind]
    cases closeEvent st filt fl <;> rfl
  · simp only [isJHdr, Bool.and_eq_true, Bool.not_eq_true'] at hh
    obtain ⟨⟨⟨⟨⟨⟨j1, j2⟩, j3⟩, j4⟩, j5⟩, j6⟩, j7⟩ := hh
    obtain ⟨t, ht, hp⟩ := tokInt_eq j6
    have hne' : (label == fh) = false := by simpa using hne
    rw [jetscapeLoop]
    simp only [j1, j3, j4, j5, ht, hp, hne', bind, Except.bind]
    simp
    cases closeEvent st filt fl <;> rfl

theorem jstep_first (l : LineF) (n' : Nat) (hh : isJHdr partons l fh n' = true) (n ln : Nat) (first : Bool)
    (ls : List LineF) (st : LoopSt) :
    jetscapeLoop filt fl fh (n + 1) ln first (l :: ls) st = jetscapeLoop filt fl fh n (ln + 1) false ls st := by
  simp only [isJHdr, Bool.and_eq_true, Bool.not_eq_true'] at hh
  obtain ⟨⟨⟨⟨⟨⟨j1, j2⟩, j3⟩, j4⟩, j5⟩, j6⟩, j7⟩ := hh
  obtain ⟨t, ht, hp⟩ := tokInt_eq j6
  rw [jetscapeLoop]
  simp [j1, j3, j4, j5, ht, hp]

theorem jstep_part (l : LineF) (h : isJPart l = true) (n ln : Nat) (ls : List LineF) (st : LoopSt) :
    jetscapeLoop filt fl fh (n + 1) ln false (l :: ls) st =
      jetscapeLoop filt fl fh n (ln + 1) false ls { st with data := st.data ++ [⟨ln, l.toksTab⟩] } := by
  simp only [isJPart, Bool.and_eq_true, Bool.not_eq_true', beq_iff_eq] at h
  obtain ⟨⟨⟨h1, h2⟩, h3⟩, h4⟩ := h
  rw [jetscapeLoop]
  simp [h1, h2, h3, h4]

theorem jloop_parts (ps : List LineF) (hps : ps.all isJPart = true) :
    ∀ (ln k : Nat) (rest : List LineF) (st : LoopSt),
      jetscapeLoop filt fl fh (ps.length + k) ln false (ps ++ rest) st =
        jetscapeLoop filt fl fh k (ln + ps.length) false rest { st with data := st.data ++ plinesOfJ ln ps } := by
  induction ps with
  | nil => intro ln k rest st; simp [plinesOfJ]
  | cons p ps ih =>
    intro ln k rest st
    simp only [List.all_cons, Bool.and_eq_true] at hps
    obtain ⟨hp, hps⟩ := hps
    have hlen : (p :: ps).length + k = (ps.length + k) + 1 := by simp; omega
    rw [hlen, List.cons_append, jstep_part filt fl fh p hp, ih hps]
    simp [plinesOfJ, Nat.add_assoc, Nat.add_comm 1]

/-- number of lines of the events, one closing line each (the header itself is not counted) -/
def jCount : List JEvent → Nat
  | [] => 0
  | e :: es => e.parts.length + 1 + jCount es

/-- after the header of `e` (at line `ln`) has been read: the loop over the rest of the selection -/
theorem jloop_events (es : List JEvent) :
    ∀ (e : JEvent) (base ln : Nat) (c : LineF) (cont : List LineF) (st : LoopSt),
      wfJEvents partons base (e :: es) = true → fh < (base : Int) + 1 → isCloser partons fh c → st.data = [] →
      jetscapeLoop filt fl fh (jCount (e :: es)) (ln + 1) false (e.parts ++ jTail es (c :: cont)) st =
        closeAllP filt fl (evPLinesJ ln (e :: es)) st := by
  induction es with
  | nil =>
    intro e base ln c cont st hwf _ hc hd
    simp only [wfJEvents, wfJEvent, Bool.and_eq_true] at hwf
    simp only [jCount, jTail, Nat.add_zero]
    rw [jloop_parts filt fl fh e.parts hwf.1.2, jstep_closer partons filt fl fh c hc, hd]
    simp only [evPLinesJ, closeAllP, List.nil_append]
    cases closeEvent { st with data := plinesOfJ (ln + 1) e.parts } filt fl with
    | error x => rfl
    | ok st' => simp [jetscapeLoop]
  | cons e' es ih =>
    intro e base ln c cont st hwf hfh hc hd
    simp only [wfJEvents, Bool.and_eq_true] at hwf
    obtain ⟨he, hwf'⟩ := hwf
    have hwf'' : wfJEvents partons (base + 1) (e' :: es) = true := by simpa [wfJEvents] using hwf'
    simp only [wfJEvent, Bool.and_eq_true] at he
    have he' : isJHdr partons e'.hdr ((base + 1 : Nat) : Int) e'.parts.length = true := by
      simp only [wfJEvent, Bool.and_eq_true] at hwf'
      exact hwf'.1.1
    have hc' : isCloser partons fh e'.hdr := Or.inr ⟨_, _, he', by push_cast; omega⟩
    have hcount : jCount (e :: e' :: es) = e.parts.length + (jCount (e' :: es) + 1) := by simp [jCount]; omega
    rw [hcount, jTail, jloop_parts filt fl fh e.parts he.2, jstep_closer partons filt fl fh e'.hdr hc', hd]
    simp only [evPLinesJ, closeAllP, List.nil_append]
    cases hce : closeEvent { st with data := plinesOfJ (ln + 1) e.parts } filt fl with
    | error x => rfl
    | ok st' =>
      have := ih e' (base + 1) (ln + e.parts.length + 1) c cont st' hwf'' (by push_cast; omega) hc
        (closeEvent_data _ _ _ _ hce)
      simp only [evPLinesJ] at this
      simp only
      rw [show ln + 1 + e.parts.length + 1 = ln + e.parts.length + 1 + 1 by omega]
      exact this

/-! scan -/

theorem jscan_skip (l : LineF) (h : (l.hasHash && defString partons l) = false) (ls : List LineF) :
    jetscapeScan partons (l :: ls) = jetscapeScan partons ls := by
  simp only [defString] at h
  rw [jetscapeScan]
  simp [h]

theorem jscan_hdr (l : LineF) (label : Int) (n : Nat) (h : isJHdr partons l label n = true) (ls : List LineF) :
    jetscapeScan partons (l :: ls) =
      match jetscapeScan partons ls with
      | .error x => .error x
      | .ok rows => .ok ((label, (n : Int)) :: rows) := by
  simp only [isJHdr, Bool.and_eq_true, Bool.not_eq_true', defString] at h
  obtain ⟨⟨⟨⟨⟨⟨j1, j2⟩, j3⟩, j4⟩, j5⟩, j6⟩, j7⟩ := h
  obtain ⟨t2, ht2, hp2⟩ := tokInt_eq j6
  obtain ⟨t8, ht8, hp8⟩ := tokInt_eq j7
  rw [jetscapeScan]
  simp only [j1, j2, ht2, ht8, hp2, hp8, bind, Except.bind, pure, Except.pure, Bool.and_self, if_true]
  cases jetscapeScan partons ls <;> rfl

theorem jscan_parts (ps : List LineF) (hps : ps.all isJPart = true) (rest : List LineF) :
    jetscapeScan partons (ps ++ rest) = jetscapeScan partons rest := by
  induction ps with
  | nil => rfl
  | cons p ps ih =>
    simp only [List.all_cons, Bool.and_eq_true] at hps
    obtain ⟨hp, hps⟩ := hps
    simp only [isJPart, Bool.and_eq_true, Bool.not_eq_true'] at hp
    rw [List.cons_append, jscan_skip partons p (by simp [hp.1.1.1]), ih hps]

theorem jscan_tail (es : List JEvent) :
    ∀ (base : Nat) (cont : List LineF), wfJEvents partons base es = true →
      jetscapeScan partons (jTail es cont) =
        match jetscapeScan partons cont with
        | .error x => .error x
        | .ok rows => .ok (rowsFromJ base es ++ rows) := by
  induction es with
  | nil =>
    intro base cont _
    simp only [jTail, rowsFromJ, List.nil_append]
    cases jetscapeScan partons cont <;> rfl
  | cons e es ih =>
    intro base cont hwf
    simp only [wfJEvents, Bool.and_eq_true] at hwf
    obtain ⟨he, hes⟩ := hwf
    simp only [wfJEvent, Bool.and_eq_true] at he
    rw [jTail, jscan_hdr partons e.hdr base e.parts.length he.1, jscan_parts partons e.parts he.2, ih (base + 1) cont hes]
    cases jetscapeScan partons cont with
    | error x => rfl
    | ok v => simp [rowsFromJ]

theorem rowsFromJ_length (es : List JEvent) : ∀ base, (rowsFromJ base es).length = es.length := by
  induction es with
  | nil => intro; rfl
  | cons e es ih => intro base; simp [rowsFromJ, ih]

theorem rowsFromJ_take (es : List JEvent) :
    ∀ (base a : Nat), (rowsFromJ base es).take a = rowsFromJ base (es.take a) := by
  induction es with
  | nil => intro base a; simp [rowsFromJ]
  | cons e es ih =>
    intro base a
    cases a with
    | zero => simp [rowsFromJ]
    | succ a => simp [rowsFromJ, ih]

theorem rowsFromJ_drop (es : List JEvent) :
    ∀ (base a : Nat), (rowsFromJ base es).drop a = rowsFromJ (base + a) (es.drop a) := by
  induction es with
  | nil => intro base a; simp [rowsFromJ]
  | cons e es ih =>
    intro base a
    cases a with
    | zero => simp [rowsFromJ]
    | succ a => simp [rowsFromJ, ih, Nat.add_assoc, Nat.add_comm 1]

theorem jBody_cons (e : JEvent) (es : List JEvent) : jBody (e :: es) = e.hdr :: (e.parts ++ jBody es) := by
  simp [jBody, jTail]

theorem jBody_length (es : List JEvent) : (jBody es).length = jCount es := by
  induction es with
  | nil => rfl
  | cons e es ih => simp [jBody_cons, jCount, ih]; omega

theorem sumCounts_rowsFromJ (es : List JEvent) : ∀ base, sumCounts (rowsFromJ base es) 1 = ((jBody es).length : Int) := by
  induction es with
  | nil => intro; simp [rowsFromJ, sumCounts_nil, jBody, jTail]
  | cons e es ih =>
    intro base
    have := ih (base + 1)
    rw [sumCounts_eq] at this ⊢
    simp only [rowsFromJ, List.map_cons, List.sum_cons, jBody_cons, List.length_cons, List.length_append, this]
    push_cast
    omega

theorem evPLinesJ_take (es : List JEvent) : ∀ (ln a : Nat), (evPLinesJ ln es).take a = evPLinesJ ln (es.take a) := by
  induction es with
  | nil => intro ln a; simp [evPLinesJ]
  | cons e es ih =>
    intro ln a
    cases a with
    | zero => simp [evPLinesJ]
    | succ a => simp [evPLinesJ, ih]

theorem evPLinesJ_drop (es : List JEvent) :
    ∀ (ln a : Nat), (evPLinesJ ln es).drop a = evPLinesJ (ln + (jBody (es.take a)).length) (es.drop a) := by
  induction es with
  | nil => intro ln a; simp [evPLinesJ]
  | cons e es ih =>
    intro ln a
    cases a with
    | zero => simp [evPLinesJ, jBody, jTail]
    | succ a =>
      simp only [evPLinesJ, List.drop_succ_cons, List.take_succ_cons, jBody_cons, List.length_cons, List.length_append, ih]
      congr 1
      omega

theorem evPLinesJ_length (es : List JEvent) : ∀ ln, (evPLinesJ ln es).length = es.length := by
  induction es with
  | nil => intro; rfl
  | cons e es ih => intro ln; simp [evPLinesJ, ih]

theorem wfJEvents_take (es : List JEvent) :
    ∀ (base a : Nat), wfJEvents partons base es = true → wfJEvents partons base (es.take a) = true := by
  induction es with
  | nil => intro base a h; simpa using h
  | cons e es ih =>
    intro base a h
    cases a with
    | zero => simp [wfJEvents]
    | succ a =>
      simp only [wfJEvents, Bool.and_eq_true, List.take_succ_cons] at h ⊢
      exact ⟨h.1, ih _ _ h.2⟩

theorem wfJEvents_drop (es : List JEvent) :
    ∀ (base a : Nat), wfJEvents partons base es = true → wfJEvents partons (base + a) (es.drop a) = true := by
  induction es with
  | nil => intro base a h; simp [wfJEvents]
  | cons e es ih =>
    intro base a h
    cases a with
    | zero => simpa using h
    | succ a =>
      simp only [wfJEvents, Bool.and_eq_true, List.drop_succ_cons] at h ⊢
      have := ih (base + 1) a h.2
      rwa [show base + (a + 1) = base + 1 + a by omega]

/-- well-formed JETSCAPE file, as observed -/
def WFJetscape (f : FileF) (partons : Bool) (evs : List JEvent) : Prop :=
  ∃ h0 tr, f.lines = h0 :: jLines evs tr ∧ wfJetscapeB partons h0 evs tr = true

theorem sel_window' (n : Nat) (hn : 1 ≤ n) (sel : Sel) (hv : sel.validFor n = true) :
    sel.start + sel.count n ≤ n ∧ 1 ≤ sel.count n := by
  cases sel with
  | all => simp [Sel.start, Sel.count]; exact hn
  | one k =>
    simp only [Sel.validFor, Bool.and_eq_true, decide_eq_true_eq] at hv
    simp [Sel.start, Sel.count]; omega
  | range a b =>
    simp only [Sel.validFor, Bool.and_eq_true, decide_eq_true_eq] at hv
    simp [Sel.start, Sel.count]; omega

def firstHeaderOf (sel : Sel) : Int :=
  match sel with | .all => 1 | .one k => 1 + k | .range a _ => 1 + a

theorem firstHeaderOf_valid (n : Nat) (sel : Sel) (hv : sel.validFor n = true) :
    firstHeaderOf sel = ((1 + sel.start : Nat) : Int) := by
  cases sel with
  | all => rfl
  | one k =>
    simp only [Sel.validFor, Bool.and_eq_true, decide_eq_true_eq] at hv
    simp only [Sel.start, firstHeaderOf]; omega
  | range a b =>
    simp only [Sel.validFor, Bool.and_eq_true, decide_eq_true_eq] at hv
    simp only [Sel.start, firstHeaderOf]; omega

/-- `readJetscape` with the number of the first event header as a parameter (same text as `readJetscape`;
the equation with the shared definition is checked by `rfl`) -/
def readJetscapeCore (f : FileF) (sel : Sel) (partons : Bool) (filt : Option EvFilter) (firstHeader : Int) :
    Except Err Loaded := do
  jetscapeInitOk f
  validSel sel
  let rows ← jetscapeScan partons f.lines
  let numEvents : Int := rows.length
  let skip ← skipLines 1 1 rows sel
  let nread0 ← readLines 1 rows sel
  let nread := nread0 + 1
  if nread < 0 || skip < 0 then throw Err.index
  let body := f.lines.drop skip.toNat
  let (rowsSel, neSel) := selectRows rows numEvents sel
  let firstLabel : Int := match rowsSel with | r :: _ => r.1 | [] => 1
  let st ← jetscapeLoop filt firstLabel firstHeader nread.toNat skip.toNat true body ⟨[], [], .arr2d rowsSel, 0⟩
  let (plist, ne, counts) ← finish st neSel sel
  pure { events := plist, numEvents := ne, counts := counts, fmt := none, customAttrs := [], footers := [] }

def jetscapeBase : Loaded :=
  { events := [], numEvents := 0, counts := .empty, fmt := none, customAttrs := [], footers := [] }

theorem jLines_getLast? (pre : List LineF) (es : List JEvent) (tr : LineF) :
    (pre ++ jLines es tr).getLast? = some tr := by
  rw [jLines_eq, jTail_body, ← List.append_assoc, List.getLast?_concat]

theorem readJetscape_wf (f : FileF) (evs : List JEvent) (sel : Sel)
    (filt : Option EvFilter) (hwf : WFJetscape f partons evs) (hv : sel.validFor evs.length = true) :
    readJetscape f sel partons filt =
      loadFrom filt sel (sel.count evs.length)
        (evPLinesJ (1 + (jBody (evs.take sel.start)).length) ((evs.drop sel.start).take (sel.count evs.length)))
        (rowsFromJ (1 + sel.start) ((evs.drop sel.start).take (sel.count evs.length)))
        jetscapeBase := by
  unfold loadFrom jetscapeBase
  obtain ⟨h0, tr, hl, hb⟩ := hwf
  have hcore : readJetscape f sel partons filt = readJetscapeCore f sel partons filt (firstHeaderOf sel) := by
    rfl
  rw [hcore]
  simp only [wfJetscapeB, Bool.and_eq_true, Bool.not_eq_true'] at hb
  obtain ⟨⟨⟨p0, hne⟩, hevs⟩, htr⟩ := hb
  have hne' : evs ≠ [] := by intro h; simp [h] at hne
  have hn1 : 1 ≤ evs.length := by cases evs with | nil => exact absurd rfl hne' | cons _ _ => simp
  simp only [isJTrailer, Bool.and_eq_true, Bool.not_eq_true'] at htr
  obtain ⟨⟨t1, t2⟩, t3⟩ := htr
  have hinit : jetscapeInitOk f = .ok () := by
    have hlast : f.lines.getLast? = some tr := by
      rw [hl]; exact jLines_getLast? [h0] evs tr
    have hlen : ¬ (f.lines.length < 2) := by
      rw [hl, jLines_eq, jTail_body]; simp
    unfold jetscapeInitOk lastLine
    simp [hlast, hlen, bind, Except.bind, t2]
  have hscan : jetscapeScan partons f.lines = .ok (rowsFromJ 1 evs) := by
    rw [hl, jLines_eq, jscan_skip partons h0 p0, jscan_tail partons evs 1 [tr] hevs,
      jscan_skip partons tr (by simp [t3])]
    simp [jetscapeScan]
  have hlenr : (rowsFromJ 1 evs).length = evs.length := rowsFromJ_length evs 1
  have hv' : sel.validFor (rowsFromJ 1 evs).length = true := by rw [hlenr]; exact hv
  have hvalid := validSel_valid evs.length sel hv
  have hskip := skipLines_valid 1 1 (rowsFromJ 1 evs) sel hv'
  have hread := readLines_valid 1 (rowsFromJ 1 evs) sel hv'
  have hselr := selectRows_valid (rowsFromJ 1 evs) sel hv'
  have hfh := firstHeaderOf_valid evs.length sel hv
  obtain ⟨hwin, hm1⟩ := sel_window' evs.length hn1 sel hv
  rw [hlenr] at hread hselr
  rw [rowsFromJ_take, sumCounts_rowsFromJ] at hskip
  rw [rowsFromJ_drop, rowsFromJ_take, sumCounts_rowsFromJ] at hread
  rw [rowsFromJ_drop, rowsFromJ_take] at hselr
  generalize hes : (evs.drop sel.start).take (sel.count evs.length) = es at *
  generalize hpre : evs.take sel.start = pre at *
  generalize hpost : (evs.drop sel.start).drop (sel.count evs.length) = post at *
  have hsplit : evs = pre ++ (es ++ post) := by
    rw [← hes, ← hpre, ← hpost, List.take_append_drop, List.take_append_drop]
  have hprelen : pre.length = sel.start := by rw [← hpre]; simp; omega
  have heslen : es.length = sel.count evs.length := by rw [← hes]; simp; omega
  have hdrop : f.lines.drop (1 + (jBody pre).length) = jTail es (jLines post tr) := by
    rw [hl]
    conv => lhs; rw [hsplit]
    rw [jLines_eq, jTail_append, jTail_body pre, jTail_append, ← jLines_eq]
    have : h0 :: (jBody pre ++ jTail es (jLines post tr)) = ([h0] ++ jBody pre) ++ jTail es (jLines post tr) := by simp
    rw [this, List.drop_left' (by simp; omega)]
  have hwfd : wfJEvents partons (1 + sel.start) (evs.drop sel.start) = true := wfJEvents_drop partons evs 1 sel.start hevs
  have hwfes : wfJEvents partons (1 + sel.start) es = true := by
    rw [← hes]; exact wfJEvents_take partons _ _ _ hwfd
  have hwfpost : wfJEvents partons (1 + sel.start + es.length) post = true := by
    rw [← hpost, heslen]; exact wfJEvents_drop partons _ _ _ hwfd
  have hneg : (decide (((jBody es).length : Int) + 1 < 0) || decide ((1 : Int) + ((jBody pre).length : Int) < 0)) = false := by
    simp; omega
  have hsk : ((1 : Int) + ((jBody pre).length : Int)).toNat = 1 + (jBody pre).length := by omega
  have hnr : (((jBody es).length : Int) + 1).toNat = jCount es + 1 := by rw [jBody_length]; omega
  cases hes' : es with
  | nil => rw [hes'] at heslen; simp at heslen; omega
  | cons e es' =>
    rw [hes'] at hdrop hwfes hread hselr heslen hnr hwfpost hneg
    -- the closing line after the selection
    obtain ⟨c, cont, hcont, hc⟩ : ∃ c cont, jLines post tr = c :: cont ∧ isCloser partons ((1 + sel.start : Nat) : Int) c := by
      cases hpp : post with
      | nil => exact ⟨tr, [], rfl, Or.inl (by simp [t1, t2])⟩
      | cons p ps =>
        rw [hpp] at hwfpost
        simp only [wfJEvents, wfJEvent, Bool.and_eq_true] at hwfpost
        refine ⟨p.hdr, p.parts ++ jLines ps tr, rfl, Or.inr ⟨_, _, hwfpost.1.1, ?_⟩⟩
        simp only [List.length_cons]; push_cast; omega
    have hfirst : isJHdr partons e.hdr ((1 + sel.start : Nat) : Int) e.parts.length = true := by
      simp only [wfJEvents, wfJEvent, Bool.and_eq_true] at hwfes
      exact hwfes.1.1
    have hloop := jloop_events partons filt ((1 + sel.start : Nat) : Int)
      ((1 + sel.start : Nat) : Int) es' e (1 + sel.start) (1 + (jBody pre).length) c cont
      ⟨[], [], .arr2d (rowsFromJ (1 + sel.start) (e :: es')), 0⟩ hwfes (by omega) hc rfl
    have hne2 : rowsFromJ (1 + sel.start) (e :: es') ≠ [] := by simp [rowsFromJ]
    unfold readJetscapeCore
    simp only [hinit, hvalid, hscan, hskip, hread, hselr, hneg, hsk, hnr, hdrop, hfh, hlenr, jTail, hcont,
      bind, Except.bind, pure, Except.pure, Bool.false_eq_true, if_false]
    rw [jstep_first partons filt _ _ e.hdr e.parts.length hfirst]
    have hfl : firstLabelOf (.arr2d (rowsFromJ (1 + sel.start) (e :: es'))) = ((1 + sel.start : Nat) : Int) := rfl
    rw [hfl]
    have hfl2 : (match rowsFromJ (1 + sel.start) (e :: es') with | r :: _ => r.1 | [] => (1 : Int)) = ((1 + sel.start : Nat) : Int) := rfl
    rw [hfl2, hloop]
    cases closeAllP filt ((1 + sel.start : Nat) : Int)
        (evPLinesJ (1 + (jBody pre).length) (e :: es')) ⟨[], [], .arr2d (rowsFromJ (1 + sel.start) (e :: es')), 0⟩ with
    | error x => rfl
    | ok st =>
      simp only
      cases finish st (sel.count evs.length : Int) sel with
      | error x => rfl
      | ok v => rfl

end Jetscape

/-! ### after the loop: plain selection, constructor filters -/


theorem loadFrom_none (sel : Sel) (m : Nat) (pes : List (List PLine)) (rows : List (Int × Int)) (base : Loaded)
    (hlen : pes.length = m) (hne : pes ≠ []) :
    loadFrom none sel m pes rows base =
      .ok { base with events := pes, numEvents := (m : Int), counts := .arr2d rows } := by
  unfold loadFrom
  rw [closeAllP_none]
  have hemp : pes.isEmpty = false := by cases pes <;> simp_all
  cases sel <;> simp [finish, hlen, hemp, pure, Except.pure]

theorem relabel_isEmpty (fl : Int) (kept : List (List PLine)) : (relabel fl kept).isEmpty = kept.isEmpty := by
  cases kept <;> rfl

theorem loadFrom_some (d : EvFilter) (sel : Sel) (m : Nat) (pes : List (List PLine)) (rows : List (Int × Int))
    (base : Loaded) (hlen : pes.length = m) (hrows : rows.length = m) (hne : pes ≠ []) :
    loadFrom (some d) sel m pes rows base =
      match filterEvents d pes with
      | .error x => .error x
      | .ok kept =>
        .ok { base with
              events := if kept.isEmpty then [[]] else kept
              numEvents := (kept.length : Int)
              counts := if kept.isEmpty then .empty else .arr2d (relabel (firstLabelOf (.arr2d rows)) kept) } := by
  unfold loadFrom
  have := closeAllP_some d (firstLabelOf (.arr2d rows)) pes [] [] rows 0 rfl (by rw [hrows, hlen])
  simp only [List.nil_append, List.length_nil, Int.natCast_zero, Int.zero_add] at this
  rw [this]
  cases hf : filterEvents d pes with
  | error x => rfl
  | ok kept =>
    have hemp : pes.isEmpty = false := by cases pes <;> simp_all
    have hne' : ((m : Int) - ((pes.length : Int) - (kept.length : Int))) = (kept.length : Int) := by
      rw [hlen]; omega
    have hfin : finish ⟨kept, [], mkCounts pes (relabel (firstLabelOf (.arr2d rows)) kept),
          (pes.length : Int) - (kept.length : Int)⟩ (m : Int) sel
        = .ok (if kept.isEmpty then [[]] else kept, (kept.length : Int),
            mkCounts pes (relabel (firstLabelOf (.arr2d rows)) kept)) := by
      cases sel <;> simp [finish, hne', pure, Except.pure]
    simp only [hfin]
    simp only [mkCounts, hemp, relabel_isEmpty]
    cases kept <;> simp

/-- the constructor-filter semantics applied to the result of the plain selection -/
theorem loadFrom_ctorFilter (d : EvFilter) (sel : Sel) (m : Nat) (pes : List (List PLine)) (rows : List (Int × Int))
    (base : Loaded) (hlen : pes.length = m) (hrows : rows.length = m) (hne : pes ≠ []) :
    loadFrom (some d) sel m pes rows base =
      match loadFrom none sel m pes rows base with
      | .error x => .error x
      | .ok L => ctorFilter d L := by
  rw [loadFrom_some d sel m pes rows base hlen hrows hne, loadFrom_none sel m pes rows base hlen hne]
  simp only [ctorFilter]
  cases filterEvents d pes <;> rfl

/-! ### `particle_list()` and the impact parameters -/


theorem takeRange_self {α : Type} (xs : List α) : takeRange xs (xs.length : Int) = .ok xs := by
  unfold takeRange
  cases xs with
  | nil => simp
  | cons x xs =>
    have : ¬ (((x :: xs).length : Int) ≤ 0) := by simp
    simp

theorem mapM_range_ok {β : Type} (xs : List β) :
    ∀ (g : Nat → Except Err β), (∀ i (h : i < xs.length), g i = .ok xs[i]) →
      (List.range xs.length).mapM g = .ok xs := by
  induction xs with
  | nil => intro g _; simp [pure, Except.pure]
  | cons x xs ih =>
    intro g hg
    rw [List.length_cons, List.range_succ_eq_map, List.mapM_cons]
    have h0 := hg 0 (by simp)
    simp only [List.getElem_cons_zero] at h0
    have hrest : (List.map Nat.succ (List.range xs.length)).mapM g = .ok xs := by
      rw [List.mapM_map]
      apply ih (fun i => g (i + 1))
      intro i h
      have := hg (i + 1) (by simp; omega)
      simpa using this
    rw [h0, hrest]
    rfl

/-- counts rows that carry the sizes of the held events -/
def rowsMatch (rows : List (Int × Int)) (evs : List (List PLine)) : Prop :=
  rows.map (fun r => r.2) = evs.map (fun e => (e.length : Int))

theorem particleList_ok (guard : Bool) (rows : List (Int × Int)) (evs : List (List PLine)) (h : rowsMatch rows evs) :
    particleList guard (evs.length : Int) (.arr2d rows) evs =
      .ok (if evs.length = 1 then .single (evs.headD []) else .multi evs) := by
  have hlen : rows.length = evs.length := by
    have := congrArg List.length h
    simpa using this
  unfold particleList
  by_cases hz : (guard && ((evs.length : Int) == 0)) = true
  · simp only [Bool.and_eq_true, beq_iff_eq] at hz
    have : evs = [] := List.eq_nil_of_length_eq_zero (by omega)
    subst this
    simp [hz.1]
  · simp only [hz, Bool.false_eq_true, if_false]
    by_cases h1 : evs.length = 1
    · have h1' : ((evs.length : Int) == 1) = true := by simp [h1]
      simp only [if_true, h1]
      cases rows with
      | nil => simp at hlen; omega
      | cons r rs =>
        cases evs with
        | nil => simp at h1
        | cons e es =>
          simp only [rowsMatch, List.map_cons, List.cons.injEq] at h
          simp [h.1, takeRange_self]
    · have h1' : ((evs.length : Int) == 1) = false := by simp; omega
      simp only [h1', h1, if_false, Int.toNat_natCast, Bool.false_eq_true]
      rw [mapM_range_ok evs]
      intro i hi
      have hi' : i < rows.length := by omega
      have hr : rows[i].2 = ((evs[i]).length : Int) := by
        have := congrArg (fun l => l[i]?) h
        simp [hi, hi'] at this
        exact this
      simp [hi, hi', hr, takeRange_self]

/-- without the guard, the empty counts array makes `particle_list()` raise -/
theorem particleList_empty (ne : Int) (evs : List (List PLine)) :
    particleList false ne .empty evs = .error .index := rfl

/-- with the guard, zero events give `[]` -/
theorem particleList_guarded_zero (c : Counts) (evs : List (List PLine)) :
    particleList true 0 c evs = .ok (.multi []) := rfl

theorem plinesOf_length (ps : List LineF) : ∀ ln, (plinesOf ln ps).length = ps.length := by
  induction ps with
  | nil => intro; rfl
  | cons p ps ih => intro ln; simp [plinesOf, ih]

theorem plinesOfJ_length (ps : List LineF) : ∀ ln, (plinesOfJ ln ps).length = ps.length := by
  induction ps with
  | nil => intro; rfl
  | cons p ps ih => intro ln; simp [plinesOfJ, ih]

theorem rowsMatch_oscar (es : List OEvent) : ∀ base ln, rowsMatch (rowsFrom base es) (evPLines ln es) := by
  induction es with
  | nil => intro _ _; rfl
  | cons e es ih =>
    intro base ln
    have := ih (base + 1) (ln + e.parts.length + 2)
    simp only [rowsMatch] at this ⊢
    simp [rowsFrom, evPLines, plinesOf_length, this]

theorem rowsMatch_jetscape (es : List JEvent) : ∀ base ln, rowsMatch (rowsFromJ base es) (evPLinesJ ln es) := by
  induction es with
  | nil => intro _ _; rfl
  | cons e es ih =>
    intro base ln
    have := ih (base + 1) (ln + e.parts.length + 1)
    simp only [rowsMatch] at this ⊢
    simp [rowsFromJ, evPLinesJ, plinesOfJ_length, this]

theorem rowsMatch_relabel (kept : List (List PLine)) : ∀ fl, rowsMatch (relabel fl kept) kept := by
  induction kept with
  | nil => intro; rfl
  | cons e es ih =>
    intro fl
    have := ih (fl + 1)
    simp only [rowsMatch] at this ⊢
    simp [relabel, this]

/-- labels of `relabel` are consecutive from the first label -/
theorem relabel_labels (kept : List (List PLine)) :
    ∀ fl, (relabel fl kept).map (fun r => r.1) = (List.range kept.length).map (fun (i : Nat) => fl + (i : Int)) := by
  induction kept with
  | nil => intro; rfl
  | cons e es ih =>
    intro fl
    rw [List.length_cons, List.range_succ_eq_map]
    simp only [relabel, List.map_cons, List.map_map, ih (fl + 1)]
    simp
    intro a _
    omega

theorem pyGet_nat {α : Type} (xs : List α) (i : Nat) (h : i < xs.length) : pyGet xs (i : Int) = .ok xs[i] := by
  unfold pyGet
  have h1 : ¬ ((i : Int) < 0) := by omega
  simp [h1, h]

/-- impact parameters of a selection: each selected event's own end line -/
theorem impact_rows (es : List OEvent) :
    ∀ (pre post : List OEvent),
      (rowsFrom pre.length es).mapM (fun r => pyGet (footersOf (pre ++ (es ++ post))) r.1) = .ok (footersOf es) := by
  induction es with
  | nil => intro pre post; simp [rowsFrom, footersOf, pure, Except.pure]
  | cons e es ih =>
    intro pre post
    have h1 : pre.length < (footersOf (pre ++ (e :: es ++ post))).length := by simp [footersOf]
    have hget : (footersOf (pre ++ (e :: es ++ post)))[pre.length] = e.endl.raw := by
      simp [footersOf]
    have := ih (pre ++ [e]) post
    simp only [List.length_append, List.length_cons, List.length_nil, List.append_assoc, List.cons_append,
      List.nil_append, Nat.zero_add] at this
    simp only [List.cons_append] at h1 hget ⊢
    simp only [rowsFrom, List.mapM_cons, pyGet_nat _ _ h1, hget, bind, Except.bind, this, pure, Except.pure]
    simp [footersOf]

/-! ### the driver's well-formedness check is sound; list slicing -/


theorem splitEvents_sound (ns : List Nat) :
    ∀ (ls : List LineF) (evs : List OEvent) (rest : List LineF),
      splitEvents ns ls = some (evs, rest) → ls = bodyLines evs ++ rest := by
  induction ns with
  | nil =>
    intro ls evs rest h
    simp only [splitEvents, Option.some.injEq, Prod.mk.injEq] at h
    obtain ⟨rfl, rfl⟩ := h
    simp [bodyLines]
  | cons n ns ih =>
    intro ls evs rest h
    cases ls with
    | nil => simp [splitEvents] at h
    | cons o tl =>
      simp only [splitEvents] at h
      cases hd : tl.drop n with
      | nil => simp [hd] at h
      | cons e rest' =>
        simp only [hd] at h
        by_cases hlen : ((tl.take n).length != n) = true
        · rw [if_pos hlen] at h; cases h
        · simp only [hlen, Bool.false_eq_true, if_false] at h
          cases hs : splitEvents ns rest' with
          | none => simp [hs] at h
          | some v =>
            obtain ⟨evs', r⟩ := v
            simp only [hs, Option.some.injEq, Prod.mk.injEq] at h
            obtain ⟨rfl, rfl⟩ := h
            have := ih rest' evs' r hs
            have htl : tl = tl.take n ++ e :: rest' := by
              rw [← hd, List.take_append_drop]
            rw [bodyLines_cons, OEvent.lines]
            simp only [List.cons_append, List.append_assoc, List.nil_append]
            rw [← this, ← htl]

theorem checkOscar_sound (f : FileF) (ns : List Nat) (h : checkOscar f ns = true) :
    ∃ fmt attrs evs, WFOscar f fmt attrs evs := by
  unfold checkOscar at h
  cases hl : f.lines with
  | nil => simp [hl] at h
  | cons h0 t0 =>
    cases t0 with
    | nil => simp [hl] at h
    | cons h1 t1 =>
      cases t1 with
      | nil => simp [hl] at h
      | cons h2 body =>
        simp only [hl] at h
        cases hs : splitEvents ns body with
        | none => simp [hs] at h
        | some v =>
          obtain ⟨evs, rest⟩ := v
          cases rest with
          | cons _ _ => simp [hs] at h
          | nil =>
            cases hf : oscarFormat h0 with
            | error x => simp [hs, hf] at h
            | ok v =>
              obtain ⟨fmt, attrs⟩ := v
              simp only [hs, hf] at h
              have hb := splitEvents_sound ns body evs [] hs
              simp only [List.append_nil] at hb
              exact ⟨fmt, attrs, evs, h0, h1, h2, by rw [hl, hb], h⟩

theorem splitJEvents_sound (ns : List Nat) :
    ∀ (ls : List LineF) (evs : List JEvent) (rest : List LineF),
      splitJEvents ns ls = some (evs, rest) → ls = jTail evs rest := by
  induction ns with
  | nil =>
    intro ls evs rest h
    simp only [splitJEvents, Option.some.injEq, Prod.mk.injEq] at h
    obtain ⟨rfl, rfl⟩ := h
    rfl
  | cons n ns ih =>
    intro ls evs rest h
    cases ls with
    | nil => simp [splitJEvents] at h
    | cons o tl =>
      simp only [splitJEvents] at h
      by_cases hlen : ((tl.take n).length != n) = true
      · rw [if_pos hlen] at h; cases h
      · simp only [hlen, Bool.false_eq_true, if_false] at h
        cases hs : splitJEvents ns (tl.drop n) with
        | none => simp [hs] at h
        | some v =>
          obtain ⟨evs', r⟩ := v
          simp only [hs, Option.some.injEq, Prod.mk.injEq] at h
          obtain ⟨rfl, rfl⟩ := h
          have := ih (tl.drop n) evs' r hs
          simp only [jTail]
          rw [← this, List.take_append_drop]

theorem checkJetscape_sound (f : FileF) (partons : Bool) (ns : List Nat) (h : checkJetscape f partons ns = true) :
    ∃ evs, WFJetscape f partons evs := by
  unfold checkJetscape at h
  cases hl : f.lines with
  | nil => simp [hl] at h
  | cons h0 body =>
    simp only [hl] at h
    cases hs : splitJEvents ns body with
    | none => simp [hs] at h
    | some v =>
      obtain ⟨evs, rest⟩ := v
      cases rest with
      | nil => simp [hs] at h
      | cons tr r2 =>
        cases r2 with
        | cons _ _ => simp [hs] at h
        | nil =>
          simp only [hs] at h
          have hb := splitJEvents_sound ns body evs [tr] hs
          exact ⟨evs, h0, tr, by rw [hl, hb, jLines_eq], h⟩

/-! list slicing of the particle-object loader -/

theorem sliceList_spec {α : Type} (xs : List α) (sel : Sel) (hv : sel.validFor xs.length = true) :
    sliceList xs sel = .ok ((xs.drop sel.start).take (sel.count xs.length)) := by
  cases sel with
  | all => simp [sliceList, Sel.start, Sel.count]
  | one k =>
    simp only [Sel.validFor, Bool.and_eq_true, decide_eq_true_eq] at hv
    obtain ⟨k', rfl⟩ := Int.eq_ofNat_of_zero_le hv.1
    have hk : k' < xs.length := by omega
    have : ¬ ((k' : Int) < 0) := by omega
    simp only [sliceList, this, if_false, Int.toNat_natCast, Sel.start, Sel.count, List.getElem?_eq_getElem hk]
    rw [List.drop_eq_getElem_cons hk]
    rfl
  | range a b =>
    simp only [Sel.validFor, Bool.and_eq_true, decide_eq_true_eq] at hv
    obtain ⟨a', rfl⟩ := Int.eq_ofNat_of_zero_le hv.1.1
    obtain ⟨b', rfl⟩ := Int.eq_ofNat_of_zero_le (by omega : 0 ≤ b)
    have h1 : ¬ ((a' : Int) > (b' : Int)) := by omega
    have h2 : (decide ((a' : Int) < 0) || decide ((b' : Int) < 0)) = false := by simp
    have h3 : ((b' : Int) + 1).toNat - a' = ((b' : Int) - (a' : Int) + 1).toNat := by omega
    simp only [sliceList, h1, h2, if_false, Bool.false_eq_true, Int.toNat_natCast, Sel.start, Sel.count, List.drop_take, h3]

theorem sliceList_length {α : Type} (xs ys : List α) (sel : Sel) (hv : sel.validFor xs.length = true)
    (h : sliceList xs sel = .ok ys) : ys.length = sel.count xs.length := by
  rw [sliceList_spec xs sel hv] at h
  injection h with h
  subst h
  cases sel with
  | all => simp [Sel.start, Sel.count]
  | one k =>
    simp only [Sel.validFor, Bool.and_eq_true, decide_eq_true_eq] at hv
    simp [Sel.start, Sel.count]; omega
  | range a b =>
    simp only [Sel.validFor, Bool.and_eq_true, decide_eq_true_eq] at hv
    simp [Sel.start, Sel.count]; omega

end SparkxVerif.RdSel
