/-
Classification, base: the strings of the file grammar as character lists — the token alphabet, Lean's decimal printer
(`toString` on `Nat` / `Int`) inverted by `pyInt?`, `split` of a joined token list, substring tests decided by alphabets.
Core Lean only (no Mathlib).
-/
import SparkxVerif.Core.Render
import SparkxVerif.Core.ReaderProto
import SparkxVerif.Lemmas.Str

set_option linter.unusedSimpArgs false

namespace SparkxVerif.Rd
open SparkxVerif.Str

/-! ### strings as character lists -/

theorem hasSub_def (s p : String) : hasSub s p = isInfix p.toList s.toList := rfl

theorem toList_ne_nil_of_not_isEmpty {s : String} (h : s.isEmpty = false) : s.toList ≠ [] := by
  intro e
  rw [String.toList_eq_nil_iff] at e
  subst e
  simp at h

/-- a substring test fails when the pattern needs a character outside the alphabet of the line -/
theorem hasSub_false_of_alphabet (A : Char → Bool) {s p : String} (hs : ∀ c ∈ s.toList, A c = true)
    (hp : p.toList.any (fun c => !A c) = true) : hasSub s p = false := by
  obtain ⟨c, hc, hA⟩ := List.any_eq_true.mp hp
  refine isInfix_eq_false_of_not_mem c hc (fun h => ?_)
  simp [hs c h] at hA

theorem hasSub_true_of_eq {s p : String} (a b : List Char) (h : s.toList = a ++ p.toList ++ b) : hasSub s p = true :=
  isInfix_of_eq a b h

/-- `sep.join(toks).split(sep)` gives the tokens back -/
theorem splitCh_intercalate {c : Char} {sep : String} (hsep : sep.toList = [c]) {toks : List String} (hne : toks ≠ [])
    (h : ∀ t ∈ toks, c ∉ t.toList) : splitCh c (sep.intercalate toks) = toks := by
  unfold splitCh
  rw [String.toList_intercalate, hsep, splitOnChar_intercalate (by simpa using hne)
    (by intro t ht; obtain ⟨t', ht', rfl⟩ := List.mem_map.mp ht; exact h t' ht')]
  simp [List.map_map, Function.comp_def, String.ofList_toList]

theorem mem_toList_intercalate {sep : String} {toks : List String} {c : Char}
    (h : c ∈ (sep.intercalate toks).toList) : c ∈ sep.toList ∨ ∃ t ∈ toks, c ∈ t.toList := by
  rw [String.toList_intercalate] at h
  rcases mem_intercalate h with h | ⟨t, ht, hc⟩
  · exact Or.inl h
  · obtain ⟨t', ht', rfl⟩ := List.mem_map.mp ht
    exact Or.inr ⟨t', ht', hc⟩

/-! ### alphabets -/

/-- characters of a numeric token -/
def numCh (c : Char) : Bool := c.isDigit || c == '+' || c == '-' || c == '.' || c == 'e' || c == 'E'

/-- all characters of `t` are characters of numeric tokens -/
def NumChars (t : String) : Prop := ∀ c ∈ t.toList, numCh c = true

theorem numTok_numChars {t : String} (h : numTok t = true) : NumChars t := by
  simp only [numTok, Bool.and_eq_true, String.all_bool_eq, List.all_eq_true] at h
  intro c hc
  simpa [numCh] using h.2 c hc

theorem numTok_ne_nil {t : String} (h : numTok t = true) : t.toList ≠ [] := by
  simp only [numTok, Bool.and_eq_true, Bool.not_eq_true'] at h
  exact toList_ne_nil_of_not_isEmpty h.1

theorem natRepr_numChars (n : Nat) : NumChars (toString n) := by
  intro c hc
  have : (toString n).toList = Nat.toDigits 10 n := Nat.toList_repr
  rw [this] at hc
  simp [numCh, digits_toDigits n c hc]

theorem intRepr_toList (i : Int) : (toString i).toList =
    match i with | .ofNat m => Nat.toDigits 10 m | .negSucc m => '-' :: Nat.toDigits 10 (m + 1) := by
  cases i with
  | ofNat m => exact Nat.toList_repr
  | negSucc m =>
    show ("-" ++ Nat.repr (m + 1)).toList = _
    rw [String.toList_append, Nat.toList_repr]; rfl

theorem intRepr_numChars (i : Int) : NumChars (toString i) := by
  intro c hc
  rw [intRepr_toList] at hc
  cases i with
  | ofNat m => simp [numCh, digits_toDigits m c hc]
  | negSucc m =>
    simp only [List.mem_cons] at hc
    rcases hc with rfl | hc
    · decide
    · simp [numCh, digits_toDigits _ c hc]

theorem natRepr_ne_nil (n : Nat) : (toString n).toList ≠ [] := by
  have : (toString n).toList = Nat.toDigits 10 n := Nat.toList_repr
  rw [this]; exact Nat.toDigits_ne_nil

theorem intRepr_ne_nil (i : Int) : (toString i).toList ≠ [] := by
  rw [intRepr_toList]
  cases i with
  | ofNat m => exact Nat.toDigits_ne_nil
  | negSucc m => simp

/-- `int(str(i)) == i` -/
theorem pyInt?_toString_int (i : Int) : pyInt? (toString i) = some i := by
  unfold pyInt?
  rw [intRepr_toList]
  cases i with
  | ofNat m => exact pyIntL_toDigits m
  | negSucc m => rw [pyIntL_neg_toDigits]; rfl

theorem pyInt?_toString_nat (n : Nat) : pyInt? (toString n) = some (n : Int) := by
  unfold pyInt?
  have : (toString n).toList = Nat.toDigits 10 n := Nat.toList_repr
  rw [this]; exact pyIntL_toDigits n

/-- a character outside the numeric alphabet is not in a numeric token -/
theorem NumChars.not_mem {t : String} (h : NumChars t) {c : Char} (hc : numCh c = false) : c ∉ t.toList := by
  intro hm; rw [h c hm] at hc; cases hc

theorem NumChars.alphabet {t : String} (h : NumChars t) (A : Char → Bool) (hA : ∀ c, numCh c = true → A c = true) :
    ∀ c ∈ t.toList, A c = true := fun c hc => hA c (h c hc)

theorem toString_string (s : String) : toString s = s := rfl

theorem tabToSp_map_of_not_mem {l : List Char} (h : '\t' ∉ l) : l.map tabToSp = l := by
  induction l with
  | nil => rfl
  | cons c l ih =>
    have hc : c ≠ '\t' := fun e => h (by simp [e])
    simp [tabToSp, hc, ih (fun e => h (by simp [e]))]

theorem intRepr_digits (i : Int) : ∀ c ∈ (toString i).toList, c.isDigit = true ∨ c = '-' := by
  intro c hc
  rw [intRepr_toList] at hc
  cases i with
  | ofNat m => exact Or.inl (digits_toDigits m c hc)
  | negSucc m =>
    simp only [List.mem_cons] at hc
    rcases hc with rfl | hc
    · exact Or.inr rfl
    · exact Or.inl (digits_toDigits _ c hc)

theorem natRepr_digits (n : Nat) : ∀ c ∈ (toString n).toList, c.isDigit = true := by
  intro c hc
  have : (toString n).toList = Nat.toDigits 10 n := Nat.toList_repr
  rw [this] at hc
  exact digits_toDigits n c hc

/-- the forms `simp` normalises `toString` to -/
theorem pyInt?_int_repr (i : Int) : pyInt? i.repr = some i := pyInt?_toString_int i
theorem pyInt?_nat_repr (n : Nat) : pyInt? n.repr = some (n : Int) := pyInt?_toString_nat n

theorem not_mem_of_hasSub_false {s : String} {c : Char} {p : String} (hp : p.toList = [c]) (h : hasSub s p = false) :
    c ∉ s.toList := by
  intro hm
  obtain ⟨a, b, e⟩ := List.append_of_mem hm
  rw [hasSub_def, hp, isInfix_of_eq a b (by simp [e])] at h
  cases h

end SparkxVerif.Rd
