/-
C02, tie T — facts about the primitives the generated selection arithmetic is built from (`Core/ReaderSelG.lean`):
`eBind`, `forAcc`, `pyRangeI`, `npSumCol1`, `pickAll` against the hand-written `Rd.takeChecked` / `Rd.sumCounts` /
`Rd.readLines`.  No Mathlib.
-/
import SparkxVerif.Lemmas.ReaderSel
import SparkxVerif.Core.ReaderSelG

namespace SparkxVerif.RdSel
open SparkxVerif.Rd

@[simp] theorem eBind_ok {α β : Type} (a : α) (f : α → Except Err β) : eBind (.ok a) f = f a := rfl
@[simp] theorem eBind_error {α β : Type} (e : Err) (f : α → Except Err β) :
    eBind (.error e : Except Err α) f = .error e := rfl

/-- `eBind` is the `bind` of `Except Err` -/
theorem eBind_eq_bind {α β : Type} (x : Except Err α) (f : α → Except Err β) : eBind x f = x >>= f := by
  cases x <;> rfl

/-- a counting loop over row indices = collect the rows (first index error wins), then fold -/
theorem forAcc_rows (rows : List (Int × Int)) (h : Int → Int × Int → Int) (idx : List Int) (init : Int) :
    forAcc (fun i acc => eBind (npRow rows i) (fun r => .ok (h acc r))) idx init
      = eBind (idx.mapM (npRow rows)) (fun rs => .ok (rs.foldl h init)) := by
  induction idx generalizing init with
  | nil => simp [forAcc, pure, Except.pure]
  | cons i is ih =>
    simp only [forAcc, List.mapM_cons]
    cases hr : npRow rows i with
    | error e => simp [bind, Except.bind]
    | ok r =>
      simp only [eBind_ok, ih, bind, Except.bind]
      cases hm : is.mapM (npRow rows) with
      | error e => simp
      | ok rs => simp [pure, Except.pure]

theorem npRow_ge (rows : List (Int × Int)) (i : Int) (h : (rows.length : Int) ≤ i) :
    npRow rows i = .error .index := by
  unfold npRow
  have h1 : ¬ (i < 0) := by omega
  simp [h1, h]

/-- `range(a, a+m)` row accesses for an in-range start `a` -/
theorem mapM_npRow_from (rows : List (Int × Int)) (m : Nat) :
    ∀ a : Nat, a ≤ rows.length →
      ((List.range m).map (fun (i : Nat) => (a : Int) + (i : Int))).mapM (npRow rows)
        = if a + m ≤ rows.length then .ok ((rows.drop a).take m) else .error .index := by
  induction m with
  | zero => intro a h; simp [pure, Except.pure, h]
  | succ m ih =>
    intro a h
    rw [List.range_succ_eq_map]
    simp only [List.map_cons, List.map_map, List.mapM_cons]
    have h0 : ((a : Int) + ((0 : Nat) : Int)) = (a : Int) := by simp
    rw [h0]
    by_cases ha : a < rows.length
    · rw [npRow_nat rows a ha]
      have hf : ((fun (i : Nat) => (a : Int) + (i : Int)) ∘ Nat.succ)
          = (fun (i : Nat) => ((a + 1 : Nat) : Int) + (i : Int)) := by
        funext i; simp; omega
      rw [hf, ih (a + 1) (by omega)]
      by_cases hm : a + 1 + m ≤ rows.length
      · have hm' : a + (m + 1) ≤ rows.length := by omega
        simp only [hm, hm', if_true, bind, Except.bind, pure, Except.pure]
        rw [List.drop_eq_getElem_cons ha]
        rfl
      · have hm' : ¬ (a + (m + 1) ≤ rows.length) := by omega
        simp only [hm, hm', if_false, bind, Except.bind]
    · have hm' : ¬ (a + (m + 1) ≤ rows.length) := by omega
      rw [npRow_ge rows a (by omega)]
      simp only [hm', if_false, bind, Except.bind]

/-- `range(0, k)` row accesses = the checked prefix -/
theorem mapM_npRow_prefix (rows : List (Int × Int)) (k : Int) (hk : 0 ≤ k) :
    (pyRangeI 0 k).mapM (npRow rows) = takeChecked rows k := by
  obtain ⟨n, rfl⟩ := Int.eq_ofNat_of_zero_le hk
  have h := mapM_npRow_from rows n 0 (Nat.zero_le _)
  have hn : ¬ ((n : Int) < 0) := by omega
  simp only [pyRangeI, takeChecked, Int.sub_zero, Int.toNat_natCast, hn, if_false]
  simp only [Nat.zero_add, List.drop_zero, Int.natCast_zero] at h
  exact h

/-- the index list `readLines` uses for a range is `range(a, b+1)` -/
theorem pyRangeI_eq (a b : Int) :
    pyRangeI a (b + 1) = (List.range (b + 1 - a).toNat).map (fun (i : Nat) => a + (i : Int)) := rfl

theorem npSumCol1_eq (rows : List (Int × Int)) : npSumCol1 rows = sumCounts rows 0 := by
  rw [sumCounts_eq]; simp [npSumCol1]

theorem foldl_congr_h (h : Int → Int × Int → Int) (extra : Int)
    (hh : ∀ acc r, h acc r = acc + (r.2 + extra)) (rs : List (Int × Int)) :
    rs.foldl h 0 = sumCounts rs extra := by
  have : h = (fun acc r => acc + (r.2 + extra)) := by funext acc r; exact hh acc r
  rw [this]; rfl

theorem forAcc_skip (rows : List (Int × Int)) (h : Int → Int × Int → Int) (extra hdr k : Int) (hk : 0 ≤ k)
    (hh : ∀ acc r, h acc r = acc + (r.2 + extra)) (g : Int → Int) (hg : ∀ s, g s = hdr + s) :
    eBind (forAcc (fun i acc => eBind (npRow rows i) (fun r => .ok (h acc r))) (pyRangeI 0 k) 0) (fun s => .ok (g s))
      = (do let pre ← takeChecked rows k; pure (hdr + sumCounts pre extra)) := by
  rw [forAcc_rows, mapM_npRow_prefix rows k hk]
  cases takeChecked rows k with
  | error e => rfl
  | ok pre => simp [hg, foldl_congr_h h extra hh, bind, Except.bind, pure, Except.pure]

theorem forAcc_read (rows : List (Int × Int)) (h : Int → Int × Int → Int) (extra a b : Int)
    (hh : ∀ acc r, h acc r = acc + (r.2 + extra)) (g : Int → Int) (hg : ∀ s, g s = s) :
    eBind (forAcc (fun i acc => eBind (npRow rows i) (fun r => .ok (h acc r))) (pyRangeI a (b + 1)) 0) (fun s => .ok (g s))
      = readLines extra rows (.range a b) := by
  rw [forAcc_rows, pyRangeI_eq]
  simp only [readLines]
  cases List.mapM (npRow rows) ((List.range (b + 1 - a).toNat).map (fun (i : Nat) => a + (i : Int))) with
  | error e => rfl
  | ok rs => simp [hg, foldl_congr_h h extra hh, bind, Except.bind, pure, Except.pure]

/-- `[xs[i] for i in idx]` -/
theorem pickAll_eq_mapM {α : Type} (get : Int → Except Err α) (idx : List Int) : pickAll get idx = idx.mapM get := by
  induction idx with
  | nil => simp [pickAll, pure, Except.pure]
  | cons i is ih =>
    simp only [pickAll, List.mapM_cons, ih]
    cases get i with
    | error e => simp [bind, Except.bind]
    | ok x =>
      cases List.mapM get is with
      | error e => simp [bind, Except.bind]
      | ok xs => simp [bind, Except.bind, pure, Except.pure]

end SparkxVerif.RdSel
