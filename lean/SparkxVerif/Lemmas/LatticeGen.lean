/-
C17 helper (tie T): every definition of `Gen/Lattice.lean` — regenerated on every run from the CURRENT text of
`src/sparkx/Lattice3D.py` by `harness/translate/lattice.py` — is equal, for ALL inputs, to the hand-written model
function of `Core/Lattice.lean` about which the property theorems of `Props/C17.lean` are proved.

* index searches, by-index access, point access, coordinates, closest indices, range test, interpolation guard,
  constructor record, operators, average, rescale: over the bare operation classes the model is written over
  (so the equalities hold at a linear order, at `XVal α` = doubles with NaN, and at `Float`);
* `reset`: on every lattice whose grid has the size of its shape (`Lat.WF`);
* the derived constructor attributes (`cell_volume_`, `spacing_*_`, `density_*_`): over an ordered field.

The proofs do not compare syntax: Boolean guards are closed by `omega` / `tauto` after splitting into their
comparisons, index arithmetic by `omega`, real arithmetic by `ring1`, list pipelines by `List.map_map`;
a renamed local, a hoisted subexpression, a re-ordered conjunction or product re-proves, a changed sign /
bound / comparison does not.
-/
import SparkxVerif.Gen.Lattice
import SparkxVerif.Lemmas.Lattice3D
import Mathlib.Tactic.Ring
import Mathlib.Tactic.Tauto
import Mathlib.Tactic.Push

set_option linter.unusedSimpArgs false
set_option linter.unusedSectionVars false
set_option linter.unnecessarySeqFocus false
set_option linter.unreachableTactic false
set_option linter.unusedTactic false

namespace SparkxVerif.LatticeGen
open SparkxVerif.Lattice
open SparkxVerif.Gen

/-- closes goals `Except.ok a = Except.ok b` / index arithmetic after the case splits -/
syntax "gen_arith" : tactic
macro_rules
  | `(tactic| gen_arith) => `(tactic| first
      | rfl
      | (split <;> gen_arith)
      | (simp only [Except.ok.injEq, Except.error.injEq, Prod.mk.injEq, Option.some.injEq, reduceCtorEq] <;> omega)
      | omega)

/-- closes `Except.ok b = Except.ok b'` for Boolean combinations of comparisons (whatever way they are composed) -/
syntax "gen_bool" : tactic
macro_rules
  | `(tactic| gen_bool) => `(tactic| first
      | rfl
      | ((try dsimp only)
         (repeat' split)
         all_goals first
           | rfl
           | (refine congrArg _ ?_
              rw [Bool.eq_iff_iff]
              simp only [Bool.and_eq_true, Bool.or_eq_true, Bool.not_eq_true', decide_eq_true_eq,
                decide_eq_false_iff_not, Bool.not_eq_eq_eq_not, Bool.not_true, Bool.not_false, Bool.false_eq_true,
                Bool.true_eq_false, not_and, not_or, not_not, false_iff, true_iff, iff_false, iff_true] at *
              <;> first | omega | tauto)))

/-- Python ints of an index triple -/
def idx3 (p : Nat × Nat × Nat) : Int × Int × Int := ((p.1 : Int), (p.2.1 : Int), (p.2.2 : Int))

section prim
variable {α : Type}

theorem pyGet_zero (xs : List α) :
    pyGet xs 0 = match xs.head? with | some a => .ok a | none => .error .index := by
  cases xs with
  | nil => rfl
  | cons a t =>
    have : ¬ ((t.length : Int) + 1 ≤ 0) := by omega
    simp [pyGet, npAxis, this]

theorem pyGet_neg_one (xs : List α) :
    pyGet xs (-1) = match xs.getLast? with | some a => .ok a | none => .error .index := by
  cases xs with
  | nil => rfl
  | cons a t =>
    have h1 : ((-1 : Int) + ((t.length + 1 : Nat) : Int)).toNat = t.length := by omega
    have h2 : ¬ ((-1 : Int) + ((t.length + 1 : Nat) : Int) < 0 ∨
        ((t.length + 1 : Nat) : Int) ≤ (-1 : Int) + ((t.length + 1 : Nat) : Int)) := by omega
    simp only [pyGet, npAxis, List.length_cons, show ((-1 : Int) < 0) from by omega, if_true, h2, if_false, h1,
      List.getLast?_eq_getElem?, Nat.add_sub_cancel]
    rw [List.getElem?_eq_getElem (by simp)]

end prim

section axis
variable {α : Type} [LT α] [LE α] [DecidableLT α] [DecidableLE α]

/-- the generated `__get_index` is the model's (Python int = the model's natural number) -/
theorem getIndex_gen (xs : List α) (v : α) : Lattice3D.getIndex v xs = (getIndex xs v).map Int.ofNat := by
  unfold Lattice3D.getIndex getIndex rangeOk
  rw [pyGet_zero, pyGet_neg_one]
  cases h0 : xs.head? with
  | none => simp [Except.bind, Except.map]
  | some a =>
    cases h1 : xs.getLast? with
    | none =>
      have : xs = [] := by simpa using h1
      subst this; simp at h0
    | some b =>
      by_cases c1 : a ≤ v <;> by_cases c2 : v ≤ b <;>
        simp [Except.bind, Except.map, c1, c2, cellOf] <;> gen_arith

omit [LT α] [LE α] [DecidableLT α] [DecidableLE α] in
/-- the generated `__get_value` is the model's `getCoord` -/
theorem getCoord_gen (xs : List α) (n : Nat) (i : Int) : Lattice3D.getCoord i xs (n : Int) = getCoord xs n i := by
  unfold Lattice3D.getCoord getCoord
  by_cases c1 : i < 0 <;> by_cases c2 : (n : Int) ≤ i <;> simp [c1, c2, Except.bind] <;>
    (cases pyGet xs i <;> rfl)

variable [Sub α] [Neg α] [NatCast α]

/-- the generated `__get_index_nearest_neighbor` is the model's -/
theorem getIndexNN_gen (xs : List α) (v : α) : Lattice3D.getIndexNN v xs = (getIndexNN xs v).map Int.ofNat := by
  unfold Lattice3D.getIndexNN getIndexNN rangeOk
  rw [pyGet_zero, pyGet_neg_one]
  cases h0 : xs.head? with
  | none => simp [Except.bind, Except.map]
  | some a =>
    cases h1 : xs.getLast? with
    | none =>
      have : xs = [] := by simpa using h1
      subst this; simp at h0
    | some b =>
      by_cases c1 : a ≤ v <;> by_cases c2 : v ≤ b <;>
        simp [Except.bind, Except.map, c1, c2, nearestOf, closestIndex, List.map_map, Function.comp_def]

/-- the generated `__find_closest_index` is the model's `closestIndex` -/
theorem findClosestIndex_gen (xs : List α) (v : α) :
    Lattice3D.findClosestIndex v xs = .ok ((closestIndex xs v : Nat) : Int) := by
  simp [Lattice3D.findClosestIndex, closestIndex, nearestOf, List.map_map, Function.comp_def]

end axis


/-! ### the lattice object -/

namespace Lat'
variable {α β : Type}

/-- the generated `__is_valid_index` is the model's `validIndex` -/
theorem isValidIndex_gen (L : Lat α β) (i j k : Int) : Lattice3D.isValidIndex L i j k = .ok (L.validIndex i j k) := by
  unfold Lattice3D.isValidIndex Lat.validIndex
  gen_bool

/-- the generated `set_value_by_index` is the model's `setByIndex` -/
theorem setValueByIndex_gen (L : Lat α β) (i j k : Int) (v : β) :
    Lattice3D.setValueByIndex L i j k v = L.setByIndex i j k v := by
  unfold Lattice3D.setValueByIndex Lat.setByIndex
  rw [isValidIndex_gen]
  cases h : L.validIndex i j k <;> simp [Except.bind]
  cases L.rawSet i j k v <;> rfl

/-- the generated `get_value_by_index` is the model's `getByIndex` -/
theorem getValueByIndex_gen (L : Lat α β) (i j k : Int) :
    Lattice3D.getValueByIndex L i j k = L.getByIndex i j k := by
  unfold Lattice3D.getValueByIndex Lat.getByIndex
  rw [isValidIndex_gen]
  cases h : L.validIndex i j k <;> simp [Except.bind]
  cases L.rawGet i j k <;> rfl

/-- the generated `get_coordinates` is the model's -/
theorem getCoordinates_gen (L : Lat α β) (i j k : Int) :
    Lattice3D.getCoordinates L i j k = L.getCoordinates i j k := by
  unfold Lattice3D.getCoordinates Lat.getCoordinates
  simp only [getCoord_gen]
  cases getCoord L.xs L.nx i <;> cases getCoord L.ys L.ny j <;> cases getCoord L.zs L.nz k <;> rfl

section order
variable [LT α] [LE α] [DecidableLT α] [DecidableLE α]

/-- the generated `__get_indices` is the model's -/
theorem getIndices_gen (L : Lat α β) (x y z : α) :
    Lattice3D.getIndices L x y z = (L.getIndices x y z).map idx3 := by
  unfold Lattice3D.getIndices Lat.getIndices
  simp only [getIndex_gen]
  cases getIndex L.xs x <;> cases getIndex L.ys y <;> cases getIndex L.zs z <;> rfl

/-- the generated `set_value` is the model's -/
theorem setValue_gen (L : Lat α β) (x y z : α) (v : β) : Lattice3D.setValue L x y z v = L.setValue x y z v := by
  unfold Lattice3D.setValue Lat.setValue
  simp only [getIndices_gen, setValueByIndex_gen]
  cases L.getIndices x y z with
  | error e => rfl
  | ok p =>
    obtain ⟨a, b, c⟩ := p
    simp only [Except.map, Except.bind, idx3]
    cases L.setByIndex a b c v <;> rfl

/-- the generated `get_value` is the model's -/
theorem getValue_gen (L : Lat α β) (x y z : α) : Lattice3D.getValue L x y z = L.getValue x y z := by
  unfold Lattice3D.getValue Lat.getValue
  simp only [getIndices_gen, getValueByIndex_gen]
  cases L.getIndices x y z with
  | error e => rfl
  | ok p =>
    obtain ⟨a, b, c⟩ := p
    simp only [Except.map, Except.bind, idx3]
    cases L.getByIndex a b c <;> rfl

/-- the generated `__is_within_range` is the model's `withinRange` -/
theorem isWithinRange_gen (L : Lat α β) (x y z : α) :
    Lattice3D.isWithinRange L x y z = .ok (L.withinRange x y z) := by
  unfold Lattice3D.isWithinRange Lat.withinRange
  gen_bool

/-- the generated `interpolate_value` is the model's (same `interpn` parameter) -/
theorem interpolateValue_gen {M : Type} (interp : List α → List α → List α → List β → α × α × α → M → Except Err β)
    (L : Lat α β) (x y z : α) (m : M) :
    Lattice3D.interpolateValue interp L x y z m = L.interpolateValue interp x y z m := by
  unfold Lattice3D.interpolateValue Lat.interpolateValue
  rw [isWithinRange_gen]
  cases h : L.withinRange x y z <;> simp [Except.bind]
  cases interp L.xs L.ys L.zs L.grid (x, y, z) m <;> rfl

variable [Sub α] [Neg α] [NatCast α]

/-- the generated `__get_indices_nearest_neighbor` is the model's -/
theorem getIndicesNN_gen (L : Lat α β) (x y z : α) :
    Lattice3D.getIndicesNN L x y z = (L.getIndicesNN x y z).map idx3 := by
  unfold Lattice3D.getIndicesNN Lat.getIndicesNN
  simp only [getIndexNN_gen]
  cases getIndexNN L.xs x <;> cases getIndexNN L.ys y <;> cases getIndexNN L.zs z <;> rfl

/-- the generated `set_value_nearest_neighbor` is the model's -/
theorem setValueNN_gen (L : Lat α β) (x y z : α) (v : β) : Lattice3D.setValueNN L x y z v = L.setValueNN x y z v := by
  unfold Lattice3D.setValueNN Lat.setValueNN
  simp only [getIndicesNN_gen, setValueByIndex_gen]
  cases L.getIndicesNN x y z with
  | error e => rfl
  | ok p =>
    obtain ⟨a, b, c⟩ := p
    simp only [Except.map, Except.bind, idx3]
    cases L.setByIndex a b c v <;> rfl

/-- the generated `get_value_nearest_neighbor` is the model's -/
theorem getValueNN_gen (L : Lat α β) (x y z : α) : Lattice3D.getValueNN L x y z = L.getValueNN x y z := by
  unfold Lattice3D.getValueNN Lat.getValueNN
  simp only [getIndicesNN_gen, getValueByIndex_gen]
  cases L.getIndicesNN x y z with
  | error e => rfl
  | ok p =>
    obtain ⟨a, b, c⟩ := p
    simp only [Except.map, Except.bind, idx3]
    cases L.getByIndex a b c <;> rfl

/-- the generated `find_closest_indices` is the model's (indices as Python ints, same warning flag) -/
theorem findClosestIndices_gen (L : Lat α β) (x y z : α) :
    Lattice3D.findClosestIndices L x y z =
      .ok (idx3 (L.findClosestIndices x y z).1, (L.findClosestIndices x y z).2) := by
  unfold Lattice3D.findClosestIndices Lat.findClosestIndices
  simp only [isWithinRange_gen, findClosestIndex_gen]
  cases h : L.withinRange x y z <;> simp [Except.bind, idx3]

end order
end Lat'


/-! ### constructor, operators, average, rescale -/

section ctor
variable {α β : Type}

/-- the record built by the generated `__init__` is the model's `mkLat` -/
theorem init_gen [NatCast β] (lin : α → α → Nat → List α) (a b c d e f : α) (nx ny nz : Nat) :
    (Lattice3D.init lin a b c d e f nx ny nz : Lat α β) = mkLat lin a b c d e f nx ny nz := by
  unfold Lattice3D.init mkLat mkGeom
  first
    | rfl
    | (congr 1 <;> first | rfl | (congr 1 <;> first | rfl | ring))

theorem shape_eq_iff (A B : Lat α β) :
    ((A.nx, A.ny, A.nz) = (B.nx, B.ny, B.nz)) ↔ A.sameShape B = true := by
  rw [Lat.sameShape_iff]; simp [Prod.mk.injEq]

/-- the generated `__operate_on_lattice` is the model's `operate` -/
theorem operateOnLattice_gen [NatCast β] (lin : α → α → Nat → List α) (f : β → β → β) (A B : Lat α β) :
    Lattice3D.operateOnLattice lin A B f = A.operate lin f B := by
  unfold Lattice3D.operateOnLattice Lat.operate
  simp only [init_gen, shape_eq_iff]
  cases h : A.sameShape B <;> simp [mkLat]

/-- the generated `+ - * /` are `operate` with the scalar operation -/
theorem operators_gen [NatCast β] [Add β] [Sub β] [Mul β] [Div β] (lin : α → α → Nat → List α) (A B : Lat α β) :
    Lattice3D.add lin A B = A.operate lin BinOp.add.fn B ∧
    Lattice3D.sub lin A B = A.operate lin BinOp.sub.fn B ∧
    Lattice3D.mul lin A B = A.operate lin BinOp.mul.fn B ∧
    Lattice3D.truediv lin A B = A.operate lin BinOp.div.fn B := by
  refine ⟨?_, ?_, ?_, ?_⟩ <;>
    simp only [Lattice3D.add, Lattice3D.sub, Lattice3D.mul, Lattice3D.truediv, operateOnLattice_gen, BinOp.fn] <;>
    (cases A.operate lin _ B <;> rfl)

/-- a loop that only tests every element and raises = `all` -/
theorem forM_guard {γ : Type} (p : γ → Bool) (e : Err) (f : γ → Except Err Unit)
    (hf : ∀ x, f x = if p x then .ok () else .error e) (l : List γ) :
    List.forM (m := Except Err) l f = if l.all p then .ok () else .error e := by
  induction l with
  | nil => rfl
  | cons a t ih =>
    have h : List.forM (m := Except Err) (a :: t) f = (f a).bind fun _ => List.forM (m := Except Err) t f := rfl
    rw [h, hf a, ih]
    cases hp : p a <;> simp [Except.bind, hp]

theorem sameShape_self (A : Lat α β) : A.sameShape A = true := by simp [Lat.sameShape]

/-- the generated `average` is the model's -/
theorem average_gen [NatCast β] [Add β] [Div β] (lin : α → α → Nat → List α) (A : Lat α β) (Bs : List (Lat α β)) :
    Lattice3D.average lin A Bs = A.average lin Bs := by
  unfold Lattice3D.average Lat.average
  simp only [init_gen]
  rw [forM_guard (fun B => A.sameShape B) .value]
  · simp only [List.cons_append, List.nil_append, List.all_cons, sameShape_self, Bool.true_and, List.singleton_append]
    cases h : Bs.all (fun B => A.sameShape B) <;>
      simp [Except.bind, mkLat, npMeanAxis0, List.foldl_map]
  · intro B
    simp only [shape_eq_iff]
    cases A.sameShape B <;> simp

/-- the generated `rescale` is the model's -/
theorem rescale_gen [Mul β] (L : Lat α β) (f : β) : Lattice3D.rescale L f = .ok (L.rescale f) := by
  simp [Lattice3D.rescale, Lat.rescale]

end ctor


/-! ### `reset`: writing 0 at every `np.ndindex` triple clears the grid -/

section reset
variable {α β : Type}

theorem rawSet_valid {L : Lat α β} (hwf : L.WF) {i j k : Nat} (hi : i < L.nx) (hj : j < L.ny) (hk : k < L.nz) (v : β) :
    L.rawSet (i : Int) (j : Int) (k : Int) v = .ok { L with grid := L.grid.set (flat L.ny L.nz i j k) v } := by
  unfold Lat.rawSet
  rw [npAxis_nat hi, npAxis_nat hj, npAxis_nat hk]
  have : flat L.ny L.nz i j k < L.grid.length := by rw [hwf]; exact flat_lt hi hj hk
  simp [this]

/-- a fold of `grid_[i, j, k] = v` over valid triples succeeds and is the fold of the list updates -/
theorem foldlM_rawSet (v : β) (step : Lat α β → Nat × Nat × Nat → Except Err (Lat α β))
    (hstep : ∀ acc p, step acc p = acc.rawSet (p.1 : Int) (p.2.1 : Int) (p.2.2 : Int) v) :
    ∀ (ps : List (Nat × Nat × Nat)) (L : Lat α β), L.WF →
      (∀ p ∈ ps, p.1 < L.nx ∧ p.2.1 < L.ny ∧ p.2.2 < L.nz) →
      List.foldlM (m := Except Err) step L ps =
        .ok { L with grid := ps.foldl (fun g p => g.set (flat L.ny L.nz p.1 p.2.1 p.2.2) v) L.grid } := by
  intro ps
  induction ps with
  | nil => intro L _ _; rfl
  | cons p t ih =>
    intro L hwf hv
    obtain ⟨h1, h2, h3⟩ := hv p (by simp)
    have hc : List.foldlM (m := Except Err) step L (p :: t) = (step L p).bind fun L' => List.foldlM (m := Except Err) step L' t := rfl
    rw [hc, hstep, rawSet_valid hwf h1 h2 h3]
    simp only [Except.bind]
    rw [ih]
    · rfl
    · simpa [Lat.WF] using hwf
    · intro q hq; exact hv q (by simp [hq])

theorem foldl_set_getElem? {γ : Type} (v : β) (idx : γ → Nat) :
    ∀ (ps : List γ) (g : List β) (q : Nat),
      (ps.foldl (fun g p => g.set (idx p) v) g)[q]? =
        if (∃ p ∈ ps, idx p = q) then (g[q]?).map (fun _ => v) else g[q]? := by
  intro ps
  induction ps with
  | nil => intro g q; simp
  | cons a t ih =>
    intro g q
    simp only [List.foldl_cons, ih, List.getElem?_set, List.mem_cons, exists_eq_or_imp]
    by_cases h1 : idx a = q <;> by_cases h2 : ∃ p ∈ t, idx p = q <;> simp [h1, h2]
    all_goals
      subst h1
      by_cases h3 : idx a < g.length <;> simp [h3]

theorem mem_ndindex (a b c : Nat) (p : Nat × Nat × Nat) : p ∈ ndindex a b c ↔ p.1 < a ∧ p.2.1 < b ∧ p.2.2 < c := by
  obtain ⟨i, j, k⟩ := p
  simp only [ndindex, List.mem_flatMap, List.mem_range, List.mem_map, Prod.mk.injEq]
  constructor
  · rintro ⟨i', hi, j', hj, k', hk, rfl, rfl, rfl⟩; exact ⟨hi, hj, hk⟩
  · rintro ⟨hi, hj, hk⟩; exact ⟨i, hi, j, hj, k, hk, rfl, rfl, rfl⟩

theorem unflat_lt {nx ny nz q : Nat} (h : q < nx * ny * nz) :
    (unflat ny nz q).1 < nx ∧ (unflat ny nz q).2.1 < ny ∧ (unflat ny nz q).2.2 < nz := by
  have hnz : 0 < nz := by
    rcases Nat.eq_zero_or_pos nz with h0 | h0
    · subst h0; simp at h
    · exact h0
  have hny : 0 < ny := by
    rcases Nat.eq_zero_or_pos ny with h0 | h0
    · subst h0; simp at h
    · exact h0
  unfold unflat
  refine ⟨?_, Nat.mod_lt _ hny, Nat.mod_lt _ hnz⟩
  rw [Nat.div_lt_iff_lt_mul hny, Nat.div_lt_iff_lt_mul hnz]
  exact h

/-- the generated `reset` (a loop of single writes) is the model's `reset` on every well-shaped lattice -/
theorem reset_gen [NatCast β] (L : Lat α β) (hwf : L.WF) : Lattice3D.reset L = .ok L.reset := by
  unfold Lattice3D.reset
  rw [foldlM_rawSet ((0 : Nat) : β) _ (fun acc p => by cases h : acc.rawSet _ _ _ _ <;> simp [Except.bind, h])
    _ L hwf (fun p hp => (mem_ndindex _ _ _ p).1 hp)]
  simp only [Except.bind, Lat.reset]
  congr 2
  apply List.ext_getElem?
  intro q
  rw [foldl_set_getElem? ((0 : Nat) : β) (fun p : Nat × Nat × Nat => flat L.ny L.nz p.1 p.2.1 p.2.2)]
  by_cases hq : q < L.grid.length
  · have hq' : q < L.nx * L.ny * L.nz := by rw [← hwf]; exact hq
    have hex : ∃ p ∈ ndindex L.nx L.ny L.nz, flat L.ny L.nz p.1 p.2.1 p.2.2 = q :=
      ⟨unflat L.ny L.nz q, (mem_ndindex _ _ _ _).2 (unflat_lt hq'), flat_unflat q⟩
    rw [if_pos hex, List.getElem?_eq_getElem hq, List.getElem?_map, List.getElem?_eq_getElem hq]
    <;> rfl
  · have h1 : L.grid[q]? = none := List.getElem?_eq_none (by omega)
    have h2 : (L.grid.map (fun _ => ((0 : Nat) : β)))[q]? = none := List.getElem?_eq_none (by simp; omega)
    rw [h1, h2]; simp only [Option.map_none, ite_self]

end reset

/-! ### derived constructor attributes (arithmetic: over an ordered field, closed by normalisation) -/

section attrs
variable {α : Type}

theorem pyGet_nat (xs : List α) (i : Nat) :
    pyGet xs (i : Int) = match xs[i]? with | some a => .ok a | none => .error .index := by
  unfold pyGet npAxis
  by_cases h : i < xs.length
  · have h2 : ¬ ((i : Int) < 0 ∨ (xs.length : Int) ≤ (i : Int)) := by omega
    have h4 : ¬ ((i : Int) < 0) := by omega
    have h5 : ¬ ((xs.length : Int) ≤ (i : Int)) := by omega
    simp only [h4, if_false, h5, false_or, Int.toNat_natCast, List.getElem?_eq_getElem h]
  · have h2 : ((i : Int) < 0 ∨ (xs.length : Int) ≤ (i : Int)) := by omega
    have h3 : xs[i]? = none := List.getElem?_eq_none (by omega)
    have h4 : ¬ ((i : Int) < 0) := by omega
    have h5 : ((xs.length : Int) ≤ (i : Int)) := by omega
    simp only [h4, if_false, h5, or_true, if_true, h3]

variable [Field α] [LinearOrder α] [IsStrictOrderedRing α]

/-- `cell_volume_` -/
theorem attr_cell_volume_gen (lin : α → α → Nat → List α) (a b c d e f : α) (nx ny nz : Nat) :
    Lattice3D.attr_cell_volume_ lin a b c d e f nx ny nz = .ok (cellVolume a b c d e f nx ny nz) := by
  unfold Lattice3D.attr_cell_volume_ cellVolume
  first
    | rfl
    | (simp only [absG_eq_abs]; refine congrArg _ (congrArg _ ?_); push_cast; ring1)

/-- `spacing_x_`, `spacing_y_`, `spacing_z_` -/
theorem attr_spacing_gen (lin : α → α → Nat → List α) (a b c d e f : α) (nx ny nz : Nat) :
    Lattice3D.attr_spacing_x_ lin a b c d e f nx ny nz = spacingOf (lin a b nx) nx ∧
    Lattice3D.attr_spacing_y_ lin a b c d e f nx ny nz = spacingOf (lin c d ny) ny ∧
    Lattice3D.attr_spacing_z_ lin a b c d e f nx ny nz = spacingOf (lin e f nz) nz := by
  refine ⟨?_, ?_, ?_⟩ <;>
  · simp only [Lattice3D.attr_spacing_x_, Lattice3D.attr_spacing_y_, Lattice3D.attr_spacing_z_, spacingOf]
    simp only [show ((1 : Int) = ((1 : Nat) : Int)) from rfl, show ((0 : Int) = ((0 : Nat) : Int)) from rfl, pyGet_nat]
    by_cases hn : 1 < nx <;> by_cases hn2 : 1 < ny <;> by_cases hn3 : 1 < nz <;>
      simp only [hn, hn2, hn3, decide_true, decide_false, if_true, if_false, Bool.false_eq_true] <;>
      (first
        | rfl
        | (cases (lin _ _ _)[1]? <;> cases (lin _ _ _)[0]? <;>
            simp only [Except.bind, Except.ok.injEq, Option.some.injEq, reduceCtorEq] <;> first | rfl | ring1))

/-- `density_x_`, `density_y_`, `density_z_` -/
theorem attr_density_gen (lin : α → α → Nat → List α) (a b c d e f : α) (nx ny nz : Nat) :
    Lattice3D.attr_density_x_ lin a b c d e f nx ny nz = .ok (densityOf a b nx) ∧
    Lattice3D.attr_density_y_ lin a b c d e f nx ny nz = .ok (densityOf c d ny) ∧
    Lattice3D.attr_density_z_ lin a b c d e f nx ny nz = .ok (densityOf e f nz) := by
  refine ⟨?_, ?_, ?_⟩ <;>
    (simp only [Lattice3D.attr_density_x_, Lattice3D.attr_density_y_, Lattice3D.attr_density_z_, densityOf] <;>
     first
      | rfl
      | (refine congrArg _ ?_; push_cast; ring1))

end attrs

end SparkxVerif.LatticeGen
