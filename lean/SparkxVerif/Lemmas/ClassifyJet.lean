/-
Classification, JETSCAPE files: event headers (tab- or blank-separated), particle lines and the `sigmaGen` trailer are
observed as their kind; the text `jetText F` rendered for a specification of the grammar (`grammarJet F`) is observed as
the lines of `F` — the JETSCAPE conjunct of `C01.C01_classification`.  Core Lean only (no Mathlib).
-/
import SparkxVerif.Lemmas.ClassifyLines

set_option linter.unusedSimpArgs false

namespace SparkxVerif.Rd
open SparkxVerif.Str

/-! ### Python `str.split()` on a joined token list -/

theorem wsWordsAux_token {t : List Char} (ht : ∀ c ∈ t, isPyWs c = false) (rest cur : List Char) :
    wsWordsAux (t ++ rest) cur = wsWordsAux rest (t.reverse ++ cur) := by
  induction t generalizing cur with
  | nil => rfl
  | cons c t ih =>
    have hc := ht c (by simp)
    simp only [List.cons_append, wsWordsAux, hc, Bool.false_eq_true, if_false]
    rw [ih (fun x hx => ht x (by simp [hx]))]
    simp

theorem wsWordsAux_intercalate {w : Char} (hw : isPyWs w = true) {toks : List (List Char)} (hne : toks ≠ [])
    (h : ∀ t ∈ toks, t ≠ [] ∧ ∀ c ∈ t, isPyWs c = false) :
    wsWordsAux ([w].intercalate toks) [] = toks.map String.ofList := by
  induction toks with
  | nil => exact absurd rfl hne
  | cons t ts ih =>
    obtain ⟨htne, htws⟩ := h t (by simp)
    have hrev : t.reverse.isEmpty = false := by
      cases t with
      | nil => exact absurd rfl htne
      | cons a t => simp
    cases ts with
    | nil =>
      have := wsWordsAux_token htws [] []
      simp only [List.append_nil] at this
      simp [List.intercalate, this, wsWordsAux, hrev]
    | cons u us =>
      rw [intercalate_cons_cons, List.append_assoc, wsWordsAux_token htws]
      simp only [List.cons_append, List.nil_append, List.append_nil, wsWordsAux, hw, if_true, hrev, Bool.false_eq_true,
        if_false, List.reverse_reverse, List.map_cons]
      rw [ih (by simp) (fun x hx => h x (by simp [hx]))]
      rfl

theorem isPyWs_false_of_numCh {c : Char} (h : numCh c = true) : isPyWs c = false := by
  simp only [numCh, Bool.or_eq_true, beq_iff_eq] at h
  rcases h with ((((h | rfl) | rfl) | rfl) | rfl) | rfl
  · have h1 : 48 ≤ c.toNat ∧ c.toNat ≤ 57 := Char.isDigit_iff_toNat.mp h
    have ne : ∀ d : Char, (d.toNat < 48 ∨ 57 < d.toNat) → (c == d) = false := by
      intro d hd
      simp only [beq_eq_false_iff_ne, ne_eq]
      rintro rfl; omega
    simp only [isPyWs, ne ' ' (by decide), ne '\t' (by decide), ne '\n' (by decide), ne '\r' (by decide),
      ne '\x0b' (by decide), ne '\x0c' (by decide), Bool.false_or, Bool.or_eq_false_iff, Bool.and_eq_false_iff,
      decide_eq_false_iff_not, beq_eq_false_iff_ne]
    omega
  all_goals decide

/-! ### JETSCAPE lines -/

/-- `replace('\t',' ').split(' ')` of tokens joined by a tab or a blank gives the tokens back -/
theorem toksTab_intercalate {sep : String} (hsep : sep.toList.map tabToSp = [' ']) {toks : List String} (hne : toks ≠ [])
    (h : ∀ t ∈ toks, ' ' ∉ t.toList ∧ '\t' ∉ t.toList) : (analyse (sep.intercalate toks)).toksTab = toks := by
  show (splitOnChar ' ' ((sep.intercalate toks).toList.map tabToSp)).map String.ofList = toks
  rw [String.toList_intercalate, map_intercalate, hsep, List.map_map]
  have e : toks.map (List.map tabToSp ∘ String.toList) = toks.map String.toList := by
    apply List.map_congr_left
    intro t ht
    exact tabToSp_map_of_not_mem (h t ht).2
  rw [e, splitOnChar_intercalate (by simpa using hne)
    (by intro t ht; obtain ⟨t', ht', rfl⟩ := List.mem_map.mp ht; exact (h t' ht').1)]
  simp [List.map_map, Function.comp_def, String.ofList_toList]

theorem hasSub_intercalate_of_mem {sep p : String} {toks : List String} (h : p ∈ toks) :
    hasSub (sep.intercalate toks) p = true := by
  rw [hasSub_def, String.toList_intercalate]
  exact isInfix_intercalate_of_mem (List.mem_map.mpr ⟨p, h, rfl⟩)

def jetHdrToks (partons : Bool) (label : Int) (n : Nat) : List String :=
  ["#", "Event", toString label, "weight", "1", "EPangle", "0", jetKey partons, toString n]

theorem jetHeaderText_eq (partons : Bool) (sep : String) (label : Int) (n : Nat) :
    jetHeaderText partons sep label n = sep.intercalate (jetHdrToks partons label n) := rfl

/-- alphabet of an event header -/
def jhCh (partons : Bool) (c : Char) : Bool :=
  c.isDigit || c == '-' || c == ' ' || c == '\t' ||
  (if partons then "#Eventweight1EPangle0N_partons" else "#Eventweight1EPangle0N_hadrons").toList.contains c

theorem jetHeader_alphabet (partons : Bool) {sep : String} (hsep : sep ∈ ["\t", " "]) (label : Int) (n : Nat) :
    ∀ c ∈ (jetHeaderText partons sep label n).toList, jhCh partons c = true := by
  intro c hc
  rw [jetHeaderText_eq] at hc
  simp only [List.mem_cons, List.not_mem_nil, or_false] at hsep
  rcases mem_toList_intercalate hc with hc | ⟨t, ht, hc⟩
  · rcases hsep with rfl | rfl
    · have : c = '\t' := by simpa using hc
      subst this; cases partons <;> decide
    · have : c = ' ' := by simpa using hc
      subst this; cases partons <;> decide
  · simp only [jetHdrToks, List.mem_cons, List.not_mem_nil, or_false] at ht
    have lit : ∀ s : String, s.toList.all (jhCh partons) = true → c ∈ s.toList → jhCh partons c = true :=
      fun s hs hm => List.all_eq_true.mp hs c hm
    rcases ht with rfl | rfl | rfl | rfl | rfl | rfl | rfl | rfl | rfl
    · exact lit _ (by cases partons <;> decide) hc
    · exact lit _ (by cases partons <;> decide) hc
    · rcases intRepr_digits _ c hc with hd | rfl
      · simp [jhCh, hd]
      · cases partons <;> decide
    · exact lit _ (by cases partons <;> decide) hc
    · exact lit _ (by cases partons <;> decide) hc
    · exact lit _ (by cases partons <;> decide) hc
    · exact lit _ (by cases partons <;> decide) hc
    · exact lit _ (by cases partons <;> decide) hc
    · simp [jhCh, natRepr_digits _ c hc]

theorem jet_header_line (partons : Bool) {sep : String} (hsep : sep ∈ ["\t", " "]) (label : Int) (n : Nat) :
    (analyse (jetHeaderText partons sep label n)).toksTab = jetHdrToks partons label n ∧
    (analyse (jetHeaderText partons sep label n)).hasHash = true ∧
    (analyse (jetHeaderText partons sep label n)).hasSigma = false ∧
    (analyse (jetHeaderText partons sep label n)).hasWeight = true ∧
    (analyse (jetHeaderText partons sep label n)).hasEventCap = true ∧
    (analyse (jetHeaderText partons sep label n)).hasNHadrons = !partons ∧
    (analyse (jetHeaderText partons sep label n)).hasNPartons = partons := by
  have hA := jetHeader_alphabet partons hsep label n
  have F : ∀ p : String, p.toList.any (fun c => !jhCh partons c) = true →
      hasSub (jetHeaderText partons sep label n) p = false := fun p hp => hasSub_false_of_alphabet (jhCh partons) hA hp
  have T : ∀ p : String, p ∈ jetHdrToks partons label n → hasSub (jetHeaderText partons sep label n) p = true :=
    fun p hp => hasSub_intercalate_of_mem hp
  have hsep' : sep.toList.map tabToSp = [' '] := by
    simp only [List.mem_cons, List.not_mem_nil, or_false] at hsep
    rcases hsep with rfl | rfl <;> decide
  have htk : ∀ t ∈ jetHdrToks partons label n, ' ' ∉ t.toList ∧ '\t' ∉ t.toList := by
    intro t ht
    simp only [jetHdrToks, List.mem_cons, List.not_mem_nil, or_false] at ht
    rcases ht with rfl | rfl | rfl | rfl | rfl | rfl | rfl | rfl | rfl
    · decide
    · decide
    · exact ⟨(intRepr_numChars _).not_mem (by decide), (intRepr_numChars _).not_mem (by decide)⟩
    · decide
    · decide
    · decide
    · decide
    · cases partons <;> decide
    · exact ⟨(natRepr_numChars _).not_mem (by decide), (natRepr_numChars _).not_mem (by decide)⟩
  have t1 := toksTab_intercalate hsep' (by simp [jetHdrToks]) htk
  have t2 := T "#" (by simp [jetHdrToks])
  have t3 := F "sigmaGen" (by cases partons <;> decide)
  have t4 := T "weight" (by simp [jetHdrToks])
  have t5 := T "Event" (by simp [jetHdrToks])
  simp only [analyse] at t1 ⊢
  refine ⟨t1, t2, t3, t4, t5, ?_, ?_⟩
  · cases partons
    · exact T "N_hadrons" (by simp [jetHdrToks, jetKey])
    · exact F "N_hadrons" (by decide)
  · cases partons
    · exact F "N_partons" (by decide)
    · exact T "N_partons" (by simp [jetHdrToks, jetKey])

def jetTrailerToks (s : String × String) : List String := ["#", "sigmaGen", s.1, "sigmaErr", s.2]

theorem jetTrailerText_eq (sep : String) (s : String × String) :
    jetTrailerText sep s = sep.intercalate (jetTrailerToks s) := rfl

/-- alphabet of the trailer -/
def jtCh (c : Char) : Bool := numCh c || "#sigmaGenErr \t".toList.contains c

theorem jetTrailer_alphabet {sep : String} (hsep : sep ∈ ["\t", " "]) {s : String × String} (h1 : numTok s.1 = true)
    (h2 : numTok s.2 = true) : ∀ c ∈ (jetTrailerText sep s).toList, jtCh c = true := by
  intro c hc
  rw [jetTrailerText_eq] at hc
  simp only [List.mem_cons, List.not_mem_nil, or_false] at hsep
  rcases mem_toList_intercalate hc with hc | ⟨t, ht, hc⟩
  · rcases hsep with rfl | rfl
    · have : c = '\t' := by simpa using hc
      subst this; decide
    · have : c = ' ' := by simpa using hc
      subst this; decide
  · simp only [jetTrailerToks, List.mem_cons, List.not_mem_nil, or_false] at ht
    have lit : ∀ s : String, s.toList.all jtCh = true → c ∈ s.toList → jtCh c = true :=
      fun s hs hm => List.all_eq_true.mp hs c hm
    rcases ht with rfl | rfl | rfl | rfl | rfl
    · exact lit _ (by decide) hc
    · exact lit _ (by decide) hc
    · simp [jtCh, numTok_numChars h1 c hc]
    · exact lit _ (by decide) hc
    · simp [jtCh, numTok_numChars h2 c hc]

theorem jet_trailer_line {sep : String} (hsep : sep ∈ ["\t", " "]) {s : String × String} (h1 : numTok s.1 = true)
    (h2 : numTok s.2 = true) (f1 : isPyFloat s.1 = true) (f2 : isPyFloat s.2 = true) :
    (analyse (jetTrailerText sep s)).hasHash = true ∧ (analyse (jetTrailerText sep s)).hasSigma = true ∧
    (analyse (jetTrailerText sep s)).hasNHadrons = false ∧ (analyse (jetTrailerText sep s)).hasNPartons = false ∧
    (analyse (jetTrailerText sep s)).hasEventCap = false ∧ (analyse (jetTrailerText sep s)).hasWeight = false ∧
    sigmaGenOf (jetTrailerText sep s) = .ok s := by
  have hA := jetTrailer_alphabet hsep h1 h2
  have F : ∀ p : String, p.toList.any (fun c => !jtCh c) = true → hasSub (jetTrailerText sep s) p = false :=
    fun p hp => hasSub_false_of_alphabet jtCh hA hp
  have T : ∀ p : String, p ∈ jetTrailerToks s → hasSub (jetTrailerText sep s) p = true :=
    fun p hp => hasSub_intercalate_of_mem hp
  have hws : wsWords (jetTrailerText sep s) = jetTrailerToks s := by
    obtain ⟨w, hw, hsw⟩ : ∃ w, isPyWs w = true ∧ sep.toList = [w] := by
      simp only [List.mem_cons, List.not_mem_nil, or_false] at hsep
      rcases hsep with rfl | rfl
      · exact ⟨'\t', by decide, rfl⟩
      · exact ⟨' ', by decide, rfl⟩
    unfold wsWords
    rw [jetTrailerText_eq, String.toList_intercalate, hsw, wsWordsAux_intercalate hw (by simp [jetTrailerToks])]
    · simp [List.map_map, Function.comp_def, String.ofList_toList]
    · intro t ht
      obtain ⟨t', ht', rfl⟩ := List.mem_map.mp ht
      simp only [jetTrailerToks, List.mem_cons, List.not_mem_nil, or_false] at ht'
      rcases ht' with rfl | rfl | rfl | rfl | rfl
      · decide
      · decide
      · exact ⟨numTok_ne_nil h1, fun c hc => isPyWs_false_of_numCh (numTok_numChars h1 c hc)⟩
      · decide
      · exact ⟨numTok_ne_nil h2, fun c hc => isPyWs_false_of_numCh (numTok_numChars h2 c hc)⟩
  have hsg : sigmaGenOf (jetTrailerText sep s) = .ok s := by
    unfold sigmaGenOf
    rw [hws]
    have e1 : isPyFloat "#" = false := by decide
    have e2 : isPyFloat "sigmaGen" = false := by decide
    have e3 : isPyFloat "sigmaErr" = false := by decide
    simp [jetTrailerToks, List.filter, e1, e2, e3, f1, f2]
  simp only [analyse]
  exact ⟨T "#" (by simp [jetTrailerToks]), T "sigmaGen" (by simp [jetTrailerToks]), F "N_hadrons" (by decide),
    F "N_partons" (by decide), F "Event" (by decide), F "weight" (by decide), hsg⟩

/-! ### the lines of a JETSCAPE event are observed as their kind -/

theorem jet_header_obs (partons : Bool) {e : JEvent} {sep : String} (hsep : sep ∈ ["\t", " "])
    (hh : e.header = jetHeaderText partons sep e.label e.parts.length) : isJHeader partons (analyse e.header) e = true := by
  obtain ⟨h1, h2, h3, h4, h5, h6, h7⟩ := jet_header_line partons hsep e.label e.parts.length
  rw [← hh] at h1 h2 h3 h4 h5 h6 h7
  have hk : hasKey partons (analyse e.header) = true := by
    cases partons <;> simp [hasKey, h6, h7]
  simp only [isJHeader, h1, h2, h3, h4, h5, hk]
  simp [analyse, jetHdrToks, tokInt, pyInt?_int_repr, pyInt?_nat_repr]

theorem jet_part_obs (partons : Bool) {r : List String} (hlen : r.length = 7) (h : ∀ t ∈ r, numTok t = true)
    (hf : fieldsOk jetKinds r = true) : isJPart partons (analyse (" ".intercalate r)) r = true := by
  have hne : r ≠ [] := by rintro rfl; simp at hlen
  rw [analyse_particle_line hne h]
  simp [isJPart, hlen, hf]

theorem jet_trailer_obs (partons : Bool) {F : JetSpec} {sep : String} (hsep : sep ∈ ["\t", " "])
    (ht : F.trailer = jetTrailerText sep F.sigma) (h1 : numTok F.sigma.1 = true) (h2 : numTok F.sigma.2 = true)
    (f1 : isPyFloat F.sigma.1 = true) (f2 : isPyFloat F.sigma.2 = true) :
    isJTrailer partons (analyse F.trailer) F = true := by
  obtain ⟨t1, t2, t3, t4, _, _, t7⟩ := jet_trailer_line hsep h1 h2 f1 f2
  rw [← ht] at t1 t2 t3 t4 t7
  have hk : hasKey partons (analyse F.trailer) = false := by
    cases partons <;> simp [hasKey, t3, t4]
  simp only [isJTrailer, t1, t2, hk]
  simp [analyse, t7, okEq]

/-- what the grammar says about one event -/
structure JEventOk (partons : Bool) (e : JEvent) : Prop where
  rows : ∀ r ∈ e.parts, r.length = 7 ∧ (∀ t ∈ r, numTok t = true) ∧ fieldsOk jetKinds r = true
  shape : ∃ sep, sep ∈ ["\t", " "] ∧ e.header = jetHeaderText partons sep e.label e.parts.length

theorem obsJParts_rows (partons : Bool) (rows : List (List String))
    (h : ∀ r ∈ rows, r.length = 7 ∧ (∀ t ∈ r, numTok t = true) ∧ fieldsOk jetKinds r = true) :
    obsJParts partons ((rows.map (fun r => " ".intercalate r)).map analyse) rows = true := by
  induction rows with
  | nil => rfl
  | cons r rs ih =>
    obtain ⟨h1, h2, h3⟩ := h r (by simp)
    simp only [List.map_cons, obsJParts, Bool.and_eq_true]
    exact ⟨jet_part_obs partons h1 h2 h3, ih (fun r' hr' => h r' (by simp [hr']))⟩

theorem obsJBody_events (partons : Bool) (F : JetSpec) (es : List JEvent) (h : ∀ e ∈ es, JEventOk partons e)
    (ht : isJTrailer partons (analyse F.trailer) F = true) :
    obsJBody partons F ((es.flatMap (fun e => e.header :: e.parts.map (fun r => " ".intercalate r)) ++ [F.trailer]).map analyse)
      es = true := by
  induction es with
  | nil => simpa [obsJBody] using ht
  | cons e es ih =>
    have he := h e (by simp)
    obtain ⟨sep, hsep, hh⟩ := he.shape
    have hlen : ((e.parts.map (fun r => " ".intercalate r)).map analyse).length = e.parts.length := by simp
    simp only [List.flatMap_cons, List.map_append, List.map_cons, List.cons_append, List.append_assoc,
      List.map_nil, obsJBody]
    rw [List.drop_left' hlen, List.take_left' hlen]
    simp only [Bool.and_eq_true]
    refine ⟨⟨jet_header_obs partons hsep hh, obsJParts_rows partons e.parts he.rows⟩, ?_⟩
    have := ih (fun e' he' => h e' (by simp [he']))
    simpa [List.map_append] using this

/-! ### the whole file -/

theorem grammarJet_unpack {F : JetSpec} (hg : grammarJet F = true) :
    hasSub F.h1 (jetKey F.partons) = false ∧ '\n' ∉ F.h1.toList ∧
    numTok F.sigma.1 = true ∧ isPyFloat F.sigma.1 = true ∧ numTok F.sigma.2 = true ∧ isPyFloat F.sigma.2 = true ∧
    (∃ sep, sep ∈ ["\t", " "] ∧ F.trailer = jetTrailerText sep F.sigma) ∧ ∀ e ∈ F.events, JEventOk F.partons e := by
  simp only [grammarJet, Bool.and_eq_true, List.all_eq_true, Bool.not_eq_true', List.any_eq_true, beq_iff_eq] at hg
  obtain ⟨⟨⟨⟨⟨⟨⟨k, n⟩, s1⟩, f1⟩, s2⟩, f2⟩, tr⟩, hev⟩ := hg
  refine ⟨k, not_mem_of_hasSub_false rfl n, s1, f1, s2, f2, tr, ?_⟩
  intro e he
  obtain ⟨hrows, hsh⟩ := hev e he
  refine ⟨?_, hsh⟩
  intro r hr
  obtain ⟨⟨hl, hn⟩, hf⟩ := hrows r hr
  exact ⟨hl, hn, hf⟩

theorem jetEventLines_no_nl {partons : Bool} {e : JEvent} (he : JEventOk partons e) :
    ∀ l ∈ e.header :: e.parts.map (fun r => " ".intercalate r), '\n' ∉ l.toList := by
  intro l hl hm
  simp only [List.mem_cons, List.mem_map] at hl
  rcases hl with rfl | ⟨r, hr, rfl⟩
  · obtain ⟨sep, hsep, hh⟩ := he.shape
    rw [hh] at hm
    have := jetHeader_alphabet partons hsep e.label e.parts.length _ hm
    revert this; cases partons <;> decide
  · have := partLine_alphabet (he.rows r hr).2.1 _ hm
    revert this; decide

/-- the lines of a rendered JETSCAPE text -/
theorem fileOfText_jetText (F : JetSpec) (hg : grammarJet F = true) :
    Proto.fileOfText (jetText F) = { lines := (jetLinesText F).map analyse, trailingNL := F.trailingNL } := by
  obtain ⟨hk, n1, s1, f1, s2, f2, ⟨sep, hsep, htr⟩, hev⟩ := grammarJet_unpack hg
  have hne : jetLinesText F ≠ [] := by simp [jetLinesText]
  have hnl : ∀ l ∈ jetLinesText F, '\n' ∉ l.toList := by
    intro l hl
    simp only [jetLinesText, List.mem_cons, List.mem_append, List.mem_flatMap, List.not_mem_nil, or_false] at hl
    rcases hl with rfl | ⟨e, he, hl⟩ | rfl
    · exact n1
    · exact jetEventLines_no_nl (hev e he) l (by simpa using hl)
    · rw [htr]
      intro hm
      have := jetTrailer_alphabet hsep s1 s2 _ hm
      revert this; decide
  have htne : F.trailer ≠ "" := by
    intro h
    have := congrArg String.toList (htr.symm.trans h)
    rw [jetTrailerText_eq, String.toList_intercalate] at this
    simp [jetTrailerToks, List.intercalate, List.intersperse] at this
  have hlast : (jetLinesText F).getLast hne ≠ "" := by
    have : jetLinesText F = (F.h1 :: F.events.flatMap (fun e => e.header :: e.parts.map (fun r => " ".intercalate r))) ++
        [F.trailer] := by simp [jetLinesText]
    have hg : (jetLinesText F).getLast hne = F.trailer := by
      simp only [this, List.getLast_concat]
    rw [hg]; exact htne
  unfold jetText
  exact fileOfText_textOfLines _ _ hne hnl hlast

theorem jet_head_obs (F : JetSpec) (hg : grammarJet F = true) : isJHead F.partons (analyse F.h1) = true := by
  have hk := (grammarJet_unpack hg).1
  have : hasKey F.partons (analyse F.h1) = false := by
    revert hk; cases F.partons <;> simp [hasKey, jetKey, analyse]
  simp [isJHead, this]

/-- C01 classification, JETSCAPE: the text rendered for a specification of the grammar is observed as that specification -/
theorem jet_classification (F : JetSpec) (hg : grammarJet F = true) :
    obsJet (Proto.fileOfText (jetText F)) F = true := by
  obtain ⟨hk, n1, s1, f1, s2, f2, ⟨sep, hsep, htr⟩, hev⟩ := grammarJet_unpack hg
  rw [fileOfText_jetText F hg]
  simp only [obsJet, jetLinesText, List.map_cons, beq_self_eq_true, Bool.true_and, Bool.and_eq_true, beq_iff_eq]
  exact ⟨⟨jet_head_obs F hg, rfl⟩, obsJBody_events F.partons F F.events hev (jet_trailer_obs F.partons hsep htr s1 s2 f1 f2)⟩

/-- events numbered 1, 2, 3, … (what JETSCAPE writes; C02 states its theorems for such files), at least one -/
def wfJetSeq (F : JetSpec) : Prop :=
  F.events ≠ [] ∧ ∀ i (h : i < F.events.length), (F.events[i]).label = ((i + 1 : Nat) : Int)

theorem wfJet_of_seq {F : JetSpec} (h : wfJetSeq F) : wfJet F := by
  obtain ⟨hne, hlab⟩ := h
  cases hE : F.events with
  | nil => exact absurd hE hne
  | cons e es =>
    refine ⟨e, es, hE, ?_, ?_⟩
    · have := hlab 0 (by simp [hE]); simpa [hE] using this
    · intro e' he'
      obtain ⟨i, hi, rfl⟩ := List.getElem_of_mem he'
      have := hlab (i + 1) (by simp [hE]; omega)
      simp only [hE, List.getElem_cons_succ] at this
      rw [this]; omega

end SparkxVerif.Rd
