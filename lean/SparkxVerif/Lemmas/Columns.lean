/-
C01 — lemmas about the column tables (`Core/Columns.lean` over `Gen/Tables.lean`): the documented value of a column
(`docVal`), the per-column table fact (`colOK`) and what it implies for every token list (`column_value`), the ASCII
mapping for an arbitrary duplicate-free header (`writes_ascii`), and the agreement of the reader model's own copies of
the tables (`colsOk`, format chain) with the generated ones.  No Mathlib needed.
-/
import SparkxVerif.Core.Columns
import SparkxVerif.Core.Render
import SparkxVerif.Core.ReaderProto

namespace SparkxVerif.C01
open SparkxVerif.Cols SparkxVerif.Gen.Tables SparkxVerif.Rd

/-- documented integer columns (SMASH / JETSCAPE user guides; everything else is a real number) -/
def intCols : List String :=
  ["pdg", "ID", "charge", "ncoll", "proc_id_origin", "proc_type_origin", "pdg_mother1", "pdg_mother2",
   "baryon_number", "strangeness", "status"]

/-- documented columns of the JETSCAPE final-state files, by attribute name (`N pid status E Px Py Pz`) -/
def jetCols : List String := ["ID", "pdg", "status", "E", "px", "py", "pz"]

/-- value documented for column `c` carrying token `t` -/
def docVal (c t : String) : GetVal := if intCols.contains c then .int t else .float t

theorem cellOf_foldl_none (ws : List Write) (toks : List String) (s : Nat) (acc : Cell)
    (h : ∀ w ∈ ws, w.slot ≠ s) : ws.foldl (cellStep toks s) acc = acc := by
  induction ws generalizing acc with
  | nil => rfl
  | cons x xs ih =>
    have hx := h x (by simp)
    simp only [List.foldl_cons, cellStep]
    rw [if_neg (by simpa using hx)]
    exact ih acc (fun w hw => h w (by simp [hw]))

theorem cellOf_of_mem (ws : List Write) (toks : List String) (w : Write) (t : String)
    (hnd : (ws.map (·.slot)).Nodup) (hw : w ∈ ws) (ht : toks[w.col]? = some t) :
    cellOf ws toks w.slot = cellFor w t := by
  unfold cellOf
  generalize Cell.unset = acc
  induction ws generalizing acc with
  | nil => simp at hw
  | cons x xs ih =>
    simp only [List.map_cons, List.nodup_cons] at hnd
    simp only [List.foldl_cons]
    rcases List.mem_cons.mp hw with rfl | hw'
    · simp only [cellStep, beq_self_eq_true, if_true, ht]
      apply cellOf_foldl_none
      intro w' hw' heq
      exact hnd.1 (by rw [← heq]; exact List.mem_map_of_mem hw')
    · exact ih hnd.2 hw' _

/-- the table fact checked per (format, line length, column): exactly the documented slot, cast and getter kind -/
def colOK (fmt : String) (attrs : List String) (n i : Nat) (c : String) : Bool :=
  match writes fmt attrs n with
  | none => false
  | some ws =>
    (ws.map (·.slot)).Nodup &&
    (match getterSlot (attrOf c), getterKind (attrOf c) with
     | some s, some k =>
       ws.contains ⟨s, !intCols.contains c, i⟩ && (k == (if intCols.contains c then 1 else 0))
     | _, _ => false)

theorem column_value {fmt : String} {attrs : List String} {n i : Nat} {c : String}
    (h : colOK fmt attrs n i c = true) (toks : List String) (hi : i < toks.length) :
    ∃ ws, writes fmt attrs n = some ws ∧ getAttr (attrOf c) (cellOf ws toks) = some (docVal c toks[i]) := by
  unfold colOK at h
  cases hw : writes fmt attrs n with
  | none => simp [hw] at h
  | some ws =>
    refine ⟨ws, rfl, ?_⟩
    simp only [hw, Bool.and_eq_true, decide_eq_true_eq] at h
    obtain ⟨hnd, h2⟩ := h
    cases hs : getterSlot (attrOf c) with
    | none => simp [hs] at h2
    | some s =>
      cases hk : getterKind (attrOf c) with
      | none => simp [hs, hk] at h2
      | some k =>
        simp only [hs, hk, Bool.and_eq_true, List.contains_iff_mem, beq_iff_eq] at h2
        obtain ⟨hmem, hkind⟩ := h2
        have hcell := cellOf_of_mem ws toks _ toks[i] hnd hmem (by simp [hi])
        simp only at hcell
        unfold getterSlot at hs
        unfold getterKind at hk
        cases hg : getters.lookup (attrOf c) with
        | none => simp [hg] at hs
        | some sk =>
          simp [hg] at hs hk
          unfold getAttr
          simp only [hg]
          rw [hs, hk, hcell, hkind]
          by_cases hc : c ∈ intCols <;> simp [hc, cellFor, docVal]

def oscar2013Cols : List String := allCols.take 12

/-! ASCII: any duplicate-free column list over the 22 names, in any order -/

theorem nodup_map_on {α β} {f : α → β} {l : List α} (H : ∀ x ∈ l, ∀ y ∈ l, f x = f y → x = y) (d : l.Nodup) :
    (l.map f).Nodup := by
  induction l with
  | nil => simp
  | cons a l ih =>
    simp only [List.nodup_cons] at d
    simp only [List.map_cons, List.nodup_cons, List.mem_map, not_exists, not_and]
    refine ⟨?_, ih (fun x hx y hy => H x (by simp [hx]) y (by simp [hy])) d.2⟩
    intro x hx hfx
    have := H x (by simp [hx]) a (by simp) hfx
    exact d.1 (this ▸ hx)

theorem mapM_option_some {α β} (f : α → Option β) (g : α → β) (xs : List α)
    (h : ∀ x ∈ xs, f x = some (g x)) : xs.mapM f = some (xs.map g) := by
  induction xs with
  | nil => rfl
  | cons x xs ih =>
    have hx := h x (by simp)
    have hxs := ih (fun y hy => h y (by simp [hy]))
    simp [List.mapM_cons, hx, hxs]

/-- slot of an ASCII attribute according to "Allfields" -/
def allfieldsSlot (a : String) : Option Nat :=
  ((mapping.lookup "Allfields").bind (fun all => all.lookup a)).map (·.1)

/-- finite facts about the 22 names, from the generated tables -/
theorem ascii_table :
    (∀ c ∈ allCols, allfieldsSlot (attrOf c) = getterSlot (attrOf c) ∧ (getterSlot (attrOf c)).isSome = true ∧
      castIsFloat (attrOf c ++ "_") = !intCols.contains c ∧
      getterKind (attrOf c) = some (if intCols.contains c then 1 else 0)) ∧
    (∀ a ∈ allCols, ∀ b ∈ allCols, getterSlot (attrOf a) = getterSlot (attrOf b) → a = b) := by
  decide

theorem attrOf_inj_on : ∀ a ∈ allCols, ∀ b ∈ allCols, attrOf a = attrOf b → a = b := by
  intro a ha b hb h
  exact ascii_table.2 a ha b hb (by rw [h])

/-- the assignments `Particle("ASCII", line, attrs)` performs for a duplicate-free header -/
def asciiWrites (cols : List String) : List Write :=
  cols.zipIdx.map (fun ci => ⟨(getterSlot (attrOf ci.1)).getD 0, !intCols.contains ci.1, ci.2⟩)

theorem idxOf_map_nodup (cols : List String) (hnd : (cols.map attrOf).Nodup) (i : Nat) (h : i < cols.length) :
    (cols.map attrOf).idxOf (attrOf cols[i]) = i := by
  have := hnd.idxOf_getElem i (by simpa using h)
  simpa using this

theorem writes_ascii (cols : List String) (hnd : cols.Nodup) (hsub : ∀ c ∈ cols, c ∈ allCols) :
    writes fmtAscii (cols.map attrOf) cols.length = some (asciiWrites cols) := by
  have hnd' : (cols.map attrOf).Nodup :=
    nodup_map_on (fun a ha b hb h => attrOf_inj_on a (hsub a ha) b (hsub b hb) h) hnd
  obtain ⟨all, hall⟩ : ∃ all, mapping.lookup "Allfields" = some all := ⟨_, rfl⟩
  have hmap : mappingFor fmtAscii (cols.map attrOf) =
      some ((cols.map attrOf).map (fun a => (a ++ "_", (getterSlot a).getD 0, (cols.map attrOf).idxOf a))) := by
    unfold mappingFor
    simp only [fmtAscii, beq_self_eq_true, if_true, hall]
    apply mapM_option_some
    intro a ha
    obtain ⟨c, hc, rfl⟩ := List.mem_map.mp ha
    have ht := (ascii_table.1 c (hsub c hc))
    have h1 : allfieldsSlot (attrOf c) = getterSlot (attrOf c) := ht.1
    have h2 := ht.2.1
    unfold allfieldsSlot at h1
    simp only [hall, Option.bind_some] at h1
    cases hl : all.lookup (attrOf c) with
    | none => simp [hl] at h1; simp [← h1] at h2
    | some sc =>
      simp only [hl, Option.map_some] at h1
      simp [← h1]
  unfold writes
  rw [hmap]
  simp only [lenOk, fmtAscii, beq_self_eq_true, Bool.true_or, if_true]
  rw [List.filter_eq_self.mpr]
  · congr 1
    unfold asciiWrites
    apply List.ext_getElem
    · simp
    · intro i h1 h2
      have hi : i < cols.length := by simpa using h2
      have hc := hsub cols[i] (List.getElem_mem hi)
      simp [idxOf_map_nodup cols hnd' i hi, (ascii_table.1 _ hc).2.2.1]
  · intro e he
    obtain ⟨a, ha, rfl⟩ := List.mem_map.mp he
    have := List.idxOf_lt_length_of_mem ha
    simp at this
    simp; omega

theorem asciiWrites_slots_nodup (cols : List String) (hnd : cols.Nodup) (hsub : ∀ c ∈ cols, c ∈ allCols) :
    ((asciiWrites cols).map (·.slot)).Nodup := by
  have : (asciiWrites cols).map (·.slot) = cols.map (fun c => (getterSlot (attrOf c)).getD 0) := by
    unfold asciiWrites
    rw [List.map_map]
    apply List.ext_getElem <;> simp
  rw [this]
  refine nodup_map_on ?_ hnd
  intro a ha b hb h
  have ha' := (ascii_table.1 a (hsub a ha)).2.1
  have hb' := (ascii_table.1 b (hsub b hb)).2.1
  apply ascii_table.2 a (hsub a ha) b (hsub b hb)
  cases hga : getterSlot (attrOf a) <;> cases hgb : getterSlot (attrOf b) <;> simp_all

/-! ### the reader model's own tables agree with the generated ones -/

theorem colsOk_ext (n : Nat) : colsOk .extended n = lenOk fmtExtended n 22 := by
  simp [colsOk, lenOk, fmtExtended, slackFormats, lenSlack]
  by_cases h1 : 20 ≤ n <;> by_cases h2 : n ≤ 22 <;> simp [h1, h2] <;> omega
theorem colsOk_2013 (n : Nat) : colsOk .oscar2013 n = lenOk fmtOscar2013 n 12 := by
  simp [colsOk, lenOk, fmtOscar2013, slackFormats, lenSlack]
def fmtStr : Except Err (Fmt × List String) → Option String
  | .ok (f, _) => some (Proto.showFmt (some f))
  | .error _ => none
theorem chain (l : LineF) : fmtStr (oscarFormat l) = evalChain l.toks formatChain := by
  simp only [formatChain, evalChain, evalCond, evalCond.evalConds, oscarFormat, List.getD_eq_getElem?_getD]
  repeat' split
  all_goals simp_all [fmtStr, Proto.showFmt]

end SparkxVerif.C01
