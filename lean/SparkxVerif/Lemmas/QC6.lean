/-
C11 helper: the six-particle correlator (Bilandzic et al., Eq. A10) as evaluated per event by the code
equals the closed recursion over power sums. Own module: the `field_simp; ring1` step takes ~15 s.
-/
import SparkxVerif.Lemmas.QC
import Mathlib.Tactic.FieldSimp
import Mathlib.Tactic.Linarith

open ComplexConjugate Finset BigOperators
open SparkxVerif.QC SparkxVerif.Cx

namespace SparkxVerif.QCL

set_option maxHeartbeats 4000000 in
/-- Bilandzic et al. Eq. (A10), as the code evaluates it per event, is the closed recursion -/
theorem ebe6_alg {F : Type} [Field F] [CharZero F] (p : ℤ → F) (M q qc q2 q2c q3 q3c : F)
    (h0 : p 0 = M) (h1 : p 1 = q) (hm1 : p (-1) = qc) (h2 : p 2 = q2) (hm2 : p (-2) = q2c)
    (h3 : p 3 = q3) (hm3 : p (-3) = q3c)
    (n0 : M ≠ 0) (n1 : M - 1 ≠ 0) (n2 : M - 2 ≠ 0) (n3 : M - 3 ≠ 0) (n4 : M - 4 ≠ 0) (n5 : M - 5 ≠ 0) :
    M * (M - 1) * (M - 2) * (M - 3) * (M - 4) * (M - 5) *
      ((((q * q * q * qc * qc * qc + (q * q * q * qc * qc * qc)) / 2
          + 9 * ((q2 * q2c + q2c * q2) / 2) * ((q * qc + qc * q) / 2)
          - 6 * ((q2 * q * (qc * qc * qc) + q2c * qc * (q * q * q)) / 2))
          / (M * (M - 1) * (M - 2) * (M - 3) * (M - 4) * (M - 5)))
       + (4 * ((q3 * (qc * qc * qc) + q3c * (q * q * q)) / 2 - 3 * ((q3 * q2c * qc + q3c * q2 * q) / 2)))
          / (M * (M - 1) * (M - 2) * (M - 3) * (M - 4) * (M - 5))
       + (2 * (9 * (M - 4) * ((q2 * qc * qc + q2c * q * q) / 2) + 2 * ((q3 * q3c + q3c * q3) / 2)))
          / (M * (M - 1) * (M - 2) * (M - 3) * (M - 4) * (M - 5))
       + (-9 * ((q * q * qc * qc + qc * qc * q * q) / 2 + (q2 * q2c + q2c * q2) / 2))
          / (M * (M - 1) * (M - 2) * (M - 3) * (M - 5))
       + (18 * ((q * qc + qc * q) / 2)) / (M * (M - 1) * (M - 3) * (M - 4))
       + -6 / ((M - 1) * (M - 2) * (M - 3)))
    = Dexp p [1, 1, 1, -1, -1, -1] := by
  simp [Dexp, List.range_succ, h0, h1, hm1, h2, hm2, h3, hm3]
  field_simp
  ring1

end SparkxVerif.QCL

namespace SparkxVerif.QCL
set_option maxHeartbeats 4000000 in
theorem ebe6_eq {e : Event ℝ} (he : IsUnit e) (h6 : 6 ≤ e.length) :
    ((W6 e * ebe6 e : ℝ) : ℂ) = Dexp (A (zs e)) [1, 1, 1, -1, -1, -1] := by
  have hm1 := A_neg (zs e) (zs_unit he) 1
  have hm2 := A_neg (zs e) (zs_unit he) 2
  have hm3 := A_neg (zs e) (zs_unit he) 3
  have hM : (6 : ℝ) ≤ (e.length : ℝ) := by exact_mod_cast h6
  have nz : ∀ c : ℝ, c < 6 → ((e.length : ℝ) : ℂ) - (c : ℂ) ≠ 0 := by
    intro c hc
    have : (e.length : ℝ) - c ≠ 0 := by linarith
    exact_mod_cast this
  have h0 : ((e.length : ℝ) : ℂ) ≠ 0 := by simpa using nz 0 (by norm_num)
  have h1 : ((e.length : ℝ) : ℂ) - 1 ≠ 0 := by simpa using nz 1 (by norm_num)
  have h2 : ((e.length : ℝ) : ℂ) - 2 ≠ 0 := by simpa using nz 2 (by norm_num)
  have h3 : ((e.length : ℝ) : ℂ) - 3 ≠ 0 := by simpa using nz 3 (by norm_num)
  have h4 : ((e.length : ℝ) : ℂ) - 4 ≠ 0 := by simpa using nz 4 (by norm_num)
  have h5 : ((e.length : ℝ) : ℂ) - 5 ≠ 0 := by simpa using nz 5 (by norm_num)
  rw [← ebe6_alg (A (zs e)) ((e.length : ℝ) : ℂ) (A (zs e) 1) (conj (A (zs e) 1)) (A (zs e) 2) (conj (A (zs e) 2))
    (A (zs e) 3) (conj (A (zs e) 3)) (by simp [A_zero]) rfl hm1 rfl hm2 rfl hm3 h0 h1 h2 h3 h4 h5]
  unfold W6 ebe6
  simp only [nat]
  push_cast
  simp only [ofReal_re, toC_mul, toC_conj, toC_Qm, mult_eq, map_mul, Complex.conj_conj]
  push_cast
  ring1
end SparkxVerif.QCL
