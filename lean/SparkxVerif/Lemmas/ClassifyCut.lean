/-
A text cut after an arbitrary number of characters, as the loaders see it (`Proto.fileOfText ∘ Dmg.takeBytes`): complete
lines, possibly followed by a non-empty prefix of the next line.  Core Lean only.
-/
import SparkxVerif.Lemmas.ClassifyPrefix

set_option linter.unusedSimpArgs false

namespace SparkxVerif.Rd
open SparkxVerif.Str

/-- text-mode line splitting of a newline-terminated text (no condition on empty lines) -/
theorem fileOfText_textOfLines_nl (ls : List String) (hne : ls ≠ []) (hnl : ∀ l ∈ ls, '\n' ∉ l.toList) :
    Proto.fileOfText (textOfLines ls true) = { lines := ls.map analyse, trailingNL := true } := by
  have hne' : ls.map String.toList ≠ [] := by simpa using hne
  have hX : ("\n".intercalate ls).toList = ['\n'].intercalate (ls.map String.toList) := by
    rw [String.toList_intercalate]; rfl
  have hsplit : splitOnChar '\n' (['\n'].intercalate (ls.map String.toList)) = ls.map String.toList :=
    splitOnChar_intercalate hne' (by intro t ht; obtain ⟨t', ht', rfl⟩ := List.mem_map.mp ht; exact hnl t' ht')
  have hback : (ls.map String.toList).map String.ofList = ls := by
    simp [List.map_map, Function.comp_def, String.ofList_toList]
  have hcs : (textOfLines ls true).toList = ['\n'].intercalate (ls.map String.toList) ++ ['\n'] := by
    simp [textOfLines, String.toList_append, hX]
  have hsp : splitCh '\n' (textOfLines ls true) = ls ++ [""] := by
    unfold splitCh
    rw [hcs, splitOnChar_append_sep, hsplit, List.map_append, hback]
    rfl
  simp only [Proto.fileOfText, hcs, hsp]
  simp

theorem getD_map_toList (ls : List String) (j : Nat) : (ls.map String.toList).getD j [] = (ls.getD j "").toList := by
  simp only [List.getD_eq_getElem?_getD, List.getElem?_map]
  cases ls[j]? <;> rfl

/-- **a text cut after `n` characters**, as the loaders see it: `j` complete lines (newline-terminated), or `j` complete
lines followed by a non-empty prefix (`q` characters, possibly all) of line `j` without newline -/
theorem fileOfText_takeBytes (ls : List String) (nl : Bool) (hne : ls ≠ []) (hnl : ∀ l ∈ ls, '\n' ∉ l.toList) (n : Nat) :
    ∃ j, j ≤ ls.length ∧
      (Proto.fileOfText (Dmg.takeBytes (textOfLines ls nl) n) = { lines := (ls.take j).map analyse, trailingNL := decide (0 < j) } ∨
       ∃ q, j < ls.length ∧ 0 < q ∧ q ≤ (ls.getD j "").toList.length ∧
        Proto.fileOfText (Dmg.takeBytes (textOfLines ls nl) n) =
          { lines := (ls.take j).map analyse ++ [analyse (prefixOf (ls.getD j "") q)], trailingNL := false }) := by
  have hne' : ls.map String.toList ≠ [] := by simpa using hne
  have hX : ("\n".intercalate ls).toList = ['\n'].intercalate (ls.map String.toList) := by
    rw [String.toList_intercalate]; rfl
  -- the text is a prefix of `joinNL`
  obtain ⟨m, hm⟩ : ∃ m, (textOfLines ls nl).toList = (joinNL (ls.map String.toList)).take m := by
    cases nl with
    | true =>
      refine ⟨(joinNL (ls.map String.toList)).length, ?_⟩
      rw [List.take_length, ← intercalate_nl_append_nl hne']
      simp [textOfLines, String.toList_append, hX]
    | false =>
      refine ⟨(['\n'].intercalate (ls.map String.toList)).length, ?_⟩
      rw [← intercalate_nl_append_nl hne', List.take_left']
      · simp [textOfLines, hX]
      · rfl
  obtain ⟨j, q, hj, hjq⟩ := take_joinNL (ls.map String.toList) (min n m)
  have hcs : (Dmg.takeBytes (textOfLines ls nl) n).toList =
      joinNL ((ls.take j).map String.toList) ++ ((ls.getD j "").toList).take q := by
    simp only [Dmg.takeBytes, String.toList_ofList, hm, List.take_take]
    rw [hjq, getD_map_toList, List.map_take]
  have hj' : j ≤ ls.length := by simpa using hj
  refine ⟨j, hj', ?_⟩
  have hnlj : ∀ l ∈ ls.take j, '\n' ∉ l.toList := fun l hl => hnl l (List.mem_of_mem_take hl)
  by_cases hr : ((ls.getD j "").toList).take q = []
  · left
    rw [hr, List.append_nil] at hcs
    by_cases hj0 : j = 0
    · subst hj0
      have : Dmg.takeBytes (textOfLines ls nl) n = "" := by
        apply String.toList_injective; rw [hcs]; rfl
      rw [this]; rfl
    · have hnej : ls.take j ≠ [] := by
        intro h
        have := congrArg List.length h
        simp at this
        rcases this with h | h
        · exact hj0 h
        · exact hne h
      have : Dmg.takeBytes (textOfLines ls nl) n = textOfLines (ls.take j) true := by
        apply String.toList_injective
        rw [hcs, ← intercalate_nl_append_nl (by simpa using hnej)]
        simp [textOfLines, String.toList_append, String.toList_intercalate]
      rw [this, fileOfText_textOfLines_nl _ hnej hnlj]
      simp [Nat.pos_of_ne_zero hj0]
  · right
    have hjlt : j < ls.length := by
      rcases Nat.lt_or_ge j ls.length with h | h
      · exact h
      · exfalso; apply hr
        simp [List.getD_eq_getElem?_getD, List.getElem?_eq_none h]
    have hq0 : 0 < q := by
      rcases Nat.eq_zero_or_pos q with h | h
      · subst h; simp at hr
      · exact h
    let q' := min q (ls.getD j "").toList.length
    have hq' : ((ls.getD j "").toList).take q = ((ls.getD j "").toList).take q' := by
      simp only [q']
      rw [List.take_eq_take_iff]
      omega
    have hq'0 : 0 < q' := by
      have : (ls.getD j "").toList ≠ [] := by intro h; apply hr; rw [h]; exact List.take_nil
      have := List.length_pos_iff.mpr this
      simp only [q']; omega
    refine ⟨q', hjlt, hq'0, Nat.min_le_right _ _, ?_⟩
    have hlines : ls.take j ++ [prefixOf (ls.getD j "") q'] ≠ [] := by simp
    have hmem : ls.getD j "" ∈ ls := by
      simp only [List.getD_eq_getElem?_getD, List.getElem?_eq_getElem hjlt, Option.getD_some]
      exact List.getElem_mem hjlt
    have : Dmg.takeBytes (textOfLines ls nl) n = textOfLines (ls.take j ++ [prefixOf (ls.getD j "") q']) false := by
      apply String.toList_injective
      rw [hcs, hq']
      simp only [textOfLines, String.toList_append, String.toList_intercalate, List.map_append, List.map_cons, List.map_nil,
        prefixOf_toList, Bool.false_eq_true, if_false]
      rw [show "\n".toList = ['\n'] from rfl, intercalate_nl_concat]
      simp
    rw [this, fileOfText_textOfLines _ _ hlines]
    · simp
    · intro l hl
      rcases List.mem_append.mp hl with h | h
      · exact hnlj l h
      · have : l = prefixOf (ls.getD j "") q' := by simpa using h
        subst this
        exact prefix_no_newline (hnl _ hmem) q'
    · rw [List.getLast_concat]
      intro h
      have := congrArg String.toList h
      rw [prefixOf_toList, ← hq'] at this
      exact hr this

end SparkxVerif.Rd
