/-
C11 helper: the two arguments that `__compute_differential_flow_bin`, as GENERATED from the current source
(`Gen/QCumulant.lean`: `dargs2`, `dargs4`, numpy-style per-event vectors with the guarded division
`np.divide(num, w, out=zeros, where=(w != 0))`), hands to `__flow_from_cumulant_differential` are, over ℝ and for events
of unit vectors, exactly what the hand-written model `QC.dvn` feeds to `QC.dflow`:
`(<<2>>, Re<<2'>>)` and `(<<4>> − 2<<2>>², Re<<4'>> − 2 Re<<2'>> <<2>>)`.

The code drops the events with weight 0 from the numerator (guard), the model sums all numerators; the two agree
because an event whose weight (= number of tuples of distinct particles starting with a POI) is 0 has a vanishing
tuple sum (`dnum2_re_zero`, `dnum4_re_zero`).  Re-checked whenever the source (hence `Gen/`) changes; the per-event
comparisons end in `ring1`, so reordered sums / products in the source do not disturb the proof.
-/
import SparkxVerif.Lemmas.QCDiff
import SparkxVerif.Lemmas.QCGen

open ComplexConjugate Finset BigOperators
open SparkxVerif SparkxVerif.QC SparkxVerif.Cx SparkxVerif.QCL SparkxVerif.QCD SparkxVerif.Vec SparkxVerif.QCGen

namespace SparkxVerif.QCGD
set_option linter.unusedSimpArgs false

/-! ### events of weight 0 contribute nothing -/

variable {M : ℕ}

/-- a tuple whose first particle is not a POI contributes nothing -/
theorem prod_pw_not_poi (z : Fin M → ℂ) (χ : Fin M → Bool) {k : ℕ} (a : Fin (k + 1) → ℤ) (t : Fin (k + 1) → Fin M)
    (h : χ (t 0) = false) : ∏ i, pw z χ (slots a i) (t i) = 0 := by
  apply Finset.prod_eq_zero (Finset.mem_univ 0)
  simp [pw, slots, h]

/-- with all exponents 0 a tuple whose first particle is a POI contributes 1 -/
theorem prod_pw_count (z : Fin M → ℂ) (χ : Fin M → Bool) {k : ℕ} (t : Fin (k + 1) → Fin M)
    (h : χ (t 0) = true) : ∏ i, pw z χ (slots (fun _ => 0) i) (t i) = 1 := by
  apply Finset.prod_eq_one
  intro i _
  by_cases hi : i = 0
  · subst hi; simp [pw, slots, h]
  · simp [pw, slots, hi]

/-- if an event has no tuple of distinct particles starting with a POI (its weight is 0), every differential
tuple sum over it vanishes -/
theorem tupleSum_zero_of_weight_zero (z : Fin M → ℂ) (χ : Fin M → Bool) {k : ℕ} (a : Fin (k + 1) → ℤ)
    (h : tupleSum (k + 1) (fun i j => pw z χ (slots (fun _ => 0) i) j) = 0) :
    tupleSum (k + 1) (fun i j => pw z χ (slots a i) j) = 0 := by
  unfold tupleSum at h ⊢
  have hterm : ∀ t : Fin (k + 1) → Fin M,
      (if Function.Injective t then ∏ i, pw z χ (slots (fun _ => 0) i) (t i) else 0)
        = if (Function.Injective t ∧ χ (t 0) = true) then (1 : ℂ) else 0 := by
    intro t
    by_cases hi : Function.Injective t
    · cases hc : χ (t 0)
      · simp [hi, prod_pw_not_poi z χ _ t hc]
      · simp [hi, prod_pw_count z χ t hc]
    · simp [hi]
  simp only [hterm] at h
  rw [Finset.sum_boole] at h
  have hcard : (Finset.univ.filter (fun t : Fin (k + 1) → Fin M => Function.Injective t ∧ χ (t 0) = true)).card = 0 := by
    exact_mod_cast h
  rw [Finset.card_eq_zero, Finset.filter_eq_empty_iff] at hcard
  apply Finset.sum_eq_zero
  intro t _
  by_cases hi : Function.Injective t
  · have hc : χ (t 0) = false := by
      cases hc : χ (t 0)
      · rfl
      · exact absurd ⟨hi, hc⟩ (hcard (Finset.mem_univ t))
    simp [hi, prod_pw_not_poi z χ a t hc]
  · simp [hi]

/-- an event without a pair (POI, other particle) - no POI, or a single particle - has `Re (p_n Q_n^* − m_q) = 0` -/
theorem dnum2_re_zero {e : PEvent ℝ} (he : IsUnitP e) (hw : w2 e = 0) : (dnum2 e).re = 0 := by
  have h0 : tupleSum 2 (fun i j => pw (zsP e) (chi e) (slots (fun _ => 0) i) j) = 0 := by
    rw [QCD.tuple_eq_Dexp _ (zsP_unit he)]
    have : List.ofFn (slots (k := 1) (fun _ => 0)) = [⟨0, true⟩, ⟨0, false⟩] := by
      simp [slots, List.ofFn_succ]
    rw [this, ← w2_eq, hw]; simp
  have h := tupleSum_zero_of_weight_zero (zsP e) (chi e) (k := 1) ![1, -1] h0
  rw [QCD.tuple_eq_Dexp _ (zsP_unit he)] at h
  have : List.ofFn (slots (k := 1) ![1, -1]) = [⟨1, true⟩, ⟨-1, false⟩] := by
    simp [slots, List.ofFn_succ]
  rw [this, ← dnum2_eq he] at h
  rw [← toC_re, h]; simp

/-- an event without a quadruple of distinct particles starting with a POI (no POI, or fewer than four particles)
has a vanishing real part of Eq. (32) -/
theorem dnum4_re_zero {e : PEvent ℝ} (he : IsUnitP e) (hw : w4 e = 0) : (dnum4 e).re = 0 := by
  have h0 : tupleSum 4 (fun i j => pw (zsP e) (chi e) (slots (fun _ => 0) i) j) = 0 := by
    rw [QCD.tuple_eq_Dexp _ (zsP_unit he)]
    have : List.ofFn (slots (k := 3) (fun _ => 0)) = [⟨0, true⟩, ⟨0, false⟩, ⟨0, false⟩, ⟨0, false⟩] := by
      simp [slots, List.ofFn_succ]
    rw [this, ← w4_eq, hw]; simp
  have h := tupleSum_zero_of_weight_zero (zsP e) (chi e) (k := 3) ![1, 1, -1, -1] h0
  rw [QCD.tuple_eq_Dexp _ (zsP_unit he)] at h
  have : List.ofFn (slots (k := 3) ![1, 1, -1, -1]) = [⟨1, true⟩, ⟨1, false⟩, ⟨-1, false⟩, ⟨-1, false⟩] := by
    simp [slots, List.ofFn_succ]
  rw [this] at h
  rw [← toC_re, dnum4_eq he, h]; simp


/-! ### the guarded weighted average of the generated code -/

@[simp] theorem sub_re (a b : Cx ℝ) : (a - b).re = a.re - b.re := rfl
@[simp] theorem sub_im (a b : Cx ℝ) : (a - b).im = a.im - b.im := rfl
theorem cdivs_re (z : Cx ℝ) (s : ℝ) : (cdivs z s).re = z.re / s := rfl

/-- `np.vdot(w, np.divide(num, w, out=0, where=(w != 0))) / np.sum(w)`: the weights cancel; entries with `w = 0`
are dropped, which changes nothing when their numerators vanish -/
theorem guard_avg_re {ι : Type} (l : List ι) (W : ι → ℝ) (N : ι → Cx ℝ)
    (h0 : ∀ x ∈ l, W x = 0 → (N x).re = 0) :
    (cdivs (rcvdot (l.map W) (cdivGuard (l.map N) (l.map W))) (vsum (l.map W))).re
      = (l.map (fun x => (N x).re)).sum / (l.map W).sum := by
  simp only [cdivs_re, vsum, sumL_eq_sum, rcvdot, rcmul, cdivGuard, zipWith_map_map, sum_re, List.map_map,
    Function.comp_def, Nat.cast_zero]
  congr 2
  apply List.map_congr_left
  intro x hx
  by_cases hw : W x = 0
  · simp [hw, h0 x hx hw]
  · have : W x < 0 ∨ 0 < W x := lt_or_gt_of_ne hw
    simp only [this, if_true, smul_re, cdivs]
    field_simp

/-- any per-event weight / numerator that agree with the model's `w2` / `Re dnum2` give the model's `Re <<2'>>` -/
theorem dcorr2_of_gen (evs : List (PEvent ℝ)) (hu : ∀ e ∈ evs, IsUnitP e) (W : PEvent ℝ → ℝ) (N : PEvent ℝ → Cx ℝ)
    (hW : ∀ e, W e = w2 e) (hN : ∀ e, (N e).re = (dnum2 e).re) :
    (cdivs (rcvdot (evs.map W) (cdivGuard (evs.map N) (evs.map W))) (vsum (evs.map W))).re = (dcorr2 evs).re := by
  rw [guard_avg_re evs W N (fun e he hw => by rw [hN]; exact dnum2_re_zero (hu e he) (by rw [← hW, hw]))]
  obtain rfl : W = w2 := funext hW
  unfold dcorr2
  simp only [sumL_eq_sum, sum_re, List.map_map, Function.comp_def, hN]

/-- the same for `w4`, `Re dnum4`, `Re <<4'>>` -/
theorem dcorr4_of_gen (evs : List (PEvent ℝ)) (hu : ∀ e ∈ evs, IsUnitP e) (W : PEvent ℝ → ℝ) (N : PEvent ℝ → Cx ℝ)
    (hW : ∀ e, W e = w4 e) (hN : ∀ e, (N e).re = (dnum4 e).re) :
    (cdivs (rcvdot (evs.map W) (cdivGuard (evs.map N) (evs.map W))) (vsum (evs.map W))).re = (dcorr4 evs).re := by
  rw [guard_avg_re evs W N (fun e he hw => by rw [hN]; exact dnum4_re_zero (hu e he) (by rw [← hW, hw]))]
  obtain rfl : W = w4 := funext hW
  unfold dcorr4
  simp only [sumL_eq_sum, sum_re, List.map_map, Function.comp_def, hN]

/-- per-event side conditions: the generated weight / numerator of an event is the model's, as polynomials in the
real and imaginary parts of the Q-vectors and the multiplicities -/
macro "qc_event" : tactic => `(tactic| first |
  (intro e
   refine @id _ ?_
   simp only [w2, w4, dnum2, dnum4, nat, mul_re, mul_im, add_re, add_im, sub_re, sub_im, conj_re, conj_im,
     smul_re, smul_im, QCGen.ofReal_re, QCGen.ofReal_im] <;> push_cast <;> ring1) | fail "generated per-event expression differs from the model's")

set_option maxHeartbeats 1000000 in
/-- **generated = model** for the arguments of `__flow_from_cumulant_differential` (both orders) -/
theorem dargs_gen (evs : List (PEvent ℝ)) (hu : ∀ e ∈ evs, IsUnitP e) (c2 c4 : ℝ) :
    (Gen.QCumulant.dargs2 evs c2).1 = c2 ∧
    (Gen.QCumulant.dargs2 evs c2).2.re = (dcorr2 evs).re ∧
    (Gen.QCumulant.dargs4 evs c2 c4).1 = c4 - 2 * c2 ^ 2 ∧
    (Gen.QCumulant.dargs4 evs c2 c4).2.re = (dcorr4 evs).re - 2 * (dcorr2 evs).re * c2 := by
  refine ⟨?_, ?_, ?_, ?_⟩
  · simp only [Gen.QCumulant.dargs2]
  · simp only [Gen.QCumulant.dargs2, vadd, vsub, vmul, vsubs, vadds, vmuls, Vec.smul, sadd, ssub, crsub, cradd, cmul, cconj,
      cadd, csub, rcmul, scmul, List.map_map, zipWith_map_map, Function.comp_def, sub_re, add_re, smul_re]
    simp (disch := qc_event) only [dcorr2_of_gen evs hu, dcorr4_of_gen evs hu]
  · simp only [Gen.QCumulant.dargs4, npow_eq_pow, nat]
    push_cast
    ring1
  · simp only [Gen.QCumulant.dargs4, vadd, vsub, vmul, vsubs, vadds, vmuls, Vec.smul, sadd, ssub, crsub, cradd, cmul, cconj,
      cadd, csub, rcmul, scmul, List.map_map, zipWith_map_map, Function.comp_def, sub_re, add_re, smul_re]
    simp (disch := qc_event) only [dcorr2_of_gen evs hu, dcorr4_of_gen evs hu]
    simp only [nat]
    push_cast
    ring1

end SparkxVerif.QCGD
