/-
Bridge from C01's classification to C02's hypotheses: a file observed as the lines of a specification (`obsOscar`) is
well-formed as observed in C02's sense (`RdSel.WFOscar`); the rendered text of a JETSCAPE specification of the grammar is
`RdSel.WFJetscape`.  (`Rd` and `RdSel` both define `OEvent`, `isOutLine`, …: names are qualified here.)  Core Lean only.
-/
import SparkxVerif.Lemmas.ReaderSel
import SparkxVerif.Lemmas.Reader
import SparkxVerif.Lemmas.ClassifyOscar
import SparkxVerif.Lemmas.ClassifyJet

set_option linter.unusedSimpArgs false

namespace SparkxVerif.Bridge
open SparkxVerif.Rd

/-! ### Oscar: a file observed as the lines of a specification is well-formed as observed (C02's hypothesis) -/

/-- the lines of `ls` cut into events of the sizes of `es` -/
def cutO : List LineF → List Rd.OEvent → List RdSel.OEvent
  | _, [] => []
  | [], _ :: _ => []
  | o :: rest, e :: es =>
    match rest.drop e.parts.length with
    | [] => []
    | en :: rest' => ⟨o, rest.take e.parts.length, en⟩ :: cutO rest' es

theorem obsParts_all {fmt : Fmt} {attrs : List String} : ∀ {ls : List LineF} {rows : List (List String)},
    obsParts fmt attrs ls rows = true → ls.all (RdSel.isPartLine fmt attrs) = true ∧ ls.length = rows.length
  | [], [], _ => ⟨rfl, rfl⟩
  | l :: ls, r :: rs, h => by
    simp only [obsParts, Bool.and_eq_true] at h
    obtain ⟨ih1, ih2⟩ := obsParts_all h.2
    have h1 := h.1
    simp only [Rd.isPartLine, Bool.and_eq_true, Bool.not_eq_true', beq_iff_eq] at h1
    obtain ⟨⟨⟨⟨a, b⟩, c⟩, d⟩, e⟩ := h1
    refine ⟨?_, by simp [ih2]⟩
    simp only [List.all_cons, Bool.and_eq_true, ih1, and_true]
    simp [RdSel.isPartLine, RdSel.headerLike, a, b, c, d, e]
  | [], _ :: _, h => by simp [obsParts] at h
  | _ :: _, [], h => by simp [obsParts] at h

theorem cutO_spec {fmt : Fmt} {attrs : List String} : ∀ (es : List Rd.OEvent) (ls : List LineF) (base : Nat),
    obsBody fmt attrs ls es = true → (∀ i (h : i < es.length), (es[i]).label = ((base + i : Nat) : Int)) →
    ls = RdSel.bodyLines (cutO ls es) ∧ RdSel.wfEvents fmt attrs base (cutO ls es) = true ∧
    (cutO ls es).length = es.length ∧ RdSel.footersOf (cutO ls es) = es.map (·.footer)
  | [], ls, base, h, _ => by
    simp only [obsBody, List.isEmpty_iff] at h
    subst h; exact ⟨rfl, rfl, rfl, rfl⟩
  | e :: es, [], base, h, _ => by simp [obsBody] at h
  | e :: es, o :: rest, base, h, hlab => by
    simp only [obsBody] at h
    cases hd : rest.drop e.parts.length with
    | nil => simp [hd] at h
    | cons en rest' =>
      simp only [hd, Bool.and_eq_true] at h
      obtain ⟨⟨⟨ho, hp⟩, hen⟩, hrest⟩ := h
      have hl0 : e.label = (base : Int) := by
        have := hlab 0 (by simp)
        simpa only [List.getElem_cons_zero, Nat.add_zero] using this
      obtain ⟨ih1, ih2, ih3, ih4⟩ := cutO_spec es rest' (base + 1) hrest (by
        intro i hi
        have := hlab (i + 1) (by simp; omega)
        simp only [List.getElem_cons_succ] at this
        rw [this]; congr 1; omega)
      obtain ⟨hpa, hpl⟩ := obsParts_all hp
      simp only [Rd.isOutLine, Bool.and_eq_true, Bool.not_eq_true'] at ho
      obtain ⟨⟨⟨⟨⟨⟨o1, o2⟩, o3⟩, o4⟩, o5⟩, o6⟩, o7⟩ := ho
      simp only [Rd.isEndLine, Bool.and_eq_true, Bool.not_eq_true'] at hen
      obtain ⟨⟨⟨⟨⟨⟨⟨⟨⟨⟨e1, e2⟩, e3⟩, e4⟩, e5⟩, e6⟩, e7⟩, e8⟩, e9⟩, _⟩, _⟩ := hen
      have hlen : (rest.take e.parts.length).length = e.parts.length := by simpa using hpl
      refine ⟨?_, ?_, by simp [cutO, hd, ih3], by
        simp only [RdSel.footersOf] at ih4
        simp only [beq_iff_eq] at e6
        simp [cutO, hd, RdSel.footersOf, ih4, e6]⟩
      · simp only [cutO, hd, RdSel.bodyLines_cons, RdSel.OEvent.lines, List.cons_append, List.append_assoc,
          List.singleton_append, List.cons.injEq, true_and]
        rw [← ih1, List.nil_append, ← hd, List.take_append_drop]
      · simp only [cutO, hd, RdSel.wfEvents, RdSel.wfEvent, Bool.and_eq_true, ih2, and_true, hpa, hlen]
        refine ⟨?_, ?_⟩
        · rw [hl0] at o6
          simp only [RdSel.isOutLine, RdSel.headerLike, RdSel.tokInt, o1, o2, o3, o4, o5, Bool.and_eq_true]
          exact ⟨⟨by simp, o6⟩, o7⟩
        · rw [hl0] at e9
          simp only [RdSel.isEndLine, RdSel.headerLike, RdSel.tokInt, e1, e2, e3, e5, e7, e8, Bool.and_eq_true]
          exact ⟨by simp, e9⟩

/-- the events of a file observed as the lines of `F` -/
def selEvents (f : FileF) (F : OscarSpec) : List RdSel.OEvent := cutO (f.lines.drop 3) F.events

/-- **bridge (Oscar)**: C01's observation hypothesis gives C02's well-formedness -/
theorem WFOscar_of_obs (f : FileF) (F : OscarSpec) (hobs : obsOscar f F = true) (hwf : wfOscar F) :
    RdSel.WFOscar f F.fmt (attrsOf F) (selEvents f F) ∧ (selEvents f F).length = F.events.length ∧
    RdSel.footersOf (selEvents f F) = F.events.map (·.footer) := by
  obtain ⟨hne, hlab, hfmt⟩ := hwf
  simp only [obsOscar, Bool.and_eq_true, beq_iff_eq] at hobs
  obtain ⟨_, hrest⟩ := hobs
  match hl : f.lines, hrest with
  | h1 :: h2 :: h3 :: body, hrest =>
    simp only [Bool.and_eq_true, beq_iff_eq] at hrest
    obtain ⟨⟨⟨⟨⟨hh1, hn2⟩, hn3⟩, _⟩, _⟩, hbody⟩ := hrest
    obtain ⟨c1, c2, c3, c4⟩ := cutO_spec F.events body 0 hbody (by simpa using hlab)
    have hsel : selEvents f F = cutO body F.events := by simp [selEvents, hl]
    have hfm := oscarFormat_head hh1 hfmt
    have hh1' := hh1
    simp only [isHeadLine, Bool.and_eq_true] at hh1'
    refine ⟨⟨h1, h2, h3, by rw [hsel, ← c1]; exact hl, ?_⟩, by rw [hsel, c3], by rw [hsel, c4]⟩
    have hnotIC : (F.fmt == Fmt.extendedIC || F.fmt == Fmt.extendedPhotons) = false := by
      clear hfm; revert hfmt; cases F.fmt <;> simp
    have hne' : (cutO body F.events).isEmpty = false := by
      cases hc : cutO body F.events with
      | nil => rw [hc] at c3; exact absurd (List.length_eq_zero_iff.mp c3.symm) hne
      | cons _ _ => rfl
    simp only [RdSel.wfOscarB, hfm, hsel, hnotIC, hne', c2, Bool.and_eq_true, beq_self_eq_true, Bool.not_false, and_true, true_and]
    exact ⟨⟨hh1'.2, hn2⟩, hn3⟩
  | [], hrest => simp at hrest
  | [_], hrest => simp at hrest
  | [_, _], hrest => simp at hrest

/-! ### JETSCAPE: the rendered text of a specification of the grammar is well-formed as observed -/

def jselEventsOf (es : List Rd.JEvent) : List RdSel.JEvent :=
  es.map (fun e => ⟨analyse e.header, e.parts.map (fun r => analyse (" ".intercalate r))⟩)

/-- the events of the rendered text of `F` -/
def jselEvents (F : JetSpec) : List RdSel.JEvent := jselEventsOf F.events

theorem jLines_text (es : List Rd.JEvent) (tr : String) :
    (es.flatMap (fun e => e.header :: e.parts.map (fun r => " ".intercalate r)) ++ [tr]).map analyse =
      RdSel.jLines (jselEventsOf es) (analyse tr) := by
  induction es with
  | nil => rfl
  | cons e es ih =>
    simp only [List.flatMap_cons, List.cons_append, List.append_assoc, List.map_cons, List.map_append, jselEventsOf,
      RdSel.jLines, List.map_map] at ih ⊢
    rw [ih]
    rfl

theorem wfJEvents_text (partons : Bool) : ∀ (es : List Rd.JEvent) (base : Nat), (∀ e ∈ es, JEventOk partons e) →
    (∀ i (h : i < es.length), (es[i]).label = ((base + i : Nat) : Int)) →
    RdSel.wfJEvents partons base (jselEventsOf es) = true
  | [], _, _, _ => rfl
  | e :: es, base, hok, hlab => by
    have he := hok e (by simp)
    obtain ⟨sep, hsep, hh⟩ := he.shape
    have hl0 : e.label = (base : Int) := by
      have := hlab 0 (by simp)
      simpa only [List.getElem_cons_zero, Nat.add_zero] using this
    have ih := wfJEvents_text partons es (base + 1) (fun e' he' => hok e' (by simp [he'])) (by
      intro i hi
      have := hlab (i + 1) (by simp; omega)
      simp only [List.getElem_cons_succ] at this
      rw [this]; congr 1; omega)
    obtain ⟨h1, h2, h3, h4, h5, h6, h7⟩ := jet_header_line partons hsep e.label e.parts.length
    rw [← hh] at h1 h2 h3 h4 h5 h6 h7
    have hk : RdSel.defString partons (analyse e.header) = true := by
      cases partons <;> simp [RdSel.defString, h6, h7]
    have hparts : (e.parts.map (fun r => analyse (" ".intercalate r))).all RdSel.isJPart = true := by
      simp only [List.all_map, List.all_eq_true]
      intro r hr
      obtain ⟨r1, r2, r3⟩ := he.rows r hr
      have hne : r ≠ [] := by rintro rfl; simp at r1
      simp only [Function.comp, analyse_particle_line hne r2]
      simp [RdSel.isJPart, r1]
      exact r3
    simp only [jselEventsOf, List.map_cons, RdSel.wfJEvents, RdSel.wfJEvent, Bool.and_eq_true, List.length_map]
    refine ⟨⟨?_, hparts⟩, ih⟩
    simp only [RdSel.isJHdr, h1, h2, h3, h4, h5, hk, hl0.symm, Bool.and_eq_true]
    simp [jetHdrToks, RdSel.tokInt, pyInt?_int_repr, pyInt?_nat_repr]

/-- **bridge (JETSCAPE)** -/
theorem WFJetscape_text (F : JetSpec) (hg : grammarJet F = true) (hwf : wfJetSeq F) :
    RdSel.WFJetscape (Proto.fileOfText (jetText F)) F.partons (jselEvents F) ∧ (jselEvents F).length = F.events.length := by
  obtain ⟨hk, n1, s1, f1, s2, f2, ⟨sep, hsep, htr⟩, hev⟩ := grammarJet_unpack hg
  obtain ⟨hne, hlab⟩ := hwf
  refine ⟨⟨analyse F.h1, analyse F.trailer, ?_, ?_⟩, by simp [jselEvents, jselEventsOf]⟩
  · rw [fileOfText_jetText F hg]
    simp only [jetLinesText, List.map_cons, jselEvents]
    rw [jLines_text]
  · have hj := jet_head_obs F hg
    simp only [isJHead] at hj
    have hw := wfJEvents_text F.partons F.events 1 hev (by intro i h; rw [hlab i h]; congr 1; omega)
    obtain ⟨t1, t2, t3, t4, _, _, _⟩ := jet_trailer_line hsep s1 s2 f1 f2
    rw [← htr] at t1 t2 t3 t4
    have hd : RdSel.defString F.partons (analyse F.trailer) = false := by
      cases F.partons <;> simp [RdSel.defString, t3, t4]
    have hne' : (jselEvents F).isEmpty = false := by
      cases hE : F.events with
      | nil => exact absurd hE hne
      | cons _ _ => simp [jselEvents, jselEventsOf, hE]
    simp only [RdSel.wfJetscapeB, RdSel.isJTrailer, jselEvents, hw, t1, t2, hd, Bool.and_eq_true, Bool.not_false, and_true]
    refine ⟨?_, by simpa [jselEvents] using hne'⟩
    simpa [RdSel.defString, hasKey] using hj

end SparkxVerif.Bridge
