/-
Lemmas for C06: bookkeeping along filter histories.
`Inv` (Oscar): the events held, `event_origin_` and `impact_parameters_` stay aligned with the *tagged* specification
run (every event tagged with the position in the input file of the event it came from), for every history that leaves
at least one event (`run_inv`); hence the object stays writable (`inv_wf`) and every event is written with its own end
line (`inv_own_footer`).  JETSCAPE: the object stays writable along every history (`jet_run_wf`).
-/
import SparkxVerif.Lemmas.WriterFixJet

set_option linter.unusedSimpArgs false
set_option linter.unusedVariables false

namespace SparkxVerif.Wr
open SparkxVerif.Rd SparkxVerif.Gen.WriterTables

variable {R V : Type}

/-- specification side: the events held, each tagged with the position (in the input file) of the event it came
from.  Filters act on the events; the tags are never touched. -/
abbrev Tagged (R : Type) := List (Nat × List R)

def stepTagged : Op R → Tagged R → Tagged R
  | .part p, tg => tg.map (fun t => (t.1, t.2.filter p))
  | .evcut q, tg => tg.filter (fun t => q t.2)

def runTagged (ops : List (Op R)) (tg : Tagged R) : Tagged R := ops.foldl (fun t op => stepTagged op t) tg

def OscarObj.run (o : OscarObj R) (ops : List (Op R)) : Except WErr (OscarObj R) :=
  ops.foldlM (fun o op => o.step op) o

def JetObj.run (j : JetObj R) (ops : List (Op R)) : Except WErr (JetObj R) :=
  ops.foldlM (fun j op => j.step op) j

/-- what the bookkeeping of the repaired `Oscar` maintains along any history that leaves at least one event -/
structure Inv (vals : R → List V) (n : Nat) (o : OscarObj R) (tg : Tagged R) : Prop where
  ne_nil : tg ≠ []
  events : o.events = tg.map (·.2)
  origin : o.origin = tg.map (·.1)
  impact : o.impactIdx = tg.map (·.1)
  ne : o.numEvents = tg.length
  counts : ∃ first, o.counts = .arr2d (relabelRows first 0 o.events)
  tags_lt : ∀ t ∈ tg, t.1 < o.endLines.length
  cols : ∀ t ∈ tg, ∀ r ∈ t.2, (vals r).length = n

theorem stepTagged_nil (op : Op R) : stepTagged op ([] : Tagged R) = [] := by cases op <;> rfl

theorem runTagged_nil (ops : List (Op R)) : runTagged ops ([] : Tagged R) = [] := by
  induction ops with
  | nil => rfl
  | cons op ops ih => simp [runTagged, stepTagged_nil] at ih ⊢; exact ih

theorem relabel_ok (s : Store R) (first : Int) (evs' : List (List R)) (hc : s.counts = .arr2d (relabelRows first 0 s.events))
    (hne : s.events ≠ []) (hne' : evs' ≠ []) :
    relabel s evs' = .ok { events := evs', numEvents := evs'.length, counts := .arr2d (relabelRows (first + 0) 0 evs') } := by
  cases hs : s.events with
  | nil => exact absurd hs hne
  | cons ev evs =>
    cases evs' with
    | nil => exact absurd rfl hne'
    | cons e es =>
      simp only [relabel, hc, hs, relabelRows, countsLen, List.length_cons]
      simp

theorem zip_fst_snd {α β : Type} (l : List (α × β)) : (l.map (·.1)).zip (l.map (·.2)) = l := by
  induction l with
  | nil => rfl
  | cons a l ih => simp [ih]

theorem keepAligned_tagged {α : Type} (tg : List (α × List R)) (q : List R → Bool) :
    keepAligned (tg.map (·.1)) (tg.map (·.2)) q = (tg.filter (fun t => q t.2)).map (·.1) := by
  simp [keepAligned, zip_fst_snd]

theorem step_inv (vals : R → List V) (n : Nat) (o : OscarObj R) (tg : Tagged R) (op : Op R)
    (h : Inv vals n o tg) (hadm : stepTagged op tg ≠ []) :
    ∃ o', o.step op = .ok o' ∧ Inv vals n o' (stepTagged op tg)
      ∧ o'.endLines = o.endLines ∧ o'.fmt = o.fmt ∧ o'.attrs = o.attrs ∧ o'.header = o.header := by
  obtain ⟨first, hc⟩ := h.counts
  have hev_ne : o.events ≠ [] := by rw [h.events]; simpa using h.ne_nil
  cases op with
  | part p =>
    have happ : applyOp (Op.part p) o.events = (stepTagged (Op.part p) tg).map (·.2) := by
      simp [applyOp, stepTagged, h.events, List.map_map, Function.comp_def]
    have hne' : applyOp (Op.part p) o.events ≠ [] := by rw [happ]; simpa using hadm
    have hr := relabel_ok o.toStore first _ hc hev_ne hne'
    let st' : Store R := { events := applyOp (Op.part p) o.events, numEvents := (applyOp (Op.part p) o.events).length,
                           counts := .arr2d (relabelRows (first + 0) 0 (applyOp (Op.part p) o.events)) }
    refine ⟨{ o with toStore := st' }, by simp only [OscarObj.step, hr, bind, Except.bind, pure, Except.pure, st'],
      ?_, rfl, rfl, rfl, rfl⟩
    refine ⟨hadm, happ, ?_, ?_, ?_, ⟨first + 0, rfl⟩, ?_, ?_⟩
    · simp [stepTagged, h.origin, List.map_map, Function.comp_def]
    · simp [stepTagged, h.impact, List.map_map, Function.comp_def]
    · simp only [st']; rw [happ]; simp
    · intro t ht; simp only [stepTagged, List.mem_map] at ht
      obtain ⟨t0, ht0, rfl⟩ := ht; exact h.tags_lt t0 ht0
    · intro t ht r hr'; simp only [stepTagged, List.mem_map] at ht
      obtain ⟨t0, ht0, rfl⟩ := ht
      exact h.cols t0 ht0 r (List.mem_filter.mp hr').1
  | evcut q =>
    have hfil : o.events.filter q = (stepTagged (Op.evcut q) tg).map (·.2) := by
      simp [stepTagged, h.events, List.filter_map, Function.comp_def]
    have hne0 : o.events.filter q ≠ [] := by rw [hfil]; simpa using hadm
    have happ : applyOp (Op.evcut q) o.events = (stepTagged (Op.evcut q) tg).map (·.2) := by
      have : (o.events.filter q).isEmpty = false := by
        cases hq : o.events.filter q with
        | nil => exact absurd hq hne0
        | cons _ _ => rfl
      simp only [applyOp, this, Bool.false_eq_true, ↓reduceIte]; exact hfil
    have hne' : applyOp (Op.evcut q) o.events ≠ [] := by rw [happ]; simpa using hadm
    have hr := relabel_ok o.toStore first _ hc hev_ne hne'
    have ho : keepAligned o.origin o.events q = (stepTagged (Op.evcut q) tg).map (·.1) := by
      rw [h.origin, h.events]; exact keepAligned_tagged tg q
    have hi : keepAligned o.impactIdx o.events q = (stepTagged (Op.evcut q) tg).map (·.1) := by
      rw [h.impact, h.events]; exact keepAligned_tagged tg q
    let st' : Store R := { events := applyOp (Op.evcut q) o.events, numEvents := (applyOp (Op.evcut q) o.events).length,
                           counts := .arr2d (relabelRows (first + 0) 0 (applyOp (Op.evcut q) o.events)) }
    refine ⟨{ o with toStore := st', origin := keepAligned o.origin o.events q,
                     impactIdx := keepAligned o.impactIdx o.events q },
      by simp only [OscarObj.step, hr, cutsKeepMetadata, bind, Except.bind, pure, Except.pure, ↓reduceIte, st'],
      ?_, rfl, rfl, rfl, rfl⟩
    refine ⟨hadm, happ, ho, hi, ?_, ⟨first + 0, rfl⟩, ?_, ?_⟩
    · simp only [st']; rw [happ]; simp
    · intro t ht; exact h.tags_lt t (List.mem_filter.mp ht).1
    · intro t ht; exact h.cols t (List.mem_filter.mp ht).1

theorem run_inv (vals : R → List V) (n : Nat) (ops : List (Op R)) : ∀ (o : OscarObj R) (tg : Tagged R),
    Inv vals n o tg → runTagged ops tg ≠ [] →
    ∃ o', o.run ops = .ok o' ∧ Inv vals n o' (runTagged ops tg)
      ∧ o'.endLines = o.endLines ∧ o'.fmt = o.fmt ∧ o'.attrs = o.attrs ∧ o'.header = o.header := by
  induction ops with
  | nil => intro o tg h _; exact ⟨o, rfl, h, rfl, rfl, rfl, rfl⟩
  | cons op ops ih =>
    intro o tg h hne
    have hadm : stepTagged op tg ≠ [] := by
      intro h0
      apply hne
      simp only [runTagged, List.foldl_cons, h0]
      exact runTagged_nil ops
    obtain ⟨o1, hs1, hi1, e1, e2, e3, e4⟩ := step_inv vals n o tg op h hadm
    obtain ⟨o2, hs2, hi2, f1, f2, f3, f4⟩ := ih o1 (stepTagged op tg) hi1 (by simpa [runTagged] using hne)
    refine ⟨o2, ?_, by simpa [runTagged] using hi2, f1.trans e1, f2.trans e2, f3.trans e3, f4.trans e4⟩
    simp only [OscarObj.run, List.foldlM_cons, hs1, bind, Except.bind] at hs2 ⊢
    exact hs2

/-- the invariant gives the writer's well-formedness (the remaining conditions are constants of the object) -/
theorem inv_wf (vals : R → List V) (custom : List Spec) (n : Nat) (o : OscarObj R) (tg : Tagged R)
    (h : Inv vals n o tg) (hfmt : o.fmt = .oscar2013 ∨ o.fmt = .extended ∨ o.fmt = .ascii)
    (hcustom : oscarCustom o.fmt o.attrs = .ok custom) (hlen : (specsOf o.fmt custom n).length = n) :
    OscarWF vals custom n o := by
  refine ⟨?_, ?_, h.counts, ?_, ?_, ?_, hfmt, hcustom, hlen⟩
  · rw [h.events]; simpa using h.ne_nil
  · rw [h.ne, h.events]; simp
  · rw [h.origin, h.events]; simp
  · intro j hj; rw [h.origin] at hj; simp only [List.mem_map] at hj
    obtain ⟨t, ht, rfl⟩ := hj; exact h.tags_lt t ht
  · intro ev hev r hr; rw [h.events] at hev; simp only [List.mem_map] at hev
    obtain ⟨t, ht, rfl⟩ := hev; exact h.cols t ht r hr

/-- **own end line.**  Along any history the end line written after the `i`-th event held is the end line (of the
input file) of the event it came from — `tg[i].1` is that event's position in the file — carrying the number `i`. -/
theorem inv_own_footer (vals : R → List V) (n : Nat) (o : OscarObj R) (tg : Tagged R) (h : Inv vals n o tg)
    (i : Nat) (hi : i < tg.length) :
    footOf o i = substLabel 2 i (o.endLines.getD (tg[i]).1 "") := by
  simp [footOf, h.origin, hi]

/-- the impact parameter list stays aligned as well -/
theorem inv_impact (vals : R → List V) (n : Nat) (o : OscarObj R) (tg : Tagged R) (h : Inv vals n o tg) :
    o.impactIdx = tg.map (·.1) := h.impact

/-! ### JETSCAPE: the bookkeeping keeps the object writable along every history (also when nothing is left) -/

theorem applyOp_ne_nil (op : Op R) (evs : List (List R)) (h : evs ≠ []) : applyOp op evs ≠ [] := by
  cases op with
  | part p => simpa [applyOp] using h
  | evcut q =>
    simp only [applyOp]
    split
    · simp
    · rename_i hq; intro h0; simp [h0] at hq

theorem applyOp_rows (op : Op R) (evs : List (List R)) (P : R → Prop) (h : ∀ ev ∈ evs, ∀ r ∈ ev, P r) :
    ∀ ev ∈ applyOp op evs, ∀ r ∈ ev, P r := by
  cases op with
  | part p =>
    intro ev hev r hr
    simp only [applyOp, List.mem_map] at hev
    obtain ⟨e0, he0, rfl⟩ := hev
    exact h e0 he0 r (List.mem_filter.mp hr).1
  | evcut q =>
    intro ev hev r hr
    simp only [applyOp] at hev
    split at hev
    · simp at hev; subst hev; simp at hr
    · exact h ev (List.mem_filter.mp hev).1 r hr

theorem jet_step_wf (vals : R → List V) (j : JetObj R) (op : Op R) (wf : JetWF vals j) :
    ∃ j', j.step op = .ok j' ∧ JetWF vals j' ∧ j'.events = applyOp op j.events
      ∧ j'.defStr = j.defStr ∧ j'.headerLine = j.headerLine ∧ j'.lastLine = j.lastLine := by
  obtain ⟨first, hc⟩ := wf.counts
  have hne' := applyOp_ne_nil op j.events wf.nonempty
  have hr := relabel_ok j.toStore first _ hc wf.nonempty hne'
  let st' : Store R := { events := applyOp op j.events, numEvents := (applyOp op j.events).length,
                         counts := .arr2d (relabelRows (first + 0) 0 (applyOp op j.events)) }
  refine ⟨{ j with toStore := st' }, by simp only [JetObj.step, hr, bind, Except.bind, pure, Except.pure, st'],
    ⟨hne', rfl, ⟨first + 0, rfl⟩, applyOp_rows op j.events _ wf.cols⟩, rfl, rfl, rfl, rfl⟩

theorem jet_run_wf (vals : R → List V) (ops : List (Op R)) : ∀ (j : JetObj R), JetWF vals j →
    ∃ j', j.run ops = .ok j' ∧ JetWF vals j' ∧ j'.events = ops.foldl (fun e op => applyOp op e) j.events
      ∧ j'.defStr = j.defStr ∧ j'.headerLine = j.headerLine ∧ j'.lastLine = j.lastLine := by
  induction ops with
  | nil => intro j wf; exact ⟨j, rfl, wf, rfl, rfl, rfl, rfl⟩
  | cons op ops ih =>
    intro j wf
    obtain ⟨j1, hs1, wf1, e0, e1, e2, e3⟩ := jet_step_wf vals j op wf
    obtain ⟨j2, hs2, wf2, f0, f1, f2, f3⟩ := ih j1 wf1
    refine ⟨j2, ?_, wf2, by rw [f0, e0]; rfl, f1.trans e1, f2.trans e2, f3.trans e3⟩
    simp only [JetObj.run, List.foldlM_cons, hs1, bind, Except.bind] at hs2 ⊢
    exact hs2

end SparkxVerif.Wr
