import SparkxVerif.Lemmas.QC

open ComplexConjugate Finset BigOperators
open SparkxVerif.QC SparkxVerif.Cx SparkxVerif.QCL

namespace SparkxVerif.QCD

/-- slot label of a differential correlator: integer harmonic exponent, and whether the slot is
restricted to particles of interest. Merging two slots adds exponents and keeps the restriction. -/
structure Slot where
  e : ℤ
  p : Bool
deriving DecidableEq, Inhabited

instance : Add Slot := ⟨fun a b => ⟨a.e + b.e, a.p || b.p⟩⟩

@[simp] theorem add_e (a b : Slot) : (a + b).e = a.e + b.e := rfl
@[simp] theorem add_p (a b : Slot) : (a + b).p = (a.p || b.p) := rfl
@[simp] theorem mk_add (a b : ℤ) (p q : Bool) : (⟨a, p⟩ : Slot) + ⟨b, q⟩ = ⟨a + b, p || q⟩ := rfl

variable {M : ℕ}

/-- `z_j^e`, times the POI indicator if the slot is restricted -/
noncomputable def pw (z : Fin M → ℂ) (χ : Fin M → Bool) (s : Slot) (j : Fin M) : ℂ :=
  z j ^ s.e * (if s.p && !χ j then 0 else 1)

theorem pw_add (z : Fin M → ℂ) (hz : ∀ j, z j * conj (z j) = 1) (χ : Fin M → Bool) (a b : Slot) (j : Fin M) :
    pw z χ (a + b) j = pw z χ a j * pw z χ b j := by
  unfold pw
  rw [add_e, zpow_add₀ (unit_ne_zero (hz j)), add_p]
  cases a.p <;> cases b.p <;> cases χ j <;> simp

/-- power sums: `B ⟨a,false⟩ = Σ_j z_j^a` (whole event), `B ⟨a,true⟩ = Σ_{j ∈ POI} z_j^a` -/
noncomputable def B (z : Fin M → ℂ) (χ : Fin M → Bool) (s : Slot) : ℂ := ∑ j, pw z χ s j

theorem tuple_eq_Dexp (z : Fin M → ℂ) (hz : ∀ j, z j * conj (z j) = 1) (χ : Fin M → Bool)
    (k : ℕ) (a : Fin k → Slot) :
    tupleSum k (fun i j => pw z χ (a i) j) = Dexp (B z χ) (List.ofFn a) :=
  tupleSum_eq_Dexp (R := ℂ) (pw z χ) (pw_add z hz χ) k a

theorem B_neg (z : Fin M → ℂ) (hz : ∀ j, z j * conj (z j) = 1) (χ : Fin M → Bool) (a : ℤ) (p : Bool) :
    B z χ ⟨-a, p⟩ = conj (B z χ ⟨a, p⟩) := by
  unfold B pw
  rw [map_sum]
  apply Finset.sum_congr rfl
  intro j _
  simp only [map_mul]
  rw [zpow_neg, ← inv_zpow, unit_inv (hz j), map_zpow₀]
  congr 1
  split <;> simp

/-- the defining differential correlator: sum over tuples of distinct particles whose FIRST particle is a
particle of interest, of `cos (Σ_i a_i θ_{t i})` -/
noncomputable def dcosTuple (k : ℕ) (a : Fin (k + 1) → ℤ) (θ : Fin M → ℝ) (χ : Fin M → Bool) : ℝ :=
  ∑ t : Fin (k + 1) → Fin M,
    if Function.Injective t ∧ χ (t 0) = true then Real.cos (∑ i, (a i : ℝ) * θ (t i)) else 0

/-- slots of a differential correlator: the first one restricted to POI -/
def slots {k : ℕ} (a : Fin (k + 1) → ℤ) : Fin (k + 1) → Slot := fun i => ⟨a i, decide (i = 0)⟩

theorem dcosTuple_eq (k : ℕ) (a : Fin (k + 1) → ℤ) (θ : Fin M → ℝ) (χ : Fin M → Bool) :
    dcosTuple k a θ χ =
      (tupleSum (k + 1) (fun i j => pw (fun j => Complex.exp (θ j * Complex.I)) χ (slots a i) j)).re := by
  unfold dcosTuple tupleSum
  rw [Complex.re_sum]
  apply Finset.sum_congr rfl
  intro t _
  by_cases hinj : Function.Injective t
  · simp only [hinj, true_and, if_true]
    have hprod : ∏ i, pw (fun j => Complex.exp (θ j * Complex.I)) χ (slots a i) (t i)
        = (∏ i, Complex.exp (θ (t i) * Complex.I) ^ a i) * (if χ (t 0) then 1 else 0) := by
      unfold pw slots
      rw [Finset.prod_mul_distrib]
      congr 1
      rw [Fin.prod_univ_succ]
      have : ∀ i : Fin k, (decide (i.succ = (0 : Fin (k+1))) && !χ (t i.succ)) = false := by
        intro i; simp [Fin.succ_ne_zero]
      simp only [this]
      cases χ (t 0) <;> simp
    have hexp : ∏ i, Complex.exp (θ (t i) * Complex.I) ^ a i
        = Complex.exp (((∑ i, (a i : ℝ) * θ (t i) : ℝ) : ℂ) * Complex.I) := by
      rw [Complex.ofReal_sum, Finset.sum_mul, Complex.exp_sum]
      apply Finset.prod_congr rfl
      intro i _
      rw [← Complex.exp_int_mul]
      congr 1
      push_cast
      ring
    rw [hprod, hexp]
    cases χ (t 0)
    · simp
    · simp only [if_true, mul_one]
      rw [Complex.exp_ofReal_mul_I_re]
  · simp [hinj]

def zsP (e : PEvent ℝ) : Fin e.length → ℂ := fun j => toC e[j.1].1
def chi (e : PEvent ℝ) : Fin e.length → Bool := fun j => e[j.1].2
def IsUnitP (e : PEvent ℝ) : Prop := ∀ p ∈ e, Cx.normSq p.1 = 1

theorem zsP_unit {e : PEvent ℝ} (he : IsUnitP e) (j : Fin e.length) : zsP e j * conj (zsP e j) = 1 := by
  unfold zsP
  rw [← ofReal_normSq, he _ (List.getElem_mem _)]
  simp

theorem toC_Qm_full (m : ℕ) (e : PEvent ℝ) : toC (Qm m (full e)) = B (zsP e) (chi e) ⟨m, false⟩ := by
  unfold Qm full B pw zsP
  rw [toC_sum, List.map_map, List.map_map, ← Fin.sum_univ_fun_getElem]
  simp

theorem sum_filter_map {ι : Type} (l : List ι) (p : ι → Bool) (f : ι → ℂ) :
    ((l.filter p).map f).sum = (l.map (fun x => if p x then f x else 0)).sum := by
  induction l with
  | nil => simp
  | cons a l ih =>
    by_cases h : p a <;> simp [List.filter_cons, h, ih]

theorem toC_Qm_poi (m : ℕ) (e : PEvent ℝ) : toC (Qm m (poi e)) = B (zsP e) (chi e) ⟨m, true⟩ := by
  unfold Qm poi B pw zsP chi
  rw [toC_sum, List.map_map, List.map_map, sum_filter_map, ← Fin.sum_univ_fun_getElem]
  apply Finset.sum_congr rfl
  intro j _
  cases h : (e[j.1]).2 <;> simp [h]

theorem mult_full (e : PEvent ℝ) : ((mult (full e) : ℝ) : ℂ) = B (zsP e) (chi e) ⟨0, false⟩ := by
  simp [mult, nat, full, B, pw]

theorem mult_poi (e : PEvent ℝ) : ((mult (poi e) : ℝ) : ℂ) = B (zsP e) (chi e) ⟨0, true⟩ := by
  have := toC_Qm_poi 0 e
  simp only [Nat.cast_zero] at this
  rw [← this]
  unfold Qm
  have h : ∀ l : List (Cx ℝ), ((l.length : ℝ) : ℂ) = (l.map (toC ∘ fun u => u.cpow 0)).sum := by
    intro l
    induction l with
    | nil => simp
    | cons a l ih => simp only [List.length_cons, List.map_cons, List.sum_cons, ← ih]; simp [Cx.cpow]; ring
  simp [mult, nat, toC_sum, h]

theorem dnum2_eq {e : PEvent ℝ} (he : IsUnitP e) :
    toC (dnum2 e) = Dexp (B (zsP e) (chi e)) [⟨1, true⟩, ⟨-1, false⟩] := by
  have hm1 := B_neg (zsP e) (zsP_unit he) (chi e) 1 false
  unfold dnum2
  simp only [toC_sub, toC_mul, toC_conj, toC_ofReal, toC_Qm_full, toC_Qm_poi, mult_poi]
  simp [Dexp, hm1]

theorem w2_eq (e : PEvent ℝ) :
    ((w2 e : ℝ) : ℂ) = Dexp (B (zsP e) (chi e)) [⟨0, true⟩, ⟨0, false⟩] := by
  unfold w2
  push_cast
  simp only [mult_full, mult_poi]
  simp [Dexp]

set_option maxHeartbeats 1600000 in
theorem dnum4_eq' {e : PEvent ℝ} (he : IsUnitP e) :
    toC (dnum4 e) = Dexp (B (zsP e) (chi e)) [⟨1, true⟩, ⟨1, false⟩, ⟨-1, false⟩, ⟨-1, false⟩]
      + 3 * (B (zsP e) (chi e) ⟨1, true⟩ * conj (B (zsP e) (chi e) ⟨1, false⟩)
             - conj (B (zsP e) (chi e) ⟨1, true⟩ * conj (B (zsP e) (chi e) ⟨1, false⟩))) := by
  have hm1 := B_neg (zsP e) (zsP_unit he) (chi e) 1 false
  have hm2 := B_neg (zsP e) (zsP_unit he) (chi e) 2 false
  have hm1t := B_neg (zsP e) (zsP_unit he) (chi e) 1 true
  unfold dnum4
  simp only [nat, toC_sub, toC_add, toC_mul, toC_conj, toC_ofReal, toC_smul, toC_Qm_full, toC_Qm_poi]
  push_cast
  simp only [mult_poi, mult_full]
  simp [Dexp, List.range_succ, hm1, hm2, hm1t]
  ring1

/-- Eq. (32) as coded differs from the tuple sum by a purely imaginary term (`7 q Q* − Q q*` versus
`4 q Q* + 2 Q q*`); only the real part enters the flow. -/
theorem dnum4_eq {e : PEvent ℝ} (he : IsUnitP e) :
    (toC (dnum4 e)).re = (Dexp (B (zsP e) (chi e)) [⟨1, true⟩, ⟨1, false⟩, ⟨-1, false⟩, ⟨-1, false⟩]).re := by
  rw [dnum4_eq' he]
  simp

theorem w4_eq (e : PEvent ℝ) :
    ((w4 e : ℝ) : ℂ) = Dexp (B (zsP e) (chi e)) [⟨0, true⟩, ⟨0, false⟩, ⟨0, false⟩, ⟨0, false⟩] := by
  unfold w4
  simp only [nat]
  push_cast
  simp only [mult_full, mult_poi]
  simp [Dexp, List.range_succ]
  ring1

end SparkxVerif.QCD
