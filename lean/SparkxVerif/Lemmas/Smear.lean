/-
Helper lemmas for C16 (`Core/Smear.lean` at a linearly ordered field): list bookkeeping of the
flat grid, `argmin`, `np.linspace` as an affine grid, and the index arithmetic of the placement.
-/
import SparkxVerif.Core.Smear
import SparkxVerif.Lemmas.Num
import Mathlib.Algebra.Order.Field.Basic
import Mathlib.Algebra.BigOperators.Group.List.Basic
import Mathlib.Data.List.Perm.Basic
import Mathlib.Tactic.Linarith
import Mathlib.Tactic.Ring
import Mathlib.Tactic.FieldSimp
import Mathlib.Tactic.Positivity
set_option linter.unusedSectionVars false

namespace SparkxVerif.Smear
open List


section lists
variable {K : Type} [Field K] [LinearOrder K] [IsStrictOrderedRing K]

@[simp] theorem zero_eq : (zero : K) = 0 := by simp [zero]

theorem absV_eq_abs (x : K) : absV x = |x| := by
  unfold absV
  split_ifs with h
  · rw [zero_eq] at h; exact (abs_of_neg h).symm
  · rw [zero_eq] at h; exact (abs_of_nonneg (not_lt.mp h)).symm

theorem total_eq_sum (g : List K) : total g = g.sum := by simp [total]

theorem sum_modify_add (l : List K) (i : ℕ) (v : K) :
    (l.modify i (fun old => old + v)).sum = l.sum + (if i < l.length then v else 0) := by
  induction l generalizing i with
  | nil => simp
  | cons a l ih =>
    cases i with
    | zero => simp [List.modify]; ring
    | succ i => simp [List.modify_succ_cons, ih, add_assoc]

theorem length_addAt (g : List K) (d : ℕ × K) : (addAt g d).length = g.length := by
  simp [addAt]

theorem length_foldl_addAt (ds : List (ℕ × K)) (g : List K) : (ds.foldl addAt g).length = g.length := by
  induction ds generalizing g with
  | nil => rfl
  | cons d ds ih => simp [ih, length_addAt]

theorem sum_addAt (g : List K) (d : ℕ × K) :
    (addAt g d).sum = g.sum + (if d.1 < g.length then d.2 else 0) := by
  simp [addAt, sum_modify_add]

/-- all deposits hit existing nodes: the grid total grows by the sum of the deposits -/
theorem sum_foldl_addAt_valid (ds : List (ℕ × K)) (g : List K) (h : ∀ d ∈ ds, d.1 < g.length) :
    (ds.foldl addAt g).sum = g.sum + (ds.map Prod.snd).sum := by
  induction ds generalizing g with
  | nil => simp
  | cons d ds ih =>
    have hd : d.1 < g.length := h d (by simp)
    rw [List.foldl_cons, ih]
    · simp [sum_addAt, hd, add_assoc]
    · intro e he; rw [length_addAt]; exact h e (by simp [he])

/-- non-negative deposits: the grid total grows by at most the sum of the deposits, and does not shrink -/
theorem sum_foldl_addAt_le (ds : List (ℕ × K)) (g : List K) (h : ∀ d ∈ ds, 0 ≤ d.2) :
    g.sum ≤ (ds.foldl addAt g).sum ∧ (ds.foldl addAt g).sum ≤ g.sum + (ds.map Prod.snd).sum := by
  induction ds generalizing g with
  | nil => simp
  | cons d ds ih =>
    have hd : 0 ≤ d.2 := h d (by simp)
    have := ih (addAt g d) (fun e he => h e (by simp [he]))
    rw [List.foldl_cons]
    rw [sum_addAt] at this
    simp only [List.map_cons, List.sum_cons]
    split_ifs at this <;> constructor <;> linarith [this.1, this.2]

theorem addAt_comm (g : List K) (a b : ℕ × K) : addAt (addAt g a) b = addAt (addAt g b) a := by
  apply List.ext_getElem?
  intro j
  simp only [addAt, List.getElem?_modify]
  cases g[j]? with
  | none => simp
  | some x =>
    simp only [Option.map_eq_map, Option.map_some]
    by_cases h1 : a.1 = j <;> by_cases h2 : b.1 = j <;> simp [h1, h2, add_right_comm]

instance : RightCommutative (addAt : List K → ℕ × K → List K) := ⟨fun g a b => addAt_comm g a b⟩

theorem addAt_zipWith (g h : List K) (d : ℕ × K) :
    addAt (List.zipWith (· + ·) g h) d = List.zipWith (· + ·) g (addAt h d) := by
  apply List.ext_getElem?
  intro j
  simp only [addAt, List.getElem?_modify, List.getElem?_zipWith]
  cases g[j]? <;> cases h[j]? <;> simp
  split_ifs <;> simp [add_assoc]

theorem foldl_addAt_zipWith (ds : List (ℕ × K)) (g h : List K) :
    ds.foldl addAt (List.zipWith (· + ·) g h) = List.zipWith (· + ·) g (ds.foldl addAt h) := by
  induction ds generalizing h with
  | nil => rfl
  | cons d ds ih => simp [addAt_zipWith, ih]

end lists


section argmin
variable {K : Type} [LinearOrder K]

theorem argminAux_bound (ds : List K) (best : K) (bi i : ℕ) :
    argminAux best bi i ds = bi ∨ (i ≤ argminAux best bi i ds ∧ argminAux best bi i ds < i + ds.length) := by
  induction ds generalizing best bi i with
  | nil => left; rfl
  | cons d ds ih =>
    simp only [argminAux]
    split_ifs with h
    · right
      rcases ih d i (i + 1) with h1 | ⟨h1, h2⟩
      · rw [h1]; simp
      · simp only [List.length_cons]; omega
    · rcases ih best bi (i + 1) with h1 | ⟨h1, h2⟩
      · left; exact h1
      · right; simp only [List.length_cons]; omega

theorem argminFirst_lt (ds : List K) (h : ds ≠ []) : argminFirst ds < ds.length := by
  cases ds with
  | nil => exact absurd rfl h
  | cons d ds =>
    simp only [argminFirst, List.length_cons]
    rcases argminAux_bound ds d 0 1 with h1 | ⟨_, h2⟩ <;> omega

theorem argminAux_keep (ds : List K) (best : K) (bi i : ℕ) (h : ∀ d ∈ ds, best ≤ d) :
    argminAux best bi i ds = bi := by
  induction ds generalizing i with
  | nil => rfl
  | cons d ds ih =>
    have hd : ¬ d < best := not_lt.mpr (h d (by simp))
    simp only [argminAux, hd, if_false]
    exact ih _ (fun e he => h e (by simp [he]))

theorem argminAux_unique (ds : List K) (best : K) (bi i j : ℕ) (hj : j < ds.length)
    (hlt : ds[j] < best) (hmin : ∀ q (hq : q < ds.length), q ≠ j → ds[j] < ds[q]) :
    argminAux best bi i ds = i + j := by
  induction ds generalizing best bi i j with
  | nil => simp at hj
  | cons d ds ih =>
    cases j with
    | zero =>
      simp only [List.getElem_cons_zero] at hlt
      simp only [argminAux, hlt, if_true]
      rw [argminAux_keep]; · rfl
      intro e he
      obtain ⟨q, hq, rfl⟩ := List.getElem_of_mem he
      have := hmin (q + 1) (by simp; omega) (by omega)
      simpa using this.le
    | succ j =>
      have hj' : j < ds.length := by simpa using hj
      have h0 : (d :: ds)[j + 1] < d := by
        have := hmin 0 (by simp) (by omega)
        simpa using this
      have hmin' : ∀ q (hq : q < ds.length), q ≠ j → ds[j] < ds[q] := by
        intro q hq hne
        have := hmin (q + 1) (by simp; omega) (by omega)
        simpa using this
      simp only [List.getElem_cons_succ] at hlt h0
      simp only [argminAux]
      split_ifs with h
      · rw [ih d i (i + 1) j hj' h0 hmin']; omega
      · rw [ih best bi (i + 1) j hj' hlt hmin']; omega

/-- a strict, unique minimum is what `argmin` returns -/
theorem argminFirst_unique (ds : List K) (m : ℕ) (hm : m < ds.length)
    (hmin : ∀ q (hq : q < ds.length), q ≠ m → ds[m] < ds[q]) : argminFirst ds = m := by
  cases ds with
  | nil => simp at hm
  | cons d ds =>
    cases m with
    | zero =>
      simp only [argminFirst]
      apply argminAux_keep
      intro e he
      obtain ⟨q, hq, rfl⟩ := List.getElem_of_mem he
      have := hmin (q + 1) (by simp; omega) (by omega)
      simpa using this.le
    | succ m =>
      have hm' : m < ds.length := by simpa using hm
      simp only [argminFirst]
      rw [argminAux_unique ds d 0 1 m hm']
      · omega
      · have := hmin 0 (by simp) (by omega)
        simpa using this
      · intro q hq hne
        have := hmin (q + 1) (by simp; omega) (by omega)
        simpa using this

end argmin


section generic
variable {α : Type} [Add α] [Sub α] [Mul α] [Div α] [Neg α] [NatCast α]
theorem linspace_length (lo hi : α) (n : ℕ) : (linspace lo hi n).length = n := by
  match n with
  | 0 => rfl
  | 1 => rfl
  | m + 2 => simp [linspace]
end generic

section field
variable {K : Type} [Field K] [LinearOrder K] [IsStrictOrderedRing K]

/-- in exact arithmetic `np.linspace(lo, hi, n)` is the affine grid `lo + m·(hi-lo)/(n-1)` -/
theorem linspace_eq (lo hi : K) (k : ℕ) :
    linspace lo hi (k + 2) =
      (List.range (k + 2)).map (fun (m : ℕ) => lo + (m : K) * ((hi - lo) / ((k + 1 : ℕ) : K))) := by
  have hk : ((k + 1 : ℕ) : K) ≠ 0 := Nat.cast_ne_zero.mpr (Nat.succ_ne_zero k)
  rw [List.range_succ (n := k + 1), List.map_append]
  simp only [linspace]
  congr 1
  · apply List.map_congr_left
    intro m _
    ring
  · simp only [List.map_cons, List.map_nil, List.cons.injEq, and_true]
    field_simp
    ring

/-- an axis the constructor accepts: `x_min < x_max`, at least two nodes -/
structure Axis.WF (A : Axis K) : Prop where
  lt : A.lo < A.hi
  two : 2 ≤ A.n

/-- the exact spacing `(hi - lo)/(n - 1)` -/
noncomputable def Axis.h (A : Axis K) : K := (A.hi - A.lo) / ((A.n - 1 : ℕ) : K)

theorem Axis.WF.h_pos {A : Axis K} (w : A.WF) : 0 < A.h := by
  have : (0 : K) < ((A.n - 1 : ℕ) : K) := by
    have := w.two
    exact_mod_cast (by omega : 0 < A.n - 1)
  exact div_pos (sub_pos.mpr w.lt) this

theorem Axis.WF.values_eq {A : Axis K} (w : A.WF) :
    A.values = (List.range A.n).map (fun (m : ℕ) => A.lo + (m : K) * A.h) := by
  obtain ⟨k, hk⟩ : ∃ k, A.n = k + 2 := ⟨A.n - 2, by have := w.two; omega⟩
  unfold Axis.values Axis.h
  rw [hk, linspace_eq]
  simp

theorem Axis.WF.values_length {A : Axis K} (_w : A.WF) : A.values.length = A.n := linspace_length _ _ _

theorem Axis.WF.values_getD {A : Axis K} (w : A.WF) (m : ℕ) (hm : m < A.n) :
    A.values.getD m zero = A.lo + (m : K) * A.h := by
  rw [w.values_eq, List.getD_eq_getElem?_getD, List.getElem?_map, List.getElem?_range hm]
  rfl

theorem Axis.WF.hi_eq {A : Axis K} (w : A.WF) : A.hi = A.lo + ((A.n - 1 : ℕ) : K) * A.h := by
  have : ((A.n - 1 : ℕ) : K) ≠ 0 := by
    have := w.two
    exact_mod_cast (by omega : A.n - 1 ≠ 0)
  unfold Axis.h
  field_simp
  ring

theorem Axis.WF.spacing_eq {A : Axis K} (w : A.WF) : A.spacing = A.h := by
  have := w.two
  unfold Axis.spacing
  rw [w.values_getD 1 (by omega), w.values_getD 0 (by omega)]
  simp

/-- the temporary lattice of half-width `num` has the coordinates `(i - num)·h`, `i = 0 … 2 num` -/
theorem Axis.WF.tempCoords_eq {A : Axis K} (w : A.WF) (num : ℕ) :
    tempCoords A num = (List.range (2 * num + 1)).map (fun (i : ℕ) => ((i : K) - (num : K)) * A.h) := by
  unfold tempCoords
  rw [w.spacing_eq]
  cases num with
  | zero => simp [linspace]
  | succ k =>
    have e : 2 * (k + 1) + 1 = (2 * k + 1) + 2 := by ring
    rw [e, linspace_eq]
    apply List.map_congr_left
    intro m _
    have hk : ((2 * k + 1 + 1 : ℕ) : K) ≠ 0 := Nat.cast_ne_zero.mpr (Nat.succ_ne_zero _)
    have hk2 : ((2 * k + 1 + 1 : ℕ) : K) = 2 * ((k + 1 : ℕ) : K) := by push_cast; ring
    rw [hk2] at hk ⊢
    field_simp
    ring

theorem Axis.WF.tempCoords_getD {A : Axis K} (w : A.WF) (num i : ℕ) (hi : i < 2 * num + 1) :
    (tempCoords A num).getD i zero = ((i : K) - (num : K)) * A.h := by
  rw [w.tempCoords_eq, List.getD_eq_getElem?_getD, List.getElem?_map, List.getElem?_range hi]
  rfl

theorem Axis.WF.spacingOK {A : Axis K} (w : A.WF) (num : ℕ) : spacingOK A num = true := by
  unfold Smear.spacingOK
  cases num with
  | zero => simp
  | succ k =>
    simp only [Nat.add_one_ne_zero, if_false, decide_eq_true_eq]
    rw [w.tempCoords_getD _ 1 (by omega), w.tempCoords_getD _ 0 (by omega), w.spacing_eq, absV_eq_abs]
    have : A.h - (((1 : ℕ) : K) - ((k + 1 : ℕ) : K)) * A.h + (((0 : ℕ) : K) - ((k + 1 : ℕ) : K)) * A.h = 0 := by
      push_cast; ring
    have e : A.h - ((((1 : ℕ) : K) - ((k + 1 : ℕ) : K)) * A.h - (((0 : ℕ) : K) - ((k + 1 : ℕ) : K)) * A.h) = 0 := by
      linarith
    rw [e, abs_zero]
    simp [spacingTol]

end field

section place
variable {K : Type} [Field K] [LinearOrder K] [IsStrictOrderedRing K]

theorem Axis.WF.closest_lt {A : Axis K} (w : A.WF) (x : K) : closest A.values x < A.n := by
  have hl : (A.values.map (fun v => absV (v - x))).length = A.n := by
    rw [List.length_map, w.values_length]
  have := argminFirst_lt (A.values.map (fun v => absV (v - x))) (by
    intro h
    rw [h] at hl
    have := w.two
    simp at hl
    omega)
  rw [hl] at this
  exact this

theorem edgeTol_pos_lt {h : K} (hh : 0 < h) : 0 < (edgeTolFactor : K) * h ∧ (edgeTolFactor : K) * h < h := by
  have e : (edgeTolFactor : K) = 1 / 1000000000 := by simp [edgeTolFactor]
  rw [e]
  constructor
  · positivity
  · have : (1 / 1000000000 : K) < 1 := by norm_num
    calc (1 / 1000000000 : K) * h < 1 * h := by exact mul_lt_mul_of_pos_right this hh
      _ = h := one_mul h

/-- the node of an exact grid nearest to a grid point is that grid point -/
theorem Axis.WF.nearest_node {A : Axis K} (w : A.WF) (m : ℕ) (hm : m < A.n) :
    nearest A.values (A.lo + (m : K) * A.h) = m := by
  unfold nearest
  refine argminFirst_unique _ m (by simpa [w.values_length] using hm) ?_
  · intro q hq hne
    simp only [List.length_map, w.values_length] at hq
    simp only [List.getElem_map]
    have hv : ∀ j (hj : j < A.values.length), A.values[j] = A.lo + (j : K) * A.h := by
      intro j hj
      have h1 := w.values_getD j (by rwa [w.values_length] at hj)
      rw [List.getD_eq_getElem?_getD, List.getElem?_eq_getElem hj] at h1
      simpa using h1
    rw [hv, hv, absV_eq_abs, absV_eq_abs]
    have e1 : A.lo + (m : K) * A.h - (A.lo + (m : K) * A.h) = 0 := by ring
    have e2 : A.lo + (m : K) * A.h - (A.lo + (q : K) * A.h) = ((m : K) - (q : K)) * A.h := by ring
    rw [e1, e2, abs_zero]
    apply abs_pos.mpr
    apply mul_ne_zero
    · intro h0
      have : (m : K) = (q : K) := by linarith
      exact hne (Nat.cast_injective this).symm
    · exact w.h_pos.ne'

/-- **index arithmetic of the placement.**  In exact arithmetic temporary node `i` (of `2·num+1`) lands on
target node `closest + i - num` when that is a node of the axis and is skipped otherwise. -/
theorem Axis.WF.placeAxis_eq {A : Axis K} (w : A.WF) (num : ℕ) (x : K) :
    placeAxis A num x = (List.range (2 * num + 1)).map (fun (i : ℕ) =>
      if closest A.values x + i < num then none
      else if A.n - 1 < closest A.values x + i - num then none
      else some (closest A.values x + i - num)) := by
  unfold placeAxis
  rw [w.tempCoords_eq, List.map_map]
  apply List.map_congr_left
  intro i _
  simp only [Function.comp]
  set c := closest A.values x with hc
  have hcn : c < A.n := w.closest_lt x
  have hh := w.h_pos
  obtain ⟨htol0, htol1⟩ := edgeTol_pos_lt hh
  rw [w.values_getD c hcn, w.spacing_eq]
  set tol := (edgeTolFactor : K) * A.h
  have hn1 : ((A.n - 1 : ℕ) : K) = (A.n : K) - 1 := by
    have := w.two
    rw [Nat.cast_sub (by omega)]; simp
  have hhi := w.hi_eq
  rw [hn1] at hhi
  by_cases h1 : c + i < num
  · have hK : (c : K) + (i : K) + 1 ≤ (num : K) := by exact_mod_cast h1
    have : ((c : K) + (i : K) - (num : K) + 1) * A.h ≤ 0 :=
      mul_nonpos_of_nonpos_of_nonneg (by linarith) hh.le
    have hpos : ((i : K) - (num : K)) * A.h + (A.lo + (c : K) * A.h) < A.lo - tol := by nlinarith
    simp [h1, hpos]
  · have h1' : num ≤ c + i := not_lt.mp h1
    have hm : ((c + i - num : ℕ) : K) = (c : K) + (i : K) - (num : K) := by
      rw [Nat.cast_sub h1']; push_cast; ring
    have hposeq : ((i : K) - (num : K)) * A.h + (A.lo + (c : K) * A.h) = A.lo + ((c + i - num : ℕ) : K) * A.h := by
      rw [hm]; ring
    rw [hposeq]
    set m := c + i - num with hmdef
    have hm0 : (0 : K) ≤ (m : K) := Nat.cast_nonneg m
    have hlo : ¬ (A.lo + (m : K) * A.h < A.lo - tol) := by
      have : 0 ≤ (m : K) * A.h := mul_nonneg hm0 hh.le
      intro hlt; linarith
    by_cases h2 : A.n - 1 < m
    · have hK : (A.n : K) ≤ (m : K) := by
        have : A.n ≤ m := by have := w.two; omega
        exact_mod_cast this
      have : (A.n : K) * A.h ≤ (m : K) * A.h := mul_le_mul_of_nonneg_right hK hh.le
      have hhigh : A.hi + tol < A.lo + (m : K) * A.h := by
        rw [hhi]; nlinarith
      simp [h1, h2, hlo, hhigh]
    · have hmn : m < A.n := by have := w.two; omega
      have hK : (m : K) ≤ (A.n : K) - 1 := by
        have : m + 1 ≤ A.n := hmn
        have : ((m + 1 : ℕ) : K) ≤ (A.n : K) := by exact_mod_cast this
        push_cast at this; linarith
      have : (m : K) * A.h ≤ ((A.n : K) - 1) * A.h := mul_le_mul_of_nonneg_right hK hh.le
      have hle_hi : A.lo + (m : K) * A.h ≤ A.hi := by rw [hhi]; linarith
      have hhigh : ¬ (A.hi + tol < A.lo + (m : K) * A.h) := by intro hlt; linarith
      have hge_lo : ¬ (A.lo + (m : K) * A.h < A.lo) := by
        have : 0 ≤ (m : K) * A.h := mul_nonneg hm0 hh.le
        intro hlt; linarith
      have hclamp : minP (maxP (A.lo + (m : K) * A.h) A.lo) A.hi = A.lo + (m : K) * A.h := by
        have e1 : maxP (A.lo + (m : K) * A.h) A.lo = A.lo + (m : K) * A.h := by
          unfold maxP
          have : ¬ (A.lo + (m : K) * A.h < A.lo) := hge_lo
          simp [this]
        rw [e1]
        unfold minP
        have : ¬ (A.hi < A.lo + (m : K) * A.h) := not_lt.mpr hle_hi
        simp [this]
      simp only [h1, h2, hlo, hhigh, if_false, hclamp]
      rw [w.nearest_node m hmn]

end place

section generic
variable {α : Type} [Add α] [Sub α] [Mul α] [Div α] [Neg α] [NatCast α] [LT α] [DecidableLT α]

theorem placeAxis_length (A : Axis α) (num : ℕ) (x : α) : (placeAxis A num x).length = 2 * num + 1 := by
  simp [placeAxis, tempCoords, linspace_length]

theorem length_flatMap_const {β γ : Type} (l : List β) (f : β → List γ) (c : ℕ)
    (h : ∀ a ∈ l, (f a).length = c) : (l.flatMap f).length = l.length * c := by
  induction l with
  | nil => simp
  | cons a l ih =>
    rw [List.flatMap_cons, List.length_append, h a (by simp), ih (fun b hb => h b (by simp [hb]))]
    simp [Nat.succ_mul, Nat.add_comm]

theorem targets_length (L : Lattice α) (p : Part α) :
    (targets L p).length = (2 * p.numX + 1) * (2 * p.numY + 1) * (2 * p.numZ + 1) := by
  unfold targets
  rw [length_flatMap_const _ _ ((2 * p.numY + 1) * (2 * p.numZ + 1)), placeAxis_length, Nat.mul_assoc]
  intro a _
  rw [length_flatMap_const _ _ (2 * p.numZ + 1), placeAxis_length]
  intro b _
  rw [List.length_map, placeAxis_length]

theorem mem_targets {L : Lattice α} {p : Part α} {t : Option ℕ} (h : t ∈ targets L p) :
    ∃ a ∈ placeAxis L.X p.numX p.x, ∃ b ∈ placeAxis L.Y p.numY p.y, ∃ c ∈ placeAxis L.Z p.numZ p.z,
      t = target L a b c := by
  unfold targets at h
  simp only [List.mem_flatMap, List.mem_map] at h
  obtain ⟨a, ha, b, hb, c, hc, rfl⟩ := h
  exact ⟨a, ha, b, hb, c, hc, rfl⟩

theorem flatIdx_lt (L : Lattice α) {a b c : ℕ} (ha : a < L.X.n) (hb : b < L.Y.n) (hc : c < L.Z.n) :
    L.flatIdx a b c < L.size := by
  unfold Lattice.flatIdx Lattice.size
  have h1 : a * L.Y.n + b + 1 ≤ L.X.n * L.Y.n := by
    have : (a + 1) * L.Y.n ≤ L.X.n * L.Y.n := Nat.mul_le_mul_right _ ha
    rw [Nat.add_mul] at this
    omega
  have h2 : (a * L.Y.n + b + 1) * L.Z.n ≤ L.X.n * L.Y.n * L.Z.n := Nat.mul_le_mul_right _ h1
  rw [Nat.add_mul] at h2
  omega

end generic

section pick
variable {K : Type} [Field K] [LinearOrder K] [IsStrictOrderedRing K]

/-- the deposits kept from a list of (target or skipped, amount) -/
def pick (tz : List (Option ℕ × K)) : List (ℕ × K) := tz.filterMap (fun tw => tw.1.map (fun t => (t, tw.2)))

theorem pick_all (tz : List (Option ℕ × K)) (N : ℕ) (h : ∀ tw ∈ tz, ∃ k, tw.1 = some k ∧ k < N) :
    (pick tz).map Prod.snd = tz.map Prod.snd ∧ ∀ d ∈ pick tz, d.1 < N := by
  induction tz with
  | nil => simp [pick]
  | cons tw tz ih =>
    obtain ⟨k, hk, hkN⟩ := h tw (by simp)
    obtain ⟨ih1, ih2⟩ := ih (fun e he => h e (by simp [he]))
    obtain ⟨t, w⟩ := tw
    simp only at hk
    subst hk
    unfold pick at ih1 ih2 ⊢
    simp only [List.filterMap_cons, Option.map_some, List.map_cons, ih1, true_and, List.mem_cons]
    rintro d (rfl | hd)
    · exact hkN
    · exact ih2 d hd

theorem pick_le (tz : List (Option ℕ × K)) (h : ∀ tw ∈ tz, 0 ≤ tw.2) :
    ((pick tz).map Prod.snd).sum ≤ (tz.map Prod.snd).sum ∧ ∀ d ∈ pick tz, 0 ≤ d.2 := by
  induction tz with
  | nil => simp [pick]
  | cons tw tz ih =>
    have h0 := h tw (by simp)
    obtain ⟨ih1, ih2⟩ := ih (fun e he => h e (by simp [he]))
    obtain ⟨t, w⟩ := tw
    unfold pick at ih1 ih2 ⊢
    cases t with
    | none =>
      simp only [List.filterMap_cons, Option.map_none, List.map_cons, List.sum_cons]
      exact ⟨by simp only at h0; linarith, ih2⟩
    | some k =>
      simp only [List.filterMap_cons, Option.map_some, List.map_cons, List.sum_cons, List.mem_cons]
      refine ⟨by linarith, ?_⟩
      rintro d (rfl | hd)
      · exact h0
      · exact ih2 d hd

theorem sum_map_mul_left' (c : K) (l : List K) : (l.map (fun s => c * s)).sum = c * l.sum := by
  induction l with
  | nil => simp
  | cons a l ih => simp [ih, mul_add]

theorem sum_tempValues (V v : K) (ss : List K) (hV : V ≠ 0) :
    (tempValues V v ss).sum = if 0 < ss.sum then v / V else v * ss.sum / V := by
  unfold tempValues
  simp only [sumL_eq_sum, zero_eq]
  split_ifs with h
  · have e : (ss.map (fun s => v * s / V / ss.sum)) = ss.map (fun s => (v / V / ss.sum) * s) := by
      apply List.map_congr_left; intro s _; ring
    rw [e, sum_map_mul_left']
    field_simp
  · have e : (ss.map (fun s => v * s / V)) = ss.map (fun s => (v / V) * s) := by
      apply List.map_congr_left; intro s _; ring
    rw [e, sum_map_mul_left']
    ring

theorem tempValues_nonneg (V v : K) (ss : List K) (hV : 0 < V) (hv : 0 ≤ v) (hs : ∀ s ∈ ss, 0 ≤ s) :
    ∀ t ∈ tempValues V v ss, 0 ≤ t := by
  unfold tempValues
  simp only [sumL_eq_sum, zero_eq, List.mem_map]
  rintro t ⟨s, hsm, rfl⟩
  have h1 : 0 ≤ v * s / V := div_nonneg (mul_nonneg hv (hs s hsm)) hV.le
  split_ifs with h
  · exact div_nonneg h1 h.le
  · exact h1

theorem tempValues_length (V v : K) (ss : List K) : (tempValues V v ss).length = ss.length := by
  simp [tempValues]

end pick

section particle
variable {K : Type} [Field K] [LinearOrder K] [IsStrictOrderedRing K]

/-- a lattice the constructor accepts and `add_particle_data` works on -/
structure Lattice.WF (L : Lattice K) : Prop where
  X : L.X.WF
  Y : L.Y.WF
  Z : L.Z.WF

theorem Lattice.WF.cellVolume_pos {L : Lattice K} (w : L.WF) : 0 < L.cellVolume := by
  unfold Lattice.cellVolume
  rw [absV_eq_abs]
  apply abs_pos.mpr
  have hx := sub_pos.mpr w.X.lt
  have hy := sub_pos.mpr w.Y.lt
  have hz := sub_pos.mpr w.Z.lt
  have hn : (0 : K) < ((L.X.n * L.Y.n * L.Z.n : ℕ) : K) := by
    have := w.X.two; have := w.Y.two; have := w.Z.two
    have : 0 < L.X.n * L.Y.n * L.Z.n := by positivity
    exact_mod_cast this
  exact (div_pos (mul_pos (mul_pos hx hy) hz) hn).ne'

/-- the kernel values of a particle, NaN read as 0 (only used where no value is NaN) -/
def kernelVals (p : Part K) : List K := p.s.map (fun o => o.getD 0)

/-- what the harness supplies for a particle the code does not reject: one kernel value per node of the
temporary lattice, none of them NaN -/
structure KernelOK (p : Part K) : Prop where
  noNaN : ∀ o ∈ p.s, o.isSome = true
  len : p.s.length = (2 * p.numX + 1) * (2 * p.numY + 1) * (2 * p.numZ + 1)

theorem mapM_id_allSome (l : List (Option K)) (h : ∀ o ∈ l, o.isSome = true) :
    l.mapM id = some (l.map (fun o => o.getD 0)) := by
  induction l with
  | nil => rfl
  | cons o l ih =>
    have ho := h o (by simp)
    obtain ⟨x, rfl⟩ := Option.isSome_iff_exists.mp ho
    simp [List.mapM_cons, ih (fun e he => h e (by simp [he]))]

theorem deposits_eq {L : Lattice K} (w : L.WF) {p : Part K} (k : KernelOK p) :
    deposits L p = some (pick ((targets L p).zip (tempValues L.cellVolume p.v (kernelVals p)))) := by
  have h2 : ¬ (L.X.n < 2 ∨ L.Y.n < 2 ∨ L.Z.n < 2) := by
    have := w.X.two; have := w.Y.two; have := w.Z.two; omega
  have hlen : (kernelVals p).length = (2 * p.numX + 1) * (2 * p.numY + 1) * (2 * p.numZ + 1) := by
    rw [kernelVals, List.length_map, k.len]
  unfold deposits
  rw [mapM_id_allSome _ k.noNaN]
  simp only [Option.bind_eq_bind, Option.bind_some]
  rw [if_neg h2]
  change (if (kernelVals p).length ≠ _ then _ else _) = _
  rw [if_neg (by simpa using hlen)]
  rw [w.X.spacingOK, w.Y.spacingOK, w.Z.spacingOK]
  simp [pick, kernelVals]

end particle

section one
variable {K : Type} [Field K] [LinearOrder K] [IsStrictOrderedRing K]

/-- support inside on one axis: every temporary node lands on a node of the axis -/
theorem Axis.WF.placeAxis_inside {A : Axis K} (w : A.WF) (num : ℕ) (x : K) (h : axisInside A num x = true) :
    ∀ o ∈ placeAxis A num x, ∃ a, o = some a ∧ a < A.n := by
  intro o ho
  rw [w.placeAxis_eq] at ho
  simp only [axisInside, Bool.and_eq_true, decide_eq_true_eq] at h
  obtain ⟨h1, h2⟩ := h
  simp only [List.mem_map, List.mem_range] at ho
  obtain ⟨i, hi, rfl⟩ := ho
  refine ⟨closest A.values x + i - num, ?_, by omega⟩
  rw [if_neg (by omega), if_neg (by omega)]

theorem targets_inside {L : Lattice K} (w : L.WF) (p : Part K) (h : supportInside L p = true) :
    ∀ t ∈ targets L p, ∃ k, t = some k ∧ k < L.size := by
  simp only [supportInside, Bool.and_eq_true] at h
  obtain ⟨⟨hx, hy⟩, hz⟩ := h
  intro t ht
  obtain ⟨a, ha, b, hb, c, hc, rfl⟩ := mem_targets ht
  obtain ⟨a', rfl, ha'⟩ := w.X.placeAxis_inside _ _ hx a ha
  obtain ⟨b', rfl, hb'⟩ := w.Y.placeAxis_inside _ _ hy b hb
  obtain ⟨c', rfl, hc'⟩ := w.Z.placeAxis_inside _ _ hz c hc
  exact ⟨_, rfl, flatIdx_lt L ha' hb' hc'⟩

/-- one particle whose support is inside and whose kernel sum is positive adds exactly `v / V` to the total -/
theorem addOne_inside {L : Lattice K} (w : L.WF) {p : Part K} (k : KernelOK p)
    (hin : supportInside L p = true) (hnorm : 0 < (kernelVals p).sum) (g : List K) (hg : g.length = L.size) :
    ∃ g', addOne L g p = some g' ∧ g'.length = g.length ∧ g'.sum = g.sum + p.v / L.cellVolume := by
  unfold addOne
  rw [deposits_eq w k]
  refine ⟨_, rfl, length_foldl_addAt _ _, ?_⟩
  have hlen : (tempValues L.cellVolume p.v (kernelVals p)).length ≤ (targets L p).length := by
    rw [tempValues_length, targets_length, kernelVals, List.length_map, k.len]
  obtain ⟨h1, h2⟩ := pick_all ((targets L p).zip (tempValues L.cellVolume p.v (kernelVals p))) L.size (by
    intro tw htw
    exact targets_inside w p hin tw.1 (List.of_mem_zip htw).1)
  rw [sum_foldl_addAt_valid _ _ (by rw [hg]; exact h2), h1, List.map_snd_zip hlen,
    sum_tempValues _ _ _ w.cellVolume_pos.ne', if_pos hnorm]

/-- one particle with a non-negative quantity and non-negative kernel adds between `0` and `v / V` -/
theorem addOne_clipped {L : Lattice K} (w : L.WF) {p : Part K} (k : KernelOK p)
    (hv : 0 ≤ p.v) (hs : ∀ s ∈ kernelVals p, 0 ≤ s) (g : List K) :
    ∃ g', addOne L g p = some g' ∧ g'.length = g.length ∧ g.sum ≤ g'.sum ∧ g'.sum ≤ g.sum + p.v / L.cellVolume := by
  unfold addOne
  rw [deposits_eq w k]
  have hV := w.cellVolume_pos
  have hlen : (tempValues L.cellVolume p.v (kernelVals p)).length ≤ (targets L p).length := by
    rw [tempValues_length, targets_length, kernelVals, List.length_map, k.len]
  have hnn := tempValues_nonneg L.cellVolume p.v (kernelVals p) hV hv hs
  obtain ⟨h1, h2⟩ := pick_le ((targets L p).zip (tempValues L.cellVolume p.v (kernelVals p))) (by
    intro tw htw
    exact hnn tw.2 (List.of_mem_zip htw).2)
  obtain ⟨h3, h4⟩ := sum_foldl_addAt_le _ g h2
  refine ⟨_, rfl, length_foldl_addAt _ _, h3, ?_⟩
  rw [List.map_snd_zip hlen, sum_tempValues _ _ _ hV.ne'] at h1
  have hbound : (if 0 < (kernelVals p).sum then p.v / L.cellVolume else p.v * (kernelVals p).sum / L.cellVolume)
      ≤ p.v / L.cellVolume := by
    split_ifs with h
    · exact le_refl _
    · have h0 : (kernelVals p).sum ≤ 0 := not_lt.mp h
      have : p.v * (kernelVals p).sum ≤ p.v := by nlinarith
      exact div_le_div_of_nonneg_right this hV.le
  linarith

end one

end SparkxVerif.Smear
