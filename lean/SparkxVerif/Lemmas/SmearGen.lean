/-
C16 helper (tie T): every definition of `Gen/Smear.lean` — regenerated on every run from the CURRENT text of
`src/sparkx/Lattice3D.py` by `harness/translate/smear.py` — is tied to the hand model `Core/Smear.lean`, about which
the property theorems of `Props/C16.lean` are proved.

* primitives (the generated text is written over `Core/Lattice.lean`'s `argminFirst` / `absG`, the model over its own):
  `nearest_gen`, `closest_gen`;
* helper methods on the arguments `add_particle_data` gives them: `getCoordinates_nat`, `setValueByIndex_nat`,
  `getValueByIndex_nat`, `findClosestIndices_gen`, `getIndexNN_inR`, `getValueNN_inR`, `setValueNN_inR`;
* loops: `ndindex_eq` (a loop over `np.ndindex` = a loop over the flat C-order positions), `foldlM_range_eq` (a loop whose
  state after `q` passes is known in closed form), `reset_gen`;
* constructor: `init_gen` (the record of the model lattice), `initAttrs_gen` (cell volume, spacings, n_sigma);
* `addSameSpacedGrid_gen`: the deposit of the temporary lattice = the model's `targets` / `addAt`;
* `addParticleData_gen`, `gen_eq_model`: the whole call = the model's `addParticleData` on the selected quantity values.

The proofs do not compare syntax: they unfold the generated definition, rewrite the calls it makes with the lemmas about
the callees, decide Boolean guards from the truth values of their comparisons (`linarith`, whatever order and form the
comparisons have) and close arithmetic leaves by `ring1` (`leaf_eq`).  The translator keeps pure locals symbolic and
writes commutative operands in one canonical order, so renaming, hoisting, inlining and commuting do not even change the
generated text; re-associated arithmetic (`a / b * c`), re-ordered disjuncts, `1 + 2 * n` for `2 * n + 1` re-prove; a
changed sign / coefficient / bound / comparison does not.
-/
import SparkxVerif.Gen.Smear
import SparkxVerif.Lemmas.Smear
import SparkxVerif.Lemmas.Lattice
import Mathlib.Tactic.Ring
import Mathlib.Tactic.Linarith
import Mathlib.Tactic.Tauto
import Mathlib.Tactic.Push
import Mathlib.Tactic.CongrExclamation
import Mathlib.Tactic.FieldSimp

set_option linter.unusedSimpArgs false
set_option linter.unusedSectionVars false
set_option linter.unusedVariables false
set_option linter.unusedTactic false
set_option linter.unreachableTactic false

namespace SparkxVerif.SmearGen
open SparkxVerif.Lattice (Err Lat Geom mkGeom pyGet ndindex flat unflat npAxis absG)


/-- an equation between two values / lists / records that differ only by field arithmetic written in another way
(a commuted product, `a / b * c` for `a * c / b`, …): descend one constructor at a time until `ring1` closes it -/
macro "leaf_eq" : tactic => `(tactic| first
  | rfl
  | ring1
  | (congr! 1 <;> first
      | rfl
      | ring1
      | (congr! 1 <;> first
          | rfl
          | ring1
          | (congr! 1 <;> first
              | rfl
              | ring1
              | (congr! 1 <;> first
                  | rfl
                  | ring1
                  | (congr! 1 <;> first | rfl | ring1))))))

/-- closes what is left of an equation between states after the structural rewriting -/
macro "leaf_arith" : tactic => `(tactic| (
  all_goals (try (refine ⟨?_, ?_⟩))
  all_goals (try (refine ⟨?_, ?_⟩))
  all_goals leaf_eq))

@[simp] theorem bind_ok {ε α β : Type} (a : α) (f : α → Except ε β) : (Except.ok a : Except ε α).bind f = f a := rfl
@[simp] theorem bind_error {ε α β : Type} (e : ε) (f : α → Except ε β) : (Except.error e : Except ε α).bind f = .error e := rfl

/-! ### primitives: the two model files write the same numpy primitives twice -/
section prim
variable {α : Type} [LT α] [DecidableLT α]

theorem argminGo_eq (ds : List α) (best : α) (bi i : Nat) :
    Lattice.argminGo ds best bi i = Smear.argminAux best bi i ds := by
  induction ds generalizing best bi i with
  | nil => rfl
  | cons d ds ih =>
    simp only [Lattice.argminGo, Smear.argminAux]
    split <;> exact ih _ _ _

theorem argminFirst_eq (ds : List α) : Lattice.argminFirst ds = Smear.argminFirst ds := by
  cases ds with
  | nil => rfl
  | cons d ds => exact argminGo_eq ds d 0 1

variable [Sub α] [Neg α] [NatCast α]

theorem absG_eq_absV (x : α) : absG x = Smear.absV x := rfl

/-- `np.abs(value - values).argmin()` in the generated text = the model's `nearest` -/
theorem nearest_gen (xs : List α) (v : α) :
    Lattice.argminFirst ((xs.map (fun a => v - a)).map absG) = Smear.nearest xs v := by
  rw [argminFirst_eq, List.map_map]; rfl

/-- `np.argmin(np.abs(values - value))` in the generated text = the model's `closest` -/
theorem closest_gen (xs : List α) (v : α) :
    Lattice.argminFirst ((xs.map (fun a => a - v)).map absG) = Smear.closest xs v := by
  rw [argminFirst_eq, List.map_map]; rfl

end prim

section pyget
variable {α : Type}

theorem pyGet_nat (xs : List α) (i : Nat) :
    pyGet xs (i : Int) = match xs[i]? with | some a => .ok a | none => .error .index := by
  unfold pyGet npAxis
  by_cases h : i < xs.length
  · have h4 : ¬ ((i : Int) < 0) := by omega
    have h5 : ¬ ((xs.length : Int) ≤ (i : Int)) := by omega
    simp only [h4, if_false, h5, false_or, Int.toNat_natCast, List.getElem?_eq_getElem h]
  · have h3 : xs[i]? = none := List.getElem?_eq_none (by omega)
    have h4 : ¬ ((i : Int) < 0) := by omega
    have h5 : ((xs.length : Int) ≤ (i : Int)) := by omega
    simp only [h4, if_false, h5, or_true, if_true, h3]

theorem pyGet_zero (xs : List α) :
    pyGet xs 0 = match xs.head? with | some a => .ok a | none => .error .index := by
  cases xs with
  | nil => rfl
  | cons a t =>
    have : ¬ ((t.length : Int) + 1 ≤ 0) := by omega
    simp [pyGet, npAxis, this]

theorem pyGet_neg_one (xs : List α) :
    pyGet xs (-1) = match xs.getLast? with | some a => .ok a | none => .error .index := by
  cases xs with
  | nil => rfl
  | cons a t =>
    have h1 : ((-1 : Int) + ((t.length + 1 : Nat) : Int)).toNat = t.length := by omega
    have h2 : ¬ ((-1 : Int) + ((t.length + 1 : Nat) : Int) < 0 ∨
        ((t.length + 1 : Nat) : Int) ≤ (-1 : Int) + ((t.length + 1 : Nat) : Int)) := by omega
    simp only [pyGet, npAxis, List.length_cons, show ((-1 : Int) < 0) from by omega, if_true, h2, if_false, h1,
      List.getLast?_eq_getElem?, Nat.add_sub_cancel]
    rw [List.getElem?_eq_getElem (by simp)]

end pyget

section raw
variable {α : Type}

theorem rawGet_nat (L : Lat α α) (hg : L.grid.length = L.nx * L.ny * L.nz) (i j k : Nat)
    (hi : i < L.nx) (hj : j < L.ny) (hk : k < L.nz) (d : α) :
    L.rawGet (i : Int) (j : Int) (k : Int) = .ok (L.grid.getD (flat L.ny L.nz i j k) d) := by
  unfold Lat.rawGet
  rw [Lattice.npAxis_nat hi, Lattice.npAxis_nat hj, Lattice.npAxis_nat hk]
  have : flat L.ny L.nz i j k < L.grid.length := by rw [hg]; exact Lattice.flat_lt hi hj hk
  simp [List.getD_eq_getElem?_getD, List.getElem?_eq_getElem this]

theorem rawSet_nat (L : Lat α α) (hg : L.grid.length = L.nx * L.ny * L.nz) (i j k : Nat)
    (hi : i < L.nx) (hj : j < L.ny) (hk : k < L.nz) (v : α) :
    L.rawSet (i : Int) (j : Int) (k : Int) v = .ok { L with grid := L.grid.set (flat L.ny L.nz i j k) v } := by
  unfold Lat.rawSet
  rw [Lattice.npAxis_nat hi, Lattice.npAxis_nat hj, Lattice.npAxis_nat hk]
  have : flat L.ny L.nz i j k < L.grid.length := by rw [hg]; exact Lattice.flat_lt hi hj hk
  simp [this]

end raw

/-! ### the generated helpers on valid arguments -/
section helpers
variable {α : Type} [LT α] [LE α] [DecidableLT α] [DecidableLE α] [Add α] [Sub α] [Neg α] [NatCast α] [Mul α] [Div α]

/-- `__get_value` on an index inside the array -/
theorem getCoord_nat (xs : List α) (n i : Nat) (hn : xs.length = n) (hi : i < n) (d : α) :
    Gen.Smear.getCoord (i : Int) xs (n : Int) = .ok (xs.getD i d) := by
  unfold Gen.Smear.getCoord
  have h1 : ¬ ((i : Int) < 0) := by omega
  have h2 : ¬ ((n : Int) ≤ (i : Int)) := by omega
  have h3 : xs[i]? = some (xs.getD i d) := by
    rw [List.getD_eq_getElem?_getD, List.getElem?_eq_getElem (by omega)]; rfl
  simp only [h1, h2, decide_false, Bool.or_self, Bool.false_eq_true, if_false]
  rw [pyGet_nat, h3]
  rfl

/-- `get_coordinates` on valid indices -/
theorem getCoordinates_nat (L : Lat α α) (i j k : Nat) (hx : L.xs.length = L.nx) (hy : L.ys.length = L.ny)
    (hz : L.zs.length = L.nz) (hi : i < L.nx) (hj : j < L.ny) (hk : k < L.nz) (d : α) :
    Gen.Smear.getCoordinates L (i : Int) (j : Int) (k : Int) = .ok (L.xs.getD i d, L.ys.getD j d, L.zs.getD k d) := by
  unfold Gen.Smear.getCoordinates
  simp [getCoord_nat _ _ _ hx hi d, getCoord_nat _ _ _ hy hj d, getCoord_nat _ _ _ hz hk d]

theorem isValidIndex_nat (L : Lat α α) (i j k : Nat) (hi : i < L.nx) (hj : j < L.ny) (hk : k < L.nz) :
    Gen.Smear.isValidIndex L (i : Int) (j : Int) (k : Int) = .ok true := by
  unfold Gen.Smear.isValidIndex
  refine congrArg _ ?_
  simp only [Bool.and_eq_true, decide_eq_true_eq]
  omega

/-- `set_value_by_index` on valid indices writes the node -/
theorem setValueByIndex_nat (L : Lat α α) (hg : L.grid.length = L.nx * L.ny * L.nz) (i j k : Nat)
    (hi : i < L.nx) (hj : j < L.ny) (hk : k < L.nz) (v : α) :
    Gen.Smear.setValueByIndex L (i : Int) (j : Int) (k : Int) v =
      .ok ({ L with grid := L.grid.set (flat L.ny L.nz i j k) v }, false) := by
  unfold Gen.Smear.setValueByIndex
  simp [isValidIndex_nat L i j k hi hj hk, rawSet_nat L hg i j k hi hj hk]

/-- `get_value_by_index` on valid indices reads the node -/
theorem getValueByIndex_nat (L : Lat α α) (hg : L.grid.length = L.nx * L.ny * L.nz) (i j k : Nat)
    (hi : i < L.nx) (hj : j < L.ny) (hk : k < L.nz) (d : α) :
    Gen.Smear.getValueByIndex L (i : Int) (j : Int) (k : Int) = .ok (some (L.grid.getD (flat L.ny L.nz i j k) d)) := by
  unfold Gen.Smear.getValueByIndex
  simp [isValidIndex_nat L i j k hi hj hk, rawGet_nat L hg i j k hi hj hk d]

/-- `__find_closest_index` = the model's `closest` -/
theorem findClosestIndex_gen (xs : List α) (v : α) :
    Gen.Smear.findClosestIndex v xs = .ok ((Smear.closest xs v : Nat) : Int) := by
  unfold Gen.Smear.findClosestIndex
  rw [closest_gen]

/-- `find_closest_indices` = the model's `closest` on every axis (the warning flag is not part of C16) -/
theorem findClosestIndices_gen (L : Lat α α) (x y z : α) :
    ∃ b, Gen.Smear.findClosestIndices L x y z =
      .ok (((Smear.closest L.xs x : Nat), (Smear.closest L.ys y : Nat), (Smear.closest L.zs z : Nat)), b) := by
  unfold Gen.Smear.findClosestIndices Gen.Smear.isWithinRange
  simp only [findClosestIndex_gen, bind_ok]
  exact ⟨_, rfl⟩

/-- `__get_index_nearest_neighbor` on a point between the first and the last node = the model's `nearest` -/
theorem getIndexNN_inrange (xs : List α) (v lo hi : α) (h0 : xs.head? = some lo) (h1 : xs.getLast? = some hi)
    (hlo : lo ≤ v) (hhi : v ≤ hi) :
    Gen.Smear.getIndexNN v xs = .ok ((Smear.nearest xs v : Nat) : Int) := by
  unfold Gen.Smear.getIndexNN
  simp only [pyGet_zero, pyGet_neg_one, h0, h1, bind_ok, hlo, hhi, decide_true, if_true, nearest_gen]

/-- `values[0] <= v <= values[-1]` -/
def InR (xs : List α) (v : α) : Prop := ∃ lo hi, xs.head? = some lo ∧ xs.getLast? = some hi ∧ lo ≤ v ∧ v ≤ hi

theorem getIndexNN_inR (xs : List α) (v : α) (h : InR xs v) :
    Gen.Smear.getIndexNN v xs = .ok ((Smear.nearest xs v : Nat) : Int) := by
  obtain ⟨lo, hi, h0, h1, hlo, hhi⟩ := h
  exact getIndexNN_inrange xs v lo hi h0 h1 hlo hhi

theorem getIndicesNN_inR (L : Lat α α) (x y z : α) (hx : InR L.xs x) (hy : InR L.ys y) (hz : InR L.zs z) :
    Gen.Smear.getIndicesNN L x y z =
      .ok (((Smear.nearest L.xs x : Nat) : Int), ((Smear.nearest L.ys y : Nat) : Int), ((Smear.nearest L.zs z : Nat) : Int)) := by
  unfold Gen.Smear.getIndicesNN
  simp only [getIndexNN_inR _ _ hx, getIndexNN_inR _ _ hy, getIndexNN_inR _ _ hz, bind_ok]

/-- `get_value_nearest_neighbor` on a point of the lattice box reads the nearest node -/
theorem getValueNN_inR (L : Lat α α) (hg : L.grid.length = L.nx * L.ny * L.nz) (x y z : α)
    (hx : InR L.xs x) (hy : InR L.ys y) (hz : InR L.zs z)
    (ha : Smear.nearest L.xs x < L.nx) (hb : Smear.nearest L.ys y < L.ny) (hc : Smear.nearest L.zs z < L.nz) (d : α) :
    Gen.Smear.getValueNN L x y z =
      .ok (some (L.grid.getD (flat L.ny L.nz (Smear.nearest L.xs x) (Smear.nearest L.ys y) (Smear.nearest L.zs z)) d)) := by
  unfold Gen.Smear.getValueNN
  simp only [getIndicesNN_inR L x y z hx hy hz, bind_ok, getValueByIndex_nat L hg _ _ _ ha hb hc d]

/-- `set_value_nearest_neighbor` on a point of the lattice box writes the nearest node -/
theorem setValueNN_inR (L : Lat α α) (hg : L.grid.length = L.nx * L.ny * L.nz) (x y z v : α)
    (hx : InR L.xs x) (hy : InR L.ys y) (hz : InR L.zs z)
    (ha : Smear.nearest L.xs x < L.nx) (hb : Smear.nearest L.ys y < L.ny) (hc : Smear.nearest L.zs z < L.nz) :
    Gen.Smear.setValueNN L x y z v =
      .ok ({ L with grid := L.grid.set (flat L.ny L.nz (Smear.nearest L.xs x) (Smear.nearest L.ys y) (Smear.nearest L.zs z)) v }, false) := by
  unfold Gen.Smear.setValueNN
  simp only [getIndicesNN_inR L x y z hx hy hz, bind_ok, setValueByIndex_nat L hg _ _ _ ha hb hc v]

end helpers

/-! ### loops over `np.ndindex` as folds over the flat index -/
section loops

/-- a fold whose state after `q` steps is known in closed form -/
theorem foldlM_range_eq {σ : Type} (step : σ → Nat → Except Err σ) (F : Nat → σ) (N : Nat) (s0 : σ) (h0 : s0 = F 0)
    (hstep : ∀ q, q < N → step (F q) q = .ok (F (q + 1))) :
    List.foldlM (m := Except Err) step s0 (List.range N) = .ok (F N) := by
  subst h0
  induction N with
  | zero => rfl
  | succ n ih =>
    rw [List.range_succ, List.foldlM_append, ih (fun q hq => hstep q (by omega))]
    show List.foldlM (m := Except Err) step (F n) [n] = _
    simp [List.foldlM_cons, hstep n (by omega)]

theorem inner_eq (A C : Nat) (B : Nat) :
    ((List.range B).flatMap fun j => (List.range C).map fun k => (A, j, k)) =
      (List.range (B * C)).map (fun r => (A, r / C, r % C)) := by
  induction B with
  | zero => simp
  | succ b ih =>
    rw [List.range_succ, List.flatMap_append, ih]
    have : (b + 1) * C = b * C + C := by ring
    rw [this, List.range_add, List.map_append]
    congr 1
    simp only [List.flatMap_cons, List.flatMap_nil, List.append_nil, List.map_map]
    apply List.map_congr_left
    intro k hk
    have hk' : k < C := List.mem_range.mp hk
    simp only [Function.comp]
    have hC : 0 < C := by omega
    rw [show b * C + k = k + C * b by ring, Nat.add_mul_div_left _ _ hC, Nat.add_mul_mod_self_left,
      Nat.div_eq_of_lt hk', Nat.mod_eq_of_lt hk']
    simp

/-- `np.ndindex((A, B, C))` visits the flat positions `0, 1, …` in order -/
theorem ndindex_eq (A B C : Nat) : ndindex A B C = (List.range (A * B * C)).map (unflat B C) := by
  unfold ndindex
  induction A with
  | zero => simp
  | succ a ih =>
    rw [List.range_succ, List.flatMap_append, ih]
    have : (a + 1) * B * C = a * B * C + B * C := by ring
    rw [this, List.range_add, List.map_append]
    congr 1
    simp only [List.flatMap_cons, List.flatMap_nil, List.append_nil, List.map_map]
    rw [inner_eq]
    apply List.map_congr_left
    intro r hr
    have hr' : r < B * C := List.mem_range.mp hr
    simp only [Function.comp, unflat]
    have hC : 0 < C := by
      rcases Nat.eq_zero_or_pos C with h | h
      · subst h; simp at hr'
      · exact h
    have hB : 0 < B := by
      rcases Nat.eq_zero_or_pos B with h | h
      · subst h; simp at hr'
      · exact h
    have e1 : (a * B * C + r) / C = a * B + r / C := by
      rw [show a * B * C + r = r + C * (a * B) by ring, Nat.add_mul_div_left _ _ hC]; ring
    have e2 : (a * B * C + r) % C = r % C := by
      rw [show a * B * C + r = r + C * (a * B) by ring, Nat.add_mul_mod_self_left]
    have hq : r / C < B := by
      rw [Nat.div_lt_iff_lt_mul hC]; exact hr'
    rw [e1, e2]
    rw [show a * B + r / C = r / C + B * a by ring, Nat.add_mul_div_left _ _ hB, Nat.add_mul_mod_self_left,
      Nat.div_eq_of_lt hq, Nat.mod_eq_of_lt hq]
    simp

theorem unflat_lt {nx ny nz q : Nat} (h : q < nx * ny * nz) :
    (unflat ny nz q).1 < nx ∧ (unflat ny nz q).2.1 < ny ∧ (unflat ny nz q).2.2 < nz := by
  have hnz : 0 < nz := by
    rcases Nat.eq_zero_or_pos nz with h0 | h0
    · subst h0; simp at h
    · exact h0
  have hny : 0 < ny := by
    rcases Nat.eq_zero_or_pos ny with h0 | h0
    · subst h0; simp at h
    · exact h0
  unfold unflat
  refine ⟨?_, Nat.mod_lt _ hny, Nat.mod_lt _ hnz⟩
  rw [Nat.div_lt_iff_lt_mul hny, Nat.div_lt_iff_lt_mul hnz]
  exact h

/-- a loop over `np.ndindex((A, B, C))` is the loop over the flat positions -/
theorem foldlM_ndindex {σ : Type} (step : σ → Nat × Nat × Nat → Except Err σ) (s0 : σ) (A B C : Nat) :
    List.foldlM (m := Except Err) step s0 (ndindex A B C) =
      List.foldlM (m := Except Err) (fun s q => step s (unflat B C q)) s0 (List.range (A * B * C)) := by
  rw [ndindex_eq, List.foldlM_map]

theorem set_mid {α : Type} (l1 : List α) (a b : α) (l2 : List α) (q : Nat) (hq : q = l1.length) :
    (l1 ++ a :: l2).set q b = l1 ++ b :: l2 := by
  subst hq; simp

theorem modify_mid {α : Type} (l1 : List α) (a : α) (f : α → α) (l2 : List α) (q : Nat) (hq : q = l1.length) :
    (l1 ++ a :: l2).modify q f = l1 ++ f a :: l2 := by
  subst hq
  induction l1 with
  | nil => simp
  | cons x l ih => simp [ih]

end loops

/-! ### `reset` -/
section reset
variable {α : Type} [NatCast α]

/-- the generated `reset` (a loop of single writes) clears every node of a well-shaped lattice -/
theorem reset_gen (L : Lat α α) (hg : L.grid.length = L.nx * L.ny * L.nz) :
    Gen.Smear.reset L = .ok { L with grid := Smear.reset L.grid } := by
  unfold Gen.Smear.reset
  rw [foldlM_ndindex]
  rw [foldlM_range_eq _ (fun q => ({ L with grid := List.replicate q ((0 : Nat) : α) ++ L.grid.drop q } : Lat α α))
    (L.nx * L.ny * L.nz) L (by simp)]
  · simp only [bind_ok]
    refine congrArg _ ?_
    have : L.grid.drop (L.nx * L.ny * L.nz) = [] := by rw [← hg]; simp
    rw [this, List.append_nil, Smear.reset, Smear.zero, List.map_const', hg]
  · intro q hq
    obtain ⟨h1, h2, h3⟩ := unflat_lt hq
    have hgq : ({ L with grid := List.replicate q ((0 : Nat) : α) ++ L.grid.drop q } : Lat α α).grid.length
        = L.nx * L.ny * L.nz := by
      simp only [List.length_append, List.length_replicate, List.length_drop]; omega
    rw [rawSet_nat _ hgq _ _ _ h1 h2 h3]
    simp only [bind_ok, Lattice.flat_unflat]
    refine congrArg _ ?_
    have hq' : q < L.grid.length := by omega
    rw [List.drop_eq_getElem_cons hq']
    congr 1
    rw [set_mid _ _ _ _ _ (by simp), List.replicate_succ', List.append_assoc]
    rfl

end reset
/-! ### the objects: a model lattice as the record the constructor builds -/
section field
variable {K : Type} [Field K] [LinearOrder K] [IsStrictOrderedRing K]
open Smear (Axis Part linspace zero nearest closest minP maxP placeAxis tempCoords targets target addAt edgeTolFactor)

/-- the `Lattice3D` object of the model lattice `M` holding the flat grid `g` -/
def latOf (M : Smear.Lattice K) (g : List K) : Lat K K :=
  { toGeom := mkGeom linspace M.X.lo M.X.hi M.Y.lo M.Y.hi M.Z.lo M.Z.hi M.X.n M.Y.n M.Z.n, grid := g }

/-- the generated `__init__` builds `latOf` with a zero grid -/
theorem init_gen (a b c d e f : K) (nx ny nz : Nat) :
    Gen.Smear.init linspace a b c d e f nx ny nz =
      latOf ⟨⟨a, b, nx⟩, ⟨c, d, ny⟩, ⟨e, f, nz⟩⟩ (List.replicate (nx * ny * nz) ((0 : Nat) : K)) := by
  first
    | rfl
    | (unfold Gen.Smear.init latOf mkGeom; congr 1 <;> first | rfl | (congr 1 <;> first | rfl | ring_nf))

@[simp] theorem latOf_xs (M : Smear.Lattice K) (g : List K) : (latOf M g).xs = M.X.values := rfl
@[simp] theorem latOf_ys (M : Smear.Lattice K) (g : List K) : (latOf M g).ys = M.Y.values := rfl
@[simp] theorem latOf_zs (M : Smear.Lattice K) (g : List K) : (latOf M g).zs = M.Z.values := rfl
@[simp] theorem latOf_nx (M : Smear.Lattice K) (g : List K) : (latOf M g).nx = M.X.n := rfl
@[simp] theorem latOf_ny (M : Smear.Lattice K) (g : List K) : (latOf M g).ny = M.Y.n := rfl
@[simp] theorem latOf_nz (M : Smear.Lattice K) (g : List K) : (latOf M g).nz = M.Z.n := rfl
@[simp] theorem latOf_xmin (M : Smear.Lattice K) (g : List K) : (latOf M g).xmin = M.X.lo := rfl
@[simp] theorem latOf_xmax (M : Smear.Lattice K) (g : List K) : (latOf M g).xmax = M.X.hi := rfl
@[simp] theorem latOf_ymin (M : Smear.Lattice K) (g : List K) : (latOf M g).ymin = M.Y.lo := rfl
@[simp] theorem latOf_ymax (M : Smear.Lattice K) (g : List K) : (latOf M g).ymax = M.Y.hi := rfl
@[simp] theorem latOf_zmin (M : Smear.Lattice K) (g : List K) : (latOf M g).zmin = M.Z.lo := rfl
@[simp] theorem latOf_zmax (M : Smear.Lattice K) (g : List K) : (latOf M g).zmax = M.Z.hi := rfl
@[simp] theorem latOf_grid (M : Smear.Lattice K) (g : List K) : (latOf M g).grid = g := rfl
@[simp] theorem latOf_with (M : Smear.Lattice K) (g g' : List K) : ({ latOf M g with grid := g' } : Lat K K) = latOf M g' := rfl

theorem values_length (A : Axis K) : A.values.length = A.n := Smear.linspace_length _ _ _

/-- the derived attributes of the object of `M` built with the given `n_sigma` arguments -/
def attrsOf (M : Smear.Lattice K) (ox oy oz : Option K) : Gen.Smear.Attrs K :=
  { cell_volume := M.cellVolume,
    spacing_x := if 1 < M.X.n then some M.X.spacing else none,
    spacing_y := if 1 < M.Y.n then some M.Y.spacing else none,
    spacing_z := if 1 < M.Z.n then some M.Z.spacing else none,
    n_sigma_x := ox.getD ((3 : Nat) : K), n_sigma_y := oy.getD ((3 : Nat) : K), n_sigma_z := oz.getD ((3 : Nat) : K) }

theorem attr_spacing_aux (A : Axis K) :
    (if decide (1 < A.n) = true then
        (pyGet (linspace A.lo A.hi A.n) (1 : Int)).bind fun t1 =>
        (pyGet (linspace A.lo A.hi A.n) (0 : Int)).bind fun t2 => Except.ok (some (t1 - t2))
      else (Except.ok none : Except Err (Option K))) = .ok (if 1 < A.n then some A.spacing else none) := by
  by_cases h : 1 < A.n
  · have l := values_length A
    unfold Axis.values at l
    have h1 : (linspace A.lo A.hi A.n)[1]? = some ((linspace A.lo A.hi A.n).getD 1 zero) := by
      rw [List.getD_eq_getElem?_getD, List.getElem?_eq_getElem (by omega)]; rfl
    have h0 : (linspace A.lo A.hi A.n)[0]? = some ((linspace A.lo A.hi A.n).getD 0 zero) := by
      rw [List.getD_eq_getElem?_getD, List.getElem?_eq_getElem (by omega)]; rfl
    simp only [h, decide_true, if_true, show ((1 : Int) = ((1 : Nat) : Int)) from rfl,
      show ((0 : Int) = ((0 : Nat) : Int)) from rfl, pyGet_nat, h1, h0, bind_ok]
    rfl
  · simp [h]

/-- the generated constructor attributes are the model's cell volume and spacings -/
theorem initAttrs_gen (a b c d e f : K) (nx ny nz : Nat) (ox oy oz : Option K) :
    Gen.Smear.initAttrs linspace a b c d e f nx ny nz ox oy oz =
      .ok (attrsOf ⟨⟨a, b, nx⟩, ⟨c, d, ny⟩, ⟨e, f, nz⟩⟩ ox oy oz) := by
  have hx := attr_spacing_aux (⟨a, b, nx⟩ : Axis K)
  have hy := attr_spacing_aux (⟨c, d, ny⟩ : Axis K)
  have hz := attr_spacing_aux (⟨e, f, nz⟩ : Axis K)
  have hcv : Gen.Smear.attr_cell_volume_ linspace a b c d e f nx ny nz ox oy oz
      = .ok (Smear.Lattice.cellVolume ⟨⟨a, b, nx⟩, ⟨c, d, ny⟩, ⟨e, f, nz⟩⟩) := by
    unfold Gen.Smear.attr_cell_volume_ Smear.Lattice.cellVolume
    first
      | rfl
      | (refine congrArg _ ?_; simp only [absG_eq_absV, Smear.absV_eq_abs]; refine congrArg _ ?_; push_cast; ring1)
  unfold Gen.Smear.initAttrs
  simp only [hcv, bind_ok, Gen.Smear.attr_n_sigma_x_, Gen.Smear.attr_n_sigma_y_, Gen.Smear.attr_n_sigma_z_,
    Gen.Smear.attr_spacing_x_, Gen.Smear.attr_spacing_y_, Gen.Smear.attr_spacing_z_]
  simp only [hx, hy, hz, bind_ok]
  cases ox <;> cases oy <;> cases oz <;> rfl

end field
/-! ### `add_same_spaced_grid` -/
section same
open Smear (Axis Part linspace zero nearest closest minP maxP placeAxis tempCoords targets target addAt edgeTolFactor)
variable {K : Type} [Field K] [LinearOrder K] [IsStrictOrderedRing K]

/-- where one temporary coordinate `t` lands on axis `A` when the temporary lattice is centred at `c`
(the function `placeAxis` maps over the temporary coordinates) -/
def place1 (A : Axis K) (c t : K) : Option Nat :=
  if t + c < A.lo - (edgeTolFactor : K) * A.spacing then none
  else if A.hi + (edgeTolFactor : K) * A.spacing < t + c then none
  else some (nearest A.values (minP (maxP (t + c) A.lo) A.hi))

theorem placeAxis_eq_map (A : Axis K) (num : Nat) (x : K) :
    placeAxis A num x = (tempCoords A num).map (place1 A (A.values.getD (closest A.values x) zero)) := rfl

/-- the temporary lattice of half-widths `a b c` around the origin, as a model lattice -/
def tempL (M : Smear.Lattice K) (a b c : Nat) : Smear.Lattice K :=
  ⟨⟨-(((a : Nat) : K) * M.X.spacing), ((a : Nat) : K) * M.X.spacing, 2 * a + 1⟩,
   ⟨-(((b : Nat) : K) * M.Y.spacing), ((b : Nat) : K) * M.Y.spacing, 2 * b + 1⟩,
   ⟨-(((c : Nat) : K) * M.Z.spacing), ((c : Nat) : K) * M.Z.spacing, 2 * c + 1⟩⟩

@[simp] theorem tempL_Xn (M : Smear.Lattice K) (a b c : Nat) : (tempL M a b c).X.n = 2 * a + 1 := rfl
@[simp] theorem tempL_Yn (M : Smear.Lattice K) (a b c : Nat) : (tempL M a b c).Y.n = 2 * b + 1 := rfl
@[simp] theorem tempL_Zn (M : Smear.Lattice K) (a b c : Nat) : (tempL M a b c).Z.n = 2 * c + 1 := rfl
theorem tempL_X (M : Smear.Lattice K) (a b c : Nat) : (tempL M a b c).X.values = tempCoords M.X a := rfl
theorem tempL_Y (M : Smear.Lattice K) (a b c : Nat) : (tempL M a b c).Y.values = tempCoords M.Y b := rfl
theorem tempL_Z (M : Smear.Lattice K) (a b c : Nat) : (tempL M a b c).Z.values = tempCoords M.Z c := rfl

theorem eq_map_range {β : Type} (l : List β) (d : β) : l = (List.range l.length).map (fun i => l.getD i d) := by
  apply List.ext_getElem
  · simp
  · intro i h1 h2
    simp [List.getD_eq_getElem?_getD, List.getElem?_eq_getElem h1]

/-- three nested comprehensions over lists = one over `ndindex` of their lengths -/
theorem nested_eq_ndindex {β γ δ ε : Type} (px : List β) (py : List γ) (pz : List δ) (f : β → γ → δ → ε)
    (d1 : β) (d2 : γ) (d3 : δ) :
    px.flatMap (fun a => py.flatMap (fun b => pz.map (fun c => f a b c))) =
      (ndindex px.length py.length pz.length).map
        (fun p => f (px.getD p.1 d1) (py.getD p.2.1 d2) (pz.getD p.2.2 d3)) := by
  conv_lhs => rw [eq_map_range px d1, eq_map_range py d2, eq_map_range pz d3]
  simp only [ndindex, List.map_flatMap, List.flatMap_map, List.map_map, Function.comp_def]

/-- the deposits of `pick (… zip …)` folded with `addAt`, written as a fold over the positions -/
theorem foldl_pick_map {ι : Type} (l : List ι) (T : ι → Option Nat) (W : ι → K) (g : List K) :
    (Smear.pick (l.map (fun q => (T q, W q)))).foldl addAt g =
      l.foldl (fun G q => match T q with | none => G | some t => addAt G (t, W q)) g := by
  induction l generalizing g with
  | nil => rfl
  | cons q l ih =>
    cases h : T q with
    | none => simp [Smear.pick, h] at ih ⊢; exact ih g
    | some t => simp [Smear.pick, h] at ih ⊢; exact ih _

/-- the point the code hands to the nearest-node access lies between the first and the last node -/
theorem clamp_inR (A : Axis K) (w : A.WF) (v : K) : InR A.values (minP (maxP v A.lo) A.hi) := by
  have hn := w.two
  have hlt := w.lt
  refine ⟨A.lo, A.hi, ?_, ?_, ?_, ?_⟩
  · rw [w.values_eq]
    obtain ⟨k, hk⟩ : ∃ k, A.n = k + 1 := ⟨A.n - 1, by omega⟩
    rw [hk, List.range_succ_eq_map]
    simp
  · rw [w.values_eq, List.getLast?_eq_getElem?]
    simp only [List.length_map, List.length_range, List.getElem?_map]
    rw [List.getElem?_range (by omega)]
    simp only [Option.map_some, Option.some.injEq]
    exact w.hi_eq.symm
  · unfold minP maxP; split_ifs <;> linarith
  · unfold minP maxP; split_ifs <;> linarith

theorem nearest_lt (A : Axis K) (w : A.WF) (v : K) : nearest A.values v < A.n := by
  have hn := w.two
  unfold nearest
  have h := Smear.argminFirst_lt (A.values.map (fun u => Smear.absV (v - u))) (by
    intro h
    have := congrArg List.length h
    simp [values_length] at this
    omega)
  simpa [values_length] using h

theorem getD_map' {β γ : Type} (l : List β) (f : β → γ) (i : Nat) (hi : i < l.length) (d : β) (d' : γ) :
    (l.map f).getD i d' = f (l.getD i d) := by
  simp [List.getD_eq_getElem?_getD, List.getElem?_eq_getElem hi]

theorem modify_eq_set_getD {β : Type} (l : List β) (i : Nat) (f : β → β) (d : β) (h : i < l.length) :
    l.modify i f = l.set i (f (l.getD i d)) := by
  have : Inhabited β := ⟨d⟩
  rw [List.modify_eq_set, List.getD_eq_getElem?_getD, List.getElem?_eq_getElem h]
  simp

/-- case analysis on a Boolean guard without naming it -/
theorem ite_bool_cases {β : Type} (c : Bool) (x y r : β) (h1 : c = true → x = r) (h2 : c = false → y = r) :
    (if c = true then x else y) = r := by
  cases c
  · simpa using h2 rfl
  · simpa using h1 rfl

theorem place1_none_lo (A : Axis K) (c t : K) (h : t + c < A.lo - ((1 : Nat) : K) / ((1000000000 : Nat) : K) * A.spacing) :
    place1 A c t = none := by
  simp only [place1, Smear.edgeTolFactor, h, if_true]

theorem place1_none_hi (A : Axis K) (c t : K) (h : A.hi + ((1 : Nat) : K) / ((1000000000 : Nat) : K) * A.spacing < t + c) :
    place1 A c t = none := by
  simp only [place1, Smear.edgeTolFactor, h, if_true, ite_self]

theorem place1_some (A : Axis K) (c t : K) (h1 : A.lo - ((1 : Nat) : K) / ((1000000000 : Nat) : K) * A.spacing ≤ t + c)
    (h2 : t + c ≤ A.hi + ((1 : Nat) : K) / ((1000000000 : Nat) : K) * A.spacing) :
    place1 A c t = some (nearest A.values (minP (maxP (t + c) A.lo) A.hi)) := by
  simp only [place1, Smear.edgeTolFactor, not_lt.mpr h1, not_lt.mpr h2, if_false]

theorem target_none1 (Ls : Smear.Lattice K) (b c : Option Nat) : target Ls none b c = none := rfl
theorem target_none2 (Ls : Smear.Lattice K) (a c : Option Nat) : target Ls a none c = none := by cases a <;> rfl
theorem target_none3 (Ls : Smear.Lattice K) (a b : Option Nat) : target Ls a b none = none := by
  cases a <;> cases b <;> rfl
theorem target_some (Ls : Smear.Lattice K) (a b c : Nat) : target Ls (some a) (some b) (some c) = some (Ls.flatIdx a b c) := rfl

/-- what one pass of the loop of `add_same_spaced_grid` does to the flat grid (`q` = flat position in the other lattice) -/
def sameStep (Ls : Smear.Lattice K) (PX PY PZ : List (Option Nat)) (B C : Nat) (tg : List K) (G : List K) (q : Nat) : List K :=
  match target Ls (PX.getD (unflat B C q).1 none) (PY.getD (unflat B C q).2.1 none) (PZ.getD (unflat B C q).2.2 none) with
  | none => G
  | some t => addAt G (t, tg.getD q zero)

theorem length_sameStep (Ls : Smear.Lattice K) (PX PY PZ : List (Option Nat)) (B C : Nat) (tg G : List K) (q : Nat) :
    (sameStep Ls PX PY PZ B C tg G q).length = G.length := by
  unfold sameStep
  split <;> simp [Smear.length_addAt]

theorem length_foldl_sameStep (Ls : Smear.Lattice K) (PX PY PZ : List (Option Nat)) (B C : Nat) (tg : List K) (l : List Nat)
    (G : List K) : (l.foldl (sameStep Ls PX PY PZ B C tg) G).length = G.length := by
  induction l generalizing G with
  | nil => rfl
  | cons q l ih => rw [List.foldl_cons, ih, length_sameStep]

/-- the spacing test of `add_same_spaced_grid` passes for the temporary lattice (`spacingOK` of the model) -/
theorem spacing_fact (A : Axis K) (w : A.WF) (num : Nat) (t : K)
    (h : (if 1 < 2 * num + 1 then some (Axis.spacing ⟨-(((num : Nat) : K) * A.spacing), ((num : Nat) : K) * A.spacing, 2 * num + 1⟩) else none) = some t) :
    absG (A.spacing - t) < ((1 : Nat) : K) / ((1000 : Nat) : K) := by
  have hok := w.spacingOK num
  unfold Smear.spacingOK at hok
  rcases Nat.eq_zero_or_pos num with h0 | h0
  · subst h0; simp at h
  · have h1 : 1 < 2 * num + 1 := by omega
    rw [if_pos h1] at h
    injection h with h
    subst h
    have hne : ¬ num = 0 := by omega
    simp only [hne, if_false, decide_eq_true_eq] at hok
    exact hok

/-- **`add_same_spaced_grid` (generated) = the model's deposit of one particle.**  Called as `add_particle_data` calls it
(the other lattice is the temporary lattice of half-widths `p.numX/Y/Z` holding `tg`, centred at the coordinates of the
node closest to the particle), it adds `tg` node by node at the model's `targets`. -/
theorem addSameSpacedGrid_gen (Ls : Smear.Lattice K) (w : Ls.WF) (p : Part K) (g : List K) (hg : g.length = Ls.size)
    (tg : List K) (htg : tg.length = (2 * p.numX + 1) * (2 * p.numY + 1) * (2 * p.numZ + 1)) (ox oy oz : Option K) :
    Gen.Smear.addSameSpacedGrid (latOf Ls g) (attrsOf Ls ox oy oz)
        (latOf (tempL Ls p.numX p.numY p.numZ) tg) (attrsOf (tempL Ls p.numX p.numY p.numZ) none none none)
        (Ls.X.values.getD (closest Ls.X.values p.x) zero) (Ls.Y.values.getD (closest Ls.Y.values p.y) zero)
        (Ls.Z.values.getD (closest Ls.Z.values p.z) zero)
      = .ok (latOf Ls ((Smear.pick ((targets Ls p).zip tg)).foldl addAt g)) := by
  have hnx := w.X.two
  have hny := w.Y.two
  have hnz := w.Z.two
  set a := p.numX with ha
  set b := p.numY with hb
  set c := p.numZ with hc
  set cX := Ls.X.values.getD (closest Ls.X.values p.x) zero with hcX
  set cY := Ls.Y.values.getD (closest Ls.Y.values p.y) zero with hcY
  set cZ := Ls.Z.values.getD (closest Ls.Z.values p.z) zero with hcZ
  set PX := placeAxis Ls.X a p.x with hPX
  set PY := placeAxis Ls.Y b p.y with hPY
  set PZ := placeAxis Ls.Z c p.z with hPZ
  have lPX : PX.length = 2 * a + 1 := Smear.placeAxis_length _ _ _
  have lPY : PY.length = 2 * b + 1 := Smear.placeAxis_length _ _ _
  have lPZ : PZ.length = 2 * c + 1 := Smear.placeAxis_length _ _ _
  have lTX : (tempCoords Ls.X a).length = 2 * a + 1 := Smear.linspace_length _ _ _
  have lTY : (tempCoords Ls.Y b).length = 2 * b + 1 := Smear.linspace_length _ _ _
  have lTZ : (tempCoords Ls.Z c).length = 2 * c + 1 := Smear.linspace_length _ _ _
  unfold Gen.Smear.addSameSpacedGrid
  -- the spacings of self are known, the spacing test passes
  have s1 : (attrsOf Ls ox oy oz).spacing_x = some Ls.X.spacing := by simp [attrsOf]; omega
  have s2 : (attrsOf Ls ox oy oz).spacing_y = some Ls.Y.spacing := by simp [attrsOf]; omega
  have s3 : (attrsOf Ls ox oy oz).spacing_z = some Ls.Z.spacing := by simp [attrsOf]; omega
  simp only [s1, s2, s3]
  have t1 : ∀ t, (attrsOf (tempL Ls a b c) none none none).spacing_x = some t →
      absG (Ls.X.spacing - t) < ((1 : Nat) : K) / ((1000 : Nat) : K) := fun t h => spacing_fact Ls.X w.X a t h
  have t2 : ∀ t, (attrsOf (tempL Ls a b c) none none none).spacing_y = some t →
      absG (Ls.Y.spacing - t) < ((1 : Nat) : K) / ((1000 : Nat) : K) := fun t h => spacing_fact Ls.Y w.Y b t h
  have t3 : ∀ t, (attrsOf (tempL Ls a b c) none none none).spacing_z = some t →
      absG (Ls.Z.spacing - t) < ((1 : Nat) : K) / ((1000 : Nat) : K) := fun t h => spacing_fact Ls.Z w.Z c t h
  rw [if_pos (by
    simp only [Bool.and_eq_true]
    refine ⟨?_, ?_, ?_⟩
    · cases hh : (attrsOf (tempL Ls a b c) none none none).spacing_x with
      | none => rfl
      | some t => simpa using t1 t hh
    · cases hh : (attrsOf (tempL Ls a b c) none none none).spacing_y with
      | none => rfl
      | some t => simpa using t2 t hh
    · cases hh : (attrsOf (tempL Ls a b c) none none none).spacing_z with
      | none => rfl
      | some t => simpa using t3 t hh)]
  -- the loop
  rw [foldlM_ndindex]
  simp only [latOf_nx, latOf_ny, latOf_nz, tempL_Xn, tempL_Yn, tempL_Zn]
  have hN : (tempL Ls a b c).X.n * (tempL Ls a b c).Y.n * (tempL Ls a b c).Z.n = (2 * a + 1) * (2 * b + 1) * (2 * c + 1) := rfl
  rw [foldlM_range_eq _ (fun q => latOf Ls ((List.range q).foldl (sameStep Ls PX PY PZ (2 * b + 1) (2 * c + 1) tg) g))
    _ (latOf Ls g) (by simp)]
  · -- after the loop: the fold over positions is the model's fold over the deposits
    simp only [bind_ok]
    refine congrArg _ (congrArg _ ?_)
    have hT : targets Ls p = (List.range ((2 * a + 1) * (2 * b + 1) * (2 * c + 1))).map (fun q =>
        target Ls (PX.getD (unflat (2 * b + 1) (2 * c + 1) q).1 none) (PY.getD (unflat (2 * b + 1) (2 * c + 1) q).2.1 none)
          (PZ.getD (unflat (2 * b + 1) (2 * c + 1) q).2.2 none)) := by
      unfold targets
      rw [nested_eq_ndindex PX PY PZ (fun a b c => target Ls a b c) none none none, lPX, lPY, lPZ, ndindex_eq, List.map_map]
      rfl
    have hW : tg = (List.range ((2 * a + 1) * (2 * b + 1) * (2 * c + 1))).map (fun q => tg.getD q zero) := by
      conv_lhs => rw [eq_map_range tg zero, htg]
    rw [hT]
    conv_rhs => rw [hW]
    rw [List.zip_map', foldl_pick_map]
    rfl
  · -- one pass of the loop
    intro q hq
    obtain ⟨hi, hj, hk⟩ := unflat_lt hq
    set i := (unflat (2 * b + 1) (2 * c + 1) q).1 with hi'
    set j := (unflat (2 * b + 1) (2 * c + 1) q).2.1 with hj'
    set k := (unflat (2 * b + 1) (2 * c + 1) q).2.2 with hk'
    set G := (List.range q).foldl (sameStep Ls PX PY PZ (2 * b + 1) (2 * c + 1) tg) g with hG
    have lG : G.length = Ls.size := by rw [hG, length_foldl_sameStep, hg]
    have hnext : (List.range (q + 1)).foldl (sameStep Ls PX PY PZ (2 * b + 1) (2 * c + 1) tg) g
        = sameStep Ls PX PY PZ (2 * b + 1) (2 * c + 1) tg G q := by
      rw [List.range_succ, List.foldl_append]; rfl
    rw [hnext]
    have hcoord := getCoordinates_nat (latOf (tempL Ls a b c) tg) i j k (values_length _) (values_length _) (values_length _)
      hi hj hk zero
    simp only [latOf_xs, latOf_ys, latOf_zs, tempL_X, tempL_Y, tempL_Z] at hcoord
    change (Gen.Smear.getCoordinates (latOf (tempL Ls a b c) tg) (i : Int) (j : Int) (k : Int)).bind _ = _
    rw [hcoord]
    simp only [bind_ok, latOf_xmin, latOf_xmax, latOf_ymin, latOf_ymax, latOf_zmin, latOf_zmax]
    set tx := (tempCoords Ls.X a).getD i zero with htx
    set ty := (tempCoords Ls.Y b).getD j zero with hty
    set tz := (tempCoords Ls.Z c).getD k zero with htz
    have ePX : PX.getD i none = place1 Ls.X cX tx := by
      rw [hPX, placeAxis_eq_map, getD_map' _ _ _ (by rw [lTX]; exact hi) zero none]
    have ePY : PY.getD j none = place1 Ls.Y cY ty := by
      rw [hPY, placeAxis_eq_map, getD_map' _ _ _ (by rw [lTY]; exact hj) zero none]
    have ePZ : PZ.getD k none = place1 Ls.Z cZ tz := by
      rw [hPZ, placeAxis_eq_map, getD_map' _ _ _ (by rw [lTZ]; exact hk) zero none]
    have hgl : (latOf Ls G).grid.length = (latOf Ls G).nx * (latOf Ls G).ny * (latOf Ls G).nz := lG
    have hol : (latOf (tempL Ls a b c) tg).grid.length =
        (latOf (tempL Ls a b c) tg).nx * (latOf (tempL Ls a b c) tg).ny * (latOf (tempL Ls a b c) tg).nz := htg
    have hraw := rawGet_nat (latOf (tempL Ls a b c) tg) hol i j k hi hj hk zero
    have hfl : flat (2 * b + 1) (2 * c + 1) i j k = q := Lattice.flat_unflat q
    simp only [latOf_ny, latOf_nz, latOf_grid] at hraw
    change (latOf (tempL Ls a b c) tg).rawGet (i : Int) (j : Int) (k : Int) = .ok (tg.getD (flat (2 * b + 1) (2 * c + 1) i j k) zero) at hraw
    rw [hfl] at hraw
    -- the edge test, whatever way the six comparisons are written and combined
    refine ite_bool_cases _ _ _ _ (fun hguard => ?_) (fun hguard => ?_)
    · -- some axis misses the lattice: the node is skipped, and so it is in the model
      simp only [Bool.or_eq_true, Bool.and_eq_true] at hguard
      have hnone : place1 Ls.X cX tx = none ∨ place1 Ls.Y cY ty = none ∨ place1 Ls.Z cZ tz = none := by
        rcases hguard with h | h | h | h | h | h <;> have h := of_decide_eq_true h <;>
          first
            | exact Or.inl (place1_none_lo _ _ _ (by linarith))
            | exact Or.inl (place1_none_hi _ _ _ (by linarith))
            | exact Or.inr (Or.inl (place1_none_lo _ _ _ (by linarith)))
            | exact Or.inr (Or.inl (place1_none_hi _ _ _ (by linarith)))
            | exact Or.inr (Or.inr (place1_none_lo _ _ _ (by linarith)))
            | exact Or.inr (Or.inr (place1_none_hi _ _ _ (by linarith)))
      unfold sameStep
      rw [ePX, ePY, ePZ]
      rcases hnone with h | h | h <;> rw [h] <;> simp only [target_none1, target_none2, target_none3]
    · -- the node is deposited
      simp only [Bool.or_eq_false_iff, Bool.and_eq_false_iff] at hguard
      obtain ⟨g1, g2, g3, g4, g5, g6⟩ := hguard
      have g1 := not_lt.mp (of_decide_eq_false g1)
      have g2 := not_lt.mp (of_decide_eq_false g2)
      have g3 := not_lt.mp (of_decide_eq_false g3)
      have g4 := not_lt.mp (of_decide_eq_false g4)
      have g5 := not_lt.mp (of_decide_eq_false g5)
      have g6 := not_lt.mp (of_decide_eq_false g6)
      have eX := place1_some Ls.X cX tx (by linarith) (by linarith)
      have eY := place1_some Ls.Y cY ty (by linarith) (by linarith)
      have eZ := place1_some Ls.Z cZ tz (by linarith) (by linarith)
      unfold sameStep
      rw [ePX, ePY, ePZ]
      have iX := clamp_inR Ls.X w.X (tx + cX)
      have iY := clamp_inR Ls.Y w.Y (ty + cY)
      have iZ := clamp_inR Ls.Z w.Z (tz + cZ)
      have nX := nearest_lt Ls.X w.X (minP (maxP (tx + cX) Ls.X.lo) Ls.X.hi)
      have nY := nearest_lt Ls.Y w.Y (minP (maxP (ty + cY) Ls.Y.lo) Ls.Y.hi)
      have nZ := nearest_lt Ls.Z w.Z (minP (maxP (tz + cZ) Ls.Z.lo) Ls.Z.hi)
      have hget := getValueNN_inR (latOf Ls G) hgl _ _ _ iX iY iZ nX nY nZ zero
      have hset := fun v => setValueNN_inR (latOf Ls G) hgl _ _ _ v iX iY iZ nX nY nZ
      simp only [latOf_xs, latOf_ys, latOf_zs, latOf_ny, latOf_nz, latOf_grid, latOf_with] at hget hset
      -- the position may be written `t + centre` or `centre + t`
      simp only [add_comm cX tx, add_comm cY ty, add_comm cZ tz]
      simp only [eX, eY, eZ, target_some, hget, hraw, bind_ok, Gen.Smear.unwrapOpt, hset, addAt, Smear.Lattice.flatIdx]
      refine congrArg _ (congrArg _ ?_)
      have hidx : flat Ls.Y.n Ls.Z.n (nearest Ls.X.values (minP (maxP (tx + cX) Ls.X.lo) Ls.X.hi))
          (nearest Ls.Y.values (minP (maxP (ty + cY) Ls.Y.lo) Ls.Y.hi))
          (nearest Ls.Z.values (minP (maxP (tz + cZ) Ls.Z.lo) Ls.Z.hi)) < G.length := by
        rw [lG]; exact Smear.flatIdx_lt Ls nX nY nZ
      rw [modify_eq_set_getD _ _ _ zero (by simpa [flat] using hidx)]
      first
        | rfl
        | (refine congrArg _ ?_; first | rfl | exact add_comm _ _ | ring1)

end same

/-! ### `add_particle_data` -/
section main
open Smear (Axis Part linspace zero nearest closest minP maxP placeAxis tempCoords targets target addAt edgeTolFactor
  tempValues)
variable {K : Type} [Field K] [LinearOrder K] [IsStrictOrderedRing K]

/-- a loop over a list whose body is a total function on the states it meets -/
theorem foldlM_list_eq {σ ι : Type} (step : σ → ι → Except Err σ) (f : σ → ι → σ) (P : σ → Prop) (l : List ι)
    (hP : ∀ s x, P s → x ∈ l → P (f s x)) (hstep : ∀ s x, P s → x ∈ l → step s x = .ok (f s x)) (s0 : σ) (h0 : P s0) :
    List.foldlM (m := Except Err) step s0 l = .ok (l.foldl f s0) := by
  induction l generalizing s0 with
  | nil => rfl
  | cons x l ih =>
    rw [List.foldlM_cons, hstep s0 x h0 (by simp)]
    exact ih (fun s y hs hy => hP s y hs (by simp [hy])) (fun s y hs hy => hstep s y hs (by simp [hy])) _
      (hP s0 x h0 (by simp))

/-- which attribute of the particle `quantity` selects (the model is handed the selected number) -/
def quantityOf (q : String) : Option (Gen.Smear.Ptl K → K) :=
  if q = "energy_density" then some (fun p => p.E)
  else if q = "number_density" then some (fun _ => 1)
  else if q = "charge_density" then some (fun p => p.charge)
  else if q = "baryon_density" then some (fun p => p.baryon_number)
  else if q = "strangeness_density" then some (fun p => p.strangeness)
  else none

/-- the particle as the model `Core/Smear.lean` is handed it -/
def toPart (f : Gen.Smear.Ptl K → K) (a b c : Nat) (pt : Gen.Smear.Ptl K) : Part K :=
  ⟨pt.x, pt.y, pt.z, f pt, a, b, c, pt.kv.map some⟩

theorem ofInt_nat (a : Nat) : (Gen.Smear.ofInt ((a : Nat) : Int) : K) = ((a : Nat) : K) := by
  unfold Gen.Smear.ofInt
  have : ¬ ((a : Int) < 0) := by omega
  simp [this]

theorem natOfInt_eq (i : Int) (n : Nat) (h : i = (n : Int)) : Gen.Smear.natOfInt i = .ok n := by
  subst h
  unfold Gen.Smear.natOfInt
  have : ¬ ((n : Int) < 0) := by omega
  simp only [this, if_false, Int.toNat_natCast]

/-- `2 * num + 1` nodes, however the sum is written -/
theorem natOfInt_nat (a : Nat) :
    Gen.Smear.natOfInt (2 * ((a : Nat) : Int) + 1) = .ok (2 * a + 1) ∧
    Gen.Smear.natOfInt (1 + 2 * ((a : Nat) : Int)) = .ok (2 * a + 1) ∧
    Gen.Smear.natOfInt (((a : Nat) : Int) * 2 + 1) = .ok (2 * a + 1) ∧
    Gen.Smear.natOfInt (1 + ((a : Nat) : Int) * 2) = .ok (2 * a + 1) := by
  refine ⟨?_, ?_, ?_, ?_⟩ <;> exact natOfInt_eq _ _ (by push_cast; ring)

theorem bind_eq_of_ok {α β : Type} {x : Except Err α} {v : α} {F : α → Except Err β} {r : Except Err β}
    (hx : x = .ok v) (hr : F v = r) : x.bind F = r := by
  rw [hx]; exact hr

theorem popK_drop (l : List K) (q : Nat) (h : q < l.length) :
    Gen.Smear.popK (l.drop q) = .ok (l[q], l.drop (q + 1)) := by
  rw [List.drop_eq_getElem_cons h]; rfl

theorem getD_append_replicate (A : List K) (n q : Nat) (z : K) (hq : q = A.length) (hn : 0 < n) :
    (A ++ List.replicate n z).getD q z = z := by
  subst hq
  simp [List.getD_eq_getElem?_getD, List.getElem?_append_right, hn]

theorem getD_mid {β : Type} (A : List β) (x : β) (rest : List β) (q : Nat) (hq : q = A.length) (d : β) :
    (A ++ x :: rest).getD q d = x := by
  subst hq
  simp [List.getD_eq_getElem?_getD, List.getElem?_append_right]

/-- what the model deposits for one particle -/
def addOne' (Ls : Smear.Lattice K) (f : Gen.Smear.Ptl K → K) (a b c : Nat) (G : List K) (pt : Gen.Smear.Ptl K) : List K :=
  (Smear.pick ((targets Ls (toPart f a b c pt)).zip (tempValues Ls.cellVolume (f pt) pt.kv))).foldl addAt G

theorem addOne_eq (Ls : Smear.Lattice K) (w : Ls.WF) (f : Gen.Smear.Ptl K → K) (a b c : Nat) (G : List K)
    (pt : Gen.Smear.Ptl K) (hlen : pt.kv.length = (2 * a + 1) * (2 * b + 1) * (2 * c + 1)) :
    Smear.addOne Ls G (toPart f a b c pt) = some (addOne' Ls f a b c G pt) := by
  have k : Smear.KernelOK (toPart f a b c pt) := ⟨by simp [toPart], by simp [toPart, hlen]⟩
  unfold Smear.addOne
  rw [Smear.deposits_eq w k]
  simp [addOne', Smear.kernelVals, toPart, Function.comp_def]

theorem foldl_latOf (Ls : Smear.Lattice K) (f : Gen.Smear.Ptl K → K) (a b c : Nat) (ps : List (Gen.Smear.Ptl K)) (g0 : List K) :
    ps.foldl (fun L pt => latOf Ls (addOne' Ls f a b c L.grid pt)) (latOf Ls g0) =
      latOf Ls (ps.foldl (addOne' Ls f a b c) g0) := by
  induction ps generalizing g0 with
  | nil => rfl
  | cons pt ps ih => simp only [List.foldl_cons, latOf_grid]; exact ih _

/-- **the generated `add_particle_data` = the model's `addParticleData`** -/
theorem addParticleData_gen (Ls : Smear.Lattice K) (w : Ls.WF) (g : List K) (hg : g.length = Ls.size)
    (ox oy oz : Option K) (sigma : K) (isnan : K → Bool) (hnan : ∀ x, isnan x = false) (pyround : K → Int)
    (a b c : Nat)
    (hra : pyround (ox.getD ((3 : Nat) : K) * sigma / Ls.X.spacing) = (a : Int))
    (hrb : pyround (oy.getD ((3 : Nat) : K) * sigma / Ls.Y.spacing) = (b : Int))
    (hrc : pyround (oz.getD ((3 : Nat) : K) * sigma / Ls.Z.spacing) = (c : Int))
    (q kernel : String) (f : Gen.Smear.Ptl K → K) (hq : quantityOf q = some f)
    (hk : kernel = "gaussian" ∨ kernel = "covariant")
    (ps : List (Gen.Smear.Ptl K)) (hlen : ∀ pt ∈ ps, pt.kv.length = (2 * a + 1) * (2 * b + 1) * (2 * c + 1))
    (add : Bool) :
    Gen.Smear.addParticleData linspace isnan pyround (latOf Ls g) (attrsOf Ls ox oy oz) ps sigma q kernel add =
      .ok (latOf Ls (ps.foldl (addOne' Ls f a b c) (if add then g else Smear.reset g))) := by
  have hnx := w.X.two
  have hny := w.Y.two
  have hnz := w.Z.two
  have s1 : (attrsOf Ls ox oy oz).spacing_x = some Ls.X.spacing := by simp [attrsOf]; omega
  have s2 : (attrsOf Ls ox oy oz).spacing_y = some Ls.Y.spacing := by simp [attrsOf]; omega
  have s3 : (attrsOf Ls ox oy oz).spacing_z = some Ls.Z.spacing := by simp [attrsOf]; omega
  have n1 : (attrsOf Ls ox oy oz).n_sigma_x = ox.getD ((3 : Nat) : K) := rfl
  have n2 : (attrsOf Ls ox oy oz).n_sigma_y = oy.getD ((3 : Nat) : K) := rfl
  have n3 : (attrsOf Ls ox oy oz).n_sigma_z = oz.getD ((3 : Nat) : K) := rfl
  have cv : (attrsOf Ls ox oy oz).cell_volume = Ls.cellVolume := rfl
  have hT : (⟨⟨-(((a : Nat) : K) * Ls.X.spacing), ((a : Nat) : K) * Ls.X.spacing, 2 * a + 1⟩,
      ⟨-(((b : Nat) : K) * Ls.Y.spacing), ((b : Nat) : K) * Ls.Y.spacing, 2 * b + 1⟩,
      ⟨-(((c : Nat) : K) * Ls.Z.spacing), ((c : Nat) : K) * Ls.Z.spacing, 2 * c + 1⟩⟩ : Smear.Lattice K) = tempL Ls a b c := rfl
  unfold Gen.Smear.addParticleData
  simp only [s1, s2, s3, n1, n2, n3, cv, hnan, hra, hrb, hrc, Bool.or_self, Bool.false_eq_true, if_false, ite_false,
    bind_ok]
  -- `2 * num + 1` nodes per axis, however the code writes that number
  have na : ∀ i : Int, i = ((2 * a + 1 : Nat) : Int) → Gen.Smear.natOfInt i = .ok (2 * a + 1) := fun i h => natOfInt_eq i _ h
  have nb : ∀ i : Int, i = ((2 * b + 1 : Nat) : Int) → Gen.Smear.natOfInt i = .ok (2 * b + 1) := fun i h => natOfInt_eq i _ h
  have nc : ∀ i : Int, i = ((2 * c + 1 : Nat) : Int) → Gen.Smear.natOfInt i = .ok (2 * c + 1) := fun i h => natOfInt_eq i _ h
  simp (disch := (push_cast; ring1)) only [na, nb, nc]
  simp only [bind_ok, ofInt_nat, initAttrs_gen, init_gen, hT, latOf_nx, latOf_ny, latOf_nz, tempL_Xn, tempL_Yn,
    tempL_Zn, ite_self]
  -- reset unless add
  have hstart : (if (!add) = true then (Gen.Smear.reset (latOf Ls g)).bind fun t => Except.ok t else Except.ok (latOf Ls g))
      = .ok (latOf Ls (if add then g else Smear.reset g)) := by
    cases add
    · simp [reset_gen (latOf Ls g) hg]
    · simp
  rw [hstart, bind_ok]
  set g0 := (if add then g else Smear.reset g) with hg0
  have lg0 : g0.length = Ls.size := by
    rw [hg0]; split <;> simp [Smear.reset, hg]
  rw [foldlM_list_eq _ (fun L pt => latOf Ls (addOne' Ls f a b c L.grid pt))
    (fun L => ∃ G, L = latOf Ls G ∧ G.length = Ls.size) ps ?hP ?hstep (latOf Ls g0) ⟨g0, rfl, lg0⟩]
  case hP =>
    rintro _ pt ⟨G, rfl, lG⟩ _
    exact ⟨_, rfl, by simp [addOne', Smear.length_foldl_addAt, lG]⟩
  · -- the list fold of records is the record of the list fold
    simp only [bind_ok, foldl_latOf]
  case hstep =>
    rintro _ pt ⟨G, rfl, lG⟩ hpt
    have hl := hlen pt hpt
    simp only [latOf_grid]
    -- the quantity
    refine bind_eq_of_ok (v := f pt) ?_ ?_
    · unfold quantityOf at hq
      split_ifs at hq <;> simp only [Option.some.injEq, reduceCtorEq] at hq <;> subst hq <;> simp [*]
    -- the kernel object
    refine bind_eq_of_ok (v := pt.kv) ?_ ?_
    · rcases hk with hk | hk <;> subst hk <;> simp
    -- first loop over the temporary lattice: kernel values in, unnormalised deposits and their sum out
    set N := (2 * a + 1) * (2 * b + 1) * (2 * c + 1) with hN
    set V := Ls.cellVolume with hV
    set v := f pt with hv
    set T := tempL Ls a b c with hTT
    have lT : ∀ G' : List K, G'.length = N →
        (latOf T G').grid.length = (latOf T G').nx * (latOf T G').ny * (latOf T G').nz := fun G' h => h
    refine bind_eq_of_ok (v := (([] : List K), pt.kv.foldl (· + ·) ((0 : Nat) : K),
      latOf T (pt.kv.map (fun s => ((0 : Nat) : K) + v * s / V)))) ?_ ?_
    · rw [foldlM_ndindex]
      rw [foldlM_range_eq _
        (fun q => (pt.kv.drop q, (pt.kv.take q).foldl (· + ·) ((0 : Nat) : K),
          latOf T ((pt.kv.take q).map (fun s => ((0 : Nat) : K) + v * s / V) ++ List.replicate (N - q) ((0 : Nat) : K))))
        N _ (by simp) ?_]
      · have tk : pt.kv.take N = pt.kv := by rw [← hl]; exact List.take_length
        have dr : pt.kv.drop N = [] := by rw [← hl]; exact List.drop_length
        simp [tk, dr]
      · intro q hq
        obtain ⟨hi, hj, hk'⟩ := unflat_lt (nx := 2 * a + 1) hq
        have hq' : q < pt.kv.length := by rw [hl]; exact hq
        have lA : ((pt.kv.take q).map (fun s => ((0 : Nat) : K) + v * s / V)).length = q := by
          simp [List.length_take]; omega
        have lG' : ((pt.kv.take q).map (fun s => ((0 : Nat) : K) + v * s / V) ++ List.replicate (N - q) ((0 : Nat) : K)).length = N := by
          rw [List.length_append, lA, List.length_replicate]; omega
        have hco := getCoordinates_nat (latOf T ((pt.kv.take q).map (fun s => ((0 : Nat) : K) + v * s / V) ++ List.replicate (N - q) ((0 : Nat) : K)))
          _ _ _ (values_length _) (values_length _) (values_length _) hi hj hk' zero
        have hrg := rawGet_nat (latOf T ((pt.kv.take q).map (fun s => ((0 : Nat) : K) + v * s / V) ++ List.replicate (N - q) ((0 : Nat) : K)))
          (lT _ lG') _ _ _ hi hj hk' ((0 : Nat) : K)
        have hrs := fun x => rawSet_nat (latOf T ((pt.kv.take q).map (fun s => ((0 : Nat) : K) + v * s / V) ++ List.replicate (N - q) ((0 : Nat) : K)))
          (lT _ lG') _ _ _ hi hj hk' x
        have hfl : flat (2 * b + 1) (2 * c + 1) (unflat (2 * b + 1) (2 * c + 1) q).1 (unflat (2 * b + 1) (2 * c + 1) q).2.1
            (unflat (2 * b + 1) (2 * c + 1) q).2.2 = q := Lattice.flat_unflat q
        simp only [latOf_ny, latOf_nz, latOf_grid, latOf_with, hTT, tempL_Yn, tempL_Zn, hfl] at hrg hrs
        rw [← hTT] at hrg hrs
        beta_reduce
        dsimp only
        simp only [hco, bind_ok, popK_drop _ _ hq', hrg, hrs]
        rw [getD_append_replicate _ _ _ _ lA.symm (by omega)]
        refine congrArg _ ?_
        rw [List.take_succ_eq_append_getElem hq', List.foldl_append, List.map_append]
        have hrep : List.replicate (N - q) ((0 : Nat) : K) = ((0 : Nat) : K) :: List.replicate (N - (q + 1)) ((0 : Nat) : K) := by
          rw [show N - q = (N - (q + 1)) + 1 by omega, List.replicate_succ]
        rw [hrep, set_mid _ _ _ _ _ lA.symm]
        simp
        leaf_arith
    -- second loop: normalisation by the kernel sum when it is positive
    dsimp only
    simp only [latOf_nx, latOf_ny, latOf_nz, hTT, tempL_Xn, tempL_Yn, tempL_Zn]
    rw [← hTT]
    set norm := pt.kv.foldl (· + ·) ((0 : Nat) : K) with hnorm
    set G1 := pt.kv.map (fun s => ((0 : Nat) : K) + v * s / V) with hG1
    have lG1 : G1.length = N := by rw [hG1, List.length_map, hl]
    refine bind_eq_of_ok (v := latOf T (G1.map (fun x => if ((0 : Nat) : K) < norm then x / norm else x))) ?_ ?_
    · rw [foldlM_ndindex]
      rw [foldlM_range_eq _
        (fun q => latOf T ((G1.take q).map (fun x => if ((0 : Nat) : K) < norm then x / norm else x) ++ G1.drop q))
        N _ (by simp) ?_]
      · have tk : G1.take N = G1 := by rw [← lG1]; exact List.take_length
        have dr : G1.drop N = [] := by rw [← lG1]; exact List.drop_length
        simp [tk, dr]
      · intro q hq
        obtain ⟨hi, hj, hk'⟩ := unflat_lt (nx := 2 * a + 1) hq
        have hq' : q < G1.length := by rw [lG1]; exact hq
        have lA : ((G1.take q).map (fun x => if ((0 : Nat) : K) < norm then x / norm else x)).length = q := by
          simp [List.length_take]; omega
        have lG' : ((G1.take q).map (fun x => if ((0 : Nat) : K) < norm then x / norm else x) ++ G1.drop q).length = N := by
          rw [List.length_append, lA, List.length_drop]; omega
        have hrg := rawGet_nat (latOf T ((G1.take q).map (fun x => if ((0 : Nat) : K) < norm then x / norm else x) ++ G1.drop q))
          (lT _ lG') _ _ _ hi hj hk' ((0 : Nat) : K)
        have hrs := fun x => rawSet_nat (latOf T ((G1.take q).map (fun x => if ((0 : Nat) : K) < norm then x / norm else x) ++ G1.drop q))
          (lT _ lG') _ _ _ hi hj hk' x
        have hfl : flat (2 * b + 1) (2 * c + 1) (unflat (2 * b + 1) (2 * c + 1) q).1 (unflat (2 * b + 1) (2 * c + 1) q).2.1
            (unflat (2 * b + 1) (2 * c + 1) q).2.2 = q := Lattice.flat_unflat q
        simp only [latOf_ny, latOf_nz, latOf_grid, latOf_with, hTT, tempL_Yn, tempL_Zn, hfl] at hrg hrs
        rw [← hTT] at hrg hrs
        beta_reduce
        simp only [hrg, hrs, bind_ok]
        rw [List.take_succ_eq_append_getElem hq', List.map_append, List.append_assoc]
        by_cases hpos : ((0 : Nat) : K) < norm
        · simp only [hpos, decide_true, if_true]
          refine congrArg _ (congrArg _ ?_)
          have lA' : ((G1.take q).map (fun x => x / norm)).length = q := by simp [List.length_take]; omega
          rw [List.drop_eq_getElem_cons hq', getD_mid _ _ _ _ lA'.symm, set_mid _ _ _ _ _ lA'.symm]
          simp
          leaf_arith
        · simp only [hpos, decide_false, Bool.false_eq_true, if_false]
          refine congrArg _ (congrArg _ ?_)
          rw [List.drop_eq_getElem_cons hq']
          simp
          leaf_arith
    -- closest node, its coordinates, and the deposit
    obtain ⟨bw, hfc⟩ := findClosestIndices_gen (latOf Ls G) pt.x pt.y pt.z
    have cX := w.X.closest_lt pt.x
    have cY := w.Y.closest_lt pt.y
    have cZ := w.Z.closest_lt pt.z
    have hco := getCoordinates_nat (latOf Ls G) _ _ _ (values_length _) (values_length _) (values_length _) cX cY cZ zero
    simp only [latOf_xs, latOf_ys, latOf_zs] at hfc hco
    simp only [hfc, bind_ok, hco]
    have G2l : (G1.map (fun x => if ((0 : Nat) : K) < norm then x / norm else x)).length
        = (2 * (toPart f a b c pt).numX + 1) * (2 * (toPart f a b c pt).numY + 1) * (2 * (toPart f a b c pt).numZ + 1) := by
      rw [List.length_map, lG1]; rfl
    have hsame := addSameSpacedGrid_gen Ls w (toPart f a b c pt) G lG _ G2l ox oy oz
    rw [hTT]
    refine bind_eq_of_ok (v := _) hsame ?_
    refine congrArg _ (congrArg _ ?_)
    -- the content of the temporary lattice is the model's `tempValues`
    unfold addOne'
    refine congrArg _ (congrArg _ (congrArg _ ?_))
    rw [hG1, List.map_map]
    unfold tempValues
    apply List.map_congr_left
    intro s _
    have hs : sumL pt.kv = norm := rfl
    simp only [Function.comp, hs, Smear.zero, toPart]
    split <;> simp <;> first | rfl | (simp only [hv, hV]; ring1)


/-- the model run on the particles as it is handed them -/
theorem core_addParticleData (Ls : Smear.Lattice K) (w : Ls.WF) (g : List K) (f : Gen.Smear.Ptl K → K) (a b c : Nat)
    (ps : List (Gen.Smear.Ptl K)) (hlen : ∀ pt ∈ ps, pt.kv.length = (2 * a + 1) * (2 * b + 1) * (2 * c + 1)) (add : Bool) :
    Smear.addParticleData Ls g (ps.map (toPart f a b c)) add =
      some (ps.foldl (addOne' Ls f a b c) (if add then g else Smear.reset g)) := by
  unfold Smear.addParticleData
  generalize (if add = true then g else Smear.reset g) = g0
  induction ps generalizing g0 with
  | nil => rfl
  | cons pt ps ih =>
    simp only [List.map_cons, List.foldlM_cons, List.foldl_cons]
    rw [addOne_eq Ls w f a b c g0 pt (hlen pt (by simp))]
    exact ih (fun p hp => hlen p (by simp [hp])) _

/-- **Tie T for C16.**  On the object the constructor builds for the model lattice `Ls` (any `n_sigma` arguments, any
content `g`), with `np.linspace` = the model's `linspace`, no NaN among the numbers (`isnan` constantly false: over an
ordered field there is none), `round(n_sigma·sigma/spacing)` = the half-widths `a b c`, a quantity name of the table
`quantityOf`, a kernel name the code accepts and one recorded pdf value per node of the temporary lattice, the function
GENERATED from the current source returns exactly the lattice the hand model `Smear.addParticleData` computes from the
selected quantity values, the half-widths and the same kernel tables. -/
theorem gen_eq_model (Ls : Smear.Lattice K) (w : Ls.WF) (g : List K) (hg : g.length = Ls.size)
    (ox oy oz : Option K) (sigma : K) (isnan : K → Bool) (hnan : ∀ x, isnan x = false) (pyround : K → Int)
    (a b c : Nat)
    (hra : pyround (ox.getD ((3 : Nat) : K) * sigma / Ls.X.spacing) = (a : Int))
    (hrb : pyround (oy.getD ((3 : Nat) : K) * sigma / Ls.Y.spacing) = (b : Int))
    (hrc : pyround (oz.getD ((3 : Nat) : K) * sigma / Ls.Z.spacing) = (c : Int))
    (q kernel : String) (f : Gen.Smear.Ptl K → K) (hq : quantityOf q = some f)
    (hk : kernel = "gaussian" ∨ kernel = "covariant")
    (ps : List (Gen.Smear.Ptl K)) (hlen : ∀ pt ∈ ps, pt.kv.length = (2 * a + 1) * (2 * b + 1) * (2 * c + 1))
    (add : Bool) :
    ∃ g', Smear.addParticleData Ls g (ps.map (toPart f a b c)) add = some g' ∧
      Gen.Smear.addParticleData linspace isnan pyround (latOf Ls g) (attrsOf Ls ox oy oz) ps sigma q kernel add =
        .ok (latOf Ls g') :=
  ⟨_, core_addParticleData Ls w g f a b c ps hlen add,
    addParticleData_gen Ls w g hg ox oy oz sigma isnan hnan pyround a b c hra hrb hrc q kernel f hq hk ps hlen add⟩

end main

end SparkxVerif.SmearGen
