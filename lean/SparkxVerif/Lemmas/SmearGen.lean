/-
C16 helper (tie T), part 1: the primitives and helper methods of `Gen/Smear.lean` — regenerated on every run from the
CURRENT text of `src/sparkx/Lattice3D.py` by `harness/translate/smear.py` — on the arguments `add_particle_data`
gives them, the loops over `np.ndindex` as folds over the flat node index, `reset`, and the constructor
(`init` = the record of the model lattice, `initAttrs` = the model's cell volume / spacings / n_sigma).

The proofs do not compare syntax: they unfold the generated definition, rewrite the calls it makes with the lemmas
about the callees and close what is left by `simp` / `omega` / `ring1`; a renamed local, a hoisted or inlined
subexpression (the translator keeps pure locals symbolic, so these do not even change the text), a re-ordered
product re-prove, a changed sign / bound / comparison does not.
-/
import SparkxVerif.Gen.Smear
import SparkxVerif.Lemmas.Smear
import SparkxVerif.Lemmas.Lattice
import Mathlib.Tactic.Ring
import Mathlib.Tactic.Linarith
import Mathlib.Tactic.Tauto
import Mathlib.Tactic.Push

set_option linter.unusedSimpArgs false
set_option linter.unusedSectionVars false
set_option linter.unusedVariables false

namespace SparkxVerif.SmearGen
open SparkxVerif.Lattice (Err Lat Geom mkGeom pyGet ndindex flat unflat npAxis absG)


@[simp] theorem bind_ok {ε α β : Type} (a : α) (f : α → Except ε β) : (Except.ok a : Except ε α).bind f = f a := rfl
@[simp] theorem bind_error {ε α β : Type} (e : ε) (f : α → Except ε β) : (Except.error e : Except ε α).bind f = .error e := rfl

/-! ### primitives: the two model files write the same numpy primitives twice -/
section prim
variable {α : Type} [LT α] [DecidableLT α]

theorem argminGo_eq (ds : List α) (best : α) (bi i : Nat) :
    Lattice.argminGo ds best bi i = Smear.argminAux best bi i ds := by
  induction ds generalizing best bi i with
  | nil => rfl
  | cons d ds ih =>
    simp only [Lattice.argminGo, Smear.argminAux]
    split <;> exact ih _ _ _

theorem argminFirst_eq (ds : List α) : Lattice.argminFirst ds = Smear.argminFirst ds := by
  cases ds with
  | nil => rfl
  | cons d ds => exact argminGo_eq ds d 0 1

variable [Sub α] [Neg α] [NatCast α]

theorem absG_eq_absV (x : α) : absG x = Smear.absV x := rfl

/-- `np.abs(value - values).argmin()` in the generated text = the model's `nearest` -/
theorem nearest_gen (xs : List α) (v : α) :
    Lattice.argminFirst ((xs.map (fun a => v - a)).map absG) = Smear.nearest xs v := by
  rw [argminFirst_eq, List.map_map]; rfl

/-- `np.argmin(np.abs(values - value))` in the generated text = the model's `closest` -/
theorem closest_gen (xs : List α) (v : α) :
    Lattice.argminFirst ((xs.map (fun a => a - v)).map absG) = Smear.closest xs v := by
  rw [argminFirst_eq, List.map_map]; rfl

end prim

section pyget
variable {α : Type}

theorem pyGet_nat (xs : List α) (i : Nat) :
    pyGet xs (i : Int) = match xs[i]? with | some a => .ok a | none => .error .index := by
  unfold pyGet npAxis
  by_cases h : i < xs.length
  · have h4 : ¬ ((i : Int) < 0) := by omega
    have h5 : ¬ ((xs.length : Int) ≤ (i : Int)) := by omega
    simp only [h4, if_false, h5, false_or, Int.toNat_natCast, List.getElem?_eq_getElem h]
  · have h3 : xs[i]? = none := List.getElem?_eq_none (by omega)
    have h4 : ¬ ((i : Int) < 0) := by omega
    have h5 : ((xs.length : Int) ≤ (i : Int)) := by omega
    simp only [h4, if_false, h5, or_true, if_true, h3]

theorem pyGet_zero (xs : List α) :
    pyGet xs 0 = match xs.head? with | some a => .ok a | none => .error .index := by
  cases xs with
  | nil => rfl
  | cons a t =>
    have : ¬ ((t.length : Int) + 1 ≤ 0) := by omega
    simp [pyGet, npAxis, this]

theorem pyGet_neg_one (xs : List α) :
    pyGet xs (-1) = match xs.getLast? with | some a => .ok a | none => .error .index := by
  cases xs with
  | nil => rfl
  | cons a t =>
    have h1 : ((-1 : Int) + ((t.length + 1 : Nat) : Int)).toNat = t.length := by omega
    have h2 : ¬ ((-1 : Int) + ((t.length + 1 : Nat) : Int) < 0 ∨
        ((t.length + 1 : Nat) : Int) ≤ (-1 : Int) + ((t.length + 1 : Nat) : Int)) := by omega
    simp only [pyGet, npAxis, List.length_cons, show ((-1 : Int) < 0) from by omega, if_true, h2, if_false, h1,
      List.getLast?_eq_getElem?, Nat.add_sub_cancel]
    rw [List.getElem?_eq_getElem (by simp)]

end pyget

section raw
variable {α : Type}

theorem rawGet_nat (L : Lat α α) (hg : L.grid.length = L.nx * L.ny * L.nz) (i j k : Nat)
    (hi : i < L.nx) (hj : j < L.ny) (hk : k < L.nz) (d : α) :
    L.rawGet (i : Int) (j : Int) (k : Int) = .ok (L.grid.getD (flat L.ny L.nz i j k) d) := by
  unfold Lat.rawGet
  rw [Lattice.npAxis_nat hi, Lattice.npAxis_nat hj, Lattice.npAxis_nat hk]
  have : flat L.ny L.nz i j k < L.grid.length := by rw [hg]; exact Lattice.flat_lt hi hj hk
  simp [List.getD_eq_getElem?_getD, List.getElem?_eq_getElem this]

theorem rawSet_nat (L : Lat α α) (hg : L.grid.length = L.nx * L.ny * L.nz) (i j k : Nat)
    (hi : i < L.nx) (hj : j < L.ny) (hk : k < L.nz) (v : α) :
    L.rawSet (i : Int) (j : Int) (k : Int) v = .ok { L with grid := L.grid.set (flat L.ny L.nz i j k) v } := by
  unfold Lat.rawSet
  rw [Lattice.npAxis_nat hi, Lattice.npAxis_nat hj, Lattice.npAxis_nat hk]
  have : flat L.ny L.nz i j k < L.grid.length := by rw [hg]; exact Lattice.flat_lt hi hj hk
  simp [this]

end raw

/-! ### the generated helpers on valid arguments -/
section helpers
variable {α : Type} [LT α] [LE α] [DecidableLT α] [DecidableLE α] [Add α] [Sub α] [Neg α] [NatCast α] [Mul α] [Div α]

/-- `__get_value` on an index inside the array -/
theorem getCoord_nat (xs : List α) (n i : Nat) (hn : xs.length = n) (hi : i < n) (d : α) :
    Gen.Smear.getCoord (i : Int) xs (n : Int) = .ok (xs.getD i d) := by
  unfold Gen.Smear.getCoord
  have h1 : ¬ ((i : Int) < 0) := by omega
  have h2 : ¬ ((n : Int) ≤ (i : Int)) := by omega
  have h3 : xs[i]? = some (xs.getD i d) := by
    rw [List.getD_eq_getElem?_getD, List.getElem?_eq_getElem (by omega)]; rfl
  simp only [h1, h2, decide_false, Bool.or_self, Bool.false_eq_true, if_false]
  rw [pyGet_nat, h3]
  rfl

/-- `get_coordinates` on valid indices -/
theorem getCoordinates_nat (L : Lat α α) (i j k : Nat) (hx : L.xs.length = L.nx) (hy : L.ys.length = L.ny)
    (hz : L.zs.length = L.nz) (hi : i < L.nx) (hj : j < L.ny) (hk : k < L.nz) (d : α) :
    Gen.Smear.getCoordinates L (i : Int) (j : Int) (k : Int) = .ok (L.xs.getD i d, L.ys.getD j d, L.zs.getD k d) := by
  unfold Gen.Smear.getCoordinates
  simp [getCoord_nat _ _ _ hx hi d, getCoord_nat _ _ _ hy hj d, getCoord_nat _ _ _ hz hk d]

theorem isValidIndex_nat (L : Lat α α) (i j k : Nat) (hi : i < L.nx) (hj : j < L.ny) (hk : k < L.nz) :
    Gen.Smear.isValidIndex L (i : Int) (j : Int) (k : Int) = .ok true := by
  unfold Gen.Smear.isValidIndex
  refine congrArg _ ?_
  simp only [Bool.and_eq_true, decide_eq_true_eq]
  omega

/-- `set_value_by_index` on valid indices writes the node -/
theorem setValueByIndex_nat (L : Lat α α) (hg : L.grid.length = L.nx * L.ny * L.nz) (i j k : Nat)
    (hi : i < L.nx) (hj : j < L.ny) (hk : k < L.nz) (v : α) :
    Gen.Smear.setValueByIndex L (i : Int) (j : Int) (k : Int) v =
      .ok ({ L with grid := L.grid.set (flat L.ny L.nz i j k) v }, false) := by
  unfold Gen.Smear.setValueByIndex
  simp [isValidIndex_nat L i j k hi hj hk, rawSet_nat L hg i j k hi hj hk]

/-- `get_value_by_index` on valid indices reads the node -/
theorem getValueByIndex_nat (L : Lat α α) (hg : L.grid.length = L.nx * L.ny * L.nz) (i j k : Nat)
    (hi : i < L.nx) (hj : j < L.ny) (hk : k < L.nz) (d : α) :
    Gen.Smear.getValueByIndex L (i : Int) (j : Int) (k : Int) = .ok (some (L.grid.getD (flat L.ny L.nz i j k) d)) := by
  unfold Gen.Smear.getValueByIndex
  simp [isValidIndex_nat L i j k hi hj hk, rawGet_nat L hg i j k hi hj hk d]

/-- `__find_closest_index` = the model's `closest` -/
theorem findClosestIndex_gen (xs : List α) (v : α) :
    Gen.Smear.findClosestIndex v xs = .ok ((Smear.closest xs v : Nat) : Int) := by
  unfold Gen.Smear.findClosestIndex
  rw [closest_gen]

/-- `find_closest_indices` = the model's `closest` on every axis (the warning flag is not part of C16) -/
theorem findClosestIndices_gen (L : Lat α α) (x y z : α) :
    ∃ b, Gen.Smear.findClosestIndices L x y z =
      .ok (((Smear.closest L.xs x : Nat), (Smear.closest L.ys y : Nat), (Smear.closest L.zs z : Nat)), b) := by
  unfold Gen.Smear.findClosestIndices Gen.Smear.isWithinRange
  simp only [findClosestIndex_gen, bind_ok]
  exact ⟨_, rfl⟩

/-- `__get_index_nearest_neighbor` on a point between the first and the last node = the model's `nearest` -/
theorem getIndexNN_inrange (xs : List α) (v lo hi : α) (h0 : xs.head? = some lo) (h1 : xs.getLast? = some hi)
    (hlo : lo ≤ v) (hhi : v ≤ hi) :
    Gen.Smear.getIndexNN v xs = .ok ((Smear.nearest xs v : Nat) : Int) := by
  unfold Gen.Smear.getIndexNN
  simp only [pyGet_zero, pyGet_neg_one, h0, h1, bind_ok, hlo, hhi, decide_true, if_true, nearest_gen]

/-- `values[0] <= v <= values[-1]` -/
def InR (xs : List α) (v : α) : Prop := ∃ lo hi, xs.head? = some lo ∧ xs.getLast? = some hi ∧ lo ≤ v ∧ v ≤ hi

theorem getIndexNN_inR (xs : List α) (v : α) (h : InR xs v) :
    Gen.Smear.getIndexNN v xs = .ok ((Smear.nearest xs v : Nat) : Int) := by
  obtain ⟨lo, hi, h0, h1, hlo, hhi⟩ := h
  exact getIndexNN_inrange xs v lo hi h0 h1 hlo hhi

theorem getIndicesNN_inR (L : Lat α α) (x y z : α) (hx : InR L.xs x) (hy : InR L.ys y) (hz : InR L.zs z) :
    Gen.Smear.getIndicesNN L x y z =
      .ok (((Smear.nearest L.xs x : Nat) : Int), ((Smear.nearest L.ys y : Nat) : Int), ((Smear.nearest L.zs z : Nat) : Int)) := by
  unfold Gen.Smear.getIndicesNN
  simp only [getIndexNN_inR _ _ hx, getIndexNN_inR _ _ hy, getIndexNN_inR _ _ hz, bind_ok]

/-- `get_value_nearest_neighbor` on a point of the lattice box reads the nearest node -/
theorem getValueNN_inR (L : Lat α α) (hg : L.grid.length = L.nx * L.ny * L.nz) (x y z : α)
    (hx : InR L.xs x) (hy : InR L.ys y) (hz : InR L.zs z)
    (ha : Smear.nearest L.xs x < L.nx) (hb : Smear.nearest L.ys y < L.ny) (hc : Smear.nearest L.zs z < L.nz) (d : α) :
    Gen.Smear.getValueNN L x y z =
      .ok (some (L.grid.getD (flat L.ny L.nz (Smear.nearest L.xs x) (Smear.nearest L.ys y) (Smear.nearest L.zs z)) d)) := by
  unfold Gen.Smear.getValueNN
  simp only [getIndicesNN_inR L x y z hx hy hz, bind_ok, getValueByIndex_nat L hg _ _ _ ha hb hc d]

/-- `set_value_nearest_neighbor` on a point of the lattice box writes the nearest node -/
theorem setValueNN_inR (L : Lat α α) (hg : L.grid.length = L.nx * L.ny * L.nz) (x y z v : α)
    (hx : InR L.xs x) (hy : InR L.ys y) (hz : InR L.zs z)
    (ha : Smear.nearest L.xs x < L.nx) (hb : Smear.nearest L.ys y < L.ny) (hc : Smear.nearest L.zs z < L.nz) :
    Gen.Smear.setValueNN L x y z v =
      .ok ({ L with grid := L.grid.set (flat L.ny L.nz (Smear.nearest L.xs x) (Smear.nearest L.ys y) (Smear.nearest L.zs z)) v }, false) := by
  unfold Gen.Smear.setValueNN
  simp only [getIndicesNN_inR L x y z hx hy hz, bind_ok, setValueByIndex_nat L hg _ _ _ ha hb hc v]

end helpers

/-! ### loops over `np.ndindex` as folds over the flat index -/
section loops

/-- a fold whose state after `q` steps is known in closed form -/
theorem foldlM_range_eq {σ : Type} (step : σ → Nat → Except Err σ) (F : Nat → σ) (N : Nat) (s0 : σ) (h0 : s0 = F 0)
    (hstep : ∀ q, q < N → step (F q) q = .ok (F (q + 1))) :
    List.foldlM (m := Except Err) step s0 (List.range N) = .ok (F N) := by
  subst h0
  induction N with
  | zero => rfl
  | succ n ih =>
    rw [List.range_succ, List.foldlM_append, ih (fun q hq => hstep q (by omega))]
    show List.foldlM (m := Except Err) step (F n) [n] = _
    simp [List.foldlM_cons, hstep n (by omega)]

theorem inner_eq (A C : Nat) (B : Nat) :
    ((List.range B).flatMap fun j => (List.range C).map fun k => (A, j, k)) =
      (List.range (B * C)).map (fun r => (A, r / C, r % C)) := by
  induction B with
  | zero => simp
  | succ b ih =>
    rw [List.range_succ, List.flatMap_append, ih]
    have : (b + 1) * C = b * C + C := by ring
    rw [this, List.range_add, List.map_append]
    congr 1
    simp only [List.flatMap_cons, List.flatMap_nil, List.append_nil, List.map_map]
    apply List.map_congr_left
    intro k hk
    have hk' : k < C := List.mem_range.mp hk
    simp only [Function.comp]
    have hC : 0 < C := by omega
    rw [show b * C + k = k + C * b by ring, Nat.add_mul_div_left _ _ hC, Nat.add_mul_mod_self_left,
      Nat.div_eq_of_lt hk', Nat.mod_eq_of_lt hk']
    simp

/-- `np.ndindex((A, B, C))` visits the flat positions `0, 1, …` in order -/
theorem ndindex_eq (A B C : Nat) : ndindex A B C = (List.range (A * B * C)).map (unflat B C) := by
  unfold ndindex
  induction A with
  | zero => simp
  | succ a ih =>
    rw [List.range_succ, List.flatMap_append, ih]
    have : (a + 1) * B * C = a * B * C + B * C := by ring
    rw [this, List.range_add, List.map_append]
    congr 1
    simp only [List.flatMap_cons, List.flatMap_nil, List.append_nil, List.map_map]
    rw [inner_eq]
    apply List.map_congr_left
    intro r hr
    have hr' : r < B * C := List.mem_range.mp hr
    simp only [Function.comp, unflat]
    have hC : 0 < C := by
      rcases Nat.eq_zero_or_pos C with h | h
      · subst h; simp at hr'
      · exact h
    have hB : 0 < B := by
      rcases Nat.eq_zero_or_pos B with h | h
      · subst h; simp at hr'
      · exact h
    have e1 : (a * B * C + r) / C = a * B + r / C := by
      rw [show a * B * C + r = r + C * (a * B) by ring, Nat.add_mul_div_left _ _ hC]; ring
    have e2 : (a * B * C + r) % C = r % C := by
      rw [show a * B * C + r = r + C * (a * B) by ring, Nat.add_mul_mod_self_left]
    have hq : r / C < B := by
      rw [Nat.div_lt_iff_lt_mul hC]; exact hr'
    rw [e1, e2]
    rw [show a * B + r / C = r / C + B * a by ring, Nat.add_mul_div_left _ _ hB, Nat.add_mul_mod_self_left,
      Nat.div_eq_of_lt hq, Nat.mod_eq_of_lt hq]
    simp

theorem unflat_lt {nx ny nz q : Nat} (h : q < nx * ny * nz) :
    (unflat ny nz q).1 < nx ∧ (unflat ny nz q).2.1 < ny ∧ (unflat ny nz q).2.2 < nz := by
  have hnz : 0 < nz := by
    rcases Nat.eq_zero_or_pos nz with h0 | h0
    · subst h0; simp at h
    · exact h0
  have hny : 0 < ny := by
    rcases Nat.eq_zero_or_pos ny with h0 | h0
    · subst h0; simp at h
    · exact h0
  unfold unflat
  refine ⟨?_, Nat.mod_lt _ hny, Nat.mod_lt _ hnz⟩
  rw [Nat.div_lt_iff_lt_mul hny, Nat.div_lt_iff_lt_mul hnz]
  exact h

/-- a loop over `np.ndindex((A, B, C))` is the loop over the flat positions -/
theorem foldlM_ndindex {σ : Type} (step : σ → Nat × Nat × Nat → Except Err σ) (s0 : σ) (A B C : Nat) :
    List.foldlM (m := Except Err) step s0 (ndindex A B C) =
      List.foldlM (m := Except Err) (fun s q => step s (unflat B C q)) s0 (List.range (A * B * C)) := by
  rw [ndindex_eq, List.foldlM_map]

theorem set_mid {α : Type} (l1 : List α) (a b : α) (l2 : List α) (q : Nat) (hq : q = l1.length) :
    (l1 ++ a :: l2).set q b = l1 ++ b :: l2 := by
  subst hq; simp

theorem modify_mid {α : Type} (l1 : List α) (a : α) (f : α → α) (l2 : List α) (q : Nat) (hq : q = l1.length) :
    (l1 ++ a :: l2).modify q f = l1 ++ f a :: l2 := by
  subst hq
  induction l1 with
  | nil => simp
  | cons x l ih => simp [ih]

end loops

/-! ### `reset` -/
section reset
variable {α : Type} [NatCast α]

/-- the generated `reset` (a loop of single writes) clears every node of a well-shaped lattice -/
theorem reset_gen (L : Lat α α) (hg : L.grid.length = L.nx * L.ny * L.nz) :
    Gen.Smear.reset L = .ok { L with grid := Smear.reset L.grid } := by
  unfold Gen.Smear.reset
  rw [foldlM_ndindex]
  rw [foldlM_range_eq _ (fun q => ({ L with grid := List.replicate q ((0 : Nat) : α) ++ L.grid.drop q } : Lat α α))
    (L.nx * L.ny * L.nz) L (by simp)]
  · simp only [bind_ok]
    refine congrArg _ ?_
    have : L.grid.drop (L.nx * L.ny * L.nz) = [] := by rw [← hg]; simp
    rw [this, List.append_nil, Smear.reset, Smear.zero, List.map_const', hg]
  · intro q hq
    obtain ⟨h1, h2, h3⟩ := unflat_lt hq
    have hgq : ({ L with grid := List.replicate q ((0 : Nat) : α) ++ L.grid.drop q } : Lat α α).grid.length
        = L.nx * L.ny * L.nz := by
      simp only [List.length_append, List.length_replicate, List.length_drop]; omega
    rw [rawSet_nat _ hgq _ _ _ h1 h2 h3]
    simp only [bind_ok, Lattice.flat_unflat]
    refine congrArg _ ?_
    have hq' : q < L.grid.length := by omega
    rw [List.drop_eq_getElem_cons hq']
    congr 1
    rw [set_mid _ _ _ _ _ (by simp), List.replicate_succ', List.append_assoc]
    rfl

end reset
/-! ### the objects: a model lattice as the record the constructor builds -/
section field
variable {K : Type} [Field K] [LinearOrder K] [IsStrictOrderedRing K]
open Smear (Axis Part linspace zero nearest closest minP maxP placeAxis tempCoords targets target addAt edgeTolFactor)

/-- the `Lattice3D` object of the model lattice `M` holding the flat grid `g` -/
def latOf (M : Smear.Lattice K) (g : List K) : Lat K K :=
  { toGeom := mkGeom linspace M.X.lo M.X.hi M.Y.lo M.Y.hi M.Z.lo M.Z.hi M.X.n M.Y.n M.Z.n, grid := g }

/-- the generated `__init__` builds `latOf` with a zero grid -/
theorem init_gen (a b c d e f : K) (nx ny nz : Nat) :
    Gen.Smear.init linspace a b c d e f nx ny nz =
      latOf ⟨⟨a, b, nx⟩, ⟨c, d, ny⟩, ⟨e, f, nz⟩⟩ (List.replicate (nx * ny * nz) ((0 : Nat) : K)) := by
  first
    | rfl
    | (unfold Gen.Smear.init latOf mkGeom; congr 1 <;> first | rfl | (congr 1 <;> first | rfl | ring_nf))

@[simp] theorem latOf_xs (M : Smear.Lattice K) (g : List K) : (latOf M g).xs = M.X.values := rfl
@[simp] theorem latOf_ys (M : Smear.Lattice K) (g : List K) : (latOf M g).ys = M.Y.values := rfl
@[simp] theorem latOf_zs (M : Smear.Lattice K) (g : List K) : (latOf M g).zs = M.Z.values := rfl
@[simp] theorem latOf_nx (M : Smear.Lattice K) (g : List K) : (latOf M g).nx = M.X.n := rfl
@[simp] theorem latOf_ny (M : Smear.Lattice K) (g : List K) : (latOf M g).ny = M.Y.n := rfl
@[simp] theorem latOf_nz (M : Smear.Lattice K) (g : List K) : (latOf M g).nz = M.Z.n := rfl
@[simp] theorem latOf_xmin (M : Smear.Lattice K) (g : List K) : (latOf M g).xmin = M.X.lo := rfl
@[simp] theorem latOf_xmax (M : Smear.Lattice K) (g : List K) : (latOf M g).xmax = M.X.hi := rfl
@[simp] theorem latOf_ymin (M : Smear.Lattice K) (g : List K) : (latOf M g).ymin = M.Y.lo := rfl
@[simp] theorem latOf_ymax (M : Smear.Lattice K) (g : List K) : (latOf M g).ymax = M.Y.hi := rfl
@[simp] theorem latOf_zmin (M : Smear.Lattice K) (g : List K) : (latOf M g).zmin = M.Z.lo := rfl
@[simp] theorem latOf_zmax (M : Smear.Lattice K) (g : List K) : (latOf M g).zmax = M.Z.hi := rfl
@[simp] theorem latOf_grid (M : Smear.Lattice K) (g : List K) : (latOf M g).grid = g := rfl
@[simp] theorem latOf_with (M : Smear.Lattice K) (g g' : List K) : ({ latOf M g with grid := g' } : Lat K K) = latOf M g' := rfl

theorem values_length (A : Axis K) : A.values.length = A.n := Smear.linspace_length _ _ _

/-- the derived attributes of the object of `M` built with the given `n_sigma` arguments -/
def attrsOf (M : Smear.Lattice K) (ox oy oz : Option K) : Gen.Smear.Attrs K :=
  { cell_volume := M.cellVolume,
    spacing_x := if 1 < M.X.n then some M.X.spacing else none,
    spacing_y := if 1 < M.Y.n then some M.Y.spacing else none,
    spacing_z := if 1 < M.Z.n then some M.Z.spacing else none,
    n_sigma_x := ox.getD ((3 : Nat) : K), n_sigma_y := oy.getD ((3 : Nat) : K), n_sigma_z := oz.getD ((3 : Nat) : K) }

theorem attr_spacing_aux (A : Axis K) :
    (if decide (1 < A.n) = true then
        (pyGet (linspace A.lo A.hi A.n) (1 : Int)).bind fun t1 =>
        (pyGet (linspace A.lo A.hi A.n) (0 : Int)).bind fun t2 => Except.ok (some (t1 - t2))
      else (Except.ok none : Except Err (Option K))) = .ok (if 1 < A.n then some A.spacing else none) := by
  by_cases h : 1 < A.n
  · have l := values_length A
    unfold Axis.values at l
    have h1 : (linspace A.lo A.hi A.n)[1]? = some ((linspace A.lo A.hi A.n).getD 1 zero) := by
      rw [List.getD_eq_getElem?_getD, List.getElem?_eq_getElem (by omega)]; rfl
    have h0 : (linspace A.lo A.hi A.n)[0]? = some ((linspace A.lo A.hi A.n).getD 0 zero) := by
      rw [List.getD_eq_getElem?_getD, List.getElem?_eq_getElem (by omega)]; rfl
    simp only [h, decide_true, if_true, show ((1 : Int) = ((1 : Nat) : Int)) from rfl,
      show ((0 : Int) = ((0 : Nat) : Int)) from rfl, pyGet_nat, h1, h0, bind_ok]
    rfl
  · simp [h]

/-- the generated constructor attributes are the model's cell volume and spacings -/
theorem initAttrs_gen (a b c d e f : K) (nx ny nz : Nat) (ox oy oz : Option K) :
    Gen.Smear.initAttrs linspace a b c d e f nx ny nz ox oy oz =
      .ok (attrsOf ⟨⟨a, b, nx⟩, ⟨c, d, ny⟩, ⟨e, f, nz⟩⟩ ox oy oz) := by
  have hx := attr_spacing_aux (⟨a, b, nx⟩ : Axis K)
  have hy := attr_spacing_aux (⟨c, d, ny⟩ : Axis K)
  have hz := attr_spacing_aux (⟨e, f, nz⟩ : Axis K)
  have hcv : Gen.Smear.attr_cell_volume_ linspace a b c d e f nx ny nz ox oy oz
      = .ok (Smear.Lattice.cellVolume ⟨⟨a, b, nx⟩, ⟨c, d, ny⟩, ⟨e, f, nz⟩⟩) := by
    unfold Gen.Smear.attr_cell_volume_ Smear.Lattice.cellVolume
    first
      | rfl
      | (refine congrArg _ ?_; simp only [absG_eq_absV, Smear.absV_eq_abs]; refine congrArg _ ?_; push_cast; ring1)
  unfold Gen.Smear.initAttrs
  simp only [hcv, bind_ok, Gen.Smear.attr_n_sigma_x_, Gen.Smear.attr_n_sigma_y_, Gen.Smear.attr_n_sigma_z_,
    Gen.Smear.attr_spacing_x_, Gen.Smear.attr_spacing_y_, Gen.Smear.attr_spacing_z_]
  simp only [hx, hy, hz, bind_ok]
  cases ox <;> cases oy <;> cases oz <;> rfl

end field
end SparkxVerif.SmearGen
