/-
`Dmg.jprefixHyp` PROVED for every prefix of every line of a rendered JETSCAPE text (`sigmaGen` occurs in the trailer only; the
count read from a cut event header is empty or a natural number).  Core Lean only.
-/
import SparkxVerif.Lemmas.ClassifyPrefixHyp

set_option linter.unusedSimpArgs false

namespace SparkxVerif.Rd
open SparkxVerif.Str

/-! ### `Dmg.jprefixHyp` for every prefix of every line of a rendered JETSCAPE text -/

/-- if the scan takes the (cut) line for an event header, the count it reads is not negative -/
def jcountOk (pt : Bool) (P : LineF) : Bool :=
  !(P.hasHash && Dmg.jKey pt P) || (match Dmg.tokInt P.toksTab 8 with | some n => decide (0 ≤ n) | none => true)

theorem jKey_prefix_false {pt : Bool} {s : String} (h : Dmg.jKey pt (analyse s) = false) (q : Nat) :
    Dmg.jKey pt (analyse (prefixOf s q)) = false := by
  cases pt
  · exact hasSub_prefix_false (p := "N_hadrons") h q
  · exact hasSub_prefix_false (p := "N_partons") h q

theorem jcountOk_of_noKey {pt : Bool} {P : LineF} (h : (P.hasHash && Dmg.jKey pt P) = false) : jcountOk pt P = true := by
  simp [jcountOk, h]

/-- **a cut event header**: what survives of the count is empty or a natural number -/
theorem jcountOk_prefix_header (pt : Bool) {sep : String} (hsep : sep ∈ ["\t", " "]) (label : Int) (m q : Nat) :
    jcountOk pt (analyse (prefixOf (jetHeaderText pt sep label m) q)) = true := by
  obtain ⟨pre, t, post, r, h1, h2⟩ := toksTab_prefix (jetHeaderText pt sep label m) q
  rw [(jet_header_line pt hsep label m).1] at h1
  simp only [jcountOk, Bool.or_eq_true]
  right
  rw [h2]
  simp only [Dmg.tokInt]
  rcases getElem?_prefix_toks h1 r 8 with h | ⟨t', ht', h⟩ | h
  · rw [h]; simp [jetHdrToks, pyInt?_nat_repr]
  · rw [h]
    have : t' = toString m := by simpa [jetHdrToks] using ht'.symm
    subst this
    simp only [Option.bind_some]
    cases hv : pyInt? (prefixOf (toString m) r) with
    | none => rfl
    | some v => simpa using pyInt?_prefix_nat_nonneg _ _ hv
  · rw [h]; rfl

theorem jprefixHyp_text (F : JetSpec) (hg : grammarJet F = true) (hs : hasSub F.h1 "sigmaGen" = false)
    (j : Nat) (s : String) (hsj : (jetLinesText F)[j]? = some s) (q : Nat) :
    Dmg.jprefixHyp (Bridge.jfileOf F) F.partons j (analyse (prefixOf s q)) = true := by
  obtain ⟨hk, n1, s1, f1, s2, f2, ⟨sep, hsep, htr⟩, hev⟩ := grammarJet_unpack hg
  have hinit : jetLinesText F = (F.h1 :: F.events.flatMap (fun e => e.header :: e.parts.map (fun r => " ".intercalate r))) ++
      [F.trailer] := by simp [jetLinesText]
  have hmem : s ∈ jetLinesText F := List.mem_of_getElem? hsj
  -- whole-line facts, by kind of line
  have key : (s = F.trailer ∨ (analyse s).hasSigma = false) ∧
      ((analyse s).hasHash && Dmg.jKey F.partons (analyse s)) = false ∨
      (∃ e ∈ F.events, ∃ sep ∈ ["\t", " "], s = jetHeaderText F.partons sep e.label e.parts.length) := by
    rw [hinit] at hmem
    simp only [List.mem_append, List.mem_cons, List.mem_flatMap, List.mem_map, List.not_mem_nil, or_false] at hmem
    rcases hmem with (rfl | ⟨e, he, rfl | ⟨r, hr, rfl⟩⟩) | rfl
    · left
      refine ⟨Or.inr hs, ?_⟩
      have : Dmg.jKey F.partons (analyse F.h1) = false := by
        revert hk; cases F.partons <;> simp [Dmg.jKey, jetKey, analyse]
      simp [this]
    · right
      obtain ⟨sep', hsep', hh⟩ := (hev e he).shape
      exact ⟨e, he, sep', hsep', hh⟩
    · left
      obtain ⟨r1, r2, _⟩ := (hev e he).rows r hr
      have hne : r ≠ [] := by rintro rfl; simp at r1
      rw [analyse_particle_line hne r2]
      exact ⟨Or.inr rfl, rfl⟩
    · left
      obtain ⟨t1, t2, t3, t4, _, _, _⟩ := jet_trailer_line hsep s1 s2 f1 f2
      rw [← htr] at t1 t2 t3 t4
      refine ⟨Or.inl rfl, ?_⟩
      cases hp : F.partons <;> simp [Dmg.jKey, t3, t4]
  simp only [Dmg.jprefixHyp, Bool.and_eq_true, Bool.or_eq_true, Bool.not_eq_true', decide_eq_false_iff_not]
  have hlenL : (Bridge.jfileOf F).lines.length = (jetLinesText F).length := by rw [Bridge.jfileOf_lines]; simp
  constructor
  · -- `sigmaGen` only in the trailer
    by_cases hj : j + 1 < (Bridge.jfileOf F).lines.length
    · right
      rw [hlenL, hinit] at hj
      simp only [List.length_append, List.length_cons, List.length_nil] at hj
      have hnotlast : s ≠ F.trailer ∨ (analyse s).hasSigma = false := by
        -- line `j` lies before the trailer: it is the first line, an event header or a particle line
        have hjlt : j < (F.h1 :: F.events.flatMap (fun e => e.header :: e.parts.map (fun r => " ".intercalate r))).length := by
          simp only [List.length_cons] at hj ⊢; omega
        rw [hinit, List.getElem?_append_left hjlt] at hsj
        have hm := List.mem_of_getElem? hsj
        simp only [List.mem_cons, List.mem_flatMap, List.mem_map] at hm
        rcases hm with rfl | ⟨e, he, rfl | ⟨r, hr, rfl⟩⟩
        · exact Or.inr hs
        · obtain ⟨sep', hsep', hh⟩ := (hev e he).shape
          right; rw [hh]; exact (jet_header_line F.partons hsep' e.label e.parts.length).2.2.1
        · obtain ⟨r1, r2, _⟩ := (hev e he).rows r hr
          have hne : r ≠ [] := by rintro rfl; simp at r1
          right; rw [analyse_particle_line hne r2]
      have hsig : (analyse s).hasSigma = false := by
        rcases hnotlast with h | h
        · rcases key with ⟨h' | h', _⟩ | ⟨e, he, sep', hsep', rfl⟩
          · exact absurd h' h
          · exact h'
          · exact (jet_header_line F.partons hsep' e.label e.parts.length).2.2.1
        · exact h
      simp only [analyse] at hsig ⊢
      exact hasSub_prefix_false hsig q
    · left; exact hj
  · -- the count of a cut event header
    have : jcountOk F.partons (analyse (prefixOf s q)) = true := by
      rcases key with ⟨_, h⟩ | ⟨e, he, sep', hsep', rfl⟩
      · apply jcountOk_of_noKey
        cases ha : (analyse (prefixOf s q)).hasHash with
        | false => rfl
        | true =>
          have hh : (analyse s).hasHash = true := hasSub_of_prefix (p := "#") ha
          rw [hh, Bool.true_and] at h
          simp [jKey_prefix_false h q]
      · exact jcountOk_prefix_header F.partons hsep' e.label e.parts.length q
    simp only [jcountOk, Bool.or_eq_true, Bool.not_eq_true', Bool.and_eq_false_iff] at this
    rcases this with (h | h) | h
    · exact Or.inl (by simp [h])
    · exact Or.inl (by simp [h])
    · exact Or.inr h

end SparkxVerif.Rd
