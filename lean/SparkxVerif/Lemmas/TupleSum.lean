/-
Sums over tuples of *distinct* indices and their reduction to power sums.

`tupleSum k g = Σ_{t : Fin k → Fin n, t injective} Π_i g i (t i)` is literally
"sum over all k-tuples of distinct particles".  `tupleSum_succ` peels one slot,
`tupleSum_eq_DexpF` turns a tuple sum of "powers" into the closed recursion `DexpF`
over power sums, `DexpF_eq_Dexp` moves to lists so that concrete orders can be
evaluated by `simp [Dexp]; ring`.
-/
import Mathlib.Tactic.Ring
import Mathlib.Tactic.Linarith
import Mathlib.Algebra.BigOperators.Fin
import Mathlib.Data.Fintype.BigOperators
import Mathlib.Data.Fin.Tuple.Basic
import Mathlib.Logic.Equiv.Fin.Basic

open Finset BigOperators

namespace SparkxVerif

variable {R : Type} [CommRing R] {n : ℕ}

noncomputable def tupleSum (k : ℕ) (g : Fin k → Fin n → R) : R :=
  ∑ t : Fin k → Fin n, if Function.Injective t then ∏ i, g i (t i) else 0

def psum (f : Fin n → R) : R := ∑ j, f j

theorem tupleSum_zero (g : Fin 0 → Fin n → R) : tupleSum 0 g = 1 := by
  unfold tupleSum
  have : ∀ t : Fin 0 → Fin n, Function.Injective t := fun t a => by exact a.elim0
  simp [this]

/-- merging slot 0 into slot i+1 -/
def merge {k : ℕ} (g : Fin (k+1) → Fin n → R) (i : Fin k) : Fin k → Fin n → R :=
  fun i' => if i' = i then (fun j => g 0 j * g i'.succ j) else g i'.succ

theorem prod_merge {k : ℕ} (g : Fin (k+1) → Fin n → R) (i : Fin k) (t : Fin k → Fin n) :
    ∏ i', merge g i i' (t i') = g 0 (t i) * ∏ i', g i'.succ (t i') := by
  have h : ∀ i', merge g i i' (t i') = (if i' = i then g 0 (t i') else 1) * g i'.succ (t i') := by
    intro i'; unfold merge; split <;> simp
  simp only [h, Finset.prod_mul_distrib, Finset.prod_ite_eq', Finset.mem_univ, if_true]

theorem sum_not_range {k : ℕ} (f : Fin n → R) (t : Fin k → Fin n) (ht : Function.Injective t) :
    (∑ a : Fin n, if a ∉ Set.range t then f a else 0) = psum f - ∑ i, f (t i) := by
  unfold psum
  have h1 : (∑ i, f (t i)) = ∑ a ∈ Finset.univ.image t, f a := by
    rw [Finset.sum_image (fun x _ y _ h => ht h)]
  have h2 : (∑ a : Fin n, if a ∉ Set.range t then f a else 0)
      = ∑ a ∈ (Finset.univ.image t)ᶜ, f a := by
    rw [← Finset.sum_filter]
    apply Finset.sum_congr _ (fun _ _ => rfl)
    ext a; simp [Set.mem_range]
  rw [h1, h2, ← Finset.sum_compl_add_sum (Finset.univ.image t) f]; ring

theorem tupleSum_succ (k : ℕ) (g : Fin (k+1) → Fin n → R) :
    tupleSum (k+1) g =
      psum (g 0) * tupleSum k (fun i => g i.succ) - ∑ i : Fin k, tupleSum k (merge g i) := by
  unfold tupleSum
  have e := (Fin.consEquiv (fun _ : Fin (k+1) => Fin n)).sum_comp
    (fun t : Fin (k+1) → Fin n => if Function.Injective t then ∏ i, g i (t i) else 0)
  rw [← e, Fintype.sum_prod_type, Finset.sum_comm]
  rw [Finset.mul_sum, Finset.sum_comm (s := (Finset.univ : Finset (Fin k)))]
  rw [← Finset.sum_sub_distrib]
  apply Finset.sum_congr rfl
  intro t _
  have hc : ∀ x : Fin n, (Fin.consEquiv (fun _ : Fin (k+1) => Fin n)) (x, t)
      = (Fin.cons x t : Fin (k+1) → Fin n) := fun _ => rfl
  simp only [hc, Fin.cons_injective_iff, Fin.prod_univ_succ, Fin.cons_zero, Fin.cons_succ]
  by_cases ht : Function.Injective t
  · simp only [ht, and_true, if_true, prod_merge]
    have := sum_not_range (g 0) t ht
    calc (∑ a : Fin n, if a ∉ Set.range t then g 0 a * ∏ i, g i.succ (t i) else 0)
        = (∑ a : Fin n, if a ∉ Set.range t then g 0 a else 0) * ∏ i, g i.succ (t i) := by
          rw [Finset.sum_mul]; apply Finset.sum_congr rfl; intro a _; split <;> simp
      _ = _ := by rw [this, ← Finset.sum_mul]; ring
  · simp [ht]

/-- closed recursion on slot "exponents" living in an additive type `E` -/
def DexpF {E : Type} [Add E] (A : E → R) : (k : ℕ) → (Fin k → E) → R
  | 0, _ => 1
  | k+1, a => A (a 0) * DexpF A k (Fin.tail a)
      - ∑ i : Fin k, DexpF A k (Function.update (Fin.tail a) i (a 0 + a i.succ))

theorem tupleSum_eq_DexpF {E : Type} [Add E] (pw : E → Fin n → R)
    (hpw : ∀ a b j, pw (a + b) j = pw a j * pw b j) :
    ∀ (k : ℕ) (a : Fin k → E),
      tupleSum k (fun i => pw (a i)) = DexpF (fun e => psum (pw e)) k a := by
  intro k
  induction k with
  | zero => intro a; simp [tupleSum_zero, DexpF]
  | succ k ih =>
    intro a
    rw [tupleSum_succ, DexpF]
    congr 1
    · rw [← ih]; rfl
    · apply Finset.sum_congr rfl
      intro i _
      rw [← ih]
      congr 1
      funext i' j
      unfold merge
      by_cases h : i' = i
      · subst h; simp [Function.update_self, hpw, Fin.tail]
      · simp [h, Function.update_of_ne h, Fin.tail]

/-- list version, easy to evaluate -/
def Dexp {E : Type} [Add E] [Inhabited E] (p : E → R) : List E → R
  | [] => 1
  | a :: as => p a * Dexp p as
      - ((List.range as.length).map (fun i => Dexp p (as.set i (a + as.getD i default)))).sum
termination_by l => l.length
decreasing_by all_goals simp

theorem ofFn_update {E : Type} {k : ℕ} (a : Fin k → E) (i : Fin k) (v : E) :
    List.ofFn (Function.update a i v) = (List.ofFn a).set i v := by
  apply List.ext_getElem
  · simp
  · intro m h1 h2
    simp only [List.getElem_ofFn, List.getElem_set, List.length_ofFn] at *
    by_cases h : (i : ℕ) = m
    · subst h; simp [Function.update_self]
    · have : (⟨m, by simpa using h1⟩ : Fin k) ≠ i := fun e => h (by rw [← e])
      simp [h, Function.update_of_ne this]

theorem DexpF_eq_Dexp {E : Type} [Add E] [Inhabited E] (p : E → R) :
    ∀ (k : ℕ) (a : Fin k → E), DexpF p k a = Dexp p (List.ofFn a) := by
  intro k
  induction k with
  | zero => intro a; simp [DexpF, Dexp]
  | succ k ih =>
    intro a
    rw [DexpF, List.ofFn_succ, Dexp, ih]
    congr 1
    simp only [List.length_ofFn]
    rw [← List.sum_ofFn]
    congr 1
    apply List.ext_getElem
    · simp
    · intro m h1 h2
      simp only [List.getElem_ofFn, List.getElem_map, List.getElem_range]
      rw [ih, ofFn_update]
      congr 2
      simp [Fin.tail, List.getD_eq_getElem?_getD]
      have : m < k := by simpa using h1
      simp [this]

/-- the chain in one step: tuple sum of "powers" = list recursion over power sums -/
theorem tupleSum_eq_Dexp {E : Type} [Add E] [Inhabited E] (pw : E → Fin n → R)
    (hpw : ∀ a b j, pw (a + b) j = pw a j * pw b j) (k : ℕ) (a : Fin k → E) :
    tupleSum k (fun i => pw (a i)) = Dexp (fun e => psum (pw e)) (List.ofFn a) := by
  rw [tupleSum_eq_DexpF pw hpw, DexpF_eq_Dexp]

end SparkxVerif
