/-
Lemmas for C06 (JETSCAPE part; no Mathlib needed).
Part A — `writeJetscapeK` on a well-formed object = `jetSpecLines` (first line of the input, one block per event held,
numbered 1, 2, … by position, the trailer).
Part B — `Rd.readJetscape` on any file observed as such blocks returns those events and the counts `(i+1, n_i)`.
-/
import SparkxVerif.Lemmas.Writer

set_option linter.unusedSimpArgs false
set_option linter.unusedVariables false

namespace SparkxVerif.Wr
open SparkxVerif.Rd SparkxVerif.Gen.WriterTables

/-- one written JETSCAPE event: text of the header line, (cells, text) of every particle line -/
structure JBlock where
  head : String
  parts : List (List String × String)

/-! ## Part A : writer = specification -/

variable {R V : Type}

def JBlock.tlines (i : Nat) (b : JBlock) : List TLine :=
  ⟨.jevt i b.parts.length, b.head⟩ :: b.parts.map (fun p => ⟨.jpart p.1, p.2⟩)

def jtlinesOf : Nat → List JBlock → List TLine
  | _, [] => []
  | i, b :: bs => b.tlines i ++ jtlinesOf (i + 1) bs

/-- blocks of the events held; the event at position `i` is written with the number `i + 1` -/
def jetBlocksOf (c : Codec V) (vals : R → List V) (defStr : String) : Nat → List (List R) → List JBlock
  | _, [] => []
  | i, ev :: evs =>
    ⟨jetHeader ((i + 1 : Nat) : Int) ev.length defStr, ev.map (cellsRow c fmtJetscape vals)⟩
      :: jetBlocksOf c vals defStr (i + 1) evs

theorem jetEvents_ok (c : Codec V) (vals : R → List V) (defStr : String) (first : Int) (evs : List (List R)) (i : Nat)
    (hcols : ∀ ev ∈ evs, ∀ r ∈ ev, (vals r).length = fmtJetscape.length) :
    jetEvents c vals defStr i (relabelRows first i evs) evs
      = .ok (jtlinesOf (i + 1) (jetBlocksOf c vals defStr i evs)) := by
  induction evs generalizing i with
  | nil => simp [jetEvents, jetBlocksOf, jtlinesOf]
  | cons ev evs ih =>
    have hlab : labelOf jetscapeLabelMulti i (first + i) = ((i + 1 : Nat) : Int) := by simp [labelOf, jetscapeLabelMulti]
    have hrows := rowLines_ok c true fmtJetscape vals ev (fun r hr => hcols ev (by simp) r hr)
    have ih' := ih (i + 1) (fun e he => hcols e (by simp [he]))
    simp only [relabelRows, jetEvents, hlab, hrows, ih', bind, Except.bind, pure, Except.pure]
    simp [jetBlocksOf, jtlinesOf, JBlock.tlines, cellsRow, Function.comp_def]

structure JetWF (vals : R → List V) (j : JetObj R) : Prop where
  nonempty : j.events ≠ []
  ne : j.numEvents = j.events.length
  counts : ∃ first, j.counts = .arr2d (relabelRows first 0 j.events)
  cols : ∀ ev ∈ j.events, ∀ r ∈ ev, (vals r).length = fmtJetscape.length

/-- the written file: first line of the input, one block per event numbered 1, 2, …, the trailer -/
def jetSpecLines (c : Codec V) (vals : R → List V) (j : JetObj R) : List TLine :=
  ⟨.jhdr, j.headerLine⟩ :: (jtlinesOf 1 (jetBlocksOf c vals j.defStr 0 j.events) ++ [⟨.jtrail, j.lastLine⟩])

theorem writeJetscapeK_ok (c : Codec V) (vals : R → List V) (j : JetObj R) (wf : JetWF vals j) :
    writeJetscapeK c vals j = .ok (jetSpecLines c vals j) := by
  obtain ⟨first, hc⟩ := wf.counts
  cases hev : j.events with
  | nil => exact absurd hev wf.nonempty
  | cons ev evs =>
    have hne := wf.ne
    rw [hev] at hne hc
    cases evs with
    | nil =>
      have hn1 : j.numEvents = 1 := by simpa using hne
      have hpl : particleList j.toStore = .ok (.flat ev) := by
        simp [particleList, hn1, hc, relabelRows, hev, takeRows_self, Except.map]
      have hrows := rowLines_ok c true fmtJetscape vals ev (fun r hr => wf.cols ev (by rw [hev]; simp) r hr)
      unfold writeJetscapeK
      have h10 : ((1 : Int) == 0) = false := by decide
      have hgt : ¬ ((1 : Int) > 1) := by omega
      simp only [hpl, hn1, hc, relabelRows, bind, Except.bind, pure, Except.pure, h10, hgt, Bool.false_eq_true, ↓reduceIte,
        jetscapeLabelSingle, labelOf, hrows]
      simp [jetSpecLines, hev, jetBlocksOf, jtlinesOf, JBlock.tlines, cellsRow, Function.comp_def]
    | cons ev2 evs =>
      have hn2 : j.numEvents = (evs.length : Int) + 2 := by
        rw [hne]; simp only [List.length_cons]; push_cast; omega
      have hne1 : (j.numEvents == 1) = false := by rw [hn2]; simp; omega
      have hne0 : (j.numEvents == 0) = false := by rw [hn2]; simp; omega
      have hgt : j.numEvents > 1 := by rw [hn2]; omega
      have hnat : j.numEvents.toNat = (ev :: ev2 :: evs).length := by
        rw [hn2]; simp only [List.length_cons]; omega
      have hpl : particleList j.toStore = .ok (.nested (ev :: ev2 :: evs)) := by
        simp only [particleList, hne1, hne0, hc, hnat, hev, Bool.false_eq_true, ↓reduceIte]
        rw [nestedRows_ok]; rfl
      have hev' := jetEvents_ok c vals j.defStr first (ev :: ev2 :: evs) 0 (by rw [← hev]; exact wf.cols)
      unfold writeJetscapeK
      simp only [hpl, hne0, hgt, hc, hev', bind, Except.bind, pure, Except.pure, Bool.false_eq_true, ↓reduceIte]
      simp [jetSpecLines, hev]


/-! ## Part B : the reader on observed blocks -/

def JBlock.obsLines (obs : String → LineF) (b : JBlock) : List LineF :=
  obs b.head :: b.parts.map (fun p => obs p.2)

structure JBlockOK (obs : String → LineF) (partons : Bool) (i : Nat) (b : JBlock) : Prop where
  head : obsJEvent partons (obs b.head) i b.parts.length = true
  parts : ∀ p ∈ b.parts, obsJPart (obs p.2) p.1 = true

def JBlocksOK (obs : String → LineF) (partons : Bool) : Nat → List JBlock → Prop
  | _, [] => True
  | i, b :: bs => JBlockOK obs partons i b ∧ JBlocksOK obs partons (i + 1) bs

def jrowsOf : Nat → List JBlock → List (Int × Int)
  | _, [] => []
  | i, b :: bs => ((i : Int), (b.parts.length : Int)) :: jrowsOf (i + 1) bs

def jlinesLen : List JBlock → Nat
  | [] => 0
  | b :: bs => (b.parts.length + 1) + jlinesLen bs

variable {obs : String → LineF} {partons : Bool}

theorem jscan_parts (ps : List (List String × String)) (rest : List LineF)
    (h : ∀ p ∈ ps, obsJPart (obs p.2) p.1 = true) :
    jetscapeScan partons (ps.map (fun p => obs p.2) ++ rest) = jetscapeScan partons rest := by
  induction ps with
  | nil => rfl
  | cons p ps ih =>
    have hp := h p (by simp)
    simp only [obsJPart, Bool.and_eq_true, Bool.not_eq_true'] at hp
    simp only [List.map_cons, List.cons_append]
    rw [jetscapeScan]
    simp [hp.1.1.1.1]
    exact ih (fun q hq => h q (by simp [hq]))

theorem jscan_blocks (i : Nat) (bs : List JBlock) (h : JBlocksOK obs partons i bs) (tr : LineF)
    (htr : obsJTrailer partons tr = true) :
    jetscapeScan partons (bs.flatMap (JBlock.obsLines obs) ++ [tr]) = .ok (jrowsOf i bs) := by
  induction bs generalizing i with
  | nil =>
    simp only [obsJTrailer, Bool.and_eq_true, Bool.not_eq_true'] at htr
    simp only [List.flatMap_nil, List.nil_append, jrowsOf]
    rw [jetscapeScan]
    simp only [defFlag] at htr
    simp [htr.2, jetscapeScan]
  | cons b bs ih =>
    obtain ⟨hb, hbs⟩ := h
    have ho := hb.head
    simp only [obsJEvent, Bool.and_eq_true, Bool.not_eq_true', beq_iff_eq, defFlag] at ho
    obtain ⟨⟨⟨⟨⟨⟨h1, h2⟩, h3⟩, h4⟩, h5⟩, h6⟩, h7⟩ := ho
    obtain ⟨t2, ht2, ht2'⟩ := intTok_some h6
    obtain ⟨t8, ht8, ht8'⟩ := intTok_some h7
    simp only [List.flatMap_cons, JBlock.obsLines, List.cons_append, List.append_assoc]
    rw [jetscapeScan]
    simp only [h1, h2, Bool.and_self, ↓reduceIte]
    rw [jscan_parts b.parts _ hb.parts, ih (i + 1) hbs]
    simp [ht2, ht8, ht2', ht8', jrowsOf, bind, Except.bind, pure, Except.pure]

theorem jloop_parts (fl fh : Int) (ps : List (List String × String)) (rest : List LineF) (k : Nat)
    (h : ∀ p ∈ ps, obsJPart (obs p.2) p.1 = true) (lineNo : Nat) (st : LoopSt) :
    ∃ d, jetscapeLoop none fl fh (ps.length + k) lineNo false (ps.map (fun p => obs p.2) ++ rest) st
        = jetscapeLoop none fl fh k (lineNo + ps.length) false rest { st with data := st.data ++ d }
      ∧ d.map (·.toks) = ps.map (·.1) := by
  induction ps generalizing lineNo st with
  | nil => exact ⟨[], by simp, rfl⟩
  | cons p ps ih =>
    have hp := h p (by simp)
    simp only [obsJPart, Bool.and_eq_true, Bool.not_eq_true', beq_iff_eq] at hp
    obtain ⟨⟨⟨⟨hh, he⟩, ht⟩, hc⟩, hf⟩ := hp
    obtain ⟨d, hd, hd'⟩ := ih (fun q hq => h q (by simp [hq])) (lineNo + 1)
      { st with data := st.data ++ [⟨lineNo, (obs p.2).toksTab⟩] }
    refine ⟨⟨lineNo, (obs p.2).toksTab⟩ :: d, ?_, by simp [hd', ht]⟩
    have e : (p :: ps).length + k = (ps.length + k) + 1 := by simp; omega
    rw [e]
    simp only [List.map_cons, List.cons_append]
    rw [jetscapeLoop]
    have hc' : (obs p.2).toksTab.length = 7 := by rw [ht]; exact hc
    have hf' : fieldsOk [false, false, false, true, true, true, true] (obs p.2).toksTab = true := by
      rw [ht]; exact hf
    simp only [Bool.false_and, Bool.false_eq_true, ↓reduceIte, hh, he, hc', hf', Bool.not_true, bne_self_eq_false]
    rw [hd]
    simp [Nat.add_assoc, Nat.add_comm 1]

/-- blocks after the first one: every header closes the pending event, the trailer closes the last one -/
theorem jloop_tail (fl : Int) (bs : List JBlock) (i : Nat) (hi : 2 ≤ i) (h : JBlocksOK obs partons i bs)
    (tr : LineF) (htr : obsJTrailer partons tr = true) (lineNo : Nat) (st : LoopSt) :
    ∃ evs, jetscapeLoop none fl 1 (jlinesLen bs + 1) lineNo false (bs.flatMap (JBlock.obsLines obs) ++ [tr]) st
        = .ok { st with plist := st.plist ++ (st.data :: evs), data := [] }
      ∧ strip evs = bs.map (fun b => b.parts.map (·.1)) := by
  induction bs generalizing i lineNo st with
  | nil =>
    simp only [obsJTrailer, Bool.and_eq_true] at htr
    refine ⟨[], ?_, rfl⟩
    simp only [List.flatMap_nil, List.nil_append, jlinesLen, Nat.zero_add]
    rw [jetscapeLoop]
    simp [htr.1, closeEvent_none, bind, Except.bind, jetscapeLoop]
  | cons b bs ih =>
    obtain ⟨hb, hbs⟩ := h
    have ho := hb.head
    simp only [obsJEvent, Bool.and_eq_true, Bool.not_eq_true', beq_iff_eq] at ho
    obtain ⟨⟨⟨⟨⟨⟨h1, h2⟩, h3⟩, h4⟩, h5⟩, h6⟩, h7⟩ := ho
    obtain ⟨t2, ht2, ht2'⟩ := intTok_some h6
    obtain ⟨d, hd1, hd2⟩ := jloop_parts (obs := obs) fl 1 b.parts (bs.flatMap (JBlock.obsLines obs) ++ [tr])
      (jlinesLen bs + 1) hb.parts (lineNo + 1) { st with plist := st.plist ++ [st.data], data := [] }
    obtain ⟨evs, he1, he2⟩ := ih (i + 1) (by omega) hbs (lineNo + 1 + b.parts.length)
      { st with plist := st.plist ++ [st.data], data := [] ++ d }
    refine ⟨d :: evs, ?_, by simp [strip] at he2 ⊢; exact ⟨hd2, he2⟩⟩
    have e : jlinesLen (b :: bs) + 1 = (b.parts.length + (jlinesLen bs + 1)) + 1 := by simp [jlinesLen]; omega
    rw [e]
    simp only [List.flatMap_cons, JBlock.obsLines, List.cons_append, List.append_assoc]
    rw [jetscapeLoop]
    have hne : ((i : Int) == 1) = false := by simp; omega
    simp only [h3, Bool.and_false, Bool.false_eq_true, ↓reduceIte, Bool.false_and, h4, h5, Bool.and_self, ht2, ht2', hne,
      closeEvent_none, bind, Except.bind]
    rw [hd1, he1]
    simp

theorem jsum (i : Nat) (bs : List JBlock) :
    sumCounts (jrowsOf i bs) 0 + 1 * ((jrowsOf i bs).length : Int) = (jlinesLen bs : Int) := by
  induction bs generalizing i with
  | nil => simp [sumCounts, jrowsOf, jlinesLen]
  | cons b bs ih =>
    have := ih (i + 1)
    simp only [sumCounts, jrowsOf, List.foldl_cons, List.length_cons, jlinesLen] at this ⊢
    rw [foldl_sum]
    push_cast
    omega

theorem jrowsOf_length (i : Nat) (bs : List JBlock) : (jrowsOf i bs).length = bs.length := by
  induction bs generalizing i with
  | nil => rfl
  | cons b bs ih => simp [jrowsOf, ih]

theorem jloop_fl (fl fl' fh : Int) (n : Nat) : ∀ (lineNo : Nat) (first : Bool) (lines : List LineF) (st : LoopSt),
    jetscapeLoop none fl fh n lineNo first lines st = jetscapeLoop none fl' fh n lineNo first lines st := by
  induction n with
  | zero => intro lineNo first lines st; simp [jetscapeLoop]
  | succ n ih =>
    intro lineNo first lines st
    cases lines with
    | nil => simp [jetscapeLoop]
    | cons l ls =>
      rw [jetscapeLoop, jetscapeLoop]
      simp only [closeEvent_none, bind, Except.bind, ih]

/-- reading a written JETSCAPE file: header line, blocks numbered 1, 2, …, trailer -/
theorem readJetscape_written (hd tr : String) (b : JBlock) (bs : List JBlock) (nl : Bool)
    (hh : obsJHeader partons (obs hd) = true) (htr : obsJTrailer partons (obs tr) = true)
    (hbs : JBlocksOK obs partons 1 (b :: bs)) :
    ∃ evs, readJetscape ⟨obs hd :: ((b :: bs).flatMap (JBlock.obsLines obs) ++ [obs tr]), nl⟩ .all partons none
        = .ok { events := evs, numEvents := ((b :: bs).length : Nat), counts := .arr2d (jrowsOf 1 (b :: bs)), fmt := none,
                customAttrs := [], footers := [] }
      ∧ strip evs = (b :: bs).map (fun b => b.parts.map (·.1)) := by
  obtain ⟨hb, hbs'⟩ := hbs
  have ho := hb.head
  simp only [obsJEvent, Bool.and_eq_true, Bool.not_eq_true', beq_iff_eq] at ho
  obtain ⟨⟨⟨⟨⟨⟨h1, h2⟩, h3⟩, h4⟩, h5⟩, h6⟩, h7⟩ := ho
  obtain ⟨t2, ht2, ht2'⟩ := intTok_some h6
  -- first block: header number 1 = first_event_header, skipped; its particles become the pending event
  obtain ⟨d, hd1, hd2⟩ := jloop_parts (obs := obs) 0 1 b.parts (bs.flatMap (JBlock.obsLines obs) ++ [obs tr])
    (jlinesLen bs + 1) hb.parts (1 + 1) ⟨[], [], .arr2d (jrowsOf 1 (b :: bs)), 0⟩
  obtain ⟨evs, he1, he2⟩ := jloop_tail (obs := obs) (partons := partons) 0 bs 2 (by omega) hbs' (obs tr) htr
    (1 + 1 + b.parts.length) ⟨[], [] ++ d, .arr2d (jrowsOf 1 (b :: bs)), 0⟩
  refine ⟨d :: evs, ?_, by simp [strip] at he2 ⊢; exact ⟨hd2, he2⟩⟩
  have hlen : evs.length = bs.length := by
    have := congrArg List.length he2
    simpa [strip] using this
  have hscan : jetscapeScan partons (obs hd :: ((b :: bs).flatMap (JBlock.obsLines obs) ++ [obs tr]))
      = .ok (jrowsOf 1 (b :: bs)) := by
    rw [jetscapeScan]
    simp only [obsJHeader, Bool.not_eq_true', defFlag] at hh
    simp only [hh, Bool.false_eq_true, ↓reduceIte]
    exact jscan_blocks 1 (b :: bs) ⟨hb, hbs'⟩ (obs tr) htr
  have hgl : (obs hd :: ((b :: bs).flatMap (JBlock.obsLines obs) ++ [obs tr])).getLast? = some (obs tr) := by
    rw [← List.cons_append, List.getLast?_append]; simp
  have hinit : jetscapeInitOk ⟨obs hd :: ((b :: bs).flatMap (JBlock.obsLines obs) ++ [obs tr]), nl⟩ = .ok () := by
    simp only [obsJTrailer, Bool.and_eq_true] at htr
    simp only [jetscapeInitOk, lastLine, hgl, bind, Except.bind]
    have : ¬ (obs hd :: ((b :: bs).flatMap (JBlock.obsLines obs) ++ [obs tr])).length < 2 := by
      simp only [List.length_cons, List.length_append, List.length_nil]; omega
    simp only [this, ↓reduceIte, htr.1.2]
  have hsum := jsum 1 (b :: bs)
  have hnn : decide (sumCounts (jrowsOf 1 (b :: bs)) 0 + 1 * ((jrowsOf 1 (b :: bs)).length : Int) + 1 < 0) = false := by
    rw [hsum]; simp; omega
  have htn : (sumCounts (jrowsOf 1 (b :: bs)) 0 + 1 * ((jrowsOf 1 (b :: bs)).length : Int) + 1).toNat
      = jlinesLen (b :: bs) + 1 := by
    rw [hsum]; omega
  have h1' : Int.toNat 1 = 1 := rfl
  unfold readJetscape
  simp only [hinit, validSel, hscan, skipLines, readLines, bind, Except.bind, pure, Except.pure, selectRows, finish,
    hnn, htn, h1', List.drop_succ_cons, List.drop_zero, Bool.false_or]
  rw [jloop_fl _ 0]
  -- the first header
  have e : jlinesLen (b :: bs) + 1 = (b.parts.length + (jlinesLen bs + 1)) + 1 := by simp [jlinesLen]; omega
  rw [e]
  simp only [List.flatMap_cons, JBlock.obsLines, List.cons_append, List.append_assoc]
  rw [jetscapeLoop]
  simp only [h3, Bool.and_false, Bool.false_eq_true, ↓reduceIte, Bool.true_and, h1, Bool.not_true, Bool.false_and, h4, h5,
    Bool.and_self, ht2, ht2']
  have hone : (((1 : Nat) : Int) == 1) = true := by decide
  simp only [hone, ↓reduceIte]
  rw [hd1, he1]
  simp [hlen, jrowsOf_length]


end SparkxVerif.Wr
