/-
C05 — the filter side: every admissible call is event-local once empty events are deleted, hence so is any
chain of calls; the constructor path (chain on `[event]`, element `[0]`) and the method path (chain on the whole
held list, recount after every call) therefore agree on the events that still contain particles.
Rests on the specifications of Props/C03 (`applyCall … = .ok (keepSpec pred evs)` and the two event-level cuts).
-/
import SparkxVerif.Core.Dispatch
import SparkxVerif.Lemmas.DispatchReader
import SparkxVerif.Props.C03

namespace SparkxVerif.Dsp
open SparkxVerif.Flt SparkxVerif.Rd SparkxVerif.C03

variable {α : Type}

/-! ### semantic form of an admissible call -/
inductive Sem (α : Type)
  | part (pred : Part α → Bool)
  | evt (pred : Ev α → Bool)

def Sem.run : Sem α → Evs α → Evs α
  | .part p, evs => keepSpec p evs
  | .evt q, evs => nonemptyOr (evs.filter q)

/-- the chain of semantic filters on the whole list -/
def runAll (ss : List (Sem α)) (evs : Evs α) : Evs α := ss.foldl (fun evs s => s.run evs) evs

theorem nonempty_nil {β : Type} : nonempty ([] : List (List β)) = [] := rfl

theorem nonempty_append {β : Type} (a b : List (List β)) : nonempty (a ++ b) = nonempty a ++ nonempty b := by
  simp [nonempty]

theorem nonempty_cons {β : Type} (e : List β) (es : List (List β)) : nonempty (e :: es) = nonempty [e] ++ nonempty es :=
  nonempty_append [e] es

theorem nonempty_nonemptyOr (evs : Evs α) : nonempty (nonemptyOr evs) = nonempty evs := by
  unfold nonemptyOr
  split
  · rename_i h
    have : evs = [] := by simpa using h
    subst this; rfl
  · rfl

theorem nonempty_flatMap {β γ : Type} (l : List γ) (f : γ → List (List β)) :
    nonempty (l.flatMap f) = l.flatMap (fun x => nonempty (f x)) := by
  induction l with
  | nil => rfl
  | cons x xs ih => simp [List.flatMap_cons, nonempty_append, ih]

/-- **locality**: after deleting the empty events, a filter acts on every event separately -/
theorem run_local (s : Sem α) (evs : Evs α) :
    nonempty (s.run evs) = evs.flatMap (fun e => nonempty (s.run [e])) := by
  cases s with
  | part p =>
    simp only [Sem.run, keepSpec]
    induction evs with
    | nil => rfl
    | cons e es ih =>
      simp only [List.map_cons, List.flatMap_cons, List.map_nil] at ih ⊢
      rw [← ih, nonempty_cons]
  | evt q =>
    simp only [Sem.run, nonempty_nonemptyOr]
    induction evs with
    | nil => rfl
    | cons e es ih =>
      simp only [List.flatMap_cons, ← ih]
      by_cases h : q e
      · simp only [List.filter_cons, h, if_true, List.filter_nil]; exact nonempty_cons _ _
      · simp [h, nonempty]

/-- a filter gives one event for one event -/
theorem run_single (s : Sem α) (e : Ev α) : ∃ e', s.run [e] = [e'] ∧ (e = [] → e' = []) ∧ e'.length ≤ e.length := by
  cases s with
  | part p => exact ⟨e.filter p, rfl, by intro h; subst h; rfl, List.length_filter_le _ _⟩
  | evt q =>
    by_cases h : q e
    · exact ⟨e, by simp [Sem.run, nonemptyOr, h], fun h => h, le_refl _⟩
    · exact ⟨[], by simp [Sem.run, nonemptyOr, h], fun _ => rfl, Nat.zero_le _⟩

theorem runAll_single (ss : List (Sem α)) (e : Ev α) :
    ∃ e', runAll ss [e] = [e'] ∧ (e = [] → e' = []) ∧ e'.length ≤ e.length := by
  induction ss generalizing e with
  | nil => exact ⟨e, rfl, fun h => h, le_refl _⟩
  | cons s ss ih =>
    obtain ⟨e1, h1, h1e, h1l⟩ := run_single s e
    obtain ⟨e2, h2, h2e, h2l⟩ := ih e1
    refine ⟨e2, ?_, fun h => h2e (h1e h), le_trans h2l h1l⟩
    simp only [runAll, List.foldl_cons] at h2 ⊢
    rw [h1]; exact h2

/-- the per-event result of the chain (what `__apply_kwargs_filters([e], d)[0]` returns) -/
def perEvent (ss : List (Sem α)) (e : Ev α) : Ev α := (runAll ss [e]).headD []

theorem runAll_single_eq (ss : List (Sem α)) (e : Ev α) : runAll ss [e] = [perEvent ss e] := by
  obtain ⟨e', h, _⟩ := runAll_single ss e
  simp [perEvent, h]

theorem perEvent_nil (ss : List (Sem α)) : perEvent ss ([] : Ev α) = [] := by
  obtain ⟨e', h, he, _⟩ := runAll_single ss ([] : Ev α)
  simp [perEvent, h, he rfl]

theorem perEvent_length_le (ss : List (Sem α)) (e : Ev α) : (perEvent ss e).length ≤ e.length := by
  obtain ⟨e', h, _, hl⟩ := runAll_single ss e
  simpa [perEvent, h] using hl

/-- **the chain is local too** (induction over the dictionary along "equal after deleting empty events") -/
theorem runAll_local (ss : List (Sem α)) (evs : Evs α) :
    nonempty (runAll ss evs) = evs.flatMap (fun e => nonempty [perEvent ss e]) := by
  induction ss generalizing evs with
  | nil =>
    simp only [runAll, List.foldl_nil, perEvent, List.headD_cons]
    induction evs with
    | nil => rfl
    | cons e es ih => simp only [List.flatMap_cons, ← ih]; exact nonempty_cons _ _
  | cons s ss ih =>
    have step : runAll (s :: ss) evs = runAll ss (s.run evs) := rfl
    rw [step, ih (s.run evs)]
    -- empty events contribute nothing to the flatMap
    have hg : ∀ l : Evs α, l.flatMap (fun e => nonempty [perEvent ss e])
        = (nonempty l).flatMap (fun e => nonempty [perEvent ss e]) := by
      intro l
      induction l with
      | nil => rfl
      | cons e es ih2 =>
        by_cases he : e = []
        · subst he
          simp [nonempty, List.flatMap_cons, perEvent_nil] at ih2 ⊢
          exact ih2
        · have : (!e.isEmpty) = true := by simp [he]
          simp only [nonempty, List.filter_cons, this, if_true, List.flatMap_cons] at ih2 ⊢
          rw [ih2]
    rw [hg, run_local, List.flatMap_assoc]
    congr 1
    funext e
    rw [← hg]
    obtain ⟨e1, h1, _⟩ := run_single s e
    rw [h1]
    simp only [List.flatMap_cons, List.flatMap_nil, List.append_nil]
    have : perEvent (s :: ss) e = perEvent ss e1 := by
      simp only [perEvent]
      have : runAll (s :: ss) [e] = runAll ss (s.run [e]) := rfl
      rw [this, h1]
    rw [this]


/-- every surviving particle is a particle of the input (so admissibility of the input carries along a chain) -/
theorem run_subset (s : Sem α) (evs : Evs α) : ∀ e' ∈ s.run evs, ∀ p ∈ e', ∃ e ∈ evs, p ∈ e := by
  intro e' he' p hp
  cases s with
  | part q =>
    simp only [Sem.run, keepSpec, List.mem_map] at he'
    obtain ⟨e, he, rfl⟩ := he'
    exact ⟨e, he, (List.mem_filter.1 hp).1⟩
  | evt q =>
    simp only [Sem.run, nonemptyOr] at he'
    split at he'
    · simp only [List.mem_singleton] at he'
      subst he'; cases hp
    · exact ⟨e', (List.mem_filter.1 he').1, hp⟩

theorem etasDefined_run (s : Sem α) (evs : Evs α) (h : EtasDefined evs) : EtasDefined (s.run evs) := by
  intro e' he' p hp
  obtain ⟨e, he, hpe⟩ := run_subset s evs e' he' p hp
  exact h e he p hpe

/-! ### admissible calls and their semantic form (assembled from Props/C03) -/

section adm
variable [LinearOrder α] [AddCommGroup α] [IsOrderedAddMonoid α] (ofNat : ℕ → α)

/-- `Adm c s`: the call `c` has admissible arguments and means `s` (one constructor per specification
theorem of Props/C03) -/
inductive Adm : Call α → Sem α → Prop
  | charged : Adm .charged (.part chargedP)
  | uncharged : Adm .uncharged (.part unchargedP)
  | participants : Adm .participants (.part participantP)
  | spectators : Adm .spectators (.part spectatorP)
  | removePhotons : Adm .removePhotons (.part notPhotonP)
  | keepHadrons : Adm .keepHadrons (.part (fun p => classP p.isHadron))
  | keepLeptons : Adm .keepLeptons (.part (fun p => classP p.isLepton))
  | keepQuarks : Adm .keepQuarks (.part (fun p => classP p.isQuark))
  | keepMesons : Adm .keepMesons (.part (fun p => classP p.isMeson))
  | keepBaryons : Adm .keepBaryons (.part (fun p => classP p.isBaryon))
  | keepUp : Adm .keepUp (.part (fun p => classP p.hasUp))
  | keepDown : Adm .keepDown (.part (fun p => classP p.hasDown))
  | keepStrange : Adm .keepStrange (.part (fun p => classP p.hasStrange))
  | keepCharm : Adm .keepCharm (.part (fun p => classP p.hasCharm))
  | keepBottom : Adm .keepBottom (.part (fun p => classP p.hasBottom))
  | keepTop : Adm .keepTop (.part (fun p => classP p.hasTop))
  | speciesScalar (x : Int) : Adm (.species (.scalar x)) (.part (speciesP [x]))
  | speciesList (xs : List Int) : Adm (.species (.list xs)) (.part (speciesP xs))
  | speciesTuple (xs : List Int) : Adm (.species (.tuple xs)) (.part (speciesP xs))
  | speciesArray (xs : List Int) : Adm (.species (.ndarray xs)) (.part (speciesP xs))
  | removeScalar (x : Int) : Adm (.removeSpecies (.scalar x)) (.part (notSpeciesP [x]))
  | removeList (xs : List Int) : Adm (.removeSpecies (.list xs)) (.part (notSpeciesP xs))
  | removeTuple (xs : List Int) : Adm (.removeSpecies (.tuple xs)) (.part (notSpeciesP xs))
  | removeArray (xs : List Int) : Adm (.removeSpecies (.ndarray xs)) (.part (notSpeciesP xs))
  | statusScalar (x : Int) : Adm (.status (.scalar x)) (.part (statusP [x]))
  | statusList (xs : List Int) : Adm (.status (.list xs)) (.part (statusP xs))
  | statusTuple (xs : List Int) : Adm (.status (.tuple xs)) (.part (statusP xs))
  | statusArray (xs : List Int) : Adm (.status (.ndarray xs)) (.part (statusP xs))
  | spacetimeT (a b : Option α) (hab : ¬ (a = none ∧ b = none)) :
      Adm (.spacetime .t (.tuple [toW a, toW b])) (.part (fun p => windowP a b p.t))
  | spacetimeX (a b : Option α) (hab : ¬ (a = none ∧ b = none)) :
      Adm (.spacetime .x (.tuple [toW a, toW b])) (.part (fun p => windowP a b p.x))
  | spacetimeY (a b : Option α) (hab : ¬ (a = none ∧ b = none)) :
      Adm (.spacetime .y (.tuple [toW a, toW b])) (.part (fun p => windowP a b p.y))
  | spacetimeZ (a b : Option α) (hab : ¬ (a = none ∧ b = none)) :
      Adm (.spacetime .z (.tuple [toW a, toW b])) (.part (fun p => windowP a b p.z))
  | pT (a b : Option α) (hab : ¬ (a = none ∧ b = none)) (ha : nonnegO a) (hb : nonnegO b) :
      Adm (.pT (.tuple [toW a, toW b])) (.part (fun p => windowP a b p.pT))
  | mT (a b : Option α) (hab : ¬ (a = none ∧ b = none)) (ha : nonnegO a) (hb : nonnegO b) :
      Adm (.mT (.tuple [toW a, toW b])) (.part (fun p => windowP a b p.mT))
  | rapTuple (a b : α) : Adm (.rapidity (.tuple [.num a, .num b])) (.part (fun p => windowP (some a) (some b) p.rap))
  | rapScalar (c : α) : Adm (.rapidity (.scalar c)) (.part (fun p => windowP (some (-|c|)) (some |c|) p.rap))
  | etaTuple (a b : α) :
      Adm (.pseudorapidity (.tuple [.num a, .num b])) (.part (fun p => windowP (some a) (some b) p.eta))
  | etaScalar (c : α) : Adm (.pseudorapidity (.scalar c)) (.part (fun p => windowP (some (-|c|)) (some |c|) p.eta))
  | etasTuple (a b : α) :
      Adm (.spacetimeRapidity (.tuple [.num a, .num b])) (.part (fun p => windowP (some a) (some b) p.etas))
  | etasScalar (c : α) :
      Adm (.spacetimeRapidity (.scalar c)) (.part (fun p => windowP (some (-|c|)) (some |c|) p.etas))
  | multiplicity (a b : α) (ha : ¬ a < 0) (hb : ¬ b < 0) :
      Adm (.multiplicity (.tuple [.num a, .num b]))
        (.evt (fun ev => decide (min a b ≤ ofNat ev.length) && decide (ofNat ev.length < max a b)))
  | multiplicityFrom (a : α) (ha : ¬ a < 0) :
      Adm (.multiplicity (.tuple [.num a, .none])) (.evt (fun ev => decide (a ≤ ofNat ev.length)))
  | multiplicityBelow (a : α) (ha : ¬ a < 0) :
      Adm (.multiplicity (.tuple [.none, .num a])) (.evt (fun ev => decide (ofNat ev.length < a)))
  | energy (thr : α) (h : ¬ thr ≤ 0) : Adm (.energyCut thr) (.evt (fun ev => decide (thr ≤ totalEnergy ev)))

/-- the call evaluates `spacetime_rapidity()`, which raises for `|z| ≥ t` -/
def needsEtas : Call α → Bool
  | .spacetimeRapidity _ => true
  | _ => false

theorem adm_spec {c : Call α} {s : Sem α} (h : Adm ofNat c s) (evs : Evs α)
    (he : needsEtas c = true → EtasDefined evs) :
    applyCall ofNat c evs = .ok (s.run evs) := by
  cases h with
  | charged => exact charged_spec ofNat evs
  | uncharged => exact uncharged_spec ofNat evs
  | participants => exact participants_spec ofNat evs
  | spectators => exact spectators_spec ofNat evs
  | removePhotons => exact remove_photons_spec ofNat evs
  | keepHadrons => exact (class_specs ofNat evs).1
  | keepLeptons => exact (class_specs ofNat evs).2.1
  | keepQuarks => exact (class_specs ofNat evs).2.2.1
  | keepMesons => exact (class_specs ofNat evs).2.2.2.1
  | keepBaryons => exact (class_specs ofNat evs).2.2.2.2.1
  | keepUp => exact (class_specs ofNat evs).2.2.2.2.2.1
  | keepDown => exact (class_specs ofNat evs).2.2.2.2.2.2.1
  | keepStrange => exact (class_specs ofNat evs).2.2.2.2.2.2.2.1
  | keepCharm => exact (class_specs ofNat evs).2.2.2.2.2.2.2.2.1
  | keepBottom => exact (class_specs ofNat evs).2.2.2.2.2.2.2.2.2.1
  | keepTop => exact (class_specs ofNat evs).2.2.2.2.2.2.2.2.2.2
  | speciesScalar x => exact species_scalar_spec_all ofNat evs x
  | speciesList xs => exact (species_list_spec_all ofNat evs xs).1
  | speciesTuple xs => exact (species_list_spec_all ofNat evs xs).2.1
  | speciesArray xs => exact (species_list_spec_all ofNat evs xs).2.2
  | removeScalar x => exact remove_species_scalar_spec_all ofNat evs x
  | removeList xs => exact (remove_species_list_spec_all ofNat evs xs).1
  | removeTuple xs => exact (remove_species_list_spec_all ofNat evs xs).2.1
  | removeArray xs => exact (remove_species_list_spec_all ofNat evs xs).2.2
  | statusScalar x => exact status_scalar_spec ofNat evs x
  | statusList xs => exact (status_list_spec ofNat evs xs).1
  | statusTuple xs => exact (status_list_spec ofNat evs xs).2.1
  | statusArray xs => exact (status_list_spec ofNat evs xs).2.2
  | spacetimeT a b hab => exact (spacetime_spec ofNat evs a b hab).1
  | spacetimeX a b hab => exact (spacetime_spec ofNat evs a b hab).2.1
  | spacetimeY a b hab => exact (spacetime_spec ofNat evs a b hab).2.2.1
  | spacetimeZ a b hab => exact (spacetime_spec ofNat evs a b hab).2.2.2
  | pT a b hab ha hb => exact (pT_mT_spec ofNat evs a b hab ha hb).1
  | mT a b hab ha hb => exact (pT_mT_spec ofNat evs a b hab ha hb).2
  | rapTuple a b => exact (rap_tuple_spec ofNat evs a b).1
  | rapScalar c => exact (rap_scalar_spec ofNat evs c).1
  | etaTuple a b => exact (rap_tuple_spec ofNat evs a b).2
  | etaScalar c => exact (rap_scalar_spec ofNat evs c).2
  | etasTuple a b => exact (etas_spec ofNat evs (he rfl) a b 0).1
  | etasScalar c => exact (etas_spec ofNat evs (he rfl) 0 0 c).2
  | multiplicity a b ha hb => exact multiplicity_spec ofNat evs a b ha hb
  | multiplicityFrom a ha => exact (multiplicity_none_spec ofNat evs a ha).1
  | multiplicityBelow a ha => exact (multiplicity_none_spec ofNat evs a ha).2
  | energy thr h => rw [energy_cut_spec, if_neg h]; rfl

/-- the calls of a dictionary, each with its meaning -/
inductive AdmChain : List (Call α) → List (Sem α) → Prop
  | nil : AdmChain [] []
  | cons {c : Call α} {s : Sem α} {cs : List (Call α)} {ss : List (Sem α)}
      (h : Adm ofNat c s) (t : AdmChain cs ss) : AdmChain (c :: cs) (s :: ss)

/-- admissibility of the data for a chain: particles have a defined space-time rapidity (`|z| < t`, otherwise the
documented `ValueError`) if that cut occurs.  (Particles without PDG id need no exclusion any more: since
/repo 9f9a2e0 the species filters drop them — `species_*_spec_all` of Props/C03.) -/
def DataOK (calls : List (Call α)) (evs : Evs α) : Prop :=
  (∃ c ∈ calls, needsEtas c = true) → EtasDefined evs

theorem chain_ok {calls : List (Call α)} {ss : List (Sem α)} (h : AdmChain ofNat calls ss) (evs : Evs α)
    (hd : DataOK calls evs) : chain ofNat calls evs = .ok (runAll ss evs) := by
  induction h generalizing evs with
  | nil => rfl
  | @cons c s cs ss hc _ ih =>
    have h1 := adm_spec ofNat hc evs (fun hn => hd ⟨c, by simp, hn⟩)
    have hd' : DataOK cs (s.run evs) := by
      rintro ⟨c', hc', hn⟩
      exact etasDefined_run s evs (hd ⟨c', by simp [hc'], hn⟩)
    have := ih (s.run evs) hd'
    simp only [chain, List.foldlM_cons, applyRd, h1] at this ⊢
    exact this

omit [LinearOrder α] [AddCommGroup α] [IsOrderedAddMonoid α] in
theorem dataOK_single {calls : List (Call α)} {evs : Evs α} (hd : DataOK calls evs) (e : Ev α) (he : e ∈ evs) :
    DataOK calls [e] := by
  intro hn e' he' p hp
  simp only [List.mem_singleton] at he'; subst he'
  exact hd hn e' he p hp

end adm


/-! ### the constructor path on one event, in pure form -/

theorem runAll_subset (ss : List (Sem α)) (evs : Evs α) :
    ∀ e' ∈ runAll ss evs, ∀ p ∈ e', ∃ e ∈ evs, p ∈ e := by
  induction ss generalizing evs with
  | nil => intro e' he' p hp; exact ⟨e', he', hp⟩
  | cons s ss ih =>
    intro e' he' p hp
    obtain ⟨e1, he1, hp1⟩ := ih (s.run evs) e' he' p hp
    exact run_subset s evs e1 he1 p hp1

theorem perEvent_subset (ss : List (Sem α)) (e : Ev α) : ∀ p ∈ perEvent ss e, p ∈ e := by
  intro p hp
  have h := runAll_single_eq ss e
  obtain ⟨e0, he0, hp0⟩ := runAll_subset ss [e] (perEvent ss e) (by rw [h]; simp) p hp
  simp only [List.mem_singleton] at he0
  subst he0; exact hp0

theorem run_ne_nil (s : Sem α) (evs : Evs α) (h : evs ≠ []) : s.run evs ≠ [] := by
  cases s with
  | part q => simpa [Sem.run, keepSpec] using h
  | evt q =>
    simp only [Sem.run, nonemptyOr]
    split
    · simp
    · rename_i h2; simpa using h2

/-- what `ctorFilter` returns for an admissible chain: the survivors of the event, as file lines -/
def ctorPure (view : PLine → Part α) (ss : List (Sem α)) (data : List PLine) : List PLine :=
  (perEvent ss (data.map view)).filterMap (fun p => data.find? (fun pl => pl.lineNo == p.id))

theorem ctorPure_nil (view : PLine → Part α) (ss : List (Sem α)) : ctorPure view ss [] = [] := by
  simp [ctorPure, perEvent_nil]

theorem filterMap_map_eq {A B C : Type} {l : List A} {f : A → Option B} {g : B → C} {h : A → C}
    (H : ∀ x ∈ l, ∃ y, f x = some y ∧ g y = h x) : (l.filterMap f).map g = l.map h := by
  induction l with
  | nil => rfl
  | cons x xs ih =>
    obtain ⟨y, hy, hg⟩ := H x (by simp)
    simp only [List.filterMap_cons, hy, List.map_cons, hg]
    rw [ih (fun z hz => H z (by simp [hz]))]

/-- the identity of the survivors: the line numbers returned are the ids the filters kept -/
theorem ctorPure_ids (view : PLine → Part α) (hid : ∀ pl, (view pl).id = pl.lineNo) (ss : List (Sem α))
    (data : List PLine) :
    (ctorPure view ss data).map (·.lineNo) = (perEvent ss (data.map view)).map (·.id) := by
  unfold ctorPure
  apply filterMap_map_eq
  intro p hp
  have hmem := perEvent_subset ss _ p hp
  obtain ⟨pl0, hpl0, rfl⟩ := List.mem_map.1 hmem
  have hsome : (data.find? (fun pl => pl.lineNo == (view pl0).id)).isSome := by
    rw [List.find?_isSome]
    exact ⟨pl0, hpl0, by simp [hid]⟩
  obtain ⟨y, hy⟩ := Option.isSome_iff_exists.1 hsome
  refine ⟨y, hy, ?_⟩
  have := List.find?_some hy
  simpa using this

section adm2
variable [LinearOrder α] [AddCommGroup α] [IsOrderedAddMonoid α] (ofNat : ℕ → α)

theorem ctorFilter_ok {calls : List (Call α)} {ss : List (Sem α)} (h : AdmChain ofNat calls ss)
    (view : PLine → Part α) (data : List PLine) (hd : DataOK calls [data.map view]) :
    ctorFilter ofNat view calls data = .ok (ctorPure view ss data) := by
  unfold ctorFilter ctorPure
  rw [chain_ok ofNat h _ hd, runAll_single_eq]
  rfl

/-- `ParticleObjectLoader` with `filters=`: every event through the chain separately -/
theorem objCtor_ok {calls : List (Call α)} {ss : List (Sem α)} (h : AdmChain ofNat calls ss)
    (evs : Evs α) (hd : DataOK calls evs) :
    objCtor ofNat calls evs = .ok (evs.map (perEvent ss)) := by
  unfold objCtor
  induction evs with
  | nil => rfl
  | cons e es ih =>
    have h1 := chain_ok ofNat h [e] (dataOK_single hd e (by simp))
    have hd' : DataOK calls es := by
      intro hn e' he' p hp; exact hd hn e' (by simp [he']) p hp
    rw [List.mapM_cons, h1, runAll_single_eq, ih hd']
    rfl

/-! ### the method path -/

/-- a held list whose counts describe it -/
def BookedH (h : Held α) : Prop :=
  h.events ≠ [] ∧ ∃ rows, h.counts = .arr2d rows ∧ rows.map (·.2) = h.events.map (fun e => (e.length : Int))

omit [LinearOrder α] [AddCommGroup α] [IsOrderedAddMonoid α] in
theorem recount_col (r0 : Int) (evs : Evs α) :
    (evs.zipIdx.map (fun ei => ((ei.2 : Int) + r0, (ei.1.length : Int)))).map (·.2)
      = evs.map (fun e => (e.length : Int)) := by
  rw [List.map_map]
  have : ((fun x : Int × Int => x.2) ∘ fun ei : Ev α × Nat => ((ei.2 : Int) + r0, (ei.1.length : Int)))
      = (fun e : Ev α => (e.length : Int)) ∘ Prod.fst := by
    funext ei; rfl
  rw [this, ← List.map_map, List.zipIdx_map_fst]

theorem methods_ok {calls : List (Call α)} {ss : List (Sem α)} (h : AdmChain ofNat calls ss)
    (H0 : Held α) (hb : BookedH H0) (hd : DataOK calls H0.events) :
    ∃ H, methods ofNat calls H0 = .ok H ∧ H.events = runAll ss H0.events ∧ BookedH H := by
  induction h generalizing H0 with
  | nil => exact ⟨H0, rfl, rfl, hb⟩
  | @cons c s cs ss hc _ ih =>
    obtain ⟨hne, rows, hrows, hcol⟩ := hb
    have h1 := adm_spec ofNat hc H0.events (fun hn => hd ⟨c, by simp, hn⟩)
    have hrne : s.run H0.events ≠ [] := run_ne_nil s _ hne
    obtain ⟨r0, rs, hr0⟩ : ∃ r0 rs, rows = r0 :: rs := by
      cases rows with
      | nil =>
        exfalso
        have := congrArg List.length hcol
        simp at this
        exact hne (List.eq_nil_of_length_eq_zero this.symm)
      | cons r0 rs => exact ⟨r0, rs, rfl⟩
    let H1 : Held α := { events := s.run H0.events,
                         counts := .arr2d ((s.run H0.events).zipIdx.map (fun ei => ((ei.2 : Int) + r0.1, (ei.1.length : Int)))) }
    have hstep : methodStep ofNat c H0 = .ok H1 := by
      have hie : (s.run H0.events).isEmpty = false := by
        cases hh : s.run H0.events with
        | nil => exact absurd hh hrne
        | cons _ _ => rfl
      simp only [methodStep, applyRd, h1, hrows, hr0, recount, hie, bind, Except.bind, pure, Except.pure]
      rfl
    have hb1 : BookedH H1 := ⟨hrne, _, rfl, recount_col r0.1 _⟩
    have hd1 : DataOK cs H1.events := by
      rintro ⟨c', hc', hn⟩
      exact etasDefined_run s _ (hd ⟨c', by simp [hc'], hn⟩)
    obtain ⟨H, hm, he, hbH⟩ := ih H1 hb1 hd1
    refine ⟨H, ?_, he, hbH⟩
    simp only [methods, List.foldlM_cons, hstep, bind, Except.bind] at hm ⊢
    exact hm

end adm2

/-! ### bookkeeping of the observation -/

theorem nonempty_map_map {β γ : Type} (f : β → γ) (evs : List (List β)) :
    nonempty (evs.map (·.map f)) = (nonempty evs).map (·.map f) := by
  induction evs with
  | nil => rfl
  | cons e es ih =>
    cases e with
    | nil => simpa [nonempty] using ih
    | cons x xs =>
      simp only [nonempty, List.map_cons, List.filter_cons, List.isEmpty_cons, Bool.not_false, if_true] at ih ⊢
      rw [ih]

theorem flatMap_nonempty_single {β γ : Type} (f : γ → List β) (l : List γ) :
    l.flatMap (fun e => nonempty [f e]) = nonempty (l.map f) := by
  induction l with
  | nil => rfl
  | cons x xs ih =>
    simp only [List.flatMap_cons, List.map_cons, ih]
    exact (nonempty_cons _ _).symm

theorem lengths_of_ids {β γ : Type} (f : β → γ) (evs : List (List β)) :
    (evs.map (·.map f)).map (fun e => (e.length : Int)) = evs.map (fun e => (e.length : Int)) := by
  simp [List.map_map, Function.comp_def]

/-! ### small generic facts used by Props/C05 -/

theorem lookup_of_mem {β : Type} (dict : List (String × β)) (h : (dict.map (·.1)).Nodup) (k : String) (v : β)
    (hm : (k, v) ∈ dict) : dict.lookup k = some v := by
  induction dict with
  | nil => cases hm
  | cons kv rest ih =>
    obtain ⟨k0, v0⟩ := kv
    simp only [List.map_cons, List.nodup_cons] at h
    rcases List.mem_cons.1 hm with heq | hrest
    · cases heq; simp [List.lookup]
    · have hne : k ≠ k0 := by
        intro hkk; subst hkk
        exact h.1 (List.mem_map.2 ⟨(k, v), hrest, rfl⟩)
      have : (k == k0) = false := by simpa using hne
      simp only [List.lookup_cons, this]
      exact ih h.2 hrest

theorem mapM_congr_ok {A B E : Type} (l : List A) (f g : A → Except E B) (ys : List B)
    (hfg : ∀ x ∈ l, ∀ y, f x = .ok y → g x = .ok y) (h : l.mapM f = .ok ys) : l.mapM g = .ok ys := by
  induction l generalizing ys with
  | nil => simpa using h
  | cons x xs ih =>
    rw [List.mapM_cons] at h ⊢
    cases hx : f x with
    | error e => simp [hx, bind, Except.bind] at h
    | ok y =>
      rw [hx] at h
      cases hxs : xs.mapM f with
      | error e => simp [hxs, bind, Except.bind] at h
      | ok ys' =>
        rw [hfg x (by simp) y hx, ih ys' (fun z hz => hfg z (by simp [hz])) hxs]
        simpa [hxs, bind, Except.bind] using h

theorem mapM_error_of_mem {A B E : Type} (l : List A) (f : A → Except E B) (x : A) (hx : x ∈ l) (e : E)
    (hf : f x = .error e) : ∃ e', l.mapM f = .error e' := by
  induction l with
  | nil => cases hx
  | cons y ys ih =>
    rw [List.mapM_cons]
    cases hy : f y with
    | error e1 => exact ⟨e1, rfl⟩
    | ok b =>
      rcases List.mem_cons.1 hx with rfl | hys
      · rw [hf] at hy; cases hy
      · obtain ⟨e', he'⟩ := ih hys
        exact ⟨e', by simp [he', bind, Except.bind]⟩

section chainAppend
variable {α : Type} [LE α] [LT α] [DecidableLE α] [DecidableLT α] [Neg α] [Zero α] [Add α] (ofNat : Nat → α)

theorem chain_append (a b : List (Call α)) (evs : Evs α) :
    chain ofNat (a ++ b) evs = (chain ofNat a evs >>= chain ofNat b) := by
  simp only [chain, List.foldlM_append]
  rfl

end chainAppend

end SparkxVerif.Dsp
