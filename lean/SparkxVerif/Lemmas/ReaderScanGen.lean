/-
Tie T for the first-pass scanners — the scanner bodies REGENERATED from the current source (`Gen/ReaderScan.lean`) against
`Rd.oscarScan` / `Rd.jetscapeScan` of the shared reader model.

The source collects the event labels as strings and converts them at the very end (`np.array(event_output,
dtype=np.int32)`), the model converts each label where it is read.  Hence: whenever one of them returns a value the other
returns the same value, and when one raises the other raises too — but the KIND of exception can differ on a file in which
a label that is not an integer literal is followed by another malformed header line (`OkEq`; `scan_kind_can_differ` is
the witness).  No Mathlib.
-/
import SparkxVerif.Gen.ReaderScan
import SparkxVerif.Lemmas.ReaderLoopGen

set_option linter.unusedSimpArgs false

namespace SparkxVerif.RdLoop
open SparkxVerif.Rd SparkxVerif.RdSel SparkxVerif.Gen.ReaderScan

/-- same value whenever one of them returns a value (so: both raise, or both return the same) -/
def OkEq {α : Type} (x y : Except Err α) : Prop := ∀ r, x = .ok r ↔ y = .ok r

theorem OkEq.rfl' {α : Type} (x : Except Err α) : OkEq x x := fun _ => Iff.rfl

theorem okEq_error {α : Type} (e e' : Err) : OkEq (.error e : Except Err α) (.error e') := by
  intro r; constructor <;> intro h <;> cases h

/-! ### hand-written iterations (what `oscarScan` / `jetscapeScan` do on one line, before the label conversion) -/

def oscarRawStep (l : LineF) (sc : ScanSt) : Except Err ScanSt :=
  if l.hasHash && l.hasEndSp then .ok { sc with foot := sc.foot ++ [l.raw] }
  else if l.hasHash && l.hasOutSp then
    match l.toks[2]? with
    | none => .error .index
    | some ev =>
      match l.toks[4]? with
      | none => .error .index
      | some t =>
        match pyInt? t with
        | none => .error .value
        | some n => .ok { sc with rows := sc.rows ++ [(.str ev, .int n)] }
  else .ok sc

def jetscapeRawStep (partons : Bool) (l : LineF) (sc : ScanSt) : Except Err ScanSt :=
  if l.hasHash && (if partons then l.hasNPartons else l.hasNHadrons) then
    match l.toksTab[2]? with
    | none => .error .index
    | some ev =>
      match l.toksTab[8]? with
      | none => .error .index
      | some n => .ok { sc with rows := sc.rows ++ [(.str ev, .str n)] }
  else .ok sc

theorem genOscarScanStep_eq (l : LineF) (sc : ScanSt) : genOscarScanStep l sc = oscarRawStep l sc := by
  unfold genOscarScanStep oscarRawStep pyTok pyTokInt
  rl_norm
  rl_crunch

theorem genJetscapeScanStep_eq (partons : Bool) (l : LineF) (sc : ScanSt) :
    genJetscapeScanStep partons l sc = jetscapeRawStep partons l sc := by
  unfold genJetscapeScanStep jetscapeRawStep pyTok
  rl_norm
  rl_crunch

theorem scanLoop_congr (s1 s2 : LineF → ScanSt → Except Err ScanSt) (h : ∀ l sc, s1 l sc = s2 l sc) :
    scanLoop s1 = scanLoop s2 := by
  have : s1 = s2 := by funext a b; exact h a b
  rw [this]

/-! ### the final conversion -/

theorem npIntRows_append (a b : List (Cell × Cell)) :
    npIntRows (a ++ b) = eBind (npIntRows a) (fun xs => eBind (npIntRows b) (fun ys => .ok (xs ++ ys))) := by
  induction a with
  | nil =>
    simp only [List.nil_append, npIntRows, eBind_ok']
    cases npIntRows b <;> rfl
  | cons r rs ih =>
    simp only [List.cons_append, npIntRows, ih]
    cases npIntRow r with
    | error e => rfl
    | ok x =>
      simp only [eBind_ok']
      cases npIntRows rs with
      | error e => rfl
      | ok xs =>
        simp only [eBind_ok']
        cases npIntRows b <;> rfl

theorem npIntRows_append_error (a b : List (Cell × Cell)) (e : Err) (h : npIntRows a = .error e) :
    npIntRows (a ++ b) = .error e := by
  rw [npIntRows_append, h]; rfl

/-- the finishing step of a scanner -/
def scanFin {β : Type} (k : ScanSt → List (Int × Int) → β) (x : Except Err ScanSt) : Except Err β :=
  eBind x (fun sc => eBind (npIntRows sc.rows) (fun rows => .ok (k sc rows)))

/-- once a label that is not an integer literal has been collected the scanner cannot return a value any more -/
theorem scan_poisoned {β : Type} (k : ScanSt → List (Int × Int) → β) (step : LineF → ScanSt → Except Err ScanSt)
    (hmono : ∀ l sc sc', step l sc = .ok sc' → ∃ ext, sc'.rows = sc.rows ++ ext) :
    ∀ (lines : List LineF) (sc : ScanSt) (e : Err), npIntRows sc.rows = .error e →
      ∀ r, scanFin k (scanLoop step lines sc) ≠ .ok r := by
  intro lines
  induction lines with
  | nil =>
    intro sc e he r h
    simp only [scanFin, scanLoop, eBind_ok', he, eBind_error'] at h
    cases h
  | cons l ls ih =>
    intro sc e he r h
    simp only [scanLoop] at h
    cases hs : step l sc with
    | error e' => rw [hs] at h; simp only [scanFin, eBind_error'] at h; cases h
    | ok sc' =>
      rw [hs] at h
      simp only [eBind_ok'] at h
      obtain ⟨ext, hext⟩ := hmono l sc sc' hs
      exact ih sc' e (by rw [hext]; exact npIntRows_append_error _ _ _ he) r h

theorem oscarRawStep_mono (l : LineF) (sc sc' : ScanSt) (h : oscarRawStep l sc = .ok sc') :
    ∃ ext, sc'.rows = sc.rows ++ ext := by
  unfold oscarRawStep at h
  split at h
  · cases h; exact ⟨[], by simp⟩
  · split at h
    · split at h
      · cases h
      · split at h
        · cases h
        · split at h
          · cases h
          · cases h; exact ⟨_, rfl⟩
    · cases h; exact ⟨[], by simp⟩

theorem jetscapeRawStep_mono (partons : Bool) (l : LineF) (sc sc' : ScanSt) (h : jetscapeRawStep partons l sc = .ok sc') :
    ∃ ext, sc'.rows = sc.rows ++ ext := by
  unfold jetscapeRawStep at h
  by_cases hc : (l.hasHash && (if partons then l.hasNPartons else l.hasNHadrons)) = true
  · rw [if_pos hc] at h
    cases h2 : l.toksTab[2]? with
    | none => rw [h2] at h; cases h
    | some ev =>
      rw [h2] at h
      dsimp only at h
      cases h8 : l.toksTab[8]? with
      | none => rw [h8] at h; cases h
      | some n => rw [h8] at h; cases h; exact ⟨_, rfl⟩
  · rw [if_neg hc] at h; cases h; exact ⟨[], by simp⟩

/-! ### `Rd.oscarScan` / `Rd.jetscapeScan` one line at a time -/

theorem oscarScan_cons_end (l : LineF) (ls : List LineF) (h : (l.hasHash && l.hasEndSp) = true) :
    oscarScan (l :: ls) = (oscarScan ls).map (fun rf => (rf.1, l.raw :: rf.2)) := by
  simp only [oscarScan, h, if_true, bind, Except.bind, pure, Except.pure]
  cases oscarScan ls <;> rfl

theorem oscarScan_cons_skip (l : LineF) (ls : List LineF) (h1 : ¬ (l.hasHash && l.hasEndSp) = true)
    (h2 : ¬ (l.hasHash && l.hasOutSp) = true) : oscarScan (l :: ls) = oscarScan ls := by
  simp only [oscarScan, h1, h2, if_false]
  rfl

theorem oscarScan_cons_out (l : LineF) (ls : List LineF) (h1 : ¬ (l.hasHash && l.hasEndSp) = true)
    (h2 : (l.hasHash && l.hasOutSp) = true) :
    oscarScan (l :: ls) =
      match l.toks[2]? with
      | none => .error .index
      | some ev =>
        match l.toks[4]? with
        | none => .error .index
        | some t =>
          match pyInt? t with
          | none => .error .value
          | some n =>
            match pyInt? ev with
            | none => .error .value
            | some e => (oscarScan ls).map (fun rf => ((e, n) :: rf.1, rf.2)) := by
  simp only [oscarScan, h1, h2, if_false, if_true, bind, Except.bind, pure, Except.pure, throw, throwThe,
    MonadExceptOf.throw]
  cases l.toks[2]? with
  | none => rfl
  | some ev =>
    dsimp only
    cases l.toks[4]? with
    | none => rfl
    | some t =>
      dsimp only
      cases pyInt? t with
      | none => rfl
      | some n =>
        dsimp only
        cases pyInt? ev with
        | none => rfl
        | some e =>
          dsimp only
          cases oscarScan ls <;> rfl

theorem npIntRows_snoc_str_int (rows : List (Cell × Cell)) (rows0 : List (Int × Int)) (ev : String) (n : Int)
    (h : npIntRows rows = .ok rows0) :
    npIntRows (rows ++ [(.str ev, .int n)]) =
      match pyInt? ev with
      | none => .error .value
      | some e => .ok (rows0 ++ [(e, n)]) := by
  rw [npIntRows_append, h]
  simp only [eBind_ok', npIntRows, npIntRow, npIntCell, pyIntStr]
  cases pyInt? ev <;> rfl

theorem map_map_except {α β γ : Type} (x : Except Err α) (f : α → β) (g : β → γ) :
    (x.map f).map g = x.map (fun a => g (f a)) := by cases x <;> rfl

/-- the Oscar scanner with an accumulator against the recursive model -/
theorem oscarScan_acc : ∀ (lines : List LineF) (sc : ScanSt) (rows0 : List (Int × Int)),
    npIntRows sc.rows = .ok rows0 →
    OkEq (scanFin (fun sc' rows => (rows, sc'.foot)) (scanLoop oscarRawStep lines sc))
         ((oscarScan lines).map (fun rf => (rows0 ++ rf.1, sc.foot ++ rf.2))) := by
  intro lines
  induction lines with
  | nil =>
    intro sc rows0 h
    simp only [scanLoop, scanFin, eBind_ok', h, oscarScan, Except.map, List.append_nil]
    exact OkEq.rfl' _
  | cons l ls ih =>
    intro sc rows0 h
    simp only [scanLoop]
    by_cases h1 : (l.hasHash && l.hasEndSp) = true
    · rw [oscarScan_cons_end l ls h1, map_map_except]
      simp only [oscarRawStep, h1, if_true, eBind_ok']
      have := ih { sc with foot := sc.foot ++ [l.raw] } rows0 h
      simpa only [List.append_assoc, List.singleton_append] using this
    · by_cases h2 : (l.hasHash && l.hasOutSp) = true
      · rw [oscarScan_cons_out l ls h1 h2]
        simp only [oscarRawStep, h1, h2, if_false, if_true, Bool.false_eq_true, ↓reduceIte]
        cases l.toks[2]? with
        | none => exact okEq_error _ _
        | some ev =>
          dsimp only
          cases l.toks[4]? with
          | none => exact okEq_error _ _
          | some t =>
            dsimp only
            cases pyInt? t with
            | none => exact okEq_error _ _
            | some n =>
              dsimp only
              try simp only [eBind_ok']
              have hs := npIntRows_snoc_str_int sc.rows rows0 ev n h
              cases he : pyInt? ev with
              | none =>
                rw [he] at hs
                dsimp only at hs ⊢
                intro r
                constructor
                · intro hr
                  exact absurd hr (scan_poisoned _ oscarRawStep oscarRawStep_mono ls
                    { sc with rows := sc.rows ++ [(.str ev, .int n)] } .value hs r)
                · intro hr; cases hr
              | some e =>
                rw [he] at hs
                dsimp only at hs ⊢
                rw [map_map_except]
                have := ih { sc with rows := sc.rows ++ [(.str ev, .int n)] } (rows0 ++ [(e, n)]) hs
                simpa only [List.append_assoc, List.singleton_append] using this
      · rw [oscarScan_cons_skip l ls h1 h2]
        simp only [oscarRawStep, h1, h2, if_false, eBind_ok', Bool.false_eq_true, ↓reduceIte]
        exact ih sc rows0 h

/-- **the generated Oscar scanner against `Rd.oscarScan`**: same value whenever one of them returns a value -/
theorem genOscarScan_okEq (lines : List LineF) : OkEq (genOscarScan lines) (oscarScan lines) := by
  have h := oscarScan_acc lines { rows := [], foot := [] } [] rfl
  have hm : (oscarScan lines).map (fun rf => (([] : List (Int × Int)) ++ rf.1, ([] : List String) ++ rf.2)) = oscarScan lines := by
    cases oscarScan lines <;> simp [Except.map]
  rw [hm] at h
  unfold genOscarScan
  rw [scanLoop_congr _ _ genOscarScanStep_eq]
  exact h

/-! ### JETSCAPE -/

theorem jetscapeScan_cons_skip (partons : Bool) (l : LineF) (ls : List LineF)
    (h : ¬ (l.hasHash && (if partons then l.hasNPartons else l.hasNHadrons)) = true) :
    jetscapeScan partons (l :: ls) = jetscapeScan partons ls := by
  simp only [jetscapeScan, h, if_false, Bool.false_eq_true, ↓reduceIte]

theorem jetscapeScan_cons_hdr (partons : Bool) (l : LineF) (ls : List LineF)
    (h : (l.hasHash && (if partons then l.hasNPartons else l.hasNHadrons)) = true) :
    jetscapeScan partons (l :: ls) =
      match l.toksTab[2]? with
      | none => .error .index
      | some ev =>
        match l.toksTab[8]? with
        | none => .error .index
        | some n =>
          match pyInt? ev with
          | none => .error .value
          | some e =>
            match pyInt? n with
            | none => .error .value
            | some c => (jetscapeScan partons ls).map (fun rs => (e, c) :: rs) := by
  simp only [jetscapeScan, h, if_true, bind, Except.bind, pure, Except.pure, throw, throwThe, MonadExceptOf.throw]
  cases l.toksTab[2]? with
  | none => rfl
  | some ev =>
    dsimp only
    cases l.toksTab[8]? with
    | none => rfl
    | some n =>
      dsimp only
      cases pyInt? ev with
      | none => rfl
      | some e =>
        dsimp only
        cases pyInt? n with
        | none => rfl
        | some c =>
          dsimp only
          cases jetscapeScan partons ls <;> rfl

theorem npIntRows_snoc_str_str (rows : List (Cell × Cell)) (rows0 : List (Int × Int)) (ev n : String)
    (h : npIntRows rows = .ok rows0) :
    npIntRows (rows ++ [(.str ev, .str n)]) =
      match pyInt? ev with
      | none => .error .value
      | some e =>
        match pyInt? n with
        | none => .error .value
        | some c => .ok (rows0 ++ [(e, c)]) := by
  rw [npIntRows_append, h]
  simp only [eBind_ok', npIntRows, npIntRow, npIntCell, pyIntStr]
  cases pyInt? ev with
  | none => rfl
  | some e => cases pyInt? n <;> rfl

theorem jetscapeScan_acc (partons : Bool) : ∀ (lines : List LineF) (sc : ScanSt) (rows0 : List (Int × Int)),
    npIntRows sc.rows = .ok rows0 →
    OkEq (scanFin (fun _ rows => rows) (scanLoop (jetscapeRawStep partons) lines sc))
         ((jetscapeScan partons lines).map (fun rs => rows0 ++ rs)) := by
  intro lines
  induction lines with
  | nil =>
    intro sc rows0 h
    simp only [scanLoop, scanFin, eBind_ok', h, jetscapeScan, Except.map, List.append_nil]
    exact OkEq.rfl' _
  | cons l ls ih =>
    intro sc rows0 h
    simp only [scanLoop]
    by_cases h1 : (l.hasHash && (if partons then l.hasNPartons else l.hasNHadrons)) = true
    · rw [jetscapeScan_cons_hdr partons l ls h1]
      simp only [jetscapeRawStep, h1, if_true]
      cases l.toksTab[2]? with
      | none => exact okEq_error _ _
      | some ev =>
        dsimp only
        cases l.toksTab[8]? with
        | none => exact okEq_error _ _
        | some n =>
          dsimp only
          try simp only [eBind_ok']
          have hs := npIntRows_snoc_str_str sc.rows rows0 ev n h
          have hbad : ∀ e', npIntRows (sc.rows ++ [(Cell.str ev, Cell.str n)]) = .error e' →
              ∀ e'', OkEq (scanFin (fun _ rows => rows) (scanLoop (jetscapeRawStep partons) ls
                  { sc with rows := sc.rows ++ [(Cell.str ev, Cell.str n)] }))
                (.error e'' : Except Err (List (Int × Int))) := by
            intro e' he' e'' r
            constructor
            · intro hr
              exact absurd hr (scan_poisoned _ (jetscapeRawStep partons) (jetscapeRawStep_mono partons) ls _ e' he' r)
            · intro hr; cases hr
          cases he : pyInt? ev with
          | none =>
            rw [he] at hs
            exact hbad _ hs _
          | some e =>
            rw [he] at hs
            dsimp only at hs ⊢
            cases hc : pyInt? n with
            | none =>
              rw [hc] at hs
              exact hbad _ hs _
            | some c =>
              rw [hc] at hs
              dsimp only at hs ⊢
              rw [map_map_except]
              have := ih { sc with rows := sc.rows ++ [(.str ev, .str n)] } (rows0 ++ [(e, c)]) hs
              simpa only [List.append_assoc, List.singleton_append] using this
    · rw [jetscapeScan_cons_skip partons l ls h1]
      simp only [jetscapeRawStep, h1, if_false, eBind_ok', Bool.false_eq_true, ↓reduceIte]
      exact ih sc rows0 h

theorem eBind_ok_right {α : Type} (y : Except Err α) : eBind y (fun r => .ok r) = y := by cases y <;> rfl

/-- **the generated JETSCAPE scanner against `Rd.jetscapeScan`**: same value whenever one of them returns a value -/
theorem genJetscapeScan_okEq (partons : Bool) (lines : List LineF) :
    OkEq (genJetscapeScan partons lines) (jetscapeScan partons lines) := by
  have h := jetscapeScan_acc partons lines { rows := [], foot := [] } [] rfl
  have hm : (jetscapeScan partons lines).map (fun rs => ([] : List (Int × Int)) ++ rs) = jetscapeScan partons lines := by
    cases jetscapeScan partons lines <;> simp [Except.map]
  rw [hm] at h
  unfold genJetscapeScan
  rw [scanLoop_congr _ _ (genJetscapeScanStep_eq partons)]
  simpa only [scanFin, eBind_ok_right] using h

/-- the kind of exception CAN differ: a label that is not an integer literal, followed by a header line that is too short
(the source meets the short line first — `IndexError` — and converts labels only at the end; the model converts the label
where it reads it — `ValueError`) -/
theorem scan_kind_can_differ :
    let a : LineF := { analyse "" with hasHash := true, hasOutSp := true, toks := ["#", "event", "x", "out", "1"] }
    let b : LineF := { analyse "" with hasHash := true, hasOutSp := true, toks := ["#", "event"] }
    genOscarScan [a, b] = .error .index ∧ oscarScan [a, b] = .error .value :=
  ⟨rfl, rfl⟩

/-! ### the readers with a generated scanner -/

theorem okEq_cases {α : Type} {x y : Except Err α} (h : OkEq x y) :
    (∃ r, x = .ok r ∧ y = .ok r) ∨ (∃ e e', x = .error e ∧ y = .error e') := by
  cases hy : y with
  | ok r => exact .inl ⟨r, (h r).mpr hy, rfl⟩
  | error e' =>
    cases hx : x with
    | ok r => have := (h r).mp hx; rw [hy] at this; cases this
    | error e => exact .inr ⟨e, e', rfl, rfl⟩

theorem readOscarPartsS_core (P : SelArith) (Q : OscarParts) (f : FileF) (sel : Sel) (filt : Option EvFilter) :
    readOscarPartsS oscarScan P Q f sel filt = readOscarParts P Q f sel filt := rfl

theorem readJetscapePartsS_core (P : SelArith) (Q : JetscapeParts) (f : FileF) (sel : Sel) (partons : Bool)
    (filt : Option EvFilter) :
    readJetscapePartsS jetscapeScan P Q f sel partons filt = readJetscapeParts P Q f sel partons filt := rfl

/-- a scanner that returns what `oscarScan` returns whenever either returns gives a reader with the same property -/
theorem readOscarPartsS_okEq (scan : List LineF → Except Err (List (Int × Int) × List String))
    (hs : ∀ ls, OkEq (scan ls) (oscarScan ls)) (P : SelArith) (Q : OscarParts) (f : FileF) (sel : Sel)
    (filt : Option EvFilter) :
    OkEq (readOscarPartsS scan P Q f sel filt) (readOscarParts P Q f sel filt) := by
  unfold readOscarPartsS readOscarParts
  simp only [bind, Except.bind, pure, Except.pure]
  cases P.valid sel with
  | error e => exact OkEq.rfl' _
  | ok u =>
    dsimp only
    cases f.lines.head? with
    | none => exact OkEq.rfl' _
    | some first =>
      dsimp only
      cases oscarFormat first with
      | error e => exact OkEq.rfl' _
      | ok fa =>
        dsimp only
        split
        · exact OkEq.rfl' _
        · cases Q.numEvents f with
          | error e => exact OkEq.rfl' _
          | ok ne =>
            dsimp only
            rcases okEq_cases (hs f.lines) with ⟨r, h1, h2⟩ | ⟨e, e', h1, h2⟩
            · rw [h1, h2]; exact OkEq.rfl' _
            · rw [h1, h2]; exact okEq_error _ _

theorem readJetscapePartsS_okEq (scan : Bool → List LineF → Except Err (List (Int × Int)))
    (hs : ∀ p ls, OkEq (scan p ls) (jetscapeScan p ls)) (P : SelArith) (Q : JetscapeParts) (f : FileF) (sel : Sel)
    (partons : Bool) (filt : Option EvFilter) :
    OkEq (readJetscapePartsS scan P Q f sel partons filt) (readJetscapeParts P Q f sel partons filt) := by
  unfold readJetscapePartsS readJetscapeParts
  simp only [bind, Except.bind, pure, Except.pure]
  cases jetscapeInitOk f with
  | error e => exact OkEq.rfl' _
  | ok u =>
    dsimp only
    cases P.valid sel with
    | error e => exact OkEq.rfl' _
    | ok u =>
      dsimp only
      rcases okEq_cases (hs partons f.lines) with ⟨r, h1, h2⟩ | ⟨e, e', h1, h2⟩
      · rw [h1, h2]; exact OkEq.rfl' _
      · rw [h1, h2]; exact okEq_error _ _

end SparkxVerif.RdLoop
