import SparkxVerif.Core.Num
import Mathlib.Algebra.Ring.Defs
import Mathlib.Algebra.BigOperators.Group.List.Basic
import Mathlib.Data.Nat.Cast.Basic

namespace SparkxVerif

@[simp] theorem npow_eq_pow {R : Type} [Semiring R] (x : R) (n : ℕ) : npow x n = x ^ n := by
  induction n with
  | zero => simp [npow]
  | succ n ih => simp [npow, ih, pow_succ]

@[simp] theorem sumL_eq_sum {R : Type} [Semiring R] (xs : List R) : sumL xs = xs.sum := by
  unfold sumL
  rw [List.sum_eq_foldl]
  simp

end SparkxVerif
