/-
Tie T for C19: the definitions regenerated from the current source of `CentralityClasses.py`
(`Gen/Centrality.lean`: `genRank`, `genClassLoop`, `genBuild`, `genLookupLoop`, `genLookup`) are equal to the
hand-written model (`Core/Centrality.lean`: `build`, `lookup`) for ALL inputs, over any `LE`/`LT` structure with
decidable relations (no order axioms are needed: the two sides perform the same comparisons).

The proof scripts do not depend on the names of the source's locals, on the orientation of comparisons, on the
order of the two `append`s in the class loop, nor on which branch of `if MaxRecord > 0` comes first: every step is a
case analysis over the outcomes of the Python index operations, closed by `simp` / `omega`.
-/
import SparkxVerif.Lemmas.Centrality
import SparkxVerif.Gen.Centrality

set_option linter.unusedSectionVars false
set_option linter.unusedVariables false
set_option linter.unusedSimpArgs false
set_option linter.unreachableTactic false
set_option linter.unusedTactic false

namespace SparkxVerif.CentralityGen
open SparkxVerif.Centrality SparkxVerif.Gen.Centrality

/-! ### the rank expression -/

section rank
variable {F : Type} [Add F] [Sub F] [Mul F] [Div F] [Neg F] [NatCast F]

/-- the rank boundary of a percentile edge as the hand model reads the code: `int(number_events * edge / 100.0)`
with Python's `int()` kept abstract -/
def rankSpec (toNat : F → Nat) (n : Nat) (edge : F) : Nat :=
  toNat ((((n : Nat) : F) * edge) / ((100 : Nat) : F))

/-- the generated rank expression is the hand-written one; the only law used is commutativity of the (IEEE)
product, so `edge * number_events / 100.0` is accepted and `number_events / 100.0 * edge` is not -/
theorem genRank_eq (hmul : ∀ a b : F, a * b = b * a) (toNat : F → Nat) (n : Nat) (edge : F) :
    genRank toNat n edge = rankSpec toNat n edge := by
  unfold genRank rankSpec
  first
    | rfl
    | (simp only [hmul]; done)
    | (rw [hmul])

end rank

/-! ### Python `range`, Python indexing -/

theorem pyRange_nat (a : Nat) (b : Int) :
    pyRange (a : Int) b = (List.range' a (b - (a : Int)).toNat).map Int.ofNat := by
  unfold pyRange
  rw [List.range'_eq_map_range, List.map_map]
  apply List.map_congr_left
  intro k _
  simp

theorem pyRange_one (b : Int) : pyRange 1 b = (List.range' 1 (b - 1).toNat).map Int.ofNat := by
  have := pyRange_nat 1 b
  simpa using this

/-- `pyIdx` raises nothing but `IndexError` -/
theorem pyIdx_err_index {β : Type} (xs : List β) (i : Int) (e : Err) (h : pyIdx xs i = .error e) :
    e = .index := by
  unfold pyIdx at h
  generalize (if i < 0 then i + (xs.length : Int) else i) = j at h
  simp only at h
  by_cases hj : j < 0
  · rw [if_pos hj] at h; injection h with h; exact h.symm
  · rw [if_neg hj] at h
    cases hx : xs[j.toNat]? <;> rw [hx] at h
    · injection h with h; exact h.symm
    · cases h

theorem pyIdx_ofNat_lt {β : Type} (xs : List β) (k : Nat) (h : k < xs.length) :
    pyIdx xs (Int.ofNat k) = .ok xs[k] := pyIdx_ok_of_lt xs k h

section order
variable {α γ : Type} [LE α] [LT α] [DecidableLE α] [DecidableLT α]

/-! ### `__create_centrality_classes` -/

/-- result of the hand-written extraction, prefixed by what the generated loop has accumulated so far -/
def withAcc (mins : List (Bnd α)) (maxs : List α) :
    Except Err (List (Bnd α) × List α) → Except Err (List (Bnd α) × List α)
  | .error e => .error e
  | .ok (ms, xs) => .ok (mins ++ ms, maxs ++ xs)

/-- the generated class loop, run over the indices `k, k+1, …` of the edge list with `MinRecord = lo`, is the
hand-written structural recursion over the remaining rank boundaries -/
theorem genClassLoop_eq (rank : γ → Nat) (record : List α) (bins : List γ) :
    ∀ (m k lo : Nat) (mins : List (Bnd α)) (maxs : List α), m = bins.length - k →
      genClassLoop rank record bins ((List.range' k m).map Int.ofNat) (lo : Int) mins maxs =
        withAcc mins maxs (extractWith minAt record lo ((bins.drop k).map rank)) := by
  intro m
  induction m with
  | zero =>
    intro k lo mins maxs hm
    have : bins.drop k = [] := List.drop_eq_nil_of_le (by omega)
    simp [this, genClassLoop, extractWith, withAcc]
  | succ m ih =>
    intro k lo mins maxs hm
    have hk : k < bins.length := by omega
    rw [List.range'_succ, List.drop_eq_getElem_cons hk]
    simp only [List.map_cons, genClassLoop, extractWith, minAt, pyIdx_ofNat_lt bins k hk]
    have hI := fun mins maxs => ih (k + 1) (rank bins[k]) mins maxs (by omega)
    simp only [hI]
    generalize extractWith minAt record (rank bins[k]) _ = T
    rcases hA : pyIdx record (lo : Int) with eA | vA <;>
      rcases hB : pyIdx record (((rank bins[k] : Nat) : Int) - 1) with eB | vB <;>
      rcases T with eT | ⟨ms, xs⟩ <;> by_cases hr : 0 < rank bins[k] <;>
      (try (have hA' := pyIdx_err_index _ _ _ hA; subst hA')) <;>
      (try (have hB' := pyIdx_err_index _ _ _ hB; subst hB')) <;>
      simp only [hr, if_true, if_false, withAcc, decide_eq_true_eq] <;>
      (try split) <;>
      first
        | (exfalso; omega)
        | (simp [withAcc, List.append_assoc]; done)
        | (simp_all [withAcc, List.append_assoc]; done)

/-- **Tie T, constructor.** `__create_centrality_classes` as regenerated from the current source equals the
hand-written model on every input: same exception class or same stored minima and maxima. -/
theorem genBuild_eq (rank : γ → Nat) (zero : α) (events : List α) (bins : List γ) :
    genBuild rank zero events bins = build zero events (bins.map rank) := by
  unfold genBuild build buildWith
  have h4 : (((events.length : Nat) : Int) < 4) ↔ events.length < 4 := by omega
  simp only [h4, decide_eq_true_eq]
  by_cases hn : events.length < 4
  · simp only [hn, if_true]
  · simp only [hn, if_false]
    by_cases hneg : events.any (fun m => decide (m < zero)) = true
    · simp only [hneg, if_true]
    · simp only [hneg]
      cases bins with
      | nil => rfl
      | cons c rest =>
        have h0 : pyIdx (c :: rest) 0 = .ok c := pyIdx_ok_of_lt (c :: rest) 0 (by simp)
        have hr : pyRange 1 (((c :: rest).length : Nat) : Int) =
            (List.range' 1 ((c :: rest).length - 1)).map Int.ofNat := by
          rw [pyRange_one]; congr 2; simp
        simp only [h0, hr, List.map_cons]
        rw [genClassLoop_eq rank (sortDesc events) (c :: rest) _ 1 (rank c) [] [] rfl]
        simp only [List.drop_one, List.tail_cons]
        rcases extractWith minAt (sortDesc events) (rank c) (rest.map rank) with e | ⟨ms, xs⟩ <;>
          simp [withAcc]

/-! ### `get_centrality_class` -/

/-- how `get_centrality_class` continues after its `for` loop: a `return` inside the loop wins, otherwise the
statements after the loop run -/
def afterLoop (k : Except Err Int) : Except Err (Option Int) → Except Err Int
  | .error e => .error e
  | .ok (some r) => .ok r
  | .ok none => k

theorem genLookupLoop_eq (mins : List (Bnd α)) (x : α) : ∀ is : List Nat,
    afterLoop (.ok (-1)) (genLookupLoop mins x (is.map Int.ofNat)) = scan mins x is := by
  intro is
  induction is with
  | nil => rfl
  | cons i is ih =>
    simp only [List.map_cons, genLookupLoop, scan]
    generalize genLookupLoop mins x (is.map Int.ofNat) = G at ih ⊢
    generalize scan mins x is = S at ih ⊢
    have hi : (Int.ofNat i) = (i : Int) := rfl
    simp only [hi]
    rcases hA : pyIdx mins (i : Int) with eA | vA <;>
      rcases hB : pyIdx mins ((i : Int) - 1) with eB | vB <;>
      (try (have hA' := pyIdx_err_index _ _ _ hA; subst hA')) <;>
      (try (have hB' := pyIdx_err_index _ _ _ hB; subst hB')) <;>
      simp only [afterLoop] <;>
      (try cases vA.leVal x) <;> (try cases vB.gtVal x) <;> simp_all [afterLoop]

/-- **Tie T, lookup.** `get_centrality_class` as regenerated from the current source equals the hand-written
comparison chain for every list of stored minima and every query. -/
theorem genLookup_eq (mins : List (Bnd α)) (x : α) : genLookup mins x = lookup mins x := by
  unfold genLookup lookup
  have hr : pyRange 1 (((mins.length : Nat) : Int) - 1) = (List.range' 1 (mins.length - 2)).map Int.ofNat := by
    rw [pyRange_one]; congr 2; omega
  rw [hr, ← genLookupLoop_eq]
  generalize genLookupLoop mins x _ = G
  rcases hA : pyIdx mins 0 with eA | vA <;>
    rcases hB : pyIdx mins (((mins.length : Nat) : Int) - 2) with eB | vB <;>
    (try (have hA' := pyIdx_err_index _ _ _ hA; subst hA')) <;>
    (try (have hB' := pyIdx_err_index _ _ _ hB; subst hB')) <;>
    (try cases vA.leVal x) <;> (try cases vB.gtVal x) <;>
    rcases G with e | (_ | r) <;> simp_all [afterLoop]

end order

/-! ### `__init__`: edge cleaning -/

section clean
variable {γ : Type} [LE γ] [LT γ] [DecidableLE γ] [DecidableLT γ] [DecidableEq γ]

theorem pyRange_zero (b : Int) : pyRange 0 b = (List.range' 0 b.toNat).map Int.ofNat := by
  have := pyRange_nat 0 b
  simpa using this

/-- insertion sort permutes, whatever the relation -/
theorem insAsc_perm' (x : γ) (l : List γ) : (insAsc x l).Perm (x :: l) := by
  induction l with
  | nil => exact List.Perm.refl _
  | cons y ys ih =>
    unfold insAsc
    split
    · exact List.Perm.refl _
    · exact (List.Perm.cons y ih).trans (List.Perm.swap x y ys)

theorem sortAsc_perm' (l : List γ) : (sortAsc l).Perm l := by
  induction l with
  | nil => exact List.Perm.refl _
  | cons x xs ih => exact (insAsc_perm' x _).trans (List.Perm.cons x ih)

/-- the generated duplicate-removal loop (list `unique_bins`, set `seen`) is `dedupFrom` of the model -/
theorem genDedupLoop_eq : ∀ (xs unique seen : List γ),
    genDedupLoop xs unique seen = unique ++ dedupFrom seen xs := by
  intro xs
  induction xs with
  | nil => intro u s; simp [genDedupLoop, dedupFrom]
  | cons x xs ih =>
    intro u s
    simp only [genDedupLoop, dedupFrom, ih]
    by_cases h : x ∈ s <;> simp [h, List.append_assoc]

/-- the generated `all(bins[i] <= bins[i+1] for i in range(len(bins)-1))` is `isSortedLE` of the model -/
theorem genSortedLoop_eq (bins : List γ) : ∀ (m k : Nat), m = bins.length - 1 - k →
    genSortedLoop bins ((List.range' k m).map Int.ofNat) = .ok (isSortedLE (bins.drop k)) := by
  intro m
  induction m with
  | zero =>
    intro k hm
    have hl : (bins.drop k).length ≤ 1 := by rw [List.length_drop]; omega
    simp only [List.range'_zero, List.map_nil, genSortedLoop]
    rcases hd : bins.drop k with _ | ⟨a, _ | ⟨b, t⟩⟩
    · rfl
    · rfl
    · rw [hd] at hl; simp at hl
  | succ m ih =>
    intro k hm
    have hk : k + 1 < bins.length := by omega
    have hk0 : k < bins.length := by omega
    rw [List.range'_succ, List.drop_eq_getElem_cons hk0, List.drop_eq_getElem_cons hk]
    have h1 : pyIdx bins (Int.ofNat k + 1) = .ok bins[k + 1] := by
      have : (Int.ofNat k + 1) = ((k + 1 : Nat) : Int) := by simp
      rw [this]; exact pyIdx_ok_of_lt bins (k + 1) hk
    have h1' : pyIdx bins (1 + Int.ofNat k) = .ok bins[k + 1] := by rw [Int.add_comm]; exact h1
    simp only [List.map_cons, genSortedLoop, pyIdx_ofNat_lt bins k hk0, h1, h1', isSortedLE]
    rw [ih (k + 1) (by omega), List.drop_eq_getElem_cons hk]
    by_cases h : bins[k] ≤ bins[k + 1] <;> simp [h]

theorem any_congr' {f g : γ → Bool} (h : ∀ v, f v = g v) (l : List γ) : l.any f = l.any g := by
  have : f = g := funext h
  rw [this]

/-- **Tie T, edge cleaning.** `__init__` as regenerated from the current source — sortedness test, in-place sort,
duplicate removal, range check — raises `ValueError` exactly when an edge is outside `[lo, hi]` and otherwise
stores the model's `cleanEdges`. -/
theorem genInit_eq (lo hi : γ) (edges : List γ) :
    genInit lo hi edges =
      if edgesInRange lo hi edges then .ok (cleanEdges edges) else .error .value := by
  unfold genInit
  have hr : pyRange 0 (((edges.length : Nat) : Int) - 1) = (List.range' 0 (edges.length - 1)).map Int.ofNat := by
    rw [pyRange_zero]; congr 2; omega
  rw [hr, genSortedLoop_eq edges _ 0 (by omega)]
  have hp : ∀ f : γ → Bool, (sortAsc edges).any f = edges.any f := fun f => (sortAsc_perm' edges).any_eq
  -- the generated side first: the range test becomes the model's predicate (any Boolean combination of the two
  -- comparisons with the same truth table is accepted), the sorted copy has the same `any`
  cases hs : isSortedLE edges <;>
    simp only [List.drop_zero, genDedupLoop_eq, List.nil_append, hs, Bool.not_false, Bool.not_true, if_true,
      if_false, Bool.false_eq_true, hp] <;>
    rw [any_congr' (g := fun v => decide (v < lo) || decide (hi < v)) (l := edges)
      (by intro v; by_cases h1 : v < lo <;> by_cases h2 : hi < v <;> simp [h1, h2])] <;>
    simp only [edgesInRange, cleanEdges, hs, if_true, if_false, Bool.false_eq_true] <;>
    cases edges.any (fun v => decide (v < lo) || decide (hi < v)) <;> simp

end clean

end SparkxVerif.CentralityGen
