/-
Lemmas for C06: the numbers of a particle built from a written line.
Table facts (by `decide` over `Gen/WriterTables.lean`): the `j`-th column of `_particle_as_list` is the attribute that
`Particle.__initialize_from_array` fills from column `j` of the line, with the same cast, and integer columns are
exactly the `%d` columns — for Oscar2013, Oscar2013Extended (20/21/22 columns), JETSCAPE, and (through `format_map`)
every ASCII column.  Hence `H_idem` lifts from cells to rows (`*_roundtrip`).
-/
import SparkxVerif.Lemmas.WriterInv

set_option linter.unusedSimpArgs false
set_option linter.unusedVariables false

namespace SparkxVerif.Wr
open SparkxVerif.Rd SparkxVerif.Gen.WriterTables

variable {V : Type}

/-- the cast under which a conversion is read back: `%g`, `%.9g` by `float`, `%d` by `int` -/
def castOf : Spec → Cast
  | .g => .float | .g9 => .float | .d => .int

/-- `H_idem` (contract of the `Codec` parameter): printing the number read back from a printed cell prints the same
cell (`'%g' % float('%g' % v) == '%g' % v`, `'%d' % int('%d' % v) == '%d' % v`) -/
def Hidem (c : Codec V) : Prop := ∀ s v, c.fmt s (c.parse (castOf s) (c.fmt s v)) = c.fmt s v

/-! ### table facts (re-checked against the generated tables on every run) -/

theorem t_read_2013 : oscarColsBase.map (fun ca => readMapOscar2013.lookup ca.2) = (List.range' 0 12).map some := by
  decide
theorem t_pair_2013 : fmtOscar2013.map castOf = oscarColsBase.map (·.1) := by decide
theorem t_read_ext (k : Nat) (hk : k ≤ 2) :
    (oscarColsBase ++ oscarColsExt ++ oscarColsOpt.take k).map (fun ca => readMapExtended.lookup ca.2)
      = (List.range' 0 (20 + k)).map some := by
  have : k = 0 ∨ k = 1 ∨ k = 2 := by omega
  rcases this with h | h | h <;> subst h <;> decide
theorem t_pair_ext (k : Nat) (hk : k ≤ 2) :
    (fmtExtended20 ++ List.replicate k fmtExtensionSpec).map castOf
      = (oscarColsBase ++ oscarColsExt ++ oscarColsOpt.take k).map (·.1) := by
  have : k = 0 ∨ k = 1 ∨ k = 2 := by omega
  rcases this with h | h | h <;> subst h <;> decide
theorem t_read_jet : jetscapeCols.map (fun ca => readMapJetscape.lookup ca.2) = (List.range' 0 7).map some := by decide
theorem t_pair_jet : fmtJetscape.map castOf = jetscapeCols.map (·.1) := by decide
/-- every attribute an ASCII header can name has a `format_map` entry, and its conversion is read back with the cast
`Particle` uses for that attribute -/
theorem t_format_map : ∀ a ∈ attrMap.map (·.2), (formatMap.lookup a).map castOf = some (readCast a) := by decide
/-- the header-name table of the reader model and the one extracted from `_set_custom_attr_list` agree -/
theorem t_attrMap : attrMap = attrMapKeys := by decide

/-! ### a loaded particle's numbers, column by column -/

theorem valsOf_seq (c : Codec V) (colOf : String → Option Nat) (cols : List (Cast × String)) (toks : List String)
    (k : Nat) (h : cols.map (fun ca => colOf ca.2) = (List.range' k cols.length).map some)
    (ht : k + cols.length ≤ toks.length) :
    valsOf c cols colOf toks = .ok (List.zipWith (fun ca t => c.parse ca.1 t) cols (toks.drop k)) := by
  induction cols generalizing k with
  | nil => rfl
  | cons ca cols ih =>
    simp only [List.map_cons, List.length_cons, List.range'_succ, List.cons.injEq] at h
    have hk : k < toks.length := by simp at ht; omega
    have ih' := ih (k + 1) h.2 (by simp at ht ⊢; omega)
    unfold valsOf at ih' ⊢
    rw [List.drop_eq_getElem_cons hk]
    simp only [List.mapM_cons, h.1, List.getElem?_eq_getElem hk, bind, Except.bind]
    rw [ih']
    rfl

/-- `H_idem` lifted to a row: formatting the numbers read back from a written row gives the row again -/
theorem row_roundtrip (c : Codec V) (hid : Hidem c) (specs : List Spec) (cols : List (Cast × String)) (vs : List V)
    (hpair : specs.map castOf = cols.map (·.1)) (hlen : vs.length = specs.length) :
    cellsOf c specs (List.zipWith (fun ca t => c.parse ca.1 t) cols (cellsOf c specs vs)) = cellsOf c specs vs := by
  induction specs generalizing cols vs with
  | nil => simp [cellsOf]
  | cons s specs ih =>
    cases cols with
    | nil => simp at hpair
    | cons ca cols =>
      cases vs with
      | nil => simp at hlen
      | cons v vs =>
        simp only [List.map_cons, List.cons.injEq] at hpair
        have := ih cols vs hpair.2 (by simpa using hlen)
        simp only [cellsOf, List.zipWith_cons_cons] at this ⊢
        rw [this, ← hpair.1, hid s v]

theorem cellsOf_length (c : Codec V) (specs : List Spec) (vs : List V) (h : vs.length = specs.length) :
    (cellsOf c specs vs).length = specs.length := by simp [cellsOf, h]

/-- the numbers of a particle as the driver computes them (`_particle_as_list` of the particle built from a line) -/
def oscarValsD (c : Codec V) (fmt : Fmt) (attrs : List String) (p : PLine) : List V :=
  match oscarVals c fmt attrs p.toks with | .ok v => v | .error _ => []

def jetValsD (c : Codec V) (p : PLine) : List V :=
  match jetVals c p.toks with | .ok v => v | .error _ => []

/-- Oscar2013: a written row, read back and formatted again, is the same row (12 columns) -/
theorem oscar2013_roundtrip (c : Codec V) (hid : Hidem c) (attrs : List String) (custom : List Spec) (ln : Nat)
    (vs : List V) (hlen : vs.length = 12) :
    let toks := cellsOf c (specsOf .oscar2013 custom 12) vs
    cellsOf c (specsOf .oscar2013 custom 12) (oscarValsD c .oscar2013 attrs ⟨ln, toks⟩) = toks
      ∧ (oscarValsD c .oscar2013 attrs ⟨ln, toks⟩).length = 12 := by
  intro toks
  have hs : specsOf .oscar2013 custom 12 = fmtOscar2013 := rfl
  have hl : toks.length = 12 := by simp only [toks, hs]; rw [cellsOf_length _ _ _ (by rw [hlen]; rfl)]; rfl
  have hv : oscarVals c .oscar2013 attrs toks
      = .ok (List.zipWith (fun ca t => c.parse ca.1 t) oscarColsBase toks) := by
    have := valsOf_seq c (oscarColOf .oscar2013 attrs) oscarColsBase toks 0 t_read_2013 (by rw [hl]; decide)
    simpa [oscarVals, oscarAsListCols] using this
  simp only [oscarValsD, hv]
  constructor
  · simp only [toks, hs]; exact row_roundtrip c hid fmtOscar2013 oscarColsBase vs t_pair_2013 (by rw [hlen]; rfl)
  · simp [hl, oscarColsBase]

/-- Oscar2013Extended with 20, 21 or 22 columns -/
theorem extended_roundtrip (c : Codec V) (hid : Hidem c) (attrs : List String) (custom : List Spec) (ln : Nat)
    (k : Nat) (hk : k ≤ 2) (vs : List V) (hlen : vs.length = 20 + k) :
    let toks := cellsOf c (specsOf .extended custom (20 + k)) vs
    cellsOf c (specsOf .extended custom (20 + k)) (oscarValsD c .extended attrs ⟨ln, toks⟩) = toks
      ∧ (oscarValsD c .extended attrs ⟨ln, toks⟩).length = 20 + k := by
  intro toks
  have hs : specsOf .extended custom (20 + k) = fmtExtended20 ++ List.replicate k fmtExtensionSpec := by
    simp [specsOf]
  have hsl : (fmtExtended20 ++ List.replicate k fmtExtensionSpec).length = 20 + k := by
    simp [fmtExtended20]; omega
  have hl : toks.length = 20 + k := by
    simp only [toks, hs]; rw [cellsOf_length _ _ _ (by rw [hlen, hsl]), hsl]
  have hcl : (oscarColsBase ++ oscarColsExt ++ oscarColsOpt.take k).length = 20 + k := by
    have : k = 0 ∨ k = 1 ∨ k = 2 := by omega
    rcases this with h | h | h <;> subst h <;> rfl
  have hv : oscarVals c .extended attrs toks
      = .ok (List.zipWith (fun ca t => c.parse ca.1 t) (oscarColsBase ++ oscarColsExt ++ oscarColsOpt.take k) toks) := by
    have := valsOf_seq c (oscarColOf .extended attrs) (oscarColsBase ++ oscarColsExt ++ oscarColsOpt.take k) toks 0
      (by rw [hcl]; exact t_read_ext k hk) (by rw [hl, hcl]; omega)
    simpa [oscarVals, oscarAsListCols, hl] using this
  simp only [oscarValsD, hv]
  constructor
  · simp only [toks, hs]
    exact row_roundtrip c hid _ _ vs (t_pair_ext k hk) (by rw [hlen, hsl])
  · simp only [List.length_zipWith, hl, hcl]; omega

/-- JETSCAPE (7 columns) -/
theorem jet_roundtrip (c : Codec V) (hid : Hidem c) (ln : Nat) (vs : List V) (hlen : vs.length = 7) :
    let toks := cellsOf c fmtJetscape vs
    cellsOf c fmtJetscape (jetValsD c ⟨ln, toks⟩) = toks ∧ (jetValsD c ⟨ln, toks⟩).length = fmtJetscape.length := by
  intro toks
  have hl : toks.length = 7 := by simp only [toks]; rw [cellsOf_length _ _ _ (by rw [hlen]; rfl)]; rfl
  have hv : jetVals c toks = .ok (List.zipWith (fun ca t => c.parse ca.1 t) jetscapeCols toks) := by
    have := valsOf_seq c (fun a => readMapJetscape.lookup a) jetscapeCols toks 0 t_read_jet (by rw [hl]; decide)
    simpa [jetVals] using this
  simp only [jetValsD, hv]
  constructor
  · exact row_roundtrip c hid fmtJetscape jetscapeCols vs t_pair_jet (by rw [hlen]; rfl)
  · simp [hl, jetscapeCols, fmtJetscape]

/-! ### ASCII: any list of distinct column attributes -/

theorem ascii_read (attrs : List String) (hnd : attrs.Nodup) :
    (attrs.map (fun a => (readCast a, a))).map (fun ca => oscarColOf .ascii attrs ca.2)
      = (List.range' 0 (attrs.map (fun a => (readCast a, a))).length).map some := by
  apply List.ext_getElem
  · simp
  · intro i h1 h2
    simp only [List.length_map] at h1
    simp [oscarColOf, hnd.idxOf_getElem i h1]

theorem ascii_custom (attrs : List String) (custom : List Spec) (hsub : ∀ a ∈ attrs, a ∈ attrMap.map (·.2))
    (hc : oscarCustom .ascii attrs = .ok custom) :
    custom.map castOf = (attrs.map (fun a => (readCast a, a))).map (·.1) ∧ custom.length = attrs.length := by
  simp only [oscarCustom, beq_self_eq_true, ↓reduceIte] at hc
  induction attrs generalizing custom with
  | nil => simp [pure, Except.pure] at hc; subst hc; simp
  | cons a attrs ih =>
    have ha := t_format_map a (hsub a (by simp))
    cases hl : formatMap.lookup a with
    | none => simp [hl] at ha
    | some s =>
      simp only [hl, Option.map_some, Option.some.injEq] at ha
      simp only [List.mapM_cons, hl, bind, Except.bind] at hc
      generalize hrest : List.mapM (m := Except WErr) _ attrs = res at hc
      cases res with
      | error e => simp [pure, Except.pure] at hc
      | ok cs =>
        simp only [pure, Except.pure, Except.ok.injEq] at hc
        subst hc
        obtain ⟨h1, h2⟩ := ih cs (fun b hb => hsub b (by simp [hb])) hrest
        refine ⟨?_, by simp [h2]⟩
        simp only [List.map_cons, ha, List.map_map] at h1 ⊢
        rw [h1]

theorem ascii_roundtrip (c : Codec V) (hid : Hidem c) (attrs : List String) (custom : List Spec) (ln : Nat)
    (hnd : attrs.Nodup) (hsub : ∀ a ∈ attrs, a ∈ attrMap.map (·.2)) (hc : oscarCustom .ascii attrs = .ok custom)
    (vs : List V) (hlen : vs.length = attrs.length) :
    let toks := cellsOf c (specsOf .ascii custom attrs.length) vs
    cellsOf c (specsOf .ascii custom attrs.length) (oscarValsD c .ascii attrs ⟨ln, toks⟩) = toks
      ∧ (oscarValsD c .ascii attrs ⟨ln, toks⟩).length = attrs.length := by
  intro toks
  obtain ⟨hp, hcl⟩ := ascii_custom attrs custom hsub hc
  have hs : specsOf .ascii custom attrs.length = custom := rfl
  have hl : toks.length = attrs.length := by
    simp only [toks, hs]; rw [cellsOf_length _ _ _ (by rw [hlen, hcl]), hcl]
  have hv : oscarVals c .ascii attrs toks
      = .ok (List.zipWith (fun ca t => c.parse ca.1 t) (attrs.map (fun a => (readCast a, a))) toks) := by
    have := valsOf_seq c (oscarColOf .ascii attrs) (attrs.map (fun a => (readCast a, a))) toks 0
      (ascii_read attrs hnd) (by simp [hl])
    simpa [oscarVals, oscarAsListCols] using this
  simp only [oscarValsD, hv]
  constructor
  · simp only [toks, hs]
    exact row_roundtrip c hid custom _ vs hp (by rw [hlen, hcl])
  · simp [hl]

end SparkxVerif.Wr
