/-
Classification of the WRITTEN files (C06): every line the writer model of `Core/Writer.lean` emits — copied header lines,
`# event k out n`, particle lines of formatted cells, each event's own end line with its new number, JETSCAPE event headers and
the trailer — is observed by the real `Rd.analyse` as what it is meant to be (`Wr.ObsOK analyse …`), under
 * ONE assumption about Python's `%`-formatting, `FmtContract c` (float-formatting contract, DESIGN §3 item 4): a formatted cell
   consists of characters of a formatted number and is accepted by `float()` / `int()`; the integer half is proved for Lean's
   decimal printer (`fmtContract_int`);
 * decidable side conditions on the strings the writer COPIES from the input (`headerOk`, `footerShapeB`, `jetCopiedOk`).
Core Lean only.
-/
import SparkxVerif.Lemmas.WriterVals
import SparkxVerif.Lemmas.ClassifyAscii
import SparkxVerif.Lemmas.Reader

set_option linter.unusedSimpArgs false

namespace SparkxVerif.Wr
open SparkxVerif.Rd SparkxVerif.Str SparkxVerif.Gen.WriterTables

variable {R V : Type}

/-! ### the formatting contract (the ONE assumption about Python's `%`-formatting) -/

/-- characters of a formatted number: the numeric alphabet `[0-9+-.eE]` and the letters of `nan` / `inf` -/
def fmtCh (c : Char) : Bool := numCh c || "naif".toList.contains c

/-- a formatted cell: characters of a formatted number only (in particular no blank, tab, newline, `#`, `v`) -/
def cellTok (t : String) : Bool := t.toList.all fmtCh

/-- **Float-formatting contract** (DESIGN §3 item 4), the only fact about `'%g' % v`, `'%.9g' % v`, `'%d' % v` the
`…_text` theorems assume: the output consists of characters of a formatted number, and Python's `float()` resp. `int()`
(the cast under which the column is read back) accepts it. -/
def FmtContract (c : Codec V) : Prop :=
  ∀ s v, cellTok (c.fmt s v) = true ∧
    (match castOf s with | .float => isPyFloat (c.fmt s v) | .int => isPyInt (c.fmt s v)) = true

/-- the integer half of the contract holds for Lean's decimal printer: `'%d' % i` as `toString i` -/
theorem fmtContract_int (i : Int) : cellTok (toString i) = true ∧ isPyInt (toString i) = true := by
  constructor
  · simp only [cellTok, List.all_eq_true]
    intro ch hc
    simp [fmtCh, intRepr_numChars i ch hc]
  · simp [isPyInt, pyInt?_int_repr]

/-- is the conversion read back with `float`? -/
def isFloatSpec (s : Spec) : Bool := castOf s == .float

theorem cells_ok (c : Codec V) (hc : FmtContract c) (specs : List Spec) (row : List V) :
    (∀ t ∈ cellsOf c specs row, cellTok t = true) ∧
    fieldsOk (specs.map isFloatSpec) (cellsOf c specs row) = true := by
  induction specs generalizing row with
  | nil => simp [cellsOf, fieldsOk]
  | cons s ss ih =>
    cases row with
    | nil => simp [cellsOf, fieldsOk]
    | cons v vs =>
      obtain ⟨i1, i2⟩ := ih vs
      obtain ⟨c1, c2⟩ := hc s v
      constructor
      · intro t ht
        simp only [cellsOf, List.zipWith_cons_cons, List.mem_cons] at ht
        rcases ht with rfl | ht
        · exact c1
        · exact i1 t ht
      · simp only [fieldsOk, cellsOf, List.map_cons, List.zipWith_cons_cons, List.zip_cons_cons, List.all_cons,
          Bool.and_eq_true] at i2 ⊢
        refine ⟨?_, i2⟩
        cases hs : castOf s <;> simp [isFloatSpec, hs] at c2 ⊢ <;> exact c2

/-! ### a line of formatted cells -/

/-- alphabet of a written particle line -/
def cellLineCh (c : Char) : Bool := fmtCh c || c == ' '

theorem cellLine_alphabet {cells : List String} (h : ∀ t ∈ cells, cellTok t = true) :
    ∀ c ∈ (" ".intercalate cells).toList, cellLineCh c = true := by
  intro c hc
  rcases mem_toList_intercalate hc with hc | ⟨t, ht, hc⟩
  · have : c = ' ' := by simpa using hc
    subst this; rfl
  · have := List.all_eq_true.mp (h t ht) c hc
    simp [cellLineCh, this]

/-- a written particle line: the cells come back from `split(' ')` (also after `replace('\t',' ')`), and the line shows
no `#`, `event`, `Event`, `out`, `end`, `sigmaGen`, `weight`, `N_hadrons`, `N_partons`, ` start` -/
theorem analyse_cell_line {cells : List String} (hne : cells ≠ []) (h : ∀ t ∈ cells, cellTok t = true) :
    (analyse (" ".intercalate cells)).toks = cells ∧ (analyse (" ".intercalate cells)).toksTab = cells ∧
    (analyse (" ".intercalate cells)).hasHash = false ∧ (analyse (" ".intercalate cells)).hasEvent = false ∧
    (analyse (" ".intercalate cells)).hasEventCap = false ∧ (analyse (" ".intercalate cells)).hasOut = false ∧
    (analyse (" ".intercalate cells)).hasEnd = false ∧ (analyse (" ".intercalate cells)).hasSigma = false ∧
    (analyse (" ".intercalate cells)).hasWeight = false ∧ (analyse (" ".intercalate cells)).hasNHadrons = false ∧
    (analyse (" ".intercalate cells)).hasNPartons = false ∧ (analyse (" ".intercalate cells)).hasStart = false := by
  have hA := cellLine_alphabet h
  have hno : ∀ (x : Char), cellLineCh x = false → ∀ t ∈ cells, x ∉ t.toList := by
    intro x hx t ht hm
    have := List.all_eq_true.mp (h t ht) x hm
    simp [cellLineCh, this] at hx
  have htoks : splitCh ' ' (" ".intercalate cells) = cells := by
    apply splitCh_intercalate (by decide) hne
    intro t ht hm
    have := List.all_eq_true.mp (h t ht) ' ' hm
    revert this; decide
  have htab : (" ".intercalate cells).toList.map tabToSp = (" ".intercalate cells).toList := by
    apply tabToSp_map_of_not_mem
    intro hm
    have := hA _ hm
    revert this; decide
  have F : ∀ p : String, p.toList.any (fun c => !cellLineCh c) = true → hasSub (" ".intercalate cells) p = false :=
    fun p hp => hasSub_false_of_alphabet cellLineCh hA hp
  have htoks' := htoks
  unfold splitCh at htoks'
  simp only [analyse, htab]
  exact ⟨htoks, htoks', F "#" (by decide), F "event" (by decide), F "Event" (by decide), F "out" (by decide),
    F "end" (by decide), F "sigmaGen" (by decide), F "weight" (by decide), F "N_hadrons" (by decide),
    F "N_partons" (by decide), F " start" (by decide)⟩

theorem cellLine_no_nl {cells : List String} (h : ∀ t ∈ cells, cellTok t = true) : '\n' ∉ (" ".intercalate cells).toList := by
  intro hm
  have := cellLine_alphabet h _ hm
  revert this; decide

/-! ### the casts of the written columns are the kinds under which the reader converts them -/

theorem formatMap_kinds : ∀ p ∈ formatMap, isFloatSpec p.2 =
    ["t","x","y","z","mass","E","px","py","pz","form_time","xsecfac","t_last_coll","weight"].contains p.1 := by decide

theorem lookup_mem {α β : Type} [BEq α] [LawfulBEq α] {l : List (α × β)} {a : α} {b : β} (h : l.lookup a = some b) :
    (a, b) ∈ l := by
  induction l with
  | nil => simp at h
  | cons p ps ih =>
    obtain ⟨a', b'⟩ := p
    simp only [List.lookup_cons] at h
    by_cases e : a == a'
    · simp only [e] at h
      have : a = a' := by simpa using e
      subst this
      simp only [Option.some.injEq] at h; subst h; simp
    · simp only [e] at h
      exact List.mem_cons_of_mem _ (ih h)

theorem kinds_ascii (attrs : List String) (custom : List Spec) (hc : oscarCustom .ascii attrs = .ok custom) :
    colKinds .ascii attrs attrs.length = custom.map isFloatSpec ∧ custom.length = attrs.length := by
  simp only [oscarCustom, beq_self_eq_true, ↓reduceIte] at hc
  induction attrs generalizing custom with
  | nil => simp [pure, Except.pure] at hc; subst hc; simp [colKinds]
  | cons a attrs ih =>
    cases hl : formatMap.lookup a with
    | none =>
      simp only [List.mapM_cons, hl, bind, Except.bind, throw, throwThe, MonadExceptOf.throw] at hc
      cases hc
    | some s =>
      simp only [List.mapM_cons, hl, bind, Except.bind] at hc
      generalize hrest : List.mapM (m := Except WErr) _ attrs = res at hc
      cases res with
      | error e => simp [pure, Except.pure] at hc
      | ok cs =>
        simp only [pure, Except.pure, Except.ok.injEq] at hc
        subst hc
        obtain ⟨h1, h2⟩ := ih cs hrest
        have hk := formatMap_kinds (a, s) (lookup_mem hl)
        refine ⟨?_, by simp [h2]⟩
        simp only [colKinds, List.map_cons] at h1 ⊢
        rw [h1, hk]

/-- the reader's conversion kinds of a row = the casts of the writer's conversions, for every format in scope -/
theorem kinds_match (fmt : Fmt) (attrs : List String) (custom : List Spec) (n : Nat)
    (hfmt : fmt = .oscar2013 ∨ fmt = .extended ∨ fmt = .ascii) (hcustom : oscarCustom fmt attrs = .ok custom)
    (hlen : (specsOf fmt custom n).length = n) (hcols : colsOk fmt n = true) :
    colKinds fmt attrs n = (specsOf fmt custom n).map isFloatSpec := by
  rcases hfmt with rfl | rfl | rfl
  · simp only [colKinds, specsOf]; decide
  · simp only [colsOk, Bool.and_eq_true, decide_eq_true_eq] at hcols
    obtain ⟨h1, h2⟩ := hcols
    have : n = 20 ∨ n = 21 ∨ n = 22 := by omega
    rcases this with rfl | rfl | rfl <;> simp only [colKinds, specsOf] <;> decide
  · obtain ⟨h1, h2⟩ := kinds_ascii attrs custom hcustom
    simp only [specsOf] at hlen ⊢
    have hn : n = attrs.length := by omega
    subst hn
    exact h1

theorem jetKinds_match : jetKinds = fmtJetscape.map isFloatSpec := by decide

/-! ### end lines: the event's own footer with its new number -/

/-- the line is a SMASH footer `# event L end 0 impact<pad>b scattering_projectile_target yes|no` (decidable; what the files
of the C01 grammar contain) -/
def footerShapeB (f : String) : Bool :=
  let ps := (splitCh ' ' f).filter (fun t => t != "")
  match ps[2]?, ps[6]? with
  | some l, some b =>
    (match pyInt? l with
     | some li => numTok b &&
        [" ", "  ", "   "].any (fun pad => ["yes", "no"].any (fun tail => f == footerText li pad b tail))
     | none => false)
  | _, _ => false

theorem footerShapeB_sound {f : String} (h : footerShapeB f = true) :
    ∃ l pad b tail, pad ∈ [" ", "  ", "   "] ∧ tail ∈ ["yes", "no"] ∧ numTok b = true ∧ f = footerText l pad b tail := by
  unfold footerShapeB at h
  simp only at h
  split at h
  · rename_i l b _ _
    split at h
    · rename_i li _
      simp only [Bool.and_eq_true, List.any_eq_true, beq_iff_eq] at h
      obtain ⟨hb, pad, hpad, tail, htail, hf⟩ := h
      exact ⟨li, pad, b, tail, hpad, htail, hb, hf⟩
    · cases h
  · cases h

/-- `_event_footer`: replacing the number of a SMASH footer -/
theorem substLabel_footer (i l : Int) {pad b tail : String} (hpad : pad ∈ [" ", "  ", "   "]) (htail : tail ∈ ["yes", "no"])
    (hb : numTok b = true) : substLabel 2 i (footerText l pad b tail) = footerText i pad b tail := by
  have hsp := footer_toks_split l hpad htail hb "" (Or.inl rfl)
  rw [String.append_empty, String.append_empty] at hsp
  have hlen : (footerToks l pad.length b tail).length > 2 := by simp [footerToks]
  have hset : (footerToks l pad.length b tail).set 2 (toString i) = footerToks i pad.length b tail := by
    simp [footerToks]
  unfold substLabel
  simp only [hsp, hlen, if_true, hset]
  have := footerText_eq_intercalate i (b := b) (tail := tail) hpad ""
  rw [String.append_empty, String.append_empty] at this
  exact this.symm

/-! ### every line the Oscar writer emits is observed as what it is meant to be -/

theorem obsOut_outLine (i m : Nat) : obsOut (analyse (outLine (i : Int) (m : Int))) (i : Int) (m : Int) = true := by
  have e : outLine (i : Int) (m : Int) = outLineText ⟨(i : Int), List.replicate m [], "", ""⟩ := by
    apply String.toList_injective
    simp [outLine, renderPieces, oscarOutHeader, outLineText, String.join, toString_string, String.toList_append]
    exact Nat.toList_repr
  rw [e, analyse_out_line]
  simp [obsOut, intTok, pyInt?_int_repr, pyInt?_nat_repr]

theorem outLine_no_nl (i m : Nat) : '\n' ∉ (outLine (i : Int) (m : Int)).toList := by
  have e : outLine (i : Int) (m : Int) = outLineText ⟨(i : Int), List.replicate m [], "", ""⟩ := by
    apply String.toList_injective
    simp [outLine, renderPieces, oscarOutHeader, outLineText, String.join, toString_string, String.toList_append]
    exact Nat.toList_repr
  rw [e]
  intro hm
  have := outLine_alphabet _ _ hm
  revert this; decide

theorem obsEnd_footer (i : Int) {pad b tail : String} (hpad : pad ∈ [" ", "  ", "   "]) (htail : tail ∈ ["yes", "no"])
    (hb : numTok b = true) : obsEnd (analyse (footerText i pad b tail)) i = true := by
  obtain ⟨_, h1, h2, h3, _, h5, _, h7, h8, h9, _⟩ := footer_flags i hpad htail hb
  have htk := footer_toks i hpad htail hb
  simp only [obsEnd, h1, h2, h3, h5, h7, h8, h9, htk]
  simp [footerToks, intTok, pyInt?_int_repr]

theorem obsPart_cells (c : Codec V) (hc : FmtContract c) (fmt : Fmt) (attrs : List String) (custom : List Spec) (n : Nat)
    (hfmt : fmt = .oscar2013 ∨ fmt = .extended ∨ fmt = .ascii) (hcustom : oscarCustom fmt attrs = .ok custom)
    (hlen : (specsOf fmt custom n).length = n) (hcols : colsOk fmt n = true) (hn : 0 < n)
    (row : List V) (hrow : row.length = n) :
    obsPart fmt attrs (analyse (" ".intercalate (cellsOf c (specsOf fmt custom n) row))) (cellsOf c (specsOf fmt custom n) row)
      = true := by
  obtain ⟨hcells, hfields⟩ := cells_ok c hc (specsOf fmt custom n) row
  have hl : (cellsOf c (specsOf fmt custom n) row).length = n := by simp [cellsOf, hlen, hrow]
  have hne : cellsOf c (specsOf fmt custom n) row ≠ [] := by
    intro h; rw [h] at hl; simp at hl; omega
  obtain ⟨a1, _, a3, a4, _⟩ := analyse_cell_line hne hcells
  rw [← kinds_match fmt attrs custom n hfmt hcustom hlen hcols] at hfields
  simp only [obsPart, a1, a3, a4, hl, hcols, hfields]
  simp

/-- side conditions on the three header lines the writer copies from the input (decidable): the header scan ignores them, they
contain no newline, and the format sniffing recognises the object's format on the first one -/
def headerOk (fmt : Fmt) (attrs : List String) (h0 h1 h2 : String) : Bool :=
  obsScanSkip (analyse h0) && obsScanSkip (analyse h1) && obsScanSkip (analyse h2) &&
  !hasSub h0 "\n" && !hasSub h1 "\n" && !hasSub h2 "\n" &&
  (match oscarFormat (analyse h0) with | .ok (f, a) => f == fmt && a == attrs | .error _ => false)

theorem tlinesOf_all (P : TLine → Prop) (c : Codec V) (vals : R → List V) (specs : List Spec) (foot : Nat → String) :
    ∀ (evs : List (List R)) (i : Nat),
    (∀ k ev, evs[k]? = some ev →
      P ⟨.out ((i + k : Nat) : Int) (ev.length : Int), outLine ((i + k : Nat) : Int) (ev.length : Int)⟩ ∧
      (∀ r ∈ ev, P ⟨.part (cellsOf c specs (vals r)), " ".intercalate (cellsOf c specs (vals r))⟩) ∧
      P ⟨.endl ((i + k : Nat) : Int), foot (i + k)⟩) →
    ∀ t ∈ tlinesOf i (oscarBlocksOf c vals specs foot i evs), P t
  | [], _, _, t, ht => by simp [oscarBlocksOf, tlinesOf] at ht
  | ev :: evs, i, h, t, ht => by
    simp only [oscarBlocksOf, tlinesOf, List.mem_append] at ht
    rcases ht with ht | ht
    · obtain ⟨h1, h2, h3⟩ := h 0 ev rfl
      simp only [EvBlock.tlines, List.mem_cons, List.mem_append, List.mem_map, List.length_map, List.not_mem_nil,
        or_false] at ht
      rcases ht with rfl | ⟨p, ⟨r, hr, rfl⟩, rfl⟩ | rfl
      · simpa using h1
      · exact h2 r hr
      · simpa using h3
    · refine tlinesOf_all P c vals specs foot evs (i + 1) ?_ t ht
      intro k ev' hk
      have := h (k + 1) ev' (by simpa using hk)
      have e : i + (k + 1) = i + 1 + k := by omega
      rw [e] at this
      exact this

theorem footOf_shape (o : OscarObj R) (hol : o.origin.length = o.events.length) (hlt : ∀ j ∈ o.origin, j < o.endLines.length)
    (hfoot : ∀ f ∈ o.endLines, footerShapeB f = true) (i : Nat) (hi : i < o.events.length) :
    ∃ pad b tail, pad ∈ [" ", "  ", "   "] ∧ tail ∈ ["yes", "no"] ∧ numTok b = true ∧ footOf o i = footerText (i : Int) pad b tail := by
  have hio : i < o.origin.length := by omega
  have h1 : o.origin.getD i 0 = o.origin[i] := by simp [List.getD_eq_getElem?_getD, List.getElem?_eq_getElem hio]
  have h2 : o.origin[i] < o.endLines.length := hlt _ (List.getElem_mem hio)
  have h3 : o.endLines.getD (o.origin.getD i 0) "" = o.endLines[o.origin[i]] := by
    rw [h1]; simp [List.getD_eq_getElem?_getD, List.getElem?_eq_getElem h2]
  obtain ⟨l, pad, b, tail, hpad, htail, hb, hf⟩ := footerShapeB_sound (hfoot _ (List.getElem_mem h2))
  refine ⟨pad, b, tail, hpad, htail, hb, ?_⟩
  rw [footOf, h3, hf, substLabel_footer (i : Int) l hpad htail hb]

/-- **classification of the written Oscar file**: under the formatting contract and the side conditions on the copied lines,
every line the writer emits is observed (by the real `analyse`) as what it is meant to be; re-numbering an end line that
already carries its number changes nothing; no line contains a newline -/
theorem obsOK_oscar (c : Codec V) (hc : FmtContract c) (vals : R → List V) (custom : List Spec) (n : Nat) (o : OscarObj R)
    (wf : OscarWF vals custom n o) (h0 h1 h2 : String) (hh : o.header = [h0, h1, h2])
    (hhdr : headerOk o.fmt o.attrs h0 h1 h2 = true) (hfoot : ∀ f ∈ o.endLines, footerShapeB f = true)
    (hn : 0 < n) (hcols : colsOk o.fmt n = true) :
    ObsOK analyse o.fmt o.attrs false (oscarSpecLines c vals custom n o) ∧
    oscarFormat (analyse h0) = .ok (o.fmt, o.attrs) ∧
    (∀ i, i < o.events.length → substLabel 2 i (footOf o i) = footOf o i) ∧
    (∀ t ∈ oscarSpecLines c vals custom n o, '\n' ∉ t.text.toList) := by
  simp only [headerOk, Bool.and_eq_true, Bool.not_eq_true'] at hhdr
  obtain ⟨⟨⟨⟨⟨⟨s0, s1⟩, s2⟩, n0⟩, n1⟩, n2⟩, hf⟩ := hhdr
  have hfmt : oscarFormat (analyse h0) = .ok (o.fmt, o.attrs) := by
    cases hof : oscarFormat (analyse h0) with
    | error e => simp [hof] at hf
    | ok p =>
      obtain ⟨f, a⟩ := p
      simp only [hof, Bool.and_eq_true, beq_iff_eq] at hf
      rw [hf.1, hf.2]
  have hshape := footOf_shape o wf.origin_len wf.origin_lt hfoot
  -- one predicate for all lines
  have key : ∀ t ∈ oscarSpecLines c vals custom n o,
      (obsKind o.fmt o.attrs false t.kind (analyse t.text) = true ∧ (analyse t.text).raw = t.text) ∧
        '\n' ∉ t.text.toList := by
    intro t ht
    simp only [oscarSpecLines, List.mem_append] at ht
    rcases ht with ht | ht
    · simp only [hdrLines, hh, List.map_cons, List.map_nil, List.mem_cons, List.not_mem_nil, or_false] at ht
      rcases ht with rfl | rfl | rfl
      · exact ⟨⟨s0, rfl⟩, not_mem_of_hasSub_false rfl n0⟩
      · exact ⟨⟨s1, rfl⟩, not_mem_of_hasSub_false rfl n1⟩
      · exact ⟨⟨s2, rfl⟩, not_mem_of_hasSub_false rfl n2⟩
    · refine tlinesOf_all (fun t => (obsKind o.fmt o.attrs false t.kind (analyse t.text) = true ∧
        (analyse t.text).raw = t.text) ∧ '\n' ∉ t.text.toList) c vals _ (footOf o) o.events 0 ?_ t ht
      intro k ev hk
      have hkl : k < o.events.length := by
        rcases Nat.lt_or_ge k o.events.length with h | h
        · exact h
        · rw [List.getElem?_eq_none h] at hk; cases hk
      have hev : ev ∈ o.events := List.mem_of_getElem? hk
      simp only [Nat.zero_add]
      refine ⟨⟨⟨obsOut_outLine k ev.length, rfl⟩, outLine_no_nl k ev.length⟩, ?_, ?_⟩
      · intro r hr
        have hrow := wf.cols ev hev r hr
        refine ⟨⟨obsPart_cells c hc o.fmt o.attrs custom n wf.fmt wf.custom_ok wf.specs_len hcols hn _ hrow, rfl⟩, ?_⟩
        exact cellLine_no_nl (cells_ok c hc _ _).1
      · obtain ⟨pad, b, tail, hpad, htail, hb, hfo⟩ := hshape k hkl
        simp only [hfo]
        refine ⟨⟨obsEnd_footer (k : Int) hpad htail hb, rfl⟩, ?_⟩
        intro hm
        have := footer_alphabet (k : Int) hpad htail hb _ hm
        revert this; decide
  refine ⟨fun t ht => (key t ht).1, hfmt, ?_, fun t ht => (key t ht).2⟩
  intro i hi
  obtain ⟨pad, b, tail, hpad, htail, hb, hfo⟩ := hshape i hi
  rw [hfo, substLabel_footer (i : Int) (i : Int) hpad htail hb]

/-- the last line of a written Oscar file (an end line) is not empty -/
theorem oscarSpecLines_last_ne (c : Codec V) (hc : FmtContract c) (vals : R → List V) (custom : List Spec) (n : Nat)
    (o : OscarObj R) (wf : OscarWF vals custom n o) (hfoot : ∀ f ∈ o.endLines, footerShapeB f = true) (hn : 0 < n)
    (hne : oscarSpecLines c vals custom n o ≠ []) : ((oscarSpecLines c vals custom n o).getLast hne).text ≠ "" := by
  have hshape := footOf_shape o wf.origin_len wf.origin_lt hfoot
  have hall : ∀ t ∈ tlinesOf 0 (oscarBlocksOf c vals (specsOf o.fmt custom n) (footOf o) 0 o.events), t.text ≠ "" := by
    refine tlinesOf_all (fun t => t.text ≠ "") c vals _ (footOf o) o.events 0 ?_
    intro k ev hk
    have hkl : k < o.events.length := by
      rcases Nat.lt_or_ge k o.events.length with h | h
      · exact h
      · rw [List.getElem?_eq_none h] at hk; cases hk
    have hev : ev ∈ o.events := List.mem_of_getElem? hk
    have hash_ne : ∀ s : String, hasSub s "#" = true → s ≠ "" := by
      intro s h e; rw [e] at h; revert h; decide
    simp only [Nat.zero_add]
    refine ⟨?_, ?_, ?_⟩
    · have := obsOut_outLine k ev.length
      simp only [obsOut, Bool.and_eq_true] at this
      exact hash_ne _ this.1.1.1.1.1.1
    · intro r hr
      have hrow := wf.cols ev hev r hr
      have hl := wf.specs_len
      -- the first cell converts, hence is not empty
      cases hsp : specsOf o.fmt custom n with
      | nil => rw [hsp] at hl; simp at hl; omega
      | cons s ss =>
        cases hv : vals r with
        | nil => rw [hv] at hrow; simp at hrow; omega
        | cons v vs =>
          have hc2 := (hc s v).2
          have hne0 : c.fmt s v ≠ "" := by
            intro e; rw [e] at hc2
            cases hcs : castOf s <;> simp only [hcs] at hc2 <;> (revert hc2; decide)
          intro e
          have hE := congrArg String.toList e
          simp only [cellsOf, List.zipWith_cons_cons, String.toList_intercalate] at hE
          have hm : ∀ x ∈ (c.fmt s v).toList, x ∈ ([] : List Char) := by
            intro x hx
            have : x ∈ " ".toList.intercalate ((c.fmt s v :: List.zipWith c.fmt ss vs).map String.toList) := by
              cases hz : List.zipWith c.fmt ss vs with
              | nil => simp [List.intercalate, hx]
              | cons u us => simp [List.intercalate, List.intersperse, hx]
            rw [hE] at this
            simp at this
          cases hcl : (c.fmt s v).toList with
          | nil => exact hne0 (String.toList_eq_nil_iff.mp hcl)
          | cons x xs => have := hm x (by simp [hcl]); simp at this
    · obtain ⟨pad, b, tail, hpad, htail, hb, hfo⟩ := hshape k hkl
      have := obsEnd_footer (k : Int) hpad htail hb
      simp only [obsEnd, Bool.and_eq_true] at this
      rw [hfo]
      exact hash_ne _ this.1.1.1.1.1.1
  have hbne : tlinesOf 0 (oscarBlocksOf c vals (specsOf o.fmt custom n) (footOf o) 0 o.events) ≠ [] := by
    cases hev : o.events with
    | nil => exact absurd hev wf.nonempty
    | cons ev evs => simp [oscarBlocksOf, tlinesOf, EvBlock.tlines]
  have : (oscarSpecLines c vals custom n o).getLast hne ∈
      tlinesOf 0 (oscarBlocksOf c vals (specsOf o.fmt custom n) (footOf o) 0 o.events) := by
    simp only [oscarSpecLines]
    rw [List.getLast_append_right hbne]
    exact List.getLast_mem hbne
  exact hall _ this

/-! ### JETSCAPE -/

theorem jetHeader_eq (partons : Bool) (i m : Nat) :
    jetHeader (i : Int) (m : Int) (if partons then "N_partons" else "N_hadrons") = jetHeaderText partons "\t" (i : Int) m := by
  apply String.toList_injective
  cases partons <;>
  simp [jetHeader, renderPieces, jetscapeHeader, jetHeaderText, jetKey, String.join, toString_string, String.toList_append,
    String.toList_intercalate, List.intercalate, List.intersperse] <;> exact Nat.toList_repr

theorem obsJEvent_header (partons : Bool) (i m : Nat) :
    obsJEvent partons (analyse (jetHeader (i : Int) (m : Int) (if partons then "N_partons" else "N_hadrons"))) (i : Int) (m : Int)
      = true := by
  rw [jetHeader_eq]
  obtain ⟨h1, h2, h3, h4, h5, h6, h7⟩ := jet_header_line partons (sep := "\t") (by simp) (i : Int) m
  have hk : defFlag partons (analyse (jetHeaderText partons "\t" (i : Int) m)) = true := by
    cases partons <;> simp [defFlag, h6, h7]
  simp only [obsJEvent, h1, h2, h3, h4, h5, hk]
  simp [jetHdrToks, intTok, pyInt?_int_repr, pyInt?_nat_repr]

theorem jetHeader_no_nl (partons : Bool) (i m : Nat) :
    '\n' ∉ (jetHeader (i : Int) (m : Int) (if partons then "N_partons" else "N_hadrons")).toList := by
  rw [jetHeader_eq]
  intro hm
  have := jetHeader_alphabet partons (sep := "\t") (by simp) (i : Int) m _ hm
  revert this; cases partons <;> decide

theorem obsJPart_cells (c : Codec V) (hc : FmtContract c) (row : List V) (hrow : row.length = 7) :
    obsJPart (analyse (" ".intercalate (cellsOf c fmtJetscape row))) (cellsOf c fmtJetscape row) = true := by
  obtain ⟨hcells, hfields⟩ := cells_ok c hc fmtJetscape row
  have hl : (cellsOf c fmtJetscape row).length = 7 := by simp [cellsOf, fmtJetscape, hrow]
  have hne : cellsOf c fmtJetscape row ≠ [] := by
    intro h; rw [h] at hl; simp at hl
  obtain ⟨_, a2, a3, _, a5, _⟩ := analyse_cell_line hne hcells
  rw [← jetKinds_match] at hfields
  simp only [obsJPart, a2, a3, a5, hl, hfields]
  simp

/-- side conditions on the two lines the JETSCAPE writer copies from the input (decidable) -/
def jetCopiedOk (partons : Bool) (headerLine lastLine : String) : Bool :=
  obsJHeader partons (analyse headerLine) && obsJTrailer partons (analyse lastLine) &&
  !hasSub headerLine "\n" && !hasSub lastLine "\n"

theorem jtlinesOf_all (P : TLine → Prop) (c : Codec V) (vals : R → List V) (defStr : String) :
    ∀ (evs : List (List R)) (i : Nat),
    (∀ k ev, evs[k]? = some ev →
      P ⟨.jevt ((i + k + 1 : Nat) : Int) (ev.length : Int), jetHeader ((i + k + 1 : Nat) : Int) (ev.length : Int) defStr⟩ ∧
      (∀ r ∈ ev, P ⟨.jpart (cellsOf c fmtJetscape (vals r)), " ".intercalate (cellsOf c fmtJetscape (vals r))⟩)) →
    ∀ t ∈ jtlinesOf (i + 1) (jetBlocksOf c vals defStr i evs), P t
  | [], _, _, t, ht => by simp [jetBlocksOf, jtlinesOf] at ht
  | ev :: evs, i, h, t, ht => by
    simp only [jetBlocksOf, jtlinesOf, List.mem_append] at ht
    rcases ht with ht | ht
    · obtain ⟨h1, h2⟩ := h 0 ev rfl
      simp only [JBlock.tlines, List.mem_cons, List.mem_map, List.length_map] at ht
      rcases ht with rfl | ⟨p, ⟨r, hr, rfl⟩, rfl⟩
      · simpa using h1
      · exact h2 r hr
    · refine jtlinesOf_all P c vals defStr evs (i + 1) ?_ t ht
      intro k ev' hk
      have := h (k + 1) ev' (by simpa using hk)
      have e : i + (k + 1) + 1 = i + 1 + k + 1 := by omega
      rw [e] at this
      exact this

/-- **classification of the written JETSCAPE file** -/
theorem obsOK_jet (c : Codec V) (hc : FmtContract c) (vals : R → List V) (j : JetObj R) (wf : JetWF vals j) (partons : Bool)
    (hdef : j.defStr = if partons then "N_partons" else "N_hadrons")
    (hcop : jetCopiedOk partons j.headerLine j.lastLine = true) :
    ObsOK analyse .oscar2013 [] partons (jetSpecLines c vals j) ∧
    (∀ t ∈ jetSpecLines c vals j, '\n' ∉ t.text.toList) ∧ j.lastLine ≠ "" := by
  simp only [jetCopiedOk, Bool.and_eq_true, Bool.not_eq_true'] at hcop
  obtain ⟨⟨⟨s0, s1⟩, n0⟩, n1⟩ := hcop
  have key : ∀ t ∈ jetSpecLines c vals j,
      (obsKind .oscar2013 [] partons t.kind (analyse t.text) = true ∧ (analyse t.text).raw = t.text) ∧
        '\n' ∉ t.text.toList := by
    intro t ht
    simp only [jetSpecLines, List.mem_cons, List.mem_append, List.not_mem_nil, or_false] at ht
    rcases ht with rfl | ht | rfl
    · exact ⟨⟨s0, rfl⟩, not_mem_of_hasSub_false rfl n0⟩
    · refine jtlinesOf_all (fun t => (obsKind .oscar2013 [] partons t.kind (analyse t.text) = true ∧
        (analyse t.text).raw = t.text) ∧ '\n' ∉ t.text.toList) c vals j.defStr j.events 0 ?_ t ht
      intro k ev hk
      have hev : ev ∈ j.events := List.mem_of_getElem? hk
      simp only [Nat.zero_add, hdef]
      refine ⟨⟨⟨obsJEvent_header partons (k + 1) ev.length, rfl⟩, jetHeader_no_nl partons (k + 1) ev.length⟩, ?_⟩
      intro r hr
      have hrow : (vals r).length = 7 := by have := wf.cols ev hev r hr; simpa [fmtJetscape] using this
      exact ⟨⟨obsJPart_cells c hc _ hrow, rfl⟩, cellLine_no_nl (cells_ok c hc _ _).1⟩
    · exact ⟨⟨s1, rfl⟩, not_mem_of_hasSub_false rfl n1⟩
  refine ⟨fun t ht => (key t ht).1, fun t ht => (key t ht).2, ?_⟩
  intro h
  rw [h] at s1
  revert s1; cases partons <;> decide

/-! ### the side conditions hold for the files of the C01 grammar -/

theorem footerShapeB_footerText (l : Int) {pad b tail : String} (hpad : pad ∈ [" ", "  ", "   "]) (htail : tail ∈ ["yes", "no"])
    (hb : numTok b = true) : footerShapeB (footerText l pad b tail) = true := by
  have hsp := footer_toks_split l hpad htail hb "" (Or.inl rfl)
  rw [String.append_empty, String.append_empty] at hsp
  have hLne : (l.repr != "") = true := ne_empty_of_toList_ne_nil (intRepr_ne_nil l)
  have hBne := ne_empty_of_toList_ne_nil (numTok_ne_nil hb)
  have hTne : (tail != "") = true := by
    simp only [List.mem_cons, List.not_mem_nil, or_false] at htail
    rcases htail with rfl | rfl <;> decide
  have hfil : (footerToks l pad.length b tail).filter (fun t => t != "") =
      ["#", "event", toString l, "end", "0", "impact", b, "scattering_projectile_target", tail] := by
    have h0 : ∀ k, (List.replicate k "").filter (fun t => t != "") = [] := by
      intro k; simp [List.filter_eq_nil_iff]
    simp only [footerToks, List.filter_append, h0, List.nil_append]
    simp [List.filter, hLne, hBne, hTne]
  unfold footerShapeB
  simp only [hsp, hfil]
  simp only [List.getElem?_cons_succ, List.getElem?_cons_zero, pyInt?_toString_int, hb, Bool.true_and, List.any_eq_true,
    beq_iff_eq]
  exact ⟨pad, hpad, tail, htail, rfl⟩

/-- an `Oscar` object loaded from a file of the C01 grammar satisfies the side conditions of `C06_oscar_text` -/
theorem grammar_copied_ok (F : OscarSpec) (hg : grammarOscar F = true) (hwf : wfOscar F) :
    headerOk F.fmt (attrsOf F) (" ".intercalate (headToks F)) F.h2 F.h3 = true ∧
    ∀ f ∈ F.events.map (·.footer), footerShapeB f = true := by
  obtain ⟨hc, h2, h3, n2, n3, _, hev⟩ := grammarOscar_unpack hg
  obtain ⟨_, _, hfmt⟩ := hwf
  have hh := head_line F hc
  have hfm := oscarFormat_head hh hfmt
  simp only [isHeadLine, Bool.and_eq_true] at hh
  have nl0 := headLine_no_nl F hc
  have toSub : ∀ s : String, '\n' ∉ s.toList → hasSub s "\n" = false := by
    intro s h
    cases hs : hasSub s "\n" with
    | false => rfl
    | true => exact absurd (mem_of_isInfix hs (c := '\n') (by decide)) h
  constructor
  · simp only [headerOk, obsScanSkip, hfm, Bool.and_eq_true, Bool.not_eq_true', beq_self_eq_true, and_true]
    simp only [notScanned, Bool.and_eq_true, Bool.not_eq_true'] at h2 h3
    have h1 := hh.2
    simp only [notScanned, Bool.and_eq_true, Bool.not_eq_true'] at h1
    exact ⟨⟨⟨⟨⟨h1, h2⟩, h3⟩, toSub _ nl0⟩, toSub _ n2⟩, toSub _ n3⟩
  · intro f hf
    obtain ⟨e, he, rfl⟩ := List.mem_map.mp hf
    obtain ⟨pad, tail, hpad, htail, hfoot⟩ := (hev e he).shape
    rw [hfoot]
    exact footerShapeB_footerText e.label hpad htail (hev e he).impactTok

theorem grammar_copied_ok_jet (F : JetSpec) (hg : grammarJet F = true) :
    jetCopiedOk F.partons F.h1 F.trailer = true := by
  obtain ⟨hk, n1, s1, f1, s2, f2, ⟨sep, hsep, htr⟩, hev⟩ := grammarJet_unpack hg
  have hj := jet_head_obs F hg
  obtain ⟨t1, t2, t3, t4, _, _, _⟩ := jet_trailer_line hsep s1 s2 f1 f2
  rw [← htr] at t1 t2 t3 t4
  have toSub : ∀ s : String, '\n' ∉ s.toList → hasSub s "\n" = false := by
    intro s h
    cases hs : hasSub s "\n" with
    | false => rfl
    | true => exact absurd (mem_of_isInfix hs (c := '\n') (by decide)) h
  have ntr : '\n' ∉ F.trailer.toList := by
    rw [htr]; intro hm
    have := jetTrailer_alphabet hsep s1 s2 _ hm
    revert this; decide
  simp only [jetCopiedOk, Bool.and_eq_true, Bool.not_eq_true']
  refine ⟨⟨⟨?_, ?_⟩, toSub _ n1⟩, toSub _ ntr⟩
  · simpa [obsJHeader, defFlag, isJHead, hasKey] using hj
  · cases hp : F.partons <;> simp [obsJTrailer, defFlag, t1, t2, t3, t4]

/-! ### the contract is satisfiable: the integer codec -/

theorem toLower_digit {c : Char} (h : c.isDigit = true) : c.toLower = c := by
  have h1 := Char.isDigit_iff_toNat.mp h
  unfold Char.toLower
  split
  · rename_i hh
    have : 65 ≤ c.toNat := by
      have := hh.1
      simp only [ge_iff_le, UInt32.le_iff_toNat_le] at this
      exact this
    simp at h1; omega
  · rfl

/-- `float()` accepts a string of decimal digits -/
theorem isPyFloatL_digits {ds : List Char} (hne : ds ≠ []) (h : ∀ c ∈ ds, c.isDigit = true) : isPyFloatL ds = true := by
  have hlow : ds.map Char.toLower = ds := by
    conv => rhs; rw [← List.map_id ds]
    apply List.map_congr_left
    intro c hc; exact toLower_digit (h c hc)
  obtain ⟨d, rest, rfl⟩ := List.exists_cons_of_ne_nil hne
  have hd := h d (by simp)
  have hsign : dropSign (d :: rest) = d :: rest := by
    have h1 : d ≠ '+' := by rintro rfl; simp at hd
    have h2 : d ≠ '-' := by rintro rfl; simp at hd
    simp [dropSign, h1, h2]
  have hnot : ∀ x : Char, x.isDigit = false → x ∉ d :: rest := by
    intro x hx hm; rw [h x hm] at hx; cases hx
  have hword : ∀ w : List Char, w.head?.map Char.isDigit = some false → ((d :: rest) == w) = false := by
    intro w hw
    cases w with
    | nil => simp
    | cons x xs =>
      simp only [List.head?_cons, Option.map_some, Option.some.injEq] at hw
      have : d ≠ x := by rintro rfl; rw [hd] at hw; cases hw
      simp [this]
  unfold isPyFloatL
  simp only [trimWs_digits h, hlow, hsign, hword ['i', 'n', 'f'] (by decide),
    hword ['i', 'n', 'f', 'i', 'n', 'i', 't', 'y'] (by decide), hword ['n', 'a', 'n'] (by decide), Bool.or_self,
    Bool.false_eq_true, if_false, splitOnChar_of_not_mem (hnot 'e' (by decide)), splitOnChar_of_not_mem (hnot '.' (by decide))]
  simp [allDigits, List.all_eq_true]
  exact ⟨hd, fun x hx => h x (List.mem_cons_of_mem _ hx)⟩

theorem isPyFloatL_neg_digits {ds : List Char} (hne : ds ≠ []) (h : ∀ c ∈ ds, c.isDigit = true) :
    isPyFloatL ('-' :: ds) = true := by
  have hlow : ds.map Char.toLower = ds := by
    conv => rhs; rw [← List.map_id ds]
    apply List.map_congr_left
    intro c hc; exact toLower_digit (h c hc)
  have ht : trimWs ('-' :: ds) = '-' :: ds :=
    trimWs_eq '-' (ds.getLast hne) rfl (by rw [List.getLast?_cons_of_ne_nil hne]; exact List.getLast?_eq_some_getLast hne)
      (by decide) (isDigit_not_ws (h _ (List.getLast_mem hne)))
  have := isPyFloatL_digits hne h
  unfold isPyFloatL at this ⊢
  rw [trimWs_digits h, hlow] at this
  have hs0 : dropSign ds = ds := by
    obtain ⟨d, rest, rfl⟩ := List.exists_cons_of_ne_nil hne
    have hd := h d (by simp)
    have h1 : d ≠ '+' := by rintro rfl; simp at hd
    have h2 : d ≠ '-' := by rintro rfl; simp at hd
    simp [dropSign, h1, h2]
  rw [hs0] at this
  rw [ht]
  simp only [List.map_cons, hlow, show Char.toLower '-' = '-' by decide, dropSign, show ('-' = '+' || '-' = '-') = true by decide,
    if_true]
  exact this

/-- `float(str(i))` succeeds for every integer -/
theorem isPyFloat_toString_int (i : Int) : isPyFloat (toString i) = true := by
  unfold isPyFloat
  rw [intRepr_toList]
  cases i with
  | ofNat m => exact isPyFloatL_digits Nat.toDigits_ne_nil (digits_toDigits m)
  | negSucc m => exact isPyFloatL_neg_digits Nat.toDigits_ne_nil (digits_toDigits _)

/-- a codec whose values are integers, printed by Lean's decimal printer and read back by `int()` -/
def intCodec : Codec Int := { parse := fun _ t => (pyInt? t).getD 0, fmt := fun _ v => toString v }

/-- the formatting contract holds for it (so the `…_text` theorems are not vacuous), and so does `Hidem` -/
theorem intCodec_contract : FmtContract intCodec ∧ Hidem intCodec := by
  constructor
  · intro s v
    refine ⟨(fmtContract_int v).1, ?_⟩
    cases hs : castOf s
    · exact isPyFloat_toString_int v
    · exact (fmtContract_int v).2
  · intro s v
    simp [intCodec, pyInt?_int_repr]

end SparkxVerif.Wr
