import SparkxVerif.Drv.C09
import SparkxVerif.Gen.HistCore

/-! driver ops that run the definitions REGENERATED from src/sparkx/Histogram.py (Gen/HistCore.lean) at `Float`
(tie C on top of tie T); everything else is handed to `Drv.C09.handle`.

`ghist <edges> <op>|<op>|...`  ->  `ok <obs>|<obs>|...`: the object built by the generated `initEdges`, driven by the
generated `genStep`; one observation per op as in `hist`, with the generated geometry getters and three more fields:
`<ok|err:kind>~nBins~nHist~edges~hist~raw~err~scal~sys~binCenters~binWidth~binBoundsLeft~binBoundsRight~binBoundaries`
`ginit <lo> <hi> <n>`  ->  `ok ok~nBins~nHist~edges~hist~raw~err~scal~sys` | `ok err:kind` (generated `initTuple`)
-/
namespace SparkxVerif.Drv.C09Gen
open SparkxVerif.Proto SparkxVerif.Hist SparkxVerif.Gen
open SparkxVerif.Drv.C09 (Cmd cmd? showArr)

def showStateG (s : State Float) (e : Option Err) : String :=
  let tag := match e with | none => "ok" | some k => "err:" ++ k.tag
  "~".intercalate [tag, toString s.nBins, toString s.nHist, showFloats s.edges, showArr s.hist, showArr s.raw,
    showArr s.err, showArr s.scal, showArr s.sys, showFloats (HistCore.binCenters s), showFloats (HistCore.binWidth s),
    showFloats (HistCore.binBoundsLeft s), showFloats (HistCore.binBoundsRight s), showFloats (HistCore.binBoundaries s)]

def runCmdsG (s : State Float) : List Cmd → List String → Option (List String)
  | [], acc => some acc.reverse
  | .op o :: r, acc =>
    let (s', e) := HistCore.genStep Float.sqrt s o
    runCmdsG s' r (showStateG s' e :: acc)
  | .wr _ _ :: _, _ => none

def handle : List String → String
  | ["ghist", edges, ops] =>
    match floatList? edges, (if ops.isEmpty then some [] else (ops.splitOn "|").mapM cmd?) with
    | some es, some cs =>
      match HistCore.initEdges es with
      | .error k => "ok err:" ++ k.tag
      | .ok s0 =>
        match runCmdsG s0 cs [] with
        | some obs => "ok " ++ "|".intercalate obs
        | none => "bad-op"
    | _, _ => "bad-op"
  | ["ginit", lo, hi, n] =>
    match floatOfHex? lo, floatOfHex? hi, n.toInt? with
    | some lo, some hi, some n =>
      match HistCore.initTuple lo hi n with
      | .error k => "ok err:" ++ k.tag
      | .ok s => "ok " ++ "~".intercalate ["ok", toString s.nBins, toString s.nHist, showFloats s.edges, showArr s.hist,
          showArr s.raw, showArr s.err, showArr s.scal, showArr s.sys]
    | _, _, _ => "bad-op"
  | l => SparkxVerif.Drv.C09.handle l

end SparkxVerif.Drv.C09Gen
