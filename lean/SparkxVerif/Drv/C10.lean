import SparkxVerif.Drv.C09
import SparkxVerif.Core.HistSession

/-! driver for C10.

`sess <edges> <call>|<call>|...`  ->  `ok <obs>|<obs>|...` : a session on one object (`Core/HistSession.lean`,
`trace`).  Calls are the ops of the C09 driver, `wr,…` and the accessors `g,<c|w|l|r|b|h|k|e|n>`
(bin_centers, bin_width, bin_bounds_left, bin_bounds_right, bin_boundaries, histogram, histogram_raw_counts,
standard_error, number_of_histograms).  One observation per call: for an op the state as in the C09 driver;
for an output `<out>^<state>` with `<out>` = `w~…` (file) | `v~<floats>` | `m~<array>` | `n~<nat>` and `<state>`
the (unchanged) state after it.
Everything else (`hist`, `lin`) is answered by the C09 driver.
-/
namespace SparkxVerif.Drv.C10
open SparkxVerif.Proto SparkxVerif.Hist

def getter? : String → Option Getter
  | "c" => some .centers | "w" => some .widths | "l" => some .left | "r" => some .right
  | "b" => some .boundaries | "h" => some .histogram | "k" => some .rawCounts | "e" => some .stdError
  | "n" => some .nHist | _ => none

def call? (s : String) : Option (Call Float) :=
  match s.splitOn "," with
  | ["g", g] => (getter? g).map .get
  | _ =>
    match SparkxVerif.Drv.C09.cmd? s with
    | some (.op o) => some (.op o)
    | some (.wr cols labels) => some (.write cols labels)
    | none => none

def showOut (s : State Float) : Out Float → String
  | .done e => SparkxVerif.Drv.C09.showState s e
  | .file r => SparkxVerif.Drv.C09.showWrite r ++ "^" ++ SparkxVerif.Drv.C09.showState s none
  | .vec xs => "v~" ++ showFloats xs ++ "^" ++ SparkxVerif.Drv.C09.showState s none
  | .mat a => "m~" ++ SparkxVerif.Drv.C09.showArr a ++ "^" ++ SparkxVerif.Drv.C09.showState s none
  | .num n => "n~" ++ toString n ++ "^" ++ SparkxVerif.Drv.C09.showState s none

def handle : List String → String
  | ["sess", edges, calls] =>
    match floatList? edges, (if calls.isEmpty then some [] else (calls.splitOn "|").mapM call?) with
    | some es, some cs =>
      "ok " ++ "|".intercalate ((trace Float.sqrt (init es) cs).map (fun p => showOut p.1 p.2))
    | _, _ => "bad-op"
  | l => SparkxVerif.Drv.C09.handle l

end SparkxVerif.Drv.C10
