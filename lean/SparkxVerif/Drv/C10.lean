import SparkxVerif.Drv.C09

/-! C10 uses the same Histogram driver as C09 (histories with every operation and `wr` observations). -/
namespace SparkxVerif.Drv.C10
def handle : List String → String := SparkxVerif.Drv.C09.handle
end SparkxVerif.Drv.C10
