/-
C02 driver.

  read  <kind> <sel> <filters> <views> <filehex>        the shared reader answer (`Rd.Proto.handleRead`)
  obs   <kind> <sel> <filters> <views> <sizes> <filehex>
        model side  : `read` answer, then `pl=` (`particleList` on it, with the `zeroEventsGuard` flag the
                      translator reads off `BaseStorer.particle_list`: Gen/ParticleList.lean), `imp=` (`impactLines`, as positions in the
                      footer list), `wf=` (`checkOscar` / `checkJetscape` on the observations of the real bytes with
                      the event sizes `n0,n1,…` known to the generator)
        spec side   : ` ## ` then the same fields for `sliceLoaded sel (read all)` followed by `ctorFilter`
                      when filters are given (the right-hand sides of `select_eq_slice` / `select_filter`)
  slice <sel> <n>                                        `sliceList [0,…,n-1] sel`
  pyint <tok>                                            `pyInt? tok`
  guard                                                  the generated `zeroEventsGuard`
  gobs  <kind> <sel> <filters> <views> <filehex>         tie C on top of tie T: the reader driven by the selection arithmetic
                                                         GENERATED from the current loaders (`Gen/ReaderSelGen.lean`:
                                                         `genReadOscar` / `genReadJetscape`), shown like the model side of
                                                         `obs`; without filters `imp=` is the generated selection
                                                         `genImpactPick footers (loadedIndices genEventIndexOscar num_events)`
  garith <kind> <sel> <rows>                             the generated `_get_num_skip_lines` / `__get_num_read_lines` on the
                                                         count rows `label.n,label.n,…` (compared with the real private
                                                         methods called on a loader object holding these rows)
-/
import SparkxVerif.Core.ReaderProto
import SparkxVerif.Core.ReaderSel
import SparkxVerif.Gen.ParticleList
import SparkxVerif.Gen.ReaderSelGen

namespace SparkxVerif.Drv.C02
open SparkxVerif.Proto SparkxVerif.Rd SparkxVerif.Rd.Proto SparkxVerif.RdSel

def showPL : Except Rd.Err PLOut → String
  | .ok (.single ps) => "single:" ++ (if ps.isEmpty then "." else ",".intercalate (ps.map (fun p => toString p.lineNo)))
  | .ok (.multi evs) => "multi:" ++ showEvents evs
  | .error e => (showErr e).replace " " "-"

def showImp (L : Loaded) : String :=
  match impactLines L with
  | .ok ls => "[" ++ ",".intercalate (ls.map (fun l => match L.footers.findIdx? (· == l) with
      | some i => toString i | none => "?")) ++ "]"
  | .error e => (showErr e).replace " " "-"

/-- `oscar = false`: JETSCAPE objects have no impact parameters -/
def showObs (oscar : Bool) (r : Except Rd.Err Loaded) : String :=
  match r with
  | .ok L => s!"{showLoaded L} pl={showPL (particleList SparkxVerif.Gen.ParticleList.zeroEventsGuard L.numEvents L.counts L.events)} imp={if oscar then showImp L else "[]"}"
  | .error e => showErr e

def sizes? (s : String) : Option (List Nat) :=
  if s == "-" then some [] else (s.splitOn ",").mapM String.toNat?

def handleObs : List String → String
  | [kind, sel, filt, views, sizes, file] =>
    match sel? sel, filters? filt, views? views, sizes? sizes, unhex? file with
    | some sel, some filt, some views, some ns, some text =>
      let f := fileOfText text
      let ef := filt.map (evFilter views)
      let rd : Option (Sel → Option EvFilter → Except Rd.Err Loaded) :=
        if kind == "oscar" then some (fun s d => readOscar f s d)
        else if kind == "jetscape" then some (fun s d => readJetscape f s false d)
        else if kind == "jetscapeP" then some (fun s d => readJetscape f s true d)
        else none
      match rd with
      | none => "bad-op"
      | some rd =>
        let wf := if kind == "oscar" then checkOscar f ns else checkJetscape f (kind == "jetscapeP") ns
        let model := rd sel ef
        -- spec side: validate the selector like the loaders do, load everything, slice, then constructor filters
        let spec : Except Rd.Err Loaded :=
          match validSel sel with
          | .error e => .error e
          | .ok () =>
            match rd .all none with
            | .error e => .error e
            | .ok L =>
              if sel.validFor L.events.length then
                let S := sliceLoaded sel L
                match ef with
                | none => .ok S
                | some d => ctorFilter d S
              else .error .index
        s!"{showObs (kind == "oscar") model} wf={if wf then 1 else 0} ## {showObs (kind == "oscar") spec}"
    | _, _, _, _, _ => "bad-op"
  | _ => "bad-op"

def handleSlice : List String → String
  | [sel, n] =>
    match sel? sel, n.toNat? with
    | some sel, some n =>
      match sliceList (List.range n) sel with
      | .ok xs => "ok " ++ (if xs.isEmpty then "." else ",".intercalate (xs.map toString))
      | .error e => showErr e
    | _, _ => "bad-op"
  | _ => "bad-op"

/-- positions in the footer list -/
def showPicked (footers : List String) (r : Except Rd.Err (List String)) : String :=
  match r with
  | .ok ls => "[" ++ ",".intercalate (ls.map (fun l => match footers.findIdx? (· == l) with
      | some i => toString i | none => "?")) ++ "]"
  | .error e => (showErr e).replace " " "-"

def handleGObs : List String → String
  | [kind, sel, filt, views, file] =>
    match sel? sel, filters? filt, views? views, unhex? file with
    | some sel, some filt, some views, some text =>
      let f := fileOfText text
      let ef := filt.map (evFilter views)
      if kind == "oscar" then
        match SparkxVerif.Gen.ReaderSelGen.genReadOscar f sel ef with
        | .error e => showErr e
        | .ok L =>
          let imp :=
            match ef with
            | some _ => showImp L
            | none =>
              -- `loaded_event_indices_` of a load that removes no event, from the generated start value
              match oscarScan f.lines, oscarNumEvents f with
              | .ok (rows, _), .ok ne =>
                (match SparkxVerif.Gen.ReaderSelGen.genEventIndexOscar rows ne sel with
                 | .ok e0 => showPicked L.footers
                     (SparkxVerif.Gen.ReaderSelGen.genImpactPick L.footers (loadedIndices e0 L.numEvents.toNat))
                 | .error e => (showErr e).replace " " "-")
              | _, _ => "?"
          s!"{showLoaded L} pl={showPL (particleList SparkxVerif.Gen.ParticleList.zeroEventsGuard L.numEvents L.counts L.events)} imp={imp}"
      else if kind == "jetscape" || kind == "jetscapeP" then
        showObs false (SparkxVerif.Gen.ReaderSelGen.genReadJetscape f sel (kind == "jetscapeP") ef)
      else "bad-op"
    | _, _, _, _ => "bad-op"
  | _ => "bad-op"

def rows? (s : String) : Option (List (Int × Int)) :=
  if s == "-" then some [] else
  (s.splitOn ",").mapM (fun t => match t.splitOn "." with
    | [a, b] => (match a.toInt?, b.toInt? with | some x, some y => some (x, y) | _, _ => none)
    | _ => none)

def showInt : Except Rd.Err Int → String
  | .ok n => toString n
  | .error e => (showErr e).replace " " "-"

def handleGArith : List String → String
  | [kind, sel, rows] =>
    match sel? sel, rows? rows with
    | some sel, some rows =>
      if kind == "oscar" then
        s!"ok skip={showInt (SparkxVerif.Gen.ReaderSelGen.genSkipOscar rows sel)} nread={showInt (SparkxVerif.Gen.ReaderSelGen.genNreadOscar rows sel)}"
      else if kind == "jetscape" then
        s!"ok skip={showInt (SparkxVerif.Gen.ReaderSelGen.genSkipJetscape rows sel)} nread={showInt (SparkxVerif.Gen.ReaderSelGen.genNreadJetscape rows sel)}"
      else "bad-op"
    | _, _ => "bad-op"
  | _ => "bad-op"

def handle : List String → String
  | "gobs" :: rest => handleGObs rest
  | "garith" :: rest => handleGArith rest
  | "read" :: rest => handleRead rest
  | "obs" :: rest => handleObs rest
  | "slice" :: rest => handleSlice rest
  | ["pyint", t] => match pyInt? t with | some v => s!"ok {v}" | none => "err value"
  | ["guard"] => s!"ok {SparkxVerif.Gen.ParticleList.zeroEventsGuard}"
  | _ => "bad-op"

end SparkxVerif.Drv.C02
