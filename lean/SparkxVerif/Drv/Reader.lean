import SparkxVerif.Core.ReaderProto
namespace SparkxVerif.Drv.Reader
def handle : List String → String
  | "read" :: rest => SparkxVerif.Rd.Proto.handleRead rest
  | _ => "bad-op"
end SparkxVerif.Drv.Reader
