import SparkxVerif.Core.Proto
import SparkxVerif.Core.Smear
import SparkxVerif.Gen.Smear

/-! driver ops for C16 (floats as 16-hex-digit bit patterns):
  `lin <lo> <hi> <n>`                                  -> `ok <linspace values>`
  `closest <lo,hi,n> <x>`                              -> `ok <index>`       (find_closest_indices, one axis)
  `smear <ax>|<ax>|<ax> <add 0|1> <grid | z> <parts>`  -> `ok <tags> <cell volume> <flat grid>` | `err value`
      ax   = `lo,hi,n`
      grid = flat C-order content before the call (`z` = all zero)
      parts = `.` or `p|p|…`, p = `x,y,z,v,numx,numy,numz,s;s;…` (`-` = NaN kernel value)
      tags = one letter per particle: `i` support inside, `c` clipped by the edge
  `gsmear <ax>|<ax>|<ax> <nsx,nsy,nsz> <sigma> <quantity> <kernel> <add 0|1> <grid | z> <parts>`
                                                       -> `ok <flat grid>` | `err value|type|index`
      the function GENERATED from the current source (`Gen/Smear.lean`: `addParticleData` on the object built by the
      generated `init` / `initAttrs`), run at Float with `lin` = the model's linspace, `isnan` = IEEE, `pyround` =
      Python's round-half-even; parts = `.` or `p|p|…`, p = `x,y,z,E,charge,baryon,strangeness,px,py,pz,k;k;…`
      (`-` = NaN, for the momenta and the recorded pdf values)
-/
namespace SparkxVerif.Drv.C16
open SparkxVerif.Proto SparkxVerif.Smear


def axis? (s : String) : Option (Axis Float) :=
  match s.splitOn "," with
  | [lo, hi, n] => do
      let lo ← floatOfHex? lo
      let hi ← floatOfHex? hi
      let n ← n.toNat?
      pure ⟨lo, hi, n⟩
  | _ => none

def lattice? (s : String) : Option (Lattice Float) :=
  match s.splitOn "|" with
  | [a, b, c] => do
      let a ← axis? a
      let b ← axis? b
      let c ← axis? c
      pure ⟨a, b, c⟩
  | _ => none

def kval? (s : String) : Option (Option Float) :=
  if s == "-" then some none else (floatOfHex? s).map some

def part? (s : String) : Option (Part Float) :=
  match s.splitOn "," with
  | [x, y, z, v, nx, ny, nz, ks] => do
      let x ← floatOfHex? x
      let y ← floatOfHex? y
      let z ← floatOfHex? z
      let v ← floatOfHex? v
      let nx ← nx.toNat?
      let ny ← ny.toNat?
      let nz ← nz.toNat?
      let ks ← (splitList ks).mapM kval?
      pure ⟨x, y, z, v, nx, ny, nz, ks⟩
  | _ => none

def parts? (s : String) : Option (List (Part Float)) :=
  if s == "." then some [] else (s.splitOn "|").mapM part?

/-- Python `round(x)` of a double: nearest integer, ties to even -/
def pyRound (x : Float) : Int :=
  let f := x.floor
  let d := x - f
  let fi : Int := f.toInt64.toInt
  if d < 0.5 then fi else if d > 0.5 then fi + 1 else if fi % 2 == 0 then fi else fi + 1

def nanF : Float := 0.0 / 0.0

def fnan? (s : String) : Option Float := if s == "-" then some nanF else floatOfHex? s

def gpart? (s : String) : Option (Gen.Smear.Ptl Float) :=
  match s.splitOn "," with
  | [x, y, z, e, ch, b, st, px, py, pz, ks] => do
      let x ← fnan? x
      let y ← fnan? y
      let z ← fnan? z
      let e ← fnan? e
      let ch ← fnan? ch
      let b ← fnan? b
      let st ← fnan? st
      let px ← fnan? px
      let py ← fnan? py
      let pz ← fnan? pz
      let ks ← (splitList ks).mapM fnan?
      pure ⟨x, y, z, e, ch, b, st, px, py, pz, ks⟩
  | _ => none

def gparts? (s : String) : Option (List (Gen.Smear.Ptl Float)) :=
  if s == "." then some [] else (s.splitOn "|").mapM gpart?

def gsmear (L : Lattice Float) (ns : List Float) (sigma : Float) (q k : String) (add : Bool) (g : List Float)
    (ps : List (Gen.Smear.Ptl Float)) : String :=
  match ns with
  | [a, b, c] =>
    let obj : SparkxVerif.Lattice.Lat Float Float :=
      { Gen.Smear.init linspace L.X.lo L.X.hi L.Y.lo L.Y.hi L.Z.lo L.Z.hi L.X.n L.Y.n L.Z.n with grid := g }
    match Gen.Smear.initAttrs linspace L.X.lo L.X.hi L.Y.lo L.Y.hi L.Z.lo L.Z.hi L.X.n L.Y.n L.Z.n (some a) (some b) (some c) with
    | .error e => s!"err {e.toString}"
    | .ok A =>
      match Gen.Smear.addParticleData linspace Float.isNaN pyRound obj A ps sigma q k add with
      | .ok r => s!"ok {showFloats r.grid}"
      | .error e => s!"err {e.toString}"
  | _ => "bad-op"

def handle : List String → String
  | ["lin", lo, hi, n] =>
    match floatOfHex? lo, floatOfHex? hi, n.toNat? with
    | some lo, some hi, some n => s!"ok {showFloats (linspace lo hi n)}"
    | _, _, _ => "bad-op"
  | ["closest", ax, x] =>
    match axis? ax, floatOfHex? x with
    | some A, some x => s!"ok {closest A.values x}"
    | _, _ => "bad-op"
  | ["smear", lat, add, grid, ps] =>
    match lattice? lat, parts? ps with
    | some L, some ps =>
      let g? : Option (List Float) :=
        if grid == "z" then some (List.replicate L.size 0.0) else floatList? grid
      match g?, add with
      | some g, "0" | some g, "1" =>
        if g.length ≠ L.size then "bad-op" else
        let tags := String.ofList (ps.map (fun p => if supportInside L p then 'i' else 'c'))
        match addParticleData L g ps (add == "1") with
        | some g' => s!"ok {if tags.isEmpty then "." else tags} {floatToHex L.cellVolume} {showFloats g'}"
        | none => "err value"
      | _, _ => "bad-op"
    | _, _ => "bad-op"
  | ["gsmear", lat, ns, sigma, q, k, add, grid, ps] =>
    match lattice? lat, floatList? (ns.replace "," ";"), floatOfHex? sigma, gparts? ps with
    | some L, some ns, some sigma, some ps =>
      let g? : Option (List Float) :=
        if grid == "z" then some (List.replicate L.size 0.0) else floatList? grid
      match g?, add with
      | some g, "0" | some g, "1" =>
        if g.length ≠ L.size then "bad-op" else gsmear L ns sigma q k (add == "1") g ps
      | _, _ => "bad-op"
    | _, _, _, _ => "bad-op"
  | _ => "bad-op"

end SparkxVerif.Drv.C16
