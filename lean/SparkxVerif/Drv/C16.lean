import SparkxVerif.Core.Proto
import SparkxVerif.Core.Smear

/-! driver ops for C16 (floats as 16-hex-digit bit patterns):
  `lin <lo> <hi> <n>`                                  -> `ok <linspace values>`
  `closest <lo,hi,n> <x>`                              -> `ok <index>`       (find_closest_indices, one axis)
  `smear <ax>|<ax>|<ax> <add 0|1> <grid | z> <parts>`  -> `ok <tags> <cell volume> <flat grid>` | `err value`
      ax   = `lo,hi,n`
      grid = flat C-order content before the call (`z` = all zero)
      parts = `.` or `p|p|…`, p = `x,y,z,v,numx,numy,numz,s;s;…` (`-` = NaN kernel value)
      tags = one letter per particle: `i` support inside, `c` clipped by the edge
-/
namespace SparkxVerif.Drv.C16
open SparkxVerif.Proto SparkxVerif.Smear


def axis? (s : String) : Option (Axis Float) :=
  match s.splitOn "," with
  | [lo, hi, n] => do
      let lo ← floatOfHex? lo
      let hi ← floatOfHex? hi
      let n ← n.toNat?
      pure ⟨lo, hi, n⟩
  | _ => none

def lattice? (s : String) : Option (Lattice Float) :=
  match s.splitOn "|" with
  | [a, b, c] => do
      let a ← axis? a
      let b ← axis? b
      let c ← axis? c
      pure ⟨a, b, c⟩
  | _ => none

def kval? (s : String) : Option (Option Float) :=
  if s == "-" then some none else (floatOfHex? s).map some

def part? (s : String) : Option (Part Float) :=
  match s.splitOn "," with
  | [x, y, z, v, nx, ny, nz, ks] => do
      let x ← floatOfHex? x
      let y ← floatOfHex? y
      let z ← floatOfHex? z
      let v ← floatOfHex? v
      let nx ← nx.toNat?
      let ny ← ny.toNat?
      let nz ← nz.toNat?
      let ks ← (splitList ks).mapM kval?
      pure ⟨x, y, z, v, nx, ny, nz, ks⟩
  | _ => none

def parts? (s : String) : Option (List (Part Float)) :=
  if s == "." then some [] else (s.splitOn "|").mapM part?

def handle : List String → String
  | ["lin", lo, hi, n] =>
    match floatOfHex? lo, floatOfHex? hi, n.toNat? with
    | some lo, some hi, some n => s!"ok {showFloats (linspace lo hi n)}"
    | _, _, _ => "bad-op"
  | ["closest", ax, x] =>
    match axis? ax, floatOfHex? x with
    | some A, some x => s!"ok {closest A.values x}"
    | _, _ => "bad-op"
  | ["smear", lat, add, grid, ps] =>
    match lattice? lat, parts? ps with
    | some L, some ps =>
      let g? : Option (List Float) :=
        if grid == "z" then some (List.replicate L.size 0.0) else floatList? grid
      match g?, add with
      | some g, "0" | some g, "1" =>
        if g.length ≠ L.size then "bad-op" else
        let tags := String.ofList (ps.map (fun p => if supportInside L p then 'i' else 'c'))
        match addParticleData L g ps (add == "1") with
        | some g' => s!"ok {if tags.isEmpty then "." else tags} {floatToHex L.cellVolume} {showFloats g'}"
        | none => "err value"
      | _, _ => "bad-op"
    | _, _ => "bad-op"
  | _ => "bad-op"

end SparkxVerif.Drv.C16
