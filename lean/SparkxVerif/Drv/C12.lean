import SparkxVerif.Core.Proto
import SparkxVerif.Core.Flow
import SparkxVerif.Gen.FlowSelectors
import SparkxVerif.Gen.FlowCore

/-! driver ops for C12 (floats as 16-hex-digit bit patterns)

  particle = `ure,uim,pt,y,eta,w`  (`w` = `-` when the weight is unset);  event = particles joined by `;`
  (`.` = empty event);  sample = events joined by `|` (`!` = no events)

  `rp   <sample>`                                              -> `ok <re> <im>` | `err value`
  `rpd  <sel> <edges> <sample>`                                -> `ok re,im;…`   | `err value`
  `sp   <n> <weight> <gap> <self 0|1> <flow> <ref>`            -> `ok <vn> <sigma> <resolution>`
  `spd  <n> <weight> <gap> <self> <sel> <edges> <flow> <ref>`  -> `ok vn,sigma;…`
  `eprn <n> <weight> <gap> <ref>`                              -> `ok <Rn>`
  `ep   <n> <weight> <gap> <self> <res> <flow> <ref>`          -> `ok <vn> <sigma>`   (`res` = value of the
                                                                  resolution correction at `Rn`, from scipy)
  `epd  <n> <weight> <gap> <self> <res> <sel> <edges> <flow> <ref>` -> `ok vn,sigma;…`
  `selok <class> <site> <string>`                              -> `ok <accepted 0|1> <handled 0|1>`
  `dflt <class>`                                               -> `ok func.name=0|1;…`
  an unknown weight / selector answers `err value` (the code raises `ValueError`)
  `grp grpd gsp gspd geprn gep gepd`: the same ops evaluated with the functions GENERATED from the current source
  (`Gen/FlowCore.lean`, tie T) instead of the hand-written model
-/
namespace SparkxVerif.Drv.C12
open SparkxVerif.Proto SparkxVerif.Flow SparkxVerif.FlowSel SparkxVerif.Gen.FlowSelectors

abbrev P := Part Float CF
abbrev E := Ev Float CF

def part? (s : String) : Option P :=
  match s.splitOn "," with
  | [a, b, pt, y, eta, w] => do
      let a ← floatOfHex? a
      let b ← floatOfHex? b
      let pt ← floatOfHex? pt
      let y ← floatOfHex? y
      let eta ← floatOfHex? eta
      let w ← if w == "-" then pure none else (floatOfHex? w).map some
      pure { u := ⟨a, b⟩, pt := pt, y := y, eta := eta, w := w }
  | _ => none

def event? (s : String) : Option (List P) :=
  if s == "." then some [] else (splitList s).mapM part?

def sample? (s : String) : Option (List (List P)) :=
  if s == "!" then some [] else (s.splitOn "|").mapM event?

def evs? (f r : String) : Option (List E) := do
  let f ← sample? f
  let r ← sample? r
  if f.length != r.length then none else
  pure (List.zipWith (fun a b => ({ flow := a, ref := b } : E)) f r)

def bool? (s : String) : Option Bool := if s == "1" then some true else if s == "0" then some false else none

def showPairs (xs : List (Float × Float)) : String :=
  ";".intercalate (xs.map fun x => floatToHex x.1 ++ "," ++ floatToHex x.2)

def O0 : Ops Float CF := floatOps (fun x => x)

def weightSite? (cls : String) : Option Site := weightSites.find? (·.cls == cls)
def selSite? (cls : String) : Option Site := selectorSites.find? (·.cls == cls)

/-- constructor check `weight not in [...]` then the dispatch chain -/
def wq? (cls : String) (n : Nat) (kind : String) : Option (Option (P → Float)) := do
  let s ← weightSite? cls
  pure (if s.accepted.contains kind then some (chainVal s.chain n kind) else none)

/-- the eight estimator functions at `Float`: the hand-written model or the generated definitions -/
structure Impl where
  rpI : Ops Float CF → List (List P) → Option CF
  rpD : Ops Float CF → Site → String → List Float → List (List P) → Option (List CF)
  spR : Ops Float CF → (P → Float) → Float → List E → Float
  spI : Ops Float CF → (P → Float) → Float → Bool → List E → Float × Float
  spD : Ops Float CF → (P → Float) → Float → Bool → Site → String → List Float → List E → Option (List (Float × Float))
  epR : Ops Float CF → (P → Float) → Float → List E → Float
  epI : Ops Float CF → (P → Float) → Float → Bool → List E → Float × Float
  epD : Ops Float CF → (P → Float) → Float → Bool → Site → String → List Float → List E → Option (List (Float × Float))

def coreImpl : Impl :=
  { rpI := rpIntegrated, rpD := rpDifferential, spR := spResolution, spI := spIntegrated, spD := spDifferential,
    epR := epRn, epI := epIntegrated, epD := epDifferential }

def genImpl : Impl :=
  { rpI := Gen.FlowCore.rpIntegrated, rpD := Gen.FlowCore.rpDifferential, spR := Gen.FlowCore.spResolution,
    spI := Gen.FlowCore.spIntegrated, spD := Gen.FlowCore.spDifferential, epR := Gen.FlowCore.epRn,
    epI := Gen.FlowCore.epIntegrated, epD := Gen.FlowCore.epDifferential }

def handleWith (I : Impl) : List String → String
  | ["rp", s] =>
    match sample? s with
    | some evs =>
      match I.rpI O0 evs with
      | some z => s!"ok {floatToHex z.re} {floatToHex z.im}"
      | none => "err value"
    | none => "bad-op"
  | ["rpd", sel, edges, s] =>
    match floatList? edges, sample? s, selSite? "ReactionPlaneFlow" with
    | some ed, some evs, some site =>
      match I.rpD O0 site sel ed evs with
      | some zs => "ok " ++ showPairs (zs.map fun z => (z.re, z.im))
      | none => "err value"
    | _, _, _ => "bad-op"
  | ["sp", n, kind, gap, sc, f, r] =>
    match n.toNat?, floatOfHex? gap, bool? sc, evs? f r with
    | some n, some gap, some sc, some evs =>
      match wq? "ScalarProductFlow" n kind with
      | some (some wq) =>
        let v := I.spI O0 wq gap sc evs
        s!"ok {floatToHex v.1} {floatToHex v.2} {floatToHex (I.spR O0 wq gap evs)}"
      | some none => "err value"
      | none => "bad-op"
    | _, _, _, _ => "bad-op"
  | ["spd", n, kind, gap, sc, sel, edges, f, r] =>
    match n.toNat?, floatOfHex? gap, bool? sc, floatList? edges, evs? f r, selSite? "ScalarProductFlow" with
    | some n, some gap, some sc, some ed, some evs, some site =>
      match wq? "ScalarProductFlow" n kind with
      | some (some wq) =>
        match I.spD O0 wq gap sc site sel ed evs with
        | some vs => "ok " ++ showPairs vs
        | none => "err value"
      | some none => "err value"
      | none => "bad-op"
    | _, _, _, _, _, _ => "bad-op"
  | ["eprn", n, kind, gap, r] =>
    match n.toNat?, floatOfHex? gap, evs? r r with
    | some n, some gap, some evs =>
      match wq? "EventPlaneFlow" n kind with
      | some (some wq) => s!"ok {floatToHex (I.epR O0 wq gap evs)}"
      | some none => "err value"
      | none => "bad-op"
    | _, _, _ => "bad-op"
  | ["ep", n, kind, gap, sc, res, f, r] =>
    match n.toNat?, floatOfHex? gap, bool? sc, floatOfHex? res, evs? f r with
    | some n, some gap, some sc, some res, some evs =>
      match wq? "EventPlaneFlow" n kind with
      | some (some wq) =>
        let v := I.epI (floatOps (fun _ => res)) wq gap sc evs
        s!"ok {floatToHex v.1} {floatToHex v.2}"
      | some none => "err value"
      | none => "bad-op"
    | _, _, _, _, _ => "bad-op"
  | ["epd", n, kind, gap, sc, res, sel, edges, f, r] =>
    match n.toNat?, floatOfHex? gap, bool? sc, floatOfHex? res, floatList? edges, evs? f r,
        selSite? "EventPlaneFlow" with
    | some n, some gap, some sc, some res, some ed, some evs, some site =>
      match wq? "EventPlaneFlow" n kind with
      | some (some wq) =>
        match I.epD (floatOps (fun _ => res)) wq gap sc site sel ed evs with
        | some vs => "ok " ++ showPairs vs
        | none => "err value"
      | some none => "err value"
      | none => "bad-op"
    | _, _, _, _, _, _, _ => "bad-op"
  | _ => "bad-op"

def genOps : List String := ["rp", "rpd", "sp", "spd", "eprn", "ep", "epd"]

def handle : List String → String
  | ["selok", cls, what, s] =>
    match (selectorSites ++ weightSites).find? (fun x => x.cls == cls && x.what == what), unhex? s with
    | some site, some str =>
      s!"ok {if site.accepted.contains str then 1 else 0} {if site.handled str then 1 else 0}"
    | _, _ => "bad-op"
  | ["dflt", cls] =>
    match allParams.lookup cls with
    | some ps => "ok " ++ ";".intercalate (ps.map fun p =>
        p.func ++ "." ++ p.name ++ "=" ++ (if p.defaultOk then "1" else "0"))
    | none => "bad-op"
  | op :: rest =>
    if genOps.contains op then handleWith coreImpl (op :: rest)
    else match genOps.find? (fun o => "g" ++ o == op) with
      | some o => handleWith genImpl (o :: rest)
      | none => "bad-op"
  | _ => "bad-op"

end SparkxVerif.Drv.C12
