import SparkxVerif.Core.ReaderProto
import SparkxVerif.Core.Render
import SparkxVerif.Core.Columns
import SparkxVerif.Core.Kinematics
import SparkxVerif.Gen.ReaderLoop
import SparkxVerif.Gen.ReaderScan
import SparkxVerif.Gen.ReaderSelGen

/-! driver ops for C01 (fields TAB-separated; answers `ok` + TAB-separated `key=value` fields)

  read   <kind> <sel> <filters> <views> <filehex>             shared reader op (`Rd.Proto.handleRead`)
  file   oscar|jetscape|jetscapeP <filehex>                    read + impact parameters + sigmaGen + particle_list shape
  ospec  <fmt> <cols> <h2hex> <h3hex> <nl> <events>            events `|`-joined, event = `label:footerhex:impact:rows`,
                                                               rows `;`-joined, tokens `,`-joined
  jspec  <partons> <h1hex> <trailerhex> <s1,s2> <nl> <events>  event = `label:headerhex:rows`
         -> text rendered by the grammar, wf / obs (classification of the real bytes) / thm (the theorem's equation
            evaluated), the reader's result and the abstract result
  particle <format> <attrs> <toks>                             slots written and every getter
  charge <valid> <q3|n>                                        derived JETSCAPE charge and the documented value
  mass   <pdg|-> <E> <px> <py> <pz>                            derived JETSCAPE mass (floats as bit patterns)
  fmtchain <tokens ,-joined hex>                               format sniffing: generated chain vs `oscarFormat`
  gread  <kind> <sel> <filters> <views> <filehex>             tie C on top of tie T: the same file read by the readers assembled
                                                               from GENERATED parts only (`Gen/ReaderLoop.lean`: line loop body,
                                                               start state, final check, `set_num_events`; `Gen/ReaderScan.lean`:
                                                               first-pass scanners; `Gen/ReaderSelGen.lean`:
                                                               selection arithmetic); answer like `read` plus `tl=` (no line
                                                               follows a JETSCAPE trailer line: the hypothesis of
                                                               `genReadJetscapeAll_eq`) and `same=` (equal to the hand-written
                                                               reader's answer)
  The `ospec` / `jspec` answers carry `gread=` (the generated reader on the rendered text) as well.
-/
namespace SparkxVerif.Drv.C01
open SparkxVerif.Proto SparkxVerif.Rd SparkxVerif.Rd.Proto SparkxVerif.Cols

def b01 (b : Bool) : String := if b then "1" else "0"

def splitL (s : String) (sep : String) : List String := if s.isEmpty then [] else s.splitOn sep

def showPList : Except Rd.Err PList → String
  | .ok (.flat rows) => "F:" ++ ",".intercalate (rows.map (fun p => toString p.lineNo))
  | .ok (.nested evs) => "N:" ++ showEvents evs
  | .error e => showErr e

def showToks : Except Rd.Err (List String) → String
  | .ok ts => "ok:" ++ ",".intercalate ts
  | .error e => showErr e

def showSigma : Except Rd.Err (String × String) → String
  | .ok (a, b) => s!"ok:{a},{b}"
  | .error e => showErr e

def showRead : Except Rd.Err Loaded → String
  | .ok l => showLoaded l
  | .error e => showErr e

def fmt? : String → Option Fmt
  | "oscar2013" => some .oscar2013 | "extended" => some .extended | "ascii" => some .ascii | _ => none

def rows? (s : String) : List (List String) := (splitL s ";").map (fun r => r.splitOn ",")

def oevent? (s : String) : Option OEvent :=
  match s.splitOn ":" with
  | [lab, foot, imp, rows] => do
    pure { label := ← lab.toInt?, parts := rows? rows, footer := ← unhex? foot, impact := imp }
  | _ => none

def jevent? (s : String) : Option JEvent :=
  match s.splitOn ":" with
  | [lab, hdr, rows] => do pure { label := ← lab.toInt?, parts := rows? rows, header := ← unhex? hdr }
  | _ => none

/-- `OscarLoader.load` / `JetscapeLoader.load` from generated parts only (`C01.GenLoop.genReadOscarFull`,
`genReadJetscapeFull`: scanner, `set_num_events`, selection arithmetic, line loop, final check) -/
def gReadOscar (f : FileF) (sel : Sel) (filt : Option EvFilter) : Except Rd.Err Loaded :=
  RdLoop.readOscarPartsS Gen.ReaderScan.genOscarScan Gen.ReaderSelGen.genOscar Gen.ReaderLoop.genOscarParts f sel filt

def gReadJetscape (f : FileF) (sel : Sel) (partons : Bool) (filt : Option EvFilter) : Except Rd.Err Loaded :=
  RdLoop.readJetscapePartsS Gen.ReaderScan.genJetscapeScan Gen.ReaderSelGen.genJetscape Gen.ReaderLoop.genJetscapeParts
    f sel partons filt

def handleGRead : List String → String
  | [kind, sel, filt, views, file] =>
    match sel? sel, filters? filt, views? views, unhex? file with
    | some sel, some filt, some views, some text =>
      let f := fileOfText text
      let ef := filt.map (evFilter views)
      let r := if kind == "oscar" then some (gReadOscar f sel ef, readOscar f sel ef)
               else if kind == "jetscape" then some (gReadJetscape f sel false ef, readJetscape f sel false ef)
               else if kind == "jetscapeP" then some (gReadJetscape f sel true ef, readJetscape f sel true ef)
               else none
      match r with
      | some (g, m) =>
        let sg := match g with | .ok l => showLoaded l | .error e => showErr e
        let sm := match m with | .ok l => showLoaded l | .error e => showErr e
        sg ++ " tl=" ++ b01 (RdLoop.trailerLastB f.lines) ++ " same=" ++ b01 (sg == sm)
      | none => "bad-op"
    | _, _, _, _ => "bad-op"
  | _ => "bad-op"

def loadedEq (a b : Loaded) : Bool :=
  a.events == b.events && a.numEvents == b.numEvents && a.counts == b.counts && a.fmt == b.fmt &&
  a.customAttrs == b.customAttrs && a.footers == b.footers

def readEq (r : Except Rd.Err Loaded) (l : Loaded) : Bool :=
  match r with | .ok x => loadedEq x l | .error _ => false

def handleOspec : List String → String
  | [fmt, cols, h2, h3, nl, evs] =>
    match fmt? fmt, unhex? h2, unhex? h3, (splitL evs "|").mapM oevent? with
    | some fmt, some h2, some h3, some evs =>
      let F : OscarSpec := { fmt := fmt, cols := splitL cols ",", h2 := h2, h3 := h3, events := evs, trailingNL := nl == "1" }
      let text := oscarText F
      let f := fileOfText text
      let r := readOscar f .all none
      let a := abstractOscar F
      let imp := match r with | .ok l => impactParams f l | .error e => .error e
      let impOk := match imp with | .ok ts => ts == F.events.map (·.impact) | .error _ => false
      let pl := match r with | .ok l => particleList l | .error e => .error e
      "\t".intercalate ["ok", "text=" ++ hexOfString text, "wf=" ++ b01 (wfOscarB F), "gram=" ++ b01 (grammarOscar F), "obs=" ++ b01 (obsOscar f F),
        "thm=" ++ b01 (readEq r a && impOk), "read=" ++ showRead r, "abs=" ++ showLoaded a, "imp=" ++ showToks imp,
        "pl=" ++ showPList pl, "gread=" ++ showRead (gReadOscar f .all none)]
    | _, _, _, _ => "bad-op"
  | _ => "bad-op"

def handleJspec : List String → String
  | [partons, h1, trailer, sigma, nl, evs] =>
    match unhex? h1, unhex? trailer, sigma.splitOn ",", (splitL evs "|").mapM jevent? with
    | some h1, some trailer, [s1, s2], some evs =>
      let F : JetSpec := { partons := partons == "1", h1 := h1, events := evs, trailer := trailer, sigma := (s1, s2),
                           trailingNL := nl == "1" }
      let text := jetText F
      let f := fileOfText text
      let r := readJetscape f .all F.partons none
      let a := abstractJet F
      let sg := sigmaGen f
      let sgOk := match sg with | .ok s => s == F.sigma | .error _ => false
      let pl := match r with | .ok l => particleList l | .error e => .error e
      "\t".intercalate ["ok", "text=" ++ hexOfString text, "wf=" ++ b01 (wfJetB F), "gram=" ++ b01 (grammarJet F), "obs=" ++ b01 (obsJet f F),
        "thm=" ++ b01 (readEq r a && sgOk), "read=" ++ showRead r, "abs=" ++ showLoaded a, "sig=" ++ showSigma sg,
        "pl=" ++ showPList pl, "gread=" ++ showRead (gReadJetscape f .all F.partons none),
        "tl=" ++ b01 (RdLoop.trailerLastB f.lines)]
    | _, _, _, _ => "bad-op"
  | _ => "bad-op"

def handleFile : List String → String
  | [kind, file] =>
    match unhex? file with
    | some text =>
      let f := fileOfText text
      if kind == "oscar" then
        let r := readOscar f .all none
        let imp := match r with | .ok l => impactParams f l | .error e => .error e
        let pl := match r with | .ok l => particleList l | .error e => .error e
        "\t".intercalate ["ok", "read=" ++ showRead r, "imp=" ++ showToks imp, "pl=" ++ showPList pl]
      else if kind == "jetscape" || kind == "jetscapeP" then
        let r := readJetscape f .all (kind == "jetscapeP") none
        let pl := match r with | .ok l => particleList l | .error e => .error e
        "\t".intercalate ["ok", "read=" ++ showRead r, "sig=" ++ showSigma (sigmaGen f), "pl=" ++ showPList pl]
      else "bad-op"
    | none => "bad-op"
  | _ => "bad-op"

def showCell : Cell → String
  | .unset => "n" | .flt t => "f" ++ t | .int t => "i" ++ t

def showGet : GetVal → String
  | .nan => "n" | .float t => "f" ++ t | .int t => "i" ++ t | .floatOfInt t => "fi" ++ t | .intOfFloat t => "if" ++ t
  | .bool c => "b" ++ showCell c

def handleParticle : List String → String
  | [fmt, attrs, toks] =>
    let attrs := splitL attrs ","
    let toks := splitL toks ","
    match writes fmt attrs toks.length with
    | none => "err"
    | some ws =>
      let data := cellOf ws toks
      let slots := (List.range 25).map (fun s => showCell (data s))
      let gets := Gen.Tables.getters.map (fun g => g.1 ++ "=" ++ (match getAttr g.1 data with | some v => showGet v | none => "?"))
      "\t".intercalate ["ok", "data=" ++ ";".intercalate slots, "get=" ++ ";".intercalate gets]
  | _ => "bad-op"

def handleCharge : List String → String
  | [valid, q3] =>
    match (if q3 == "n" then some none else q3.toInt?.map some) with
    | none => "bad-op"
    | some q =>
      let r := match jetCharge (valid == "1") q with
        | none => "raise" | some none => "nan" | some (some c) => toString c
      let d := match q with | some v => toString (docCharge v) | none => "-"
      s!"ok\tcharge={r}\tdoc={d}"
  | _ => "bad-op"

def handleMass : List String → String
  | [pdg, e, px, py, pz] =>
    match [e, px, py, pz].mapM floatOfHex?, (if pdg == "-" then some none else pdg.toInt?.map some) with
    | some [e, px, py, pz], some pdg =>
      let nan : Float := 0.0 / 0.0
      let a : Kin.Attrs Float := { t := nan, x := nan, y := nan, z := nan, E := e, px := px, py := py, pz := pz, pdg := pdg }
      match Kin.run .mass_from_energy_momentum a with
      | .val v => "ok\tmass=" ++ floatToHex v ++ "\tmassless=" ++ b01 (Kin.pdgIn pdg Gen.Tables.massless)
      | _ => "err"
    | _, _ => "bad-op"
  | _ => "bad-op"

def fmtName : Except Rd.Err (Fmt × List String) → String
  | .ok (f, _) => showFmt (some f)
  | .error _ => "-"

def handleFmtChain : List String → String
  | [toks] =>
    match (splitL toks ",").mapM unhex? with
    | some ts =>
      let l : LineF := { analyse (" ".intercalate ts) with toks := ts }
      let c := match evalChain ts Gen.Tables.formatChain with | some f => f | none => "-"
      s!"ok\tchain={c}\tmodel={fmtName (oscarFormat l)}"
    | none => "bad-op"
  | _ => "bad-op"

def handle : List String → String
  | "read" :: rest => handleRead rest
  | "gread" :: rest => handleGRead rest
  | "file" :: rest => handleFile rest
  | "ospec" :: rest => handleOspec rest
  | "jspec" :: rest => handleJspec rest
  | "particle" :: rest => handleParticle rest
  | "charge" :: rest => handleCharge rest
  | "mass" :: rest => handleMass rest
  | "fmtchain" :: rest => handleFmtChain rest
  | _ => "bad-op"

end SparkxVerif.Drv.C01
