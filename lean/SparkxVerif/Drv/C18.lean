import SparkxVerif.Core.Proto
import SparkxVerif.Core.Ecc
import SparkxVerif.Gen.Ecc

/-! driver ops for C18 (the generic model of `Core/Ecc.lean` run at `Float` with the C library):
  `p <n> <m|-> <hex(weight_quantity)> <E,charge,baryon,strangeness,x,y;...|.>`  -> `ok <re> <im>` | `err value|zerodiv`
  `l <n> <m|-> <xs;..> <ys;..> <nz> <plane|plane|..>`, plane = `row/row/..`, row = `v;v;..` (grid_[i][j][k])
                                                                                 -> `ok <re> <im>` | `err value|zerodiv`
  `gp …` / `gl …` (same fields as `p` / `l`): the functions GENERATED from the current source (`Gen/Ecc.lean`,
  tie T) run at `Float`; `gp` hands the weight string to the generated if-chain as it is
-/
namespace SparkxVerif.Drv.C18
open SparkxVerif.Proto SparkxVerif.Ecc

def part? (s : String) : Option (Part Float) :=
  match (s.splitOn ",").mapM floatOfHex? with
  | some [e, c, b, st, x, y] => some ⟨e, c, b, st, x, y⟩
  | _ => none

def parts? (s : String) : Option (List (Part Float)) :=
  if s == "." then some [] else (splitList s).mapM part?

def optInt? (s : String) : Option (Option Int) :=
  if s == "-" then some none else s.toInt?.map some

def grid? (s : String) : Option (List (List (List Float))) :=
  (s.splitOn "|").mapM fun plane => (plane.splitOn "/").mapM fun row => floatList? row

def showRes : Except Err (Float × Float) → String
  | .ok (re, im) => s!"ok {floatToHex re} {floatToHex im}"
  | .error .value => "err value"
  | .error .zerodiv => "err zerodiv"

def handle : List String → String
  | ["p", n, m, wq, ps] =>
    match n.toInt?, optInt? m, unhex? wq, parts? ps with
    | some n, some m, some wq, some ps => showRes (eccParticles floatOps n m (WQ.parse wq) ps)
    | _, _, _, _ => "bad-op"
  | ["l", n, m, xs, ys, nz, grid] =>
    match n.toInt?, optInt? m, floatList? xs, floatList? ys, nz.toNat?, grid? grid with
    | some n, some m, some xs, some ys, some nz, some g => showRes (eccLattice floatOps n m ⟨xs, ys, nz, g⟩)
    | _, _, _, _, _, _ => "bad-op"
  | ["gp", n, m, wq, ps] =>
    match n.toInt?, optInt? m, unhex? wq, parts? ps with
    | some n, some m, some wq, some ps => showRes (SparkxVerif.Gen.Ecc.particles floatOps n m wq ps)
    | _, _, _, _ => "bad-op"
  | ["gl", n, m, xs, ys, nz, grid] =>
    match n.toInt?, optInt? m, floatList? xs, floatList? ys, nz.toNat?, grid? grid with
    | some n, some m, some xs, some ys, some nz, some g => showRes (SparkxVerif.Gen.Ecc.lattice floatOps n m ⟨xs, ys, nz, g⟩)
    | _, _, _, _, _, _ => "bad-op"
  | _ => "bad-op"

end SparkxVerif.Drv.C18
