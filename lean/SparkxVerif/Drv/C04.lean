import SparkxVerif.Core.FilterProto
import SparkxVerif.Core.Storer

/-!
Driver for C04: one input line = one *program* over storer registers; first field the table of
`NotImplementedError` overrides as extracted from the source (`T@o=<names>@j=<names>@p=<names>`, names = call tags
joined by `,`), then one instruction per TAB field:

  `S@<cls>@<nev>@<counts>@<footers>@<ptype>@<events>`   new register := this raw state (as observed on a real object)
  `I@<cls>@<sel>@<footers>@<ptype>@<events>`            new register := `initState` of a whole file/list + selector
  `F@<reg>@<call>`                                      register := filter method applied to it (storers mutate self)
  `A@<r1>@<r2>`                                         new register := r1 + r2

cls = `o|j|p`; nev = integer or `N`; counts = `none | a2=<l>_<c>+… | a1=<x>_… | py=<x>_…`; footers = nats joined by `_`;
sel = `all | k_<k> | r_<a>_<b>`; events / call as in `Core/FilterProto.lean`.
Answer: one observation per instruction, joined by ` # `:
  `nev=…;cnt=…;ev=<ids>;pl=<E | F:<ids> | N:<ids> | err kind>;ft=<footers>;sp=<ids of the plain-list evaluation>`
or `err <kind>` (registers unchanged; after a failed constructor the later instructions answer `skip`).
-/
namespace SparkxVerif.Drv.C04
open SparkxVerif.Flt SparkxVerif.Flt.Proto SparkxVerif.Storer

def showSErr : SErr → String
  | .value => "err value" | .type => "err type" | .index => "err index" | .attr => "err attr"
  | .notimpl => "err notimpl" | .flt e => showErr e

def splitU (s : String) : List String := if s.isEmpty then [] else s.splitOn "_"

def cls? : String → Option Cls
  | "o" => some .oscar | "j" => some .jetscape | "p" => some .pobj | _ => none

def row? (s : String) : Option (Int × Int) :=
  match s.splitOn "_" with
  | [a, b] => do pure (← a.toInt?, ← b.toInt?)
  | _ => none

def counts? (s : String) : Option Counts :=
  if s == "none" then some .none
  else match s.splitOn "=" with
  | ["a2", r] => ((if r.isEmpty then [] else r.splitOn "+").mapM row?).map .arr2d
  | ["a1", r] => ((splitU r).mapM String.toInt?).map .arr1d
  | ["py", r] => ((splitU r).mapM String.toInt?).map .pyList
  | _ => none

def nev? (s : String) : Option (Option Int) := if s == "N" then some none else s.toInt?.map some

def sel? (s : String) : Option Sel :=
  match s.splitOn "_" with
  | ["all"] => some .all
  | ["k", k] => k.toNat?.map .one
  | ["r", a, b] => do pure (.range (← a.toNat?) (← b.toNat?))
  | _ => none

def showCounts : Counts → String
  | .none => "none"
  | .arr2d rows => "a2=" ++ "+".intercalate (rows.map (fun r => s!"{r.1}_{r.2}"))
  | .arr1d xs => "a1=" ++ "_".intercalate (xs.map toString)
  | .pyList xs => "py=" ++ "_".intercalate (xs.map toString)

def showIdLists (l : List (List Nat)) : String :=
  if l.isEmpty then "-" else
  "|".intercalate (l.map (fun ev => if ev.isEmpty then "." else ",".intercalate (ev.map toString)))

def showPL : Except SErr PL → String
  | .error e => showSErr e
  | .ok (.flat []) => "E"
  | .ok (.nested []) => "E"
  | .ok (.flat ids) => "F:" ++ ",".intercalate (ids.map toString)
  | .ok (.nested l) => "N:" ++ showIdLists l

def observe (s : State Float) (plain : Option (Evs Float)) : String :=
  let nev := match s.numEvents with | some n => toString n | none => "N"
  s!"nev={nev};cnt={showCounts s.counts};ev={showIds s.events};pl={showPL (particleList s)};" ++
  s!"ft={"_".intercalate (s.footers.map toString)};sp={match plain with | some p => showIds p | none => "!"}"

def callTag : Call Float → String
  | .charged => "charged" | .uncharged => "uncharged" | .species _ => "species" | .removeSpecies _ => "removeSpecies"
  | .participants => "participants" | .spectators => "spectators" | .energyCut _ => "energy" | .spacetime _ _ => "spacetime"
  | .pT _ => "pT" | .mT _ => "mT" | .rapidity _ => "rapidity" | .pseudorapidity _ => "pseudorapidity"
  | .spacetimeRapidity _ => "spacetimeRapidity" | .multiplicity _ => "multiplicity" | .status _ => "status"
  | .keepHadrons => "keepHadrons" | .keepLeptons => "keepLeptons" | .keepQuarks => "keepQuarks" | .keepMesons => "keepMesons"
  | .keepBaryons => "keepBaryons" | .keepUp => "keepUp" | .keepDown => "keepDown" | .keepStrange => "keepStrange"
  | .keepCharm => "keepCharm" | .keepBottom => "keepBottom" | .keepTop => "keepTop" | .removePhotons => "removePhotons"

/-- override table: per class the call tags that raise `NotImplementedError` -/
structure Table where
  o : List String
  j : List String
  p : List String

def Table.impl (t : Table) (c : Cls) (call : Call Float) : Bool :=
  !((match c with | .oscar => t.o | .jetscape => t.j | .pobj => t.p).contains (callTag call))

def table? (s : String) : Option Table :=
  let names (x : String) : List String := if x.isEmpty then [] else x.splitOn ","
  match s.splitOn "@" with
  | ["T", o, j, p] =>
    match o.splitOn "=", j.splitOn "=", p.splitOn "=" with
    | ["o", o], ["j", j], ["p", p] => some ⟨names o, names j, names p⟩
    | _, _, _ => none
  | _ => none

/-- registers: the model state and, next to it, the plain nested list evolved by the same operations -/
abbrev Regs := Array (State Float × Option (Evs Float))

inductive Res | obs (r : Regs) (o : String) | err (k : String) | bad

def exec (t : Table) (regs : Regs) (instr : String) : Res :=
  match instr.splitOn "@" with
  | ["S", c, n, cnt, ft, pt, evs] =>
    match cls? c, nev? n, counts? cnt, (splitU ft).mapM String.toNat?, pt.toNat?, events? evs with
    | some c, some n, some cnt, some ft, some pt, some evs =>
      let s : State Float := { cls := c, events := evs, numEvents := n, counts := cnt, footers := ft, ptype := pt }
      .obs (regs.push (s, some (held s))) (observe s (some (held s)))
    | _, _, _, _, _, _ => .bad
  | ["I", c, sel, ft, pt, evs] =>
    match cls? c, sel? sel, (splitU ft).mapM String.toNat?, pt.toNat?, events? evs with
    | some c, some sel, some ft, some pt, some evs =>
      let base : Int := if c = .jetscape then 1 else 0
      match initState c base evs sel ft pt with
      | .ok s => .obs (regs.push (s, some (held s))) (observe s (some (held s)))
      | .error e => .err (showSErr e)
    | _, _, _, _, _ => .bad
  | ["F", r, c] =>
    match r.toNat?, call? c with
    | some r, some c =>
      match regs[r]? with
      | none => .bad
      | some (s, plain) =>
        match filterStep t.impl Float.ofNat s c with
        | .error e => .err (showSErr e)
        | .ok s' =>
          let plain' : Option (Evs Float) := plain.bind (fun p =>
            if p.isEmpty then some [] else match applyCall Float.ofNat c p with | .ok r => some r | .error _ => none)
          .obs (regs.set! r (s', plain')) (observe s' plain')
    | _, _ => .bad
  | ["A", r1, r2] =>
    match r1.toNat?, r2.toNat? with
    | some r1, some r2 =>
      match regs[r1]?, regs[r2]? with
      | some (a, pa), some (b, pb) =>
        match add a b with
        | .error e => .err (showSErr e)
        | .ok s =>
          let pl : Option (Evs Float) := do pure ((← pa) ++ (← pb))
          .obs (regs.push (s, pl)) (observe s pl)
      | _, _ => .bad
    | _, _ => .bad
  | _ => .bad

def runProg (t : Table) : Regs → List String → Bool → List String
  | _, [], _ => []
  | regs, i :: is, stopped =>
    if stopped then "skip" :: runProg t regs is true
    else match exec t regs i with
      | .obs r o => o :: runProg t r is false
      | .err k =>
        -- a failed filter method / addition leaves every register as it was: the history goes on;
        -- a failed constructor ends it
        k :: runProg t regs is (i.startsWith "S@" || i.startsWith "I@")
      | .bad => "bad-op" :: runProg t regs is true

def handle : List String → String
  | "p" :: tbl :: instrs =>
    match table? tbl with
    | some t => " # ".intercalate (runProg t #[] instrs false)
    | none => "bad-op"
  | _ => "bad-op"

end SparkxVerif.Drv.C04
