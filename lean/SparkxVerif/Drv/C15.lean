import SparkxVerif.Core.Proto
import SparkxVerif.Core.Jackknife

/-! driver op for C15 (no Mathlib):

  `call <stat> <seed> <d> <N> <ncols> <data;…> <draws> <sched>`
      stat  : mean | slowmean | rms | wmean | maxabs | mutmean
      data  : the array flattened in C order (floats as bit patterns), `ncols` entries per row (1-D: ncols = 1)
      draws : for every task index 0…N-1 the indices returned by the real
              `random.seed(seed+i); random.sample(range(n), d)`, as `i,j,k|i,j,k|…`
      sched : the schedule `worker:task;worker:task;…` in execution order (the one observed on the real pool)
   -> `ok <theta_0;…> <estimate> <spec formula on the by-definition subsample statistics> <data after the call> <branch>`
      or `err value` (the call raises / a task never ran)
-/
namespace SparkxVerif.Drv.C15
open SparkxVerif.Proto SparkxVerif.Jackknife

abbrev Row := List Float

def maxAbs (rows : List Row) : Float :=
  rows.flatten.foldl (fun m x => if x.abs > m then x.abs else m) 0.0

def stat? : String → Option (Stat Row Float)
  | "mean" => some (Stat.pure meanAll)
  | "slowmean" => some (Stat.pure meanAll)
  | "rms" => some (Stat.pure (rmsAll Float.sqrt))
  | "wmean" => some (Stat.pure wmean)
  | "maxabs" => some (Stat.pure maxAbs)
  | "mutmean" => some ⟨meanAll, List.map (List.map (fun _ => 0.0))⟩
  | _ => none

def rows? (ncols : Nat) (xs : List Float) : Option (List Row) :=
  if ncols = 0 then none else
  if xs.length % ncols != 0 then none else
  some ((List.range (xs.length / ncols)).map (fun i => (xs.drop (i * ncols)).take ncols))

def draws? (N : Nat) (s : String) : Option (List (List Nat)) :=
  if s == "-" then some (List.replicate N []) else
  (s.splitOn "|").mapM (fun t => (splitList t ',').mapM String.toNat?)

def sched? (s : String) : Option (List (Nat × Nat)) :=
  (splitList s).mapM (fun t =>
    match t.splitOn ":" with
    | [w, i] => do pure ((← w.toNat?), (← i.toNat?))
    | _ => none)

/-- the real generator as far as this call uses it: state = (last seed, samples drawn since);
the first sample after `seed(seed + i)` is the harness-supplied draw of task `i` -/
def tableRng (seed : Int) (tbl : List (List Nat)) : Rng (Int × Nat) :=
  { reseed := fun s => (s, 0)
    sample := fun st _ _ =>
      (if st.2 = 0 ∧ 0 ≤ st.1 - seed then tbl.getD (st.1 - seed).toNat [] else [], (st.1, st.2 + 1)) }

def handle : List String → String
  | ["call", st, seed, d, N, ncols, data, draws, sched] =>
    match stat? st, seed.toInt?, d.toNat?, N.toNat?, ncols.toNat?, floatList? data with
    | some S, some seed, some d, some N, some ncols, some xs =>
      match rows? ncols xs, draws? N draws, sched? sched with
      | some rows, some tbl, some sc =>
        if tbl.length != N then "bad-op" else
        -- without the per-task reseed the machine would ask for draws the harness did not supply
        if !Gen.Jackknife.reseedPerTask then "err notimpl" else
        let R := tableRng seed tbl
        let out := compute Float.sqrt R S rows seed d N (seed, 7) sc
        match out.value with
        | none => "err value"
        | some est =>
          let data' := out.dataAfter
          let ths := (List.range N).map (fun (i : Nat) => S.val (deleteIdx data' (R.draw (seed + (i : Int)) data'.length d)))
          let spec := specFormula Float.sqrt data'.length d ths
          let run := (poolRun R S.val data' seed d N (fun _ => (0, 99)) sc).getD []
          s!"ok {showFloats run} {floatToHex est} {floatToHex spec} {showFloats data'.flatten} {if d = 1 then "d1" else "dgen"}"
      | _, _, _ => "bad-op"
    | _, _, _, _, _, _ => "bad-op"
  | _ => "bad-op"

end SparkxVerif.Drv.C15
