import SparkxVerif.Core.Proto
import SparkxVerif.Core.Centrality

/-! driver ops for C19 (multiplicities and edges travel as integers, the harness applies a strictly
monotone map; `inf` is printed for a stored minimum `float("inf")`):

  `pipe <fix|wrap> <zero> <sample;…> <lo> <hi> <edges;…> <edge:rank;…> <queries;…>`
      the whole constructor + lookups: range check of the edges (`err value`), cleaning, rank boundaries
      through the supplied table, boundary extraction (`err value` / `err index`), one lookup per query
      -> `ok <cleaned edges> <mins> <maxs> <classes>`   (a lookup that raises is printed as `E`)
  `run <fix|wrap> <zero> <sample;…> <R;…> <queries;…>`    extraction + lookups for given rank boundaries
      -> `ok <mins> <maxs> <classes>`
  `clean <edges;…>`  -> `ok <cleaned edges>`
-/
namespace SparkxVerif.Drv.C19
open SparkxVerif.Proto SparkxVerif.Centrality

def showBnd : Bnd Int → String
  | .inf => "inf"
  | .fin m => toString m

def showErr : Err → String
  | .value => "err value"
  | .index => "err index"

def showList (xs : List String) : String := if xs.isEmpty then "-" else ";".intercalate xs

def showCls : Except Err Int → String
  | .ok c => toString c
  | .error _ => "E"

def variant? : String → Option (Int → List Int → List Nat → Except Err (Classes Int))
  | "fix" => some build
  | "wrap" => some buildWrap
  | _ => none

def pair? (s : String) : Option (Int × Nat) :=
  match s.splitOn ":" with
  | [k, r] => do
      let k ← k.toInt?
      let r ← r.toNat?
      pure (k, r)
  | _ => none

def answer (C : Classes Int) (qs : List Int) : String :=
  s!"{showList (C.mins.map showBnd)} {showList (C.maxs.map toString)} {showList (qs.map (fun q => showCls (lookup C.mins q)))}"

def handle : List String → String
  | ["run", v, zero, sample, R, qs] =>
    match variant? v, zero.toInt?, intList? sample, natList? R, intList? qs with
    | some bld, some z, some s, some R, some qs =>
      match bld z s R with
      | .error e => showErr e
      | .ok C => "ok " ++ answer C qs
    | _, _, _, _, _ => "bad-op"
  | ["pipe", v, zero, sample, lo, hi, edges, table, qs] =>
    match variant? v, zero.toInt?, intList? sample, lo.toInt?, hi.toInt?, intList? edges,
        (splitList table).mapM pair?, intList? qs with
    | some bld, some z, some s, some lo, some hi, some es, some tb, some qs =>
      if !(edgesInRange lo hi es) then showErr .value
      else
        let cl := cleanEdges es
        match cl.mapM (fun k => tb.lookup k) with
        | none => "bad-op"
        | some R =>
          match bld z s R with
          | .error e => showErr e
          | .ok C => s!"ok {showList (cl.map toString)} " ++ answer C qs
    | _, _, _, _, _, _, _, _ => "bad-op"
  | ["clean", edges] =>
    match intList? edges with
    | some es => "ok " ++ showList ((cleanEdges es).map toString)
    | none => "bad-op"
  | _ => "bad-op"

end SparkxVerif.Drv.C19
