import SparkxVerif.Core.Proto
import SparkxVerif.Core.Num
import SparkxVerif.Core.Centrality
import SparkxVerif.Gen.Centrality

/-! driver ops for C19 (multiplicities and edges travel as integers, the harness applies a strictly
monotone map; `inf` is printed for a stored minimum `float("inf")`):

  `pipe <fix|wrap> <zero> <sample;…> <lo> <hi> <edges;…> <edge:rank;…> <queries;…>`
      the whole constructor + lookups: range check of the edges (`err value`), cleaning, rank boundaries
      through the supplied table, boundary extraction (`err value` / `err index`), one lookup per query
      -> `ok <cleaned edges> <mins> <maxs> <classes>`   (a lookup that raises is printed as `E`)
  `run <fix|wrap> <zero> <sample;…> <R;…> <queries;…>`    extraction + lookups for given rank boundaries
      -> `ok <mins> <maxs> <classes>`
  `clean <edges;…>`  -> `ok <cleaned edges>`
  `gpipe <zero> <sample;…> <lo> <hi> <edges;…> <queries;…>`
      the same pipeline through the functions REGENERATED from the current source (`Gen/Centrality.lean`, tie T):
      `genInit` (edge cleaning), `genBuild`, `genLookup`, and the cut indices through `genRank` evaluated at `Float` (an edge travels as the
      bit pattern of its non-negative double, so the driver recovers the double itself; `int()` = truncation);
      no rank table is supplied.  Same answer format as `pipe`.
  `grun <zero> <sample;…> <R;…> <queries;…>`   `genBuild` (rank boundaries given, `rank = id`) + `genLookup`
-/
namespace SparkxVerif.Drv.C19
open SparkxVerif.Proto SparkxVerif.Centrality SparkxVerif.Gen.Centrality

def showBnd : Bnd Int → String
  | .inf => "inf"
  | .fin m => toString m

def showErr : Err → String
  | .value => "err value"
  | .index => "err index"

def showList (xs : List String) : String := if xs.isEmpty then "-" else ";".intercalate xs

def showCls : Except Err Int → String
  | .ok c => toString c
  | .error _ => "E"

def variant? : String → Option (Int → List Int → List Nat → Except Err (Classes Int))
  | "fix" => some build
  | "wrap" => some buildWrap
  | _ => none

def pair? (s : String) : Option (Int × Nat) :=
  match s.splitOn ":" with
  | [k, r] => do
      let k ← k.toInt?
      let r ← r.toNat?
      pure (k, r)
  | _ => none

def answer (C : Classes Int) (qs : List Int) : String :=
  s!"{showList (C.mins.map showBnd)} {showList (C.maxs.map toString)} {showList (qs.map (fun q => showCls (lookup C.mins q)))}"

def ganswer (C : Classes Int) (qs : List Int) : String :=
  s!"{showList (C.mins.map showBnd)} {showList (C.maxs.map toString)} {showList (qs.map (fun q => showCls (genLookup C.mins q)))}"

/-- the double whose (non-negative) bit pattern is the key `k` -/
def edgeOfKey (k : Int) : Float := Float.ofBits k.toNat.toUInt64

def handle : List String → String
  | ["grun", zero, sample, R, qs] =>
    match zero.toInt?, intList? sample, natList? R, intList? qs with
    | some z, some s, some R, some qs =>
      match genBuild (fun r : Nat => r) z s R with
      | .error e => showErr e
      | .ok C => "ok " ++ ganswer C qs
    | _, _, _, _ => "bad-op"
  | ["gpipe", zero, sample, lo, hi, edges, qs] =>
    match zero.toInt?, intList? sample, lo.toInt?, hi.toInt?, intList? edges, intList? qs with
    | some z, some s, some lo, some hi, some es, some qs =>
      match genInit lo hi es with
      | .error e => showErr e
      | .ok cl =>
        match genBuild (fun k : Int => genRank floatToNat s.length (edgeOfKey k)) z s cl with
        | .error e => showErr e
        | .ok C => s!"ok {showList (cl.map toString)} " ++ ganswer C qs
    | _, _, _, _, _, _ => "bad-op"
  | ["run", v, zero, sample, R, qs] =>
    match variant? v, zero.toInt?, intList? sample, natList? R, intList? qs with
    | some bld, some z, some s, some R, some qs =>
      match bld z s R with
      | .error e => showErr e
      | .ok C => "ok " ++ answer C qs
    | _, _, _, _, _ => "bad-op"
  | ["pipe", v, zero, sample, lo, hi, edges, table, qs] =>
    match variant? v, zero.toInt?, intList? sample, lo.toInt?, hi.toInt?, intList? edges,
        (splitList table).mapM pair?, intList? qs with
    | some bld, some z, some s, some lo, some hi, some es, some tb, some qs =>
      if !(edgesInRange lo hi es) then showErr .value
      else
        let cl := cleanEdges es
        match cl.mapM (fun k => tb.lookup k) with
        | none => "bad-op"
        | some R =>
          match bld z s R with
          | .error e => showErr e
          | .ok C => s!"ok {showList (cl.map toString)} " ++ answer C qs
    | _, _, _, _, _, _, _, _ => "bad-op"
  | ["clean", edges] =>
    match intList? edges with
    | some es => "ok " ++ showList ((cleanEdges es).map toString)
    | none => "bad-op"
  | _ => "bad-op"

end SparkxVerif.Drv.C19
