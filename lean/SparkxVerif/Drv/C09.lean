import SparkxVerif.Core.Proto
import SparkxVerif.Core.Histogram

/-! driver for the Histogram model (C09, C10).

`hist <edges> <op>|<op>|...`  ->  `ok <obs>|<obs>|... <TAB> <spec>`
`lin <lo> <hi> <n>`  ->  `ok <edges of the uniform binning, np.linspace formula>`

ops (fields separated by `,`; floats = 16 hex digits, `nan` = NaN, lists `;`-separated):
  `f,<v>,<w>` (`w` = `-` for no weight) · `fl,<vs>,-` · `fl,<vs>,s<w>` · `fl,<vs>,l<ws>` · `ah` · `sc,<c>` ·
  `sl,<cs>` · `se` · `md` · `er,<es>` · `sy,<es>` · `ab,<i>,<e>` · `rb,<i>` · `av` · `aw,<ws>` · `ae` ·
  `wr,<cols|->,<n>:<dict>+<dict>…` (names / labels hex-encoded, dict = `k=v;k=v`)
one observation per op: `<ok|err:kind>~nBins~nHist~edges~hist~raw~err~scal~sys~centers~widths`
(array = `<rows>:row/row`), for `wr`: `w~err:kind` or `w~ok~<n>:<header>@<rows>:row/row#…`.
`<spec>` = closed-form content and raw rows of the current histogram (`closedContent`, `closedRaw`
over the calls since the last `add_histogram`), meaningful for fill/scale histories.
-/
namespace SparkxVerif.Drv.C09
open SparkxVerif.Proto SparkxVerif.Hist

def optFloat? (s : String) : Option (Option Float) :=
  if s == "nan" then some none else (floatOfHex? s).map some

def optFloats? (s : String) : Option (List (Option Float)) := (splitList s).mapM optFloat?

def strs? (s : String) : Option (List String) := (splitList s).mapM unhex?

def dict? (s : String) : Option (List (String × String)) :=
  (splitList s).mapM (fun kv => match kv.splitOn "=" with
    | [k, v] => do let k ← unhex? k; let v ← unhex? v; pure (k, v)
    | _ => none)

def labels? (s : String) : Option Labels :=
  match s.splitOn ":" with
  | [n, body] => do
      let n ← n.toNat?
      if n = 0 then (if body.isEmpty then some [] else none) else
      let ds ← (body.splitOn "+").mapM dict?
      if ds.length = n then some ds else none
  | _ => none

inductive Cmd where
  | op (o : Op Float)
  | wr (cols : Option (List String)) (labels : Labels)

def cmd? (s : String) : Option Cmd :=
  match s.splitOn "," with
  | ["f", v, w] => do
      let v ← optFloat? v
      if w == "-" then pure (.op (.fill v none)) else do
        let w ← optFloat? w
        pure (.op (.fill v (some w)))
  | ["fl", vs, w] => do
      let vs ← optFloats? vs
      if w == "-" then pure (.op (.fillList vs .none))
      else if w.startsWith "s" then do
        let x ← optFloat? (w.drop 1).toString
        pure (.op (.fillList vs (.scalar x)))
      else if w.startsWith "l" then do
        let xs ← optFloats? (w.drop 1).toString
        pure (.op (.fillList vs (.list xs)))
      else none
  | ["ah"] => some (.op .addHist)
  | ["sc", c] => (floatOfHex? c).map (fun c => .op (.scale c))
  | ["sl", cs] => (floatList? cs).map (fun cs => .op (.scaleList cs))
  | ["se"] => some (.op .statErr)
  | ["md"] => some (.op .makeDensity)
  | ["er", es] => (floatList? es).map (fun es => .op (.setErr es))
  | ["sy", es] => (floatList? es).map (fun es => .op (.setSys es))
  | ["ab", i, e] => do
      let i ← i.toInt?
      let e ← floatOfHex? e
      pure (.op (.addBin i e))
  | ["rb", i] => i.toInt?.map (fun i => .op (.removeBin i))
  | ["av"] => some (.op .average)
  | ["aw", ws] => (floatList? ws).map (fun ws => .op (.averageW ws))
  | ["ae"] => some (.op .averageByErr)
  | ["wr", cols, labels] => do
      let cols ← if cols == "-" then pure none else (strs? cols).map some
      let labels ← labels? labels
      pure (.wr cols labels)
  | _ => none

def showArr (a : List (List Float)) : String :=
  s!"{a.length}:" ++ "/".intercalate (a.map showFloats)

def showState (s : State Float) (e : Option Err) : String :=
  let tag := match e with | none => "ok" | some k => "err:" ++ k.tag
  "~".intercalate [tag, toString s.nBins, toString s.nHist, showFloats s.edges, showArr s.hist, showArr s.raw,
    showArr s.err, showArr s.scal, showArr s.sys, showFloats (centers s.edges), showFloats (widths s.edges)]

def showWrite : Except Err (List (List String × List (List Float))) → String
  | .error k => "w~err:" ++ k.tag
  | .ok bs => s!"w~ok~{bs.length}:" ++ "#".intercalate
      (bs.map (fun b => ";".intercalate (b.1.map hexOfString) ++ "@" ++ showArr b.2))

def runCmds (s : State Float) : List Cmd → List String → List String
  | [], acc => acc.reverse
  | .op o :: r, acc =>
    let (s', e) := step Float.sqrt s o
    runCmds s' r (showState s' e :: acc)
  | .wr cols labels :: r, acc => runCmds s r (showWrite (write s cols labels) :: acc)

def handle : List String → String
  | ["hist", edges, ops] =>
    match floatList? edges, (if ops.isEmpty then some [] else (ops.splitOn "|").mapM cmd?) with
    | some es, some cs =>
      let s0 : State Float := init es
      let obs := runCmds s0 cs []
      let pure := cs.filterMap (fun c => match c with | .op o => some o | _ => none)
      let cur := sinceLastAddHist pure
      let n := s0.nBins
      let spec := showFloats ((List.range n).map (fun i => closedContent es n i cur)) ++ "~" ++
        showFloats ((List.range n).map (fun i => closedRaw es i cur))
      "ok " ++ "|".intercalate obs ++ "\t" ++ spec
    | _, _ => "bad-op"
  | ["lin", lo, hi, n] =>
    match floatOfHex? lo, floatOfHex? hi, n.toNat? with
    | some lo, some hi, some n => "ok " ++ showFloats (linspace lo hi n)
    | _, _, _ => "bad-op"
  | _ => "bad-op"

end SparkxVerif.Drv.C09
