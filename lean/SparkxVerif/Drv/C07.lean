import SparkxVerif.Core.ReaderDamage

/-! driver ops for C07 (files travel hex-encoded; `kind` = `oscar` | `jetscape` | `jetscapeP`)

  `read <kind> <sel> <filters> <views> <filehex>`   the shared reader op (loader only)
  `ctor <kind> <filehex>`                            `Oscar(path)` / `Jetscape(path[, particletype='parton'])`
        -> `err <kind>` | `ok ne=… counts=… fmt=… attrs=… foot=… ev=…`   (`Rd.Proto.showLoaded`)
  `wf <kind> <filehex>`                              is the file well-formed *as observed* (`OFile.wf` / `JFile.wf` on
        the `analyse`d lines of the real bytes)?  -> `ok wf <events> <particle lines>` | `ok notwf <why>`
  `cuts <kind> <filehex>`                            EVERY byte offset k = 0 … len: the file cut to its first k bytes
        -> `ok <a_0>;<a_1>;…;<a_len>` with `a_k = <S><H><T>:<constructor outcome>~<outcome with filters={}>`
           S: `Y` if splitting the real prefix at newlines gives exactly "the first j lines + the partial line"
           H: `Y`/`N` the hypotheses `prefixHyp` / `jprefixHyp` of the byte-level theorem hold for the partial line
              (`-` when the cut is at a line boundary and the line-level theorem applies)
           T: `Y`/`N` the loader's outcome is one the theorem allows at this position (error, or exactly the
              complete events with matching counts)
  `render <kind> <nl> <tabs> <cols> <events> <impacts|sigma>`   text of the grammar `OSpec.text` / `JSpec.text` used in the
        full byte-level statement (kind = oscar2013|extended|ascii|jetscape|jetscapeP) -> `ok <spec ok Y/N> <texthex>`
  `lines <kind> <filehex>`                           every single deletion and duplication of a particle line, in file
        order -> `ok <pos>=<T>:<outcome after deletion>~<with filters={}>|<T>:<after duplication>~<with filters={}>;…`
        (T: loader outcome = `err index`)
  `ctorF <kind> <filehex>`                           the constructor with a keep-everything filter (`filters={}` or only
        `False` switches)
-/
namespace SparkxVerif.Drv.C07
open SparkxVerif.Proto SparkxVerif.Rd SparkxVerif.Rd.Dmg SparkxVerif.Rd.Proto

def showRes : Except Rd.Err Loaded → String
  | .ok l => showLoaded l
  | .error e => showErr e

def ctorOf (kind : String) (f : FileF) : Option (Except Rd.Err Loaded) :=
  if kind == "oscar" then some (oscarCtor f)
  else if kind == "jetscape" then some (jetscapeCtor f false)
  else if kind == "jetscapeP" then some (jetscapeCtor f true)
  else none

/-- the same with a keep-everything constructor filter (`filters={}` / only `False` switches) -/
def ctorFOf (kind : String) (f : FileF) : Option (Except Rd.Err Loaded) :=
  if kind == "oscar" then some (oscarCtorF f)
  else if kind == "jetscape" then some (jetscapeCtorF f false)
  else if kind == "jetscapeP" then some (jetscapeCtorF f true)
  else none

def loaderOf (kind : String) (f : FileF) : Option (Except Rd.Err Loaded) :=
  if kind == "oscar" then some (readOscar f .all none)
  else if kind == "jetscape" then some (readJetscape f .all false none)
  else if kind == "jetscapeP" then some (readJetscape f .all true none)
  else none

/-- the well-formed structure of an Oscar file, with its format -/
def oscarWF (ls : List LineF) : Except String (OFile × Fmt × List String) :=
  match parseOscar ls with
  | none => .error "structure"
  | some F =>
    if F.lines.map (·.raw) != ls.map (·.raw) then .error "regroup" else
    match oscarFormat F.h1 with
    | .error _ => .error "format"
    | .ok (fmt, attrs) =>
      if F.wf fmt attrs then .ok (F, fmt, attrs)
      else if !F.obs fmt attrs then .error "observations"
      else if !consistent F.evs then .error "counts"
      else .error "empty"

def jetscapeWF (pt : Bool) (ls : List LineF) : Except String JFile :=
  match parseJetscape ls with
  | none => .error "structure"
  | some F =>
    if F.lines.map (·.raw) != ls.map (·.raw) then .error "regroup" else
    if F.wf pt then .ok F
    else if !F.obs pt then .error "observations"
    else if !jconsistent F.evs then .error "counts"
    else .error "empty"

def agreesB (F : OFile) (m : Nat) (L : Loaded) : Bool :=
  L.events == eventsFrom 3 (F.evs.take m) && L.numEvents == (m : Int) &&
  L.counts == .arr2d ((F.evs.take m).map (fun b => (b.label, (b.parts.length : Int))))

def jagreesB (F : JFile) (L : Loaded) : Bool :=
  L.events == jeventsFrom 1 F.evs && L.numEvents == (F.evs.length : Int) &&
  L.counts == .arr2d (F.evs.map (fun b => (b.label, (b.parts.length : Int))))

/-- `m` with `1 ≤ m ≤ N` and `endPos m = j`, if any -/
def endAt (F : OFile) (j : Nat) : Option Nat :=
  ((List.range F.evs.length).map (· + 1)).find? (fun m => F.endPos m == j)

/-- conclusion of `oscar_truncated_lines` -/
def allowedLines (F : OFile) (j : Nat) (r : Except Rd.Err Loaded) : Bool :=
  match r with
  | .error _ => true
  | .ok L => match endAt F j with
    | some m => agreesB F m L
    | none => false

/-- conclusion of `oscar_truncated_bytes_partial` -/
def allowedBytes (F : OFile) (j : Nat) (P : LineF) (r : Except Rd.Err Loaded) : Bool :=
  match r with
  | .error _ => true
  | .ok L =>
    (match endAt F j with | some m => agreesB F m L | none => false) ||
    (match endAt F (j + 1) with | some m => P.hasEnd && agreesB F m L | none => false)

def yn (b : Bool) : String := if b then "Y" else "N"

/-- the `raw` fields of `(fileOfText t).lines` (`analyse` keeps the text of the line in `raw`) -/
def rawLinesOf (t : String) : List String :=
  let pieces := t.splitOn "\n"
  let ls := if t.endsWith "\n" then pieces.dropLast else pieces
  if t.isEmpty then [] else ls

/-- all cuts of line `j` (text `s`, `c = 0 … s.length`); `before` = the complete lines before it -/
def cutsOfLine (kind : String) (allLines : List LineF) (linesRaw : List String) (j : Nat) (s : String)
    (mk : Nat → Option LineF → Bool → (String × String)) (textPrefix : List Char) : List String :=
  let cs := s.toList
  (List.range (cs.length + 1)).map (fun c =>
    let part := String.ofList (cs.take c)
    let f : FileF := if c == 0 then ⟨allLines.take j, true⟩ else ⟨allLines.take j ++ [analyse part], false⟩
    -- the real prefix bytes, split at newlines
    let pre := String.ofList (textPrefix ++ cs.take c)
    let sOk := rawLinesOf pre == linesRaw.take j ++ (if c == 0 then [] else [part])
    let (h, t) := mk c (if c == 0 then none else some (analyse part)) (c == cs.length)
    let out := match ctorOf kind f with | some r => showRes r | none => "bad-kind"
    let outF := match ctorFOf kind f with | some r => showRes r | none => "bad-kind"
    s!"{yn sOk}{h}{t}:{out}~{outF}")

def handleCuts (kind : String) (text : String) : String :=
  let full := fileOfText text
  let raws := full.lines.map (·.raw)
  -- start offset (as char list prefix) of every line
  let rec go (j : Nat) (rest : List String) (pre : List Char) (mkFor : Nat → Nat → Option LineF → Bool → (String × String))
      (acc : List String) : List String :=
    match rest with
    | [] => acc
    | s :: more =>
      let a := cutsOfLine kind full.lines raws j s (mkFor j) pre
      go (j + 1) more (pre ++ s.toList ++ ['\n']) mkFor (acc ++ a)
  if kind == "oscar" then
    match oscarWF full.lines with
    | .error why => s!"ok notwf {why}"
    | .ok (F, _, _) =>
      let mkFor (j _c : Nat) (P : Option LineF) (whole : Bool) : String × String :=
        match P with
        | none =>
          let r := readOscar ⟨F.lines.take j, true⟩ .all none
          ("-", yn (allowedLines F j r))
        | some P =>
          let r := readOscar ⟨F.lines.take j ++ [P], false⟩ .all none
          if whole then ("-", yn (allowedLines F (j + 1) r))
          else (yn (prefixHyp F j P), yn (allowedBytes F j P r))
      let body := go 0 raws [] mkFor []
      -- the complete file (offset = length of the text) when it ends with a newline
      let last := if full.trailingNL then
          let r := readOscar full .all none
          [s!"Y-{yn (allowedLines F F.lines.length r)}:{match ctorOf kind full with | some r => showRes r | none => "bad-kind"}~{match ctorFOf kind full with | some r => showRes r | none => "bad-kind"}"]
        else []
      "ok " ++ ";".intercalate (body ++ last)
  else if kind == "jetscape" || kind == "jetscapeP" then
    let pt := kind == "jetscapeP"
    match jetscapeWF pt full.lines with
    | .error why => s!"ok notwf {why}"
    | .ok F =>
      let okAll (r : Except Rd.Err Loaded) : Bool := match r with | .error _ => true | .ok L => jagreesB F L
      let errOnly (r : Except Rd.Err Loaded) : Bool := match r with | .error _ => true | .ok _ => false
      let mkFor (j _c : Nat) (P : Option LineF) (whole : Bool) : String × String :=
        match P with
        | none =>
          let r := readJetscape ⟨F.lines.take j, true⟩ .all pt none
          ("-", yn (if j < F.lines.length then errOnly r else okAll r))
        | some P =>
          let r := readJetscape ⟨F.lines.take j ++ [P], false⟩ .all pt none
          if whole then ("-", yn (if j + 1 < F.lines.length then errOnly r else okAll r))
          else (yn (jprefixHyp F pt j P), yn (if j + 1 == F.lines.length then okAll r else errOnly r))
      let body := go 0 raws [] mkFor []
      let last := if full.trailingNL then
          let r := readJetscape full .all pt none
          [s!"Y-{yn (okAll r)}:{match ctorOf kind full with | some r => showRes r | none => "bad-kind"}~{match ctorFOf kind full with | some r => showRes r | none => "bad-kind"}"]
        else []
      "ok " ++ ";".intercalate (body ++ last)
  else "bad-op"

def isErrIndex : Except Rd.Err Loaded → Bool
  | .error .index => true
  | _ => false

def handleLines (kind : String) (text : String) : String :=
  let full := fileOfText text
  let positions : Option (List Nat) :=
    if kind == "oscar" then
      match oscarWF full.lines with
      | .error _ => none
      | .ok (F, _, _) => some ((List.range F.evs.length).flatMap (fun k =>
          match F.evs[k]? with
          | some b => (List.range b.parts.length).map (fun p => F.partPos k p)
          | none => []))
    else if kind == "jetscape" || kind == "jetscapeP" then
      match jetscapeWF (kind == "jetscapeP") full.lines with
      | .error _ => none
      | .ok F => some ((List.range F.evs.length).flatMap (fun k =>
          match F.evs[k]? with
          | some b => (List.range b.parts.length).map (fun p => F.partPos k p)
          | none => []))
    else none
  match positions with
  | none => "ok notwf"
  | some ps =>
    "ok " ++ ";".intercalate (ps.map (fun i =>
      let fd : FileF := ⟨deleteLine full.lines i, full.trailingNL⟩
      let fu : FileF := ⟨dupLine full.lines i, full.trailingNL⟩
      let one (f : FileF) : String :=
        match loaderOf kind f, ctorOf kind f, ctorFOf kind f with
        | some r, some c, some cf => s!"{yn (isErrIndex r)}:{showRes c}~{showRes cf}"
        | _, _, _ => "bad-kind"
      s!"{i}={one fd}|{one fu}"))

def handleWf (kind : String) (text : String) : String :=
  let full := fileOfText text
  if kind == "oscar" then
    match oscarWF full.lines with
    | .error why => s!"ok notwf {why}"
    | .ok (F, _, _) => s!"ok wf {F.evs.length} {(F.evs.map (·.parts.length)).sum}"
  else if kind == "jetscape" || kind == "jetscapeP" then
    match jetscapeWF (kind == "jetscapeP") full.lines with
    | .error why => s!"ok notwf {why}"
    | .ok F => s!"ok wf {F.evs.length} {(F.evs.map (·.parts.length)).sum}"
  else "bad-op"

def events? (s : String) : List (List (List String)) :=
  (s.splitOn "|").map (fun e => if e.isEmpty then [] else (e.splitOn ";").map (fun r => r.splitOn ","))

/-- `render <kind> <nl> <tabs> <cols> <events> <impacts | sigma,sigmaErr>` : the text of the Lean grammar -/
def handleRender : List String → String
  | [kind, nl, tabs, cols, evs, extra] =>
    let nlb := nl == "1"
    let cs := if cols.isEmpty then [] else cols.splitOn ","
    let ex := if extra.isEmpty then [] else extra.splitOn ","
    if kind == "jetscape" || kind == "jetscapeP" then
      match ex with
      | [a, b] =>
        let S : JSpec := ⟨kind == "jetscapeP", tabs == "1", events? evs, a, b⟩
        s!"ok {yn S.ok} {hexOfString (S.text nlb)}"
      | _ => "bad-op"
    else
      let fmt? : Option Fmt := if kind == "oscar2013" then some .oscar2013 else if kind == "extended" then some .extended
        else if kind == "ascii" then some .ascii else none
      match fmt? with
      | some fmt =>
        let S : OSpec := ⟨fmt, cs, events? evs, ex⟩
        s!"ok {yn S.ok} {hexOfString (S.text nlb)}"
      | none => "bad-op"
  | _ => "bad-op"

def handle : List String → String
  | "read" :: rest => handleRead rest
  | "render" :: rest => handleRender rest
  | ["ctor", kind, file] =>
    match unhex? file with
    | some text => (match ctorOf kind (fileOfText text) with | some r => showRes r | none => "bad-op")
    | none => "bad-op"
  | ["ctorF", kind, file] =>
    match unhex? file with
    | some text => (match ctorFOf kind (fileOfText text) with | some r => showRes r | none => "bad-op")
    | none => "bad-op"
  | ["wf", kind, file] => (match unhex? file with | some text => handleWf kind text | none => "bad-op")
  | ["cuts", kind, file] => (match unhex? file with | some text => handleCuts kind text | none => "bad-op")
  | ["lines", kind, file] => (match unhex? file with | some text => handleLines kind text | none => "bad-op")
  | _ => "bad-op"

end SparkxVerif.Drv.C07
