import SparkxVerif.Core.Proto
import SparkxVerif.Core.Lattice
import SparkxVerif.Gen.Lattice

/-! driver for C17: one scenario per line

  `seq <TAB> lat|lat|… <TAB> cmd|cmd|…`  ->  `ok <res>|<res>|… <lat>|<lat>|…`

  lat  = `xmin,xmax,ymin,ymax,zmin,zmax,nx,ny,nz,xs,ys,zs,grid`  (floats as 16 hex digits, lists `;`-separated)
  cmd  = `si,l,i,j,k,v` set_value_by_index      -> `w0` | `w1` (warned)           | `err:<kind>`
         `sp,l,x,y,z,v` set_value               -> `w0` | `w1`                     | `err:<kind>`
         `sn,l,x,y,z,v` set_value_nearest_neighbor
         `rs,l,f`       rescale                 -> `-`
         `gi,l,i,j,k`   get_value_by_index      -> `v<hex>` | `none`
         `gp,l,x,y,z`   get_value               -> `v<hex>` | `none`               | `err:<kind>`
         `gn,l,x,y,z`   get_value_nearest_neighbor
         `co,l,i,j,k`   get_coordinates         -> `c<hex>;<hex>;<hex>`            | `err:<kind>`
         `fc,l,x,y,z`   find_closest_indices    -> `i;j;k;w`
         `xi,l,ax,v`    __get_index on axis ax  -> `i<n>`                          | `err:<kind>`
         `xn,l,ax,v`    __get_index_nearest_neighbor
         `xu,l,ax,v`    monitor: __get_index with the pre-repair guard
         `iv,l,x,y,z,r` interpolate_value, `r` = what interpn answered (parameter: `<hex>` or `err:<kind>`) -> `v<hex>` | `err:<kind>`
         `bo,o,a,b`     a ∘ b, o ∈ add sub mul div  -> `new<n>`                    | `err:<kind>`
         `av,a,b;b;…`   a.average(b, …)         -> `new<n>`                        | `err:<kind>`
         `sv,l`         save_to_csv             -> `t<hex>;<hex>;…` (the row of numbers)
         `ld,h;h;…`     load_from_csv of a row  -> `new<n>`                        | `err:<kind>`
         `rz,l`         reset                   -> `-`                             | `err:<kind>`
         `at,l`         derived constructor attributes -> `a<cell_volume>;<spacing_x|none>;<sy>;<sz>;<density_x>;<dy>;<dz>`
  `gseq <TAB> … <TAB> …` is the same protocol executed by the functions GENERATED from the current source
  (`Gen/Lattice.lean`, tie T) instead of the hand-written model; `sv`, `ld`, `xu` are not translated and stay
  on the model there.
  NaN is printed `nan` (payload not compared).  `np.linspace` = the table of the node arrays given in the
  lattice specs; `interpn` = the value supplied with the command.
-/
namespace SparkxVerif.Drv.C17
open SparkxVerif.Proto SparkxVerif.Lattice

abbrev L := Lat Float Float

def fhex (x : Float) : String := if x != x then "nan" else floatToHex x
def fhexs (xs : List Float) : String := ";".intercalate (xs.map fhex)

def fval? (s : String) : Option Float := if s == "nan" then some (0.0 / 0.0) else floatOfHex? s
def fvals? (s : String) : Option (List Float) := (splitList s).mapM fval?

def lat? (s : String) : Option L :=
  match s.splitOn "," with
  | [a, b, c, d, e, f, nx, ny, nz, xs, ys, zs, g] => do
    let xmin ← fval? a; let xmax ← fval? b; let ymin ← fval? c; let ymax ← fval? d
    let zmin ← fval? e; let zmax ← fval? f
    let nx ← nx.toNat?; let ny ← ny.toNat?; let nz ← nz.toNat?
    let xs ← fvals? xs; let ys ← fvals? ys; let zs ← fvals? zs; let g ← fvals? g
    pure { xmin, xmax, ymin, ymax, zmin, zmax, nx, ny, nz, xs, ys, zs, grid := g }
  | _ => none

def showLat (l : L) : String :=
  ",".intercalate [fhex l.xmin, fhex l.xmax, fhex l.ymin, fhex l.ymax, fhex l.zmin, fhex l.zmax,
    toString l.nx, toString l.ny, toString l.nz, fhexs l.xs, fhexs l.ys, fhexs l.zs, fhexs l.grid]

/-- `np.linspace` as a table: the node arrays the real library produced for the extents in play -/
abbrev LinTab := List ((UInt64 × UInt64 × Nat) × List Float)

def linTab (ls : List L) : LinTab :=
  ls.flatMap (fun l => [((l.xmin.toBits, l.xmax.toBits, l.nx), l.xs), ((l.ymin.toBits, l.ymax.toBits, l.ny), l.ys),
                        ((l.zmin.toBits, l.zmax.toBits, l.nz), l.zs)])

def linOf (t : LinTab) (lo hi : Float) (n : Nat) : List Float :=
  match t.find? (fun e => e.1 == (lo.toBits, hi.toBits, n)) with
  | some e => e.2
  | none => []

def err (e : Err) : String := "err:" ++ e.toString

def axisOf (l : L) (ax : String) : Option (List Float) :=
  if ax == "0" then some l.xs else if ax == "1" then some l.ys else if ax == "2" then some l.zs else none

def showSet (r : Except Err (L × Bool)) : Option L × String :=
  match r with
  | .ok (l', w) => (some l', if w then "w1" else "w0")
  | .error e => (none, err e)

def showGet (r : Except Err (Option Float)) : String :=
  match r with
  | .ok (some v) => "v" ++ fhex v
  | .ok none => "none"
  | .error e => err e

def showIdx (r : Except Err Nat) : String :=
  match r with
  | .ok i => s!"i{i}"
  | .error e => err e

def binOp? : String → Option BinOp
  | "add" => some .add | "sub" => some .sub | "mul" => some .mul | "div" => some .div | _ => none

def toNatF (x : Float) : Nat := x.toUInt64.toNat

/-- a number with the sign of zero removed (`abs(-0.0)` is `0.0` in Python, `-0.0` for the order-only `absG`) -/
def fhex0 (x : Float) : String := if x == 0.0 then fhex 0.0 else fhex x

def showAttrs (cv : Except Err Float) (sp : List (Except Err (Option Float))) (dn : List (Except Err Float)) : String :=
  let one (r : Except Err Float) : String := match r with | .ok v => fhex0 v | .error e => err e
  let opt (r : Except Err (Option Float)) : String :=
    match r with | .ok (some v) => fhex0 v | .ok none => "none" | .error e => err e
  "a" ++ ";".intercalate ([one cv] ++ sp.map opt ++ dn.map one)

/-- one command: new environment and the answer, `none` = unparsable -/
def step (tab : LinTab) (env : List L) (c : String) : Option (List L × String) :=
  let lin := linOf tab
  match c.splitOn "," with
  | ["si", l, i, j, k, v] => do
    let l ← l.toNat?; let i ← i.toInt?; let j ← j.toInt?; let k ← k.toInt?; let v ← fval? v
    let lat ← env[l]?
    pure (env.set l (lat.apply (.setIdx i j k v)), (showSet (lat.setByIndex i j k v)).2)
  | ["sp", l, x, y, z, v] => do
    let l ← l.toNat?; let x ← fval? x; let y ← fval? y; let z ← fval? z; let v ← fval? v
    let lat ← env[l]?
    pure (env.set l (lat.apply (.setPt x y z v)), (showSet (lat.setValue x y z v)).2)
  | ["sn", l, x, y, z, v] => do
    let l ← l.toNat?; let x ← fval? x; let y ← fval? y; let z ← fval? z; let v ← fval? v
    let lat ← env[l]?
    pure (env.set l (lat.apply (.setNN x y z v)), (showSet (lat.setValueNN x y z v)).2)
  | ["rs", l, f] => do
    let l ← l.toNat?; let f ← fval? f
    let lat ← env[l]?
    pure (env.set l (lat.apply (.rescale f)), "-")
  | ["gi", l, i, j, k] => do
    let l ← l.toNat?; let i ← i.toInt?; let j ← j.toInt?; let k ← k.toInt?
    let lat ← env[l]?
    pure (env, showGet (lat.getByIndex i j k))
  | ["gp", l, x, y, z] => do
    let l ← l.toNat?; let x ← fval? x; let y ← fval? y; let z ← fval? z
    let lat ← env[l]?
    pure (env, showGet (lat.getValue x y z))
  | ["gn", l, x, y, z] => do
    let l ← l.toNat?; let x ← fval? x; let y ← fval? y; let z ← fval? z
    let lat ← env[l]?
    pure (env, showGet (lat.getValueNN x y z))
  | ["co", l, i, j, k] => do
    let l ← l.toNat?; let i ← i.toInt?; let j ← j.toInt?; let k ← k.toInt?
    let lat ← env[l]?
    pure (env, match lat.getCoordinates i j k with
      | .ok (x, y, z) => "c" ++ fhexs [x, y, z]
      | .error e => err e)
  | ["fc", l, x, y, z] => do
    let l ← l.toNat?; let x ← fval? x; let y ← fval? y; let z ← fval? z
    let lat ← env[l]?
    let ((i, j, k), w) := lat.findClosestIndices x y z
    pure (env, s!"{i};{j};{k};{if w then 1 else 0}")
  | ["xi", l, ax, v] => do
    let l ← l.toNat?; let v ← fval? v
    let lat ← env[l]?
    let xs ← axisOf lat ax
    pure (env, showIdx (getIndex xs v))
  | ["xn", l, ax, v] => do
    let l ← l.toNat?; let v ← fval? v
    let lat ← env[l]?
    let xs ← axisOf lat ax
    pure (env, showIdx (getIndexNN xs v))
  | ["xu", l, ax, v] => do
    let l ← l.toNat?; let v ← fval? v
    let lat ← env[l]?
    let xs ← axisOf lat ax
    pure (env, showIdx (getIndexUnguarded xs v))
  | ["iv", l, x, y, z, r] => do
    let l ← l.toNat?; let x ← fval? x; let y ← fval? y; let z ← fval? z
    let r : Except Err Float ← if r == "err:value" then some (.error .value) else if r == "err:type" then some (.error .type)
      else if r == "err:index" then some (.error .index) else (fval? r).map .ok
    let lat ← env[l]?
    pure (env, match lat.interpolateValue (fun _ _ _ _ _ (_ : Unit) => r) x y z () with
      | .ok v => "v" ++ fhex v
      | .error e => err e)
  | ["rz", l] => do
    let l ← l.toNat?
    let lat ← env[l]?
    pure (env.set l lat.reset, "-")
  | ["at", l] => do
    let l ← l.toNat?
    let lat ← env[l]?
    pure (env, showAttrs (.ok (cellVolume lat.xmin lat.xmax lat.ymin lat.ymax lat.zmin lat.zmax lat.nx lat.ny lat.nz))
      [spacingOf (lin lat.xmin lat.xmax lat.nx) lat.nx, spacingOf (lin lat.ymin lat.ymax lat.ny) lat.ny,
       spacingOf (lin lat.zmin lat.zmax lat.nz) lat.nz]
      [.ok (densityOf lat.xmin lat.xmax lat.nx), .ok (densityOf lat.ymin lat.ymax lat.ny),
       .ok (densityOf lat.zmin lat.zmax lat.nz)])
  | ["bo", o, a, b] => do
    let o ← binOp? o; let a ← a.toNat?; let b ← b.toNat?
    let A ← env[a]?; let B ← env[b]?
    let env' := exec lin env (.bin o a b)
    pure (env', match A.operate lin o.fn B with
      | .ok _ => s!"new{env.length}"
      | .error e => err e)
  | ["av", a, bs] => do
    let a ← a.toNat?; let bs ← natList? bs
    let A ← env[a]?; let Bs ← bs.mapM (fun b => env[b]?)
    let env' := exec lin env (.avg a bs)
    pure (env', match A.average lin Bs with
      | .ok _ => s!"new{env.length}"
      | .error e => err e)
  | ["sv", l] => do
    let l ← l.toNat?
    let lat ← env[l]?
    pure (env, "t" ++ ";".intercalate (save Float.ofNat fhex lat))
  | ["ld", toks] =>
    match load lin toNatF fval? (splitList toks) with
    | .ok lat => some (env ++ [lat], s!"new{env.length}")
    | .error e => some (env, err e)
  | _ => none


/-! ### the same protocol on the functions generated from the current source (tie T, executed at Float) -/

open SparkxVerif.Gen in
/-- one command executed by the GENERATED methods -/
def gstep (tab : LinTab) (env : List L) (c : String) : Option (List L × String) :=
  let lin := linOf tab
  let setRes (l : Nat) (r : Except Err (L × Bool)) : List L × String :=
    match r with
    | .ok (l', w) => (env.set l l', if w then "w1" else "w0")
    | .error e => (env, err e)
  let idx (r : Except Err Int) : String := match r with | .ok i => s!"i{i}" | .error e => err e
  match c.splitOn "," with
  | ["si", l, i, j, k, v] => do
    let l ← l.toNat?; let i ← i.toInt?; let j ← j.toInt?; let k ← k.toInt?; let v ← fval? v
    let lat ← env[l]?
    pure (setRes l (Lattice3D.setValueByIndex lat i j k v))
  | ["sp", l, x, y, z, v] => do
    let l ← l.toNat?; let x ← fval? x; let y ← fval? y; let z ← fval? z; let v ← fval? v
    let lat ← env[l]?
    pure (setRes l (Lattice3D.setValue lat x y z v))
  | ["sn", l, x, y, z, v] => do
    let l ← l.toNat?; let x ← fval? x; let y ← fval? y; let z ← fval? z; let v ← fval? v
    let lat ← env[l]?
    pure (setRes l (Lattice3D.setValueNN lat x y z v))
  | ["rs", l, f] => do
    let l ← l.toNat?; let f ← fval? f
    let lat ← env[l]?
    pure (match Lattice3D.rescale lat f with
      | .ok l' => (env.set l l', "-")
      | .error e => (env, err e))
  | ["rz", l] => do
    let l ← l.toNat?
    let lat ← env[l]?
    pure (match Lattice3D.reset lat with
      | .ok l' => (env.set l l', "-")
      | .error e => (env, err e))
  | ["at", l] => do
    let l ← l.toNat?
    let lat ← env[l]?
    pure (env, showAttrs
      (Lattice3D.attr_cell_volume_ lin lat.xmin lat.xmax lat.ymin lat.ymax lat.zmin lat.zmax lat.nx lat.ny lat.nz)
      [Lattice3D.attr_spacing_x_ lin lat.xmin lat.xmax lat.ymin lat.ymax lat.zmin lat.zmax lat.nx lat.ny lat.nz,
       Lattice3D.attr_spacing_y_ lin lat.xmin lat.xmax lat.ymin lat.ymax lat.zmin lat.zmax lat.nx lat.ny lat.nz,
       Lattice3D.attr_spacing_z_ lin lat.xmin lat.xmax lat.ymin lat.ymax lat.zmin lat.zmax lat.nx lat.ny lat.nz]
      [Lattice3D.attr_density_x_ lin lat.xmin lat.xmax lat.ymin lat.ymax lat.zmin lat.zmax lat.nx lat.ny lat.nz,
       Lattice3D.attr_density_y_ lin lat.xmin lat.xmax lat.ymin lat.ymax lat.zmin lat.zmax lat.nx lat.ny lat.nz,
       Lattice3D.attr_density_z_ lin lat.xmin lat.xmax lat.ymin lat.ymax lat.zmin lat.zmax lat.nx lat.ny lat.nz])
  | ["gi", l, i, j, k] => do
    let l ← l.toNat?; let i ← i.toInt?; let j ← j.toInt?; let k ← k.toInt?
    let lat ← env[l]?
    pure (env, showGet (Lattice3D.getValueByIndex lat i j k))
  | ["gp", l, x, y, z] => do
    let l ← l.toNat?; let x ← fval? x; let y ← fval? y; let z ← fval? z
    let lat ← env[l]?
    pure (env, showGet (Lattice3D.getValue lat x y z))
  | ["gn", l, x, y, z] => do
    let l ← l.toNat?; let x ← fval? x; let y ← fval? y; let z ← fval? z
    let lat ← env[l]?
    pure (env, showGet (Lattice3D.getValueNN lat x y z))
  | ["co", l, i, j, k] => do
    let l ← l.toNat?; let i ← i.toInt?; let j ← j.toInt?; let k ← k.toInt?
    let lat ← env[l]?
    pure (env, match Lattice3D.getCoordinates lat i j k with
      | .ok (x, y, z) => "c" ++ fhexs [x, y, z]
      | .error e => err e)
  | ["fc", l, x, y, z] => do
    let l ← l.toNat?; let x ← fval? x; let y ← fval? y; let z ← fval? z
    let lat ← env[l]?
    pure (env, match Lattice3D.findClosestIndices lat x y z with
      | .ok ((i, j, k), w) => s!"{i};{j};{k};{if w then 1 else 0}"
      | .error e => err e)
  | ["xi", l, ax, v] => do
    let l ← l.toNat?; let v ← fval? v
    let lat ← env[l]?
    let xs ← axisOf lat ax
    pure (env, idx (Lattice3D.getIndex v xs))
  | ["xn", l, ax, v] => do
    let l ← l.toNat?; let v ← fval? v
    let lat ← env[l]?
    let xs ← axisOf lat ax
    pure (env, idx (Lattice3D.getIndexNN v xs))
  | ["iv", l, x, y, z, r] => do
    let l ← l.toNat?; let x ← fval? x; let y ← fval? y; let z ← fval? z
    let r : Except Err Float ← if r == "err:value" then some (.error .value) else if r == "err:type" then some (.error .type)
      else if r == "err:index" then some (.error .index) else (fval? r).map .ok
    let lat ← env[l]?
    pure (env, match Lattice3D.interpolateValue (fun _ _ _ _ _ (_ : Unit) => r) lat x y z () with
      | .ok v => "v" ++ fhex v
      | .error e => err e)
  | ["bo", o, a, b] => do
    let o ← binOp? o; let a ← a.toNat?; let b ← b.toNat?
    let A ← env[a]?; let B ← env[b]?
    let r := match o with
      | .add => Lattice3D.add lin A B | .sub => Lattice3D.sub lin A B
      | .mul => Lattice3D.mul lin A B | .div => Lattice3D.truediv lin A B
    pure (match r with
      | .ok R => (env ++ [R], s!"new{env.length}")
      | .error e => (env, err e))
  | ["av", a, bs] => do
    let a ← a.toNat?; let bs ← natList? bs
    let A ← env[a]?; let Bs ← bs.mapM (fun b => env[b]?)
    pure (match Lattice3D.average lin A Bs with
      | .ok R => (env ++ [R], s!"new{env.length}")
      | .error e => (env, err e))
  | _ => step tab env c

def runCmdsWith (stp : LinTab → List L → String → Option (List L × String)) (tab : LinTab) :
    List L → List String → List String → Option (List L × List String)
  | env, [], acc => some (env, acc.reverse)
  | env, c :: cs, acc =>
    match stp tab env c with
    | some (env', s) => runCmdsWith stp tab env' cs (s :: acc)
    | none => none

def runCmds (tab : LinTab) : List L → List String → List String → Option (List L × List String)
  | env, [], acc => some (env, acc.reverse)
  | env, c :: cs, acc =>
    match step tab env c with
    | some (env', s) => runCmds tab env' cs (s :: acc)
    | none => none

def handle : List String → String
  | ["seq", lats, cmds] =>
    match (lats.splitOn "|").mapM lat? with
    | some env =>
      match runCmds (linTab env) env (splitList cmds '|') [] with
      | some (env', res) => s!"ok {"|".intercalate res} {"|".intercalate (env'.map showLat)}"
      | none => "bad-op"
    | none => "bad-op"
  | ["gseq", lats, cmds] =>
    match (lats.splitOn "|").mapM lat? with
    | some env =>
      match runCmdsWith gstep (linTab env) env (splitList cmds '|') [] with
      | some (env', res) => s!"ok {"|".intercalate res} {"|".intercalate (env'.map showLat)}"
      | none => "bad-op"
    | none => "bad-op"
  | _ => "bad-op"

end SparkxVerif.Drv.C17
