import SparkxVerif.Core.Proto
import SparkxVerif.Core.Jets
import SparkxVerif.Gen.Jets

/-! driver ops for C20 (floats as 16-hex-digit bit patterns, `-` = `None`):
  `norm <R> <etaA> <etaB> <ptA> <ptB>`
        -> `ok <R> <etaLo> <etaHi> <ptLo> <ptHi>` (`-inf` / `+inf` / hex) | `err value`
  `run <repaired | asfound | <truncAtStart t|f><holesChargedOnly t|f>> <R> <etaA> <etaB> <ptA> <ptB> <onlyCharged t|f> <prior> <events>`
        -> `ok <file after the modelled call> <file the specification demands>` | `err value`
        prior  = `none` (file absent) | `.` (empty) | `idx:tag;…`
        events = `.` | event`/`event…;  event = parts`|`jets;
        parts  = `.` | `status,t|f,px,py,pz,e;…` (status `nan` = unset);
        jets   = `.` | `pt,eta,px,py,pz,e,dr:dr:…;…`  (one `delta_r` per particle of the event, `.` if none)
        file   = `none` | `.` | rows `J,ev,px,py,pz,e` / `P,i,pid,ev` / `O,idx,tag` joined by `;`
  `read <idx;idx;…>` -> `ok <group sizes ;-joined | .>`
ops on the functions REGENERATED from the current source (`Gen/Jets.lean`, tie T), evaluated at `Float`:
  `gnorm …` / `gread …`  as `norm` / `read`, through `genNormalise` / `genRead`
  `grun <R> <etaA> <etaB> <ptA> <ptB> <onlyCharged> <prior> <events>` -> `ok <file after genPerform>` | `err value`
  `gdr <etaP> <etaJ> <dphi>` -> `ok <genDeltaR>`  (`fjEta`, `fjDphi` = the given values)
  `gpj <parts>` -> `ok px,py,pz,e;…` (`genPseudoJets`)
  `gfill <R> <neg|pos> <t|f> <parts> <dr:dr:…>` -> `ok <positions ;-joined | .>` | `err value` (`genFill`)
  `gsub <px,py,pz,e> <parts>` -> `ok px,py,pz,e` (`genSubtract`, every given particle is a hole)
  `gwrite <ptHi | +inf> <prior> <newfile t|f> <event> <px,py,pz,e> <parts>` -> `ok <file> <returned flag>` (`genWriteJetOutput`,
        the given particles are the associated ones)
  `glayout` -> `ok <jet cells> <particle cells> <reader columns>` on the probe values event 7, index 5, position 3,
        momenta (1,2,3,4) / (5,6,7,8), status 27
-/
namespace SparkxVerif.Drv.C20
open SparkxVerif.Proto SparkxVerif.Jets SparkxVerif.Gen.Jets

def optF? (s : String) : Option (Option Float) :=
  if s == "-" then some none else (floatOfHex? s).map some

def bool? (s : String) : Option Bool :=
  if s == "t" then some true else if s == "f" then some false else none

def dotList (s : String) (sep : Char) : List String :=
  if s == "." then [] else s.splitOn (String.singleton sep)

def part? (s : String) : Option (Part Float) :=
  match s.splitOn "," with
  | [st, ch, px, py, pz, e] => do
      let status ← if st == "nan" then some none else st.toInt?.map some
      let c ← bool? ch
      let px ← floatOfHex? px
      let py ← floatOfHex? py
      let pz ← floatOfHex? pz
      let e ← floatOfHex? e
      pure ⟨status, c, ⟨px, py, pz, e⟩⟩
  | _ => none

def jet? (nparts : Nat) (s : String) : Option (Jet Float) :=
  match s.splitOn "," with
  | [pt, eta, px, py, pz, e, dr] => do
      let pt ← floatOfHex? pt
      let eta ← floatOfHex? eta
      let px ← floatOfHex? px
      let py ← floatOfHex? py
      let pz ← floatOfHex? pz
      let e ← floatOfHex? e
      let ds ← (dotList dr ':').mapM floatOfHex?
      if ds.length != nparts then none else
      pure ⟨pt, eta, ⟨px, py, pz, e⟩, ds⟩
  | _ => none

def event? (s : String) : Option (Event Float) :=
  match s.splitOn "|" with
  | [ps, js] => do
      let parts ← (dotList ps ';').mapM part?
      let jets ← (dotList js ';').mapM (jet? parts.length)
      pure ⟨parts, jets⟩
  | _ => none

def priorRow? (s : String) : Option (Row Float) :=
  match s.splitOn ":" with
  | [i, t] => do
      let i ← i.toNat?
      let t ← t.toNat?
      pure (.other i t)
  | _ => none

def prior? (s : String) : Option (FS Float) :=
  if s == "none" then some none else ((dotList s ';').mapM priorRow?).map some

def raw? (r ea eb pa pb oc : String) : Option (Raw Float) := do
  let r ← floatOfHex? r
  let ea ← optF? ea
  let eb ← optF? eb
  let pa ← optF? pa
  let pb ← optF? pb
  let oc ← bool? oc
  pure ⟨r, ea, eb, pa, pb, oc⟩

/-- `repaired` / `asfound` are the constants the theorems talk about; two flags `t|f` give the mixed texts -/
def variant? (s : String) : Option Variant :=
  if s == "repaired" then some repaired
  else if s == "asfound" then some asFound
  else match s.toList with
    | [a, b] => do
        let t ← bool? (String.singleton a)
        let h ← bool? (String.singleton b)
        pure ⟨t, h⟩
    | _ => none

def showExt : Ext Float → String
  | .ninf => "-inf"
  | .pinf => "+inf"
  | .fin a => floatToHex a

def showRow : Row Float → String
  | .jet ev m => s!"J,{ev},{floatToHex m.px},{floatToHex m.py},{floatToHex m.pz},{floatToHex m.e}"
  | .part i pid ev => s!"P,{i},{pid},{ev}"
  | .other i t => s!"O,{i},{t}"

def showRows (rs : List (Row Float)) : String :=
  if rs.isEmpty then "." else ";".intercalate (rs.map showRow)

def showFS : FS Float → String
  | none => "none"
  | some rs => showRows rs


def mom? (s : String) : Option (Mom Float) :=
  match s.splitOn "," with
  | [px, py, pz, e] => do
      let px ← floatOfHex? px
      let py ← floatOfHex? py
      let pz ← floatOfHex? pz
      let e ← floatOfHex? e
      pure ⟨px, py, pz, e⟩
  | _ => none

def showMom (m : Mom Float) : String :=
  s!"{floatToHex m.px},{floatToHex m.py},{floatToHex m.pz},{floatToHex m.e}"

def showMomDec (m : Mom Float) : String := s!"{m.px},{m.py},{m.pz},{m.e}"

def showCell : Cell Float → String
  | .nat n => s!"nat:{n}"
  | .perp m => s!"perp:{showMomDec m}"
  | .eta m => s!"eta:{showMomDec m}"
  | .phi m => s!"phi:{showMomDec m}"
  | .val a => s!"val:{a}"
  | .status none => "status:nan"
  | .status (some k) => s!"status:{k}"
  | .pdg k => s!"pdgof:{k}"

def showCol : ColType × Nat → String
  | (.int, k) => s!"int:{k}"
  | (.float, k) => s!"float:{k}"

def ext? (s : String) : Option (Ext Float) :=
  if s == "+inf" then some .pinf else if s == "-inf" then some .ninf else (floatOfHex? s).map .fin

def handleGen : List String → String
  | ["gnorm", r, ea, eb, pa, pb] =>
    match raw? r ea eb pa pb "f" with
    | some raw =>
      match genNormalise raw with
      | .ok P => s!"ok {floatToHex P.R} {showExt P.etaLo} {showExt P.etaHi} {showExt P.ptLo} {showExt P.ptHi}"
      | .error _ => "err value"
    | none => "bad-op"
  | ["grun", r, ea, eb, pa, pb, oc, prior, evs] =>
    match raw? r ea eb pa pb oc, prior? prior, (dotList evs '/').mapM event? with
    | some raw, some prior, some evs =>
      match genPerform Float.sqrt raw prior evs with
      | .ok f => s!"ok {showFS f}"
      | .error _ => "err value"
    | _, _, _ => "bad-op"
  | ["gread", idxs] =>
    match (dotList idxs ';').mapM String.toNat? with
    | some is =>
      let gs := genRead (fun (p : Nat × Nat) => p.2) ((List.range is.length).zip is)
      "ok " ++ (if gs.isEmpty then "." else ";".intercalate (gs.map (fun g => toString g.length)))
    | none => "bad-op"
  | ["gdr", ep, ej, dp] =>
    match floatOfHex? ep, floatOfHex? ej, floatOfHex? dp with
    | some ep, some ej, some dp =>
      let t : Triple Float := (0, ⟨some 0, true, ⟨0, 0, 0, 0⟩⟩, 0)
      "ok " ++ floatToHex (genDeltaR Float.sqrt (fun _ => ep) (fun _ => dp) ej t)
    | _, _, _ => "bad-op"
  | ["gpj", ps] =>
    match (dotList ps ';').mapM part? with
    | some parts =>
      let ms := genPseudoJets parts
      "ok " ++ (if ms.isEmpty then "." else ";".intercalate (ms.map showMom))
    | none => "bad-op"
  | ["gfill", r, sel, only, ps, drs] =>
    match floatOfHex? r, (if sel == "neg" then some Sel.negative else if sel == "pos" then some Sel.positive else none),
        bool? only, (dotList ps ';').mapM part?, (dotList drs ':').mapM floatOfHex? with
    | some r, some sel, some only, some parts, some ds =>
      if ds.length != parts.length then "bad-op" else
      match genFill r sel only (triples parts ds) with
      | .ok ts => "ok " ++ (if ts.isEmpty then "." else ";".intercalate (ts.map (fun t => toString t.1)))
      | .error _ => "err value"
    | _, _, _, _, _ => "bad-op"
  | ["gsub", m, ps] =>
    match mom? m, (dotList ps ';').mapM part? with
    | some m, some parts =>
      "ok " ++ showMom (genSubtract m (triples parts (parts.map (fun _ => (0.0 : Float)))))
    | _, _ => "bad-op"
  | ["gwrite", hi, prior, nf, ev, m, ps] =>
    match ext? hi, prior? prior, bool? nf, ev.toNat?, mom? m, (dotList ps ';').mapM part? with
    | some hi, some prior, some nf, some ev, some m, some parts =>
      let P : Params Float := ⟨1.0, .ninf, .pinf, .fin 0.0, hi, false⟩
      let r := genWriteJetOutput Float.sqrt P prior m (triples parts (parts.map (fun _ => (0.0 : Float)))) ev nf
      s!"ok {showFS r.1} {if r.2 then "t" else "f"}"
    | _, _, _, _, _, _ => "bad-op"
  | ["glayout"] =>
    let jc := genJetCells 7 (⟨1, 2, 3, 4⟩ : Mom Float)
    let pc := genPartCells 5 7 ((3, ⟨some 27, true, ⟨5, 6, 7, 8⟩⟩, 0.5) : Triple Float)
    s!"ok {";".intercalate (jc.map showCell)} {";".intercalate (pc.map showCell)} {";".intercalate (genReadCols.map showCol)}"
  | _ => "bad-op"

def handle : List String → String
  | ["norm", r, ea, eb, pa, pb] =>
    match raw? r ea eb pa pb "f" with
    | some raw =>
      match normalise raw with
      | .ok P => s!"ok {floatToHex P.R} {showExt P.etaLo} {showExt P.etaHi} {showExt P.ptLo} {showExt P.ptHi}"
      | .error _ => "err value"
    | none => "bad-op"
  | ["run", v, r, ea, eb, pa, pb, oc, prior, evs] =>
    match variant? v, raw? r ea eb pa pb oc, prior? prior, (dotList evs '/').mapM event? with
    | some V, some raw, some prior, some evs =>
      match perform V Float.sqrt raw prior evs, normalise raw with
      | .ok f, .ok P => s!"ok {showFS f} {showRows (specFile Float.sqrt P evs)}"
      | _, _ => "err value"
    | _, _, _, _ => "bad-op"
  | ["read", idxs] =>
    match (dotList idxs ';').mapM String.toNat? with
    | some is =>
      let gs := read (fun (p : Nat × Nat) => p.2) ((List.range is.length).zip is)
      "ok " ++ (if gs.isEmpty then "." else ";".intercalate (gs.map (fun g => toString g.length)))
    | none => "bad-op"
  | l => handleGen l

end SparkxVerif.Drv.C20
