import SparkxVerif.Core.Proto
import SparkxVerif.Core.Jets

/-! driver ops for C20 (floats as 16-hex-digit bit patterns, `-` = `None`):
  `norm <R> <etaA> <etaB> <ptA> <ptB>`
        -> `ok <R> <etaLo> <etaHi> <ptLo> <ptHi>` (`-inf` / `+inf` / hex) | `err value`
  `run <repaired | asfound | <truncAtStart t|f><holesChargedOnly t|f>> <R> <etaA> <etaB> <ptA> <ptB> <onlyCharged t|f> <prior> <events>`
        -> `ok <file after the modelled call> <file the specification demands>` | `err value`
        prior  = `none` (file absent) | `.` (empty) | `idx:tag;…`
        events = `.` | event`/`event…;  event = parts`|`jets;
        parts  = `.` | `status,t|f,px,py,pz,e;…` (status `nan` = unset);
        jets   = `.` | `pt,eta,px,py,pz,e,dr:dr:…;…`  (one `delta_r` per particle of the event, `.` if none)
        file   = `none` | `.` | rows `J,ev,px,py,pz,e` / `P,i,pid,ev` / `O,idx,tag` joined by `;`
  `read <idx;idx;…>` -> `ok <group sizes ;-joined | .>`
-/
namespace SparkxVerif.Drv.C20
open SparkxVerif.Proto SparkxVerif.Jets

def optF? (s : String) : Option (Option Float) :=
  if s == "-" then some none else (floatOfHex? s).map some

def bool? (s : String) : Option Bool :=
  if s == "t" then some true else if s == "f" then some false else none

def dotList (s : String) (sep : Char) : List String :=
  if s == "." then [] else s.splitOn (String.singleton sep)

def part? (s : String) : Option (Part Float) :=
  match s.splitOn "," with
  | [st, ch, px, py, pz, e] => do
      let status ← if st == "nan" then some none else st.toInt?.map some
      let c ← bool? ch
      let px ← floatOfHex? px
      let py ← floatOfHex? py
      let pz ← floatOfHex? pz
      let e ← floatOfHex? e
      pure ⟨status, c, ⟨px, py, pz, e⟩⟩
  | _ => none

def jet? (nparts : Nat) (s : String) : Option (Jet Float) :=
  match s.splitOn "," with
  | [pt, eta, px, py, pz, e, dr] => do
      let pt ← floatOfHex? pt
      let eta ← floatOfHex? eta
      let px ← floatOfHex? px
      let py ← floatOfHex? py
      let pz ← floatOfHex? pz
      let e ← floatOfHex? e
      let ds ← (dotList dr ':').mapM floatOfHex?
      if ds.length != nparts then none else
      pure ⟨pt, eta, ⟨px, py, pz, e⟩, ds⟩
  | _ => none

def event? (s : String) : Option (Event Float) :=
  match s.splitOn "|" with
  | [ps, js] => do
      let parts ← (dotList ps ';').mapM part?
      let jets ← (dotList js ';').mapM (jet? parts.length)
      pure ⟨parts, jets⟩
  | _ => none

def priorRow? (s : String) : Option (Row Float) :=
  match s.splitOn ":" with
  | [i, t] => do
      let i ← i.toNat?
      let t ← t.toNat?
      pure (.other i t)
  | _ => none

def prior? (s : String) : Option (FS Float) :=
  if s == "none" then some none else ((dotList s ';').mapM priorRow?).map some

def raw? (r ea eb pa pb oc : String) : Option (Raw Float) := do
  let r ← floatOfHex? r
  let ea ← optF? ea
  let eb ← optF? eb
  let pa ← optF? pa
  let pb ← optF? pb
  let oc ← bool? oc
  pure ⟨r, ea, eb, pa, pb, oc⟩

/-- `repaired` / `asfound` are the constants the theorems talk about; two flags `t|f` give the mixed texts -/
def variant? (s : String) : Option Variant :=
  if s == "repaired" then some repaired
  else if s == "asfound" then some asFound
  else match s.toList with
    | [a, b] => do
        let t ← bool? (String.singleton a)
        let h ← bool? (String.singleton b)
        pure ⟨t, h⟩
    | _ => none

def showExt : Ext Float → String
  | .ninf => "-inf"
  | .pinf => "+inf"
  | .fin a => floatToHex a

def showRow : Row Float → String
  | .jet ev m => s!"J,{ev},{floatToHex m.px},{floatToHex m.py},{floatToHex m.pz},{floatToHex m.e}"
  | .part i pid ev => s!"P,{i},{pid},{ev}"
  | .other i t => s!"O,{i},{t}"

def showRows (rs : List (Row Float)) : String :=
  if rs.isEmpty then "." else ";".intercalate (rs.map showRow)

def showFS : FS Float → String
  | none => "none"
  | some rs => showRows rs

def handle : List String → String
  | ["norm", r, ea, eb, pa, pb] =>
    match raw? r ea eb pa pb "f" with
    | some raw =>
      match normalise raw with
      | .ok P => s!"ok {floatToHex P.R} {showExt P.etaLo} {showExt P.etaHi} {showExt P.ptLo} {showExt P.ptHi}"
      | .error _ => "err value"
    | none => "bad-op"
  | ["run", v, r, ea, eb, pa, pb, oc, prior, evs] =>
    match variant? v, raw? r ea eb pa pb oc, prior? prior, (dotList evs '/').mapM event? with
    | some V, some raw, some prior, some evs =>
      match perform V Float.sqrt raw prior evs, normalise raw with
      | .ok f, .ok P => s!"ok {showFS f} {showRows (specFile Float.sqrt P evs)}"
      | _, _ => "err value"
    | _, _, _, _ => "bad-op"
  | ["read", idxs] =>
    match (dotList idxs ';').mapM String.toNat? with
    | some is =>
      let gs := read (fun (p : Nat × Nat) => p.2) ((List.range is.length).zip is)
      "ok " ++ (if gs.isEmpty then "." else ";".intercalate (gs.map (fun g => toString g.length)))
    | none => "bad-op"
  | _ => "bad-op"

end SparkxVerif.Drv.C20
