import SparkxVerif.Core.Proto
import SparkxVerif.Core.PtCorr

/-! driver ops for C13:
  `ev  <k> <weights;...|-> <pts;...>`      -> `ok <num> <den>` of one event ("-" as weight = unset)
  `all <max_order> <ev>|<ev>|...`           -> `ok <C_1..C_max> <kappa_1..kappa_max>`; event = `w,pt;w,pt;...`
-/
namespace SparkxVerif.Drv.C13
open SparkxVerif.Proto SparkxVerif.PtCorr

def part? (s : String) : Option (Part Float) :=
  match s.splitOn "," with
  | [w, p] => do
      let pt ← floatOfHex? p
      if w == "-" then pure (none, pt) else do
        let wf ← floatOfHex? w
        pure (some wf, pt)
  | _ => none

def event? (s : String) : Option (List (Part Float)) :=
  if s == "." then some [] else (splitList s).mapM part?

def handle : List String → String
  | ["ev", k, ev] =>
    match k.toNat?, event? ev with
    | some k, some e =>
      match eventNum k e, eventDen k e with
      | some n, some d => s!"ok {floatToHex n} {floatToHex d}"
      | _, _ => "err value"
    | _, _ => "bad-op"
  | ["all", m, evs] =>
    match m.toNat?, (evs.splitOn "|").mapM event? with
    | some m, some es =>
      match (List.range m).mapM (fun i => corr (i+1) es), (List.range m).mapM (fun i => cumulant (i+1) es) with
      | some cs, some ks => s!"ok {showFloats cs} {showFloats ks}"
      | _, _ => "err value"
    | _, _ => "bad-op"
  | _ => "bad-op"

end SparkxVerif.Drv.C13
