import SparkxVerif.Core.Proto
import SparkxVerif.Core.Kinematics

/-! driver op for C08:
  `kin <t> <x> <y> <z> <E> <px> <py> <pz> <pdg|->`   (floats as bit patterns; NaN = unset)
     -> `ok r1 … r11` in the order of `Method.all`; each `r` is a float bit pattern,
        `V:<a>;<b>;<c>` for a vector, or `raise`.
-/
namespace SparkxVerif.Drv.C08
open SparkxVerif.Proto SparkxVerif.Kin

def showRes : Res Float → String
  | .val v => floatToHex v
  | .vec a b c => "V:" ++ showFloats [a, b, c]
  | .raise => "raise"

def handle : List String → String
  | ["kin", t, x, y, z, e, px, py, pz, pdg] =>
    match [t, x, y, z, e, px, py, pz].mapM floatOfHex?, (if pdg == "-" then some none else pdg.toInt?.map some) with
    | some [t, x, y, z, e, px, py, pz], some pdg =>
      let a : Attrs Float := { t := t, x := x, y := y, z := z, E := e, px := px, py := py, pz := pz, pdg := pdg }
      "ok " ++ " ".intercalate (Method.all.map (fun m => showRes (run m a)))
    | _, _ => "bad-op"
  | _ => "bad-op"

end SparkxVerif.Drv.C08
