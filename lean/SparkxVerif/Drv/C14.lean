import SparkxVerif.Core.Proto
import SparkxVerif.Core.Bulk
import SparkxVerif.Gen.Bulk

/-! driver ops for C14 (all floats as bit patterns; `-` = NaN / unset; `.` = event without particles;
`none` in the events field = no event at all):
  `dndx  <edges;...> <ev>|<ev>|...`   ev = `q;q;...`         -> `ok <model bins;...> <spec bins;...|->` | `err value`
  `yield <w> <ev>|<ev>|...`           ev = `y,x;y,x;...`     -> `ok <model> <spec>` | `err value`
  `mean  <w> <ev>|<ev>|...`                                  -> `ok <model> <spec>` | `err value`
  `meanold <w> <evs>`                 the loop before the repair -> `ok <v>` | `err index|zerodiv|value`
  `gdndx <edges> <evs>`               the function GENERATED from `_differential_yield` (Gen/Bulk.lean)
                                                              -> `ok <row>|<row>|...` (`histograms_`) | `err ...`
  `gyield|gmeanpt|gmeanmt <w> <evs>`  the functions GENERATED from `mid_rapidity_yield / mean_pT / mean_mT`
                                                              -> `ok <v>` | `err ...`
The spec column of `dndx` is `-` when some quantity is NaN (the specification speaks about numbers only).
-/
namespace SparkxVerif.Drv.C14
open SparkxVerif.Proto SparkxVerif.Bulk

def optFloat? (s : String) : Option (Option Float) :=
  if s == "-" then some none else (floatOfHex? s).map some

def event? (s : String) : Option (List (Option Float)) :=
  if s == "." then some [] else (splitList s).mapM optFloat?

def events? {β : Type} (ev? : String → Option β) (s : String) : Option (List β) :=
  if s == "none" then some [] else (s.splitOn "|").mapM ev?

def part? (s : String) : Option (Option Float × Float) :=
  match s.splitOn "," with
  | [y, x] => do
      let yv ← optFloat? y
      let xv ← floatOfHex? x
      pure (yv, xv)
  | _ => none

def pevent? (s : String) : Option (List (Option Float × Float)) :=
  if s == "." then some [] else (splitList s).mapM part?

def showErr : Err → String
  | .value => "err value"
  | .index => "err index"
  | .zerodiv => "err zerodiv"

def handle : List String → String
  | ["dndx", edges, evs] =>
    match floatList? edges, events? event? evs with
    | some es, some evs =>
      match differentialYield es evs with
      | .ok bins =>
        let spec := match evs.mapM (fun ev => ev.mapM id) with
          | some nums => showFloats (dNdxSpec es nums)
          | none => "-"
        s!"ok {showFloats bins} {spec}"
      | .error e => showErr e
    | _, _ => "bad-op"
  | ["yield", w, evs] =>
    match floatOfHex? w, events? pevent? evs with
    | some w, some evs =>
      match midYield w evs with
      | .ok v => s!"ok {floatToHex v} {floatToHex (midYieldSpec w evs)}"
      | .error e => showErr e
    | _, _ => "bad-op"
  | ["mean", w, evs] =>
    match floatOfHex? w, events? pevent? evs with
    | some w, some evs =>
      match midMean w evs with
      | .ok v => s!"ok {floatToHex v} {floatToHex (midMeanSpec w evs)}"
      | .error e => showErr e
    | _, _ => "bad-op"
  | ["meanold", w, evs] =>
    match floatOfHex? w, events? pevent? evs with
    | some w, some evs =>
      match meanOld w evs with
      | .ok v => s!"ok {floatToHex v}"
      | .error e => showErr e
    | _, _ => "bad-op"
  | ["gdndx", edges, evs] =>
    match floatList? edges, events? event? evs with
    | some es, some evs =>
      match Gen.Bulk.differentialYield es evs with
      | .ok rows => "ok " ++ "|".intercalate (rows.map showFloats)
      | .error e => showErr e
    | _, _ => "bad-op"
  | [op, w, evs] =>
    let f? : Option (Float → List (List (Option Float × Float)) → Except Err Float) :=
      if op == "gyield" then some Gen.Bulk.midYield
      else if op == "gmeanpt" then some Gen.Bulk.midMeanPT
      else if op == "gmeanmt" then some Gen.Bulk.midMeanMT
      else none
    match f?, floatOfHex? w, events? pevent? evs with
    | some f, some w, some evs =>
      match f w evs with
      | .ok v => s!"ok {floatToHex v}"
      | .error e => showErr e
    | _, _, _ => "bad-op"
  | _ => "bad-op"

end SparkxVerif.Drv.C14
