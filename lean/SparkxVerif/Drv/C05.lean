import SparkxVerif.Core.ReaderProto
import SparkxVerif.Core.Dispatch

/-!
driver ops for C05 (TAB-separated fields)

  read  <kind> <sel> <filters> <views> <filehex>              shared reader op (Rd.Proto.handleRead)
  ctor  <cls> <kind> <sel> <dict> <views> <filehex>           X(file, events=sel, filters=dict): dispatch by the generated
                                                              table inside every event, answer as `read`
  meth  <cls> <kind> <sel> <dict> <views> <filehex>           X(file, events=sel).k1(v1).k2(v2)…  ->
                                                              `ok booked=<0|1> counts=<counts> ev=<ids per event>`
  cmp   <cls> <kind> <sel> <dict> <views> <filehex>           both, and the conclusion of `ctor_eq_methods` evaluated:
                                                              `ok same=<0|1> ne=<non-empty events> cnt=<their counts>`
  calls <cls> <dict>                                          `ok ctor=<calls|err> meth=<calls|err>` (dispatch only)
  objctor <dict> <events>   /  objmeth <dict> <events>        ParticleObjectLoader / method chain on a nested list
  lines <filehex>                                             the observations of layer 1 on every line (classification)

  cls  = oscar | jetscape | obj         kind = oscar | jetscape | jetscapeP
  dict = `=` (empty) | entries `key=<val>` joined by `+`
  val  = `T` | `F` | `i~<iarg>` | `w~<warg>` | `r~<rarg>` | `x~<hex>` | `q~<L|T>~<dim>~<warg>` | `o`
-/
namespace SparkxVerif.Drv.C05
open SparkxVerif.Proto SparkxVerif.Rd SparkxVerif.Rd.Proto SparkxVerif.Flt SparkxVerif.Dsp

def cls? : String → Option Cls
  | "oscar" => some .oscar | "jetscape" => some .jetscape | "obj" => some .obj | _ => none

def dval? (s : String) : Option (DVal Float) :=
  match s.splitOn "~" with
  | ["T"] => some (.flag true)
  | ["F"] => some (.flag false)
  | ["o"] => some .other
  | ["i", a] => (Flt.Proto.iarg? (a.splitOn ":")).map .ints
  | ["w", a] => (Flt.Proto.warg? (a.splitOn ":")).map .window
  | ["r", a] => (Flt.Proto.rarg? (a.splitOn ":")).map .rap
  | ["x", h] => (floatOfHex? h).map .num
  | ["q", l, d, a] => do
      let isList ← (if l == "L" then some true else if l == "T" then some false else none)
      pure (.seq isList (← Flt.Proto.dim? d) (← Flt.Proto.warg? (a.splitOn ":")))
  | _ => none

def dict? (s : String) : Option (Dict Float) :=
  if s == "=" then some [] else
  (s.splitOn "+").mapM (fun e =>
    match e.splitOn "=" with
    | [k, v] => (dval? v).map (fun d => (k, d))
    | _ => none)

def viewOf (views : List (Nat × Part Float)) (pl : PLine) : Part Float :=
  match views.lookup pl.lineNo with
  | some p => { p with id := pl.lineNo }
  | none =>
    { id := pl.lineNo, charge := none, pdg := none, ncoll := none, status := none, t := none, x := none, y := none,
      z := none, E := none, pT := none, mT := none, rap := none, eta := none, etas := none, etasRaises := false,
      isHadron := none, isLepton := none, isQuark := none, isMeson := none, isBaryon := none, hasUp := none,
      hasDown := none, hasStrange := none, hasCharm := none, hasBottom := none, hasTop := none }

def readKind (kind : String) (f : FileF) (sel : Sel) (ef : Option EvFilter) : Option (Except Rd.Err Loaded) :=
  if kind == "oscar" then some (readOscar f sel ef)
  else if kind == "jetscape" then some (readJetscape f sel false ef)
  else if kind == "jetscapeP" then some (readJetscape f sel true ef)
  else none

def isModelErr : Except DErr β → Bool
  | .error .model => true
  | _ => false

def showDErr : DErr → String
  | .flt e => Flt.Proto.showErr e
  | .notImpl => "err notimpl" | .attr => "err attr" | .key => "err key" | .model => "bad-op"

def bookedB (l : Loaded) : Bool :=
  !l.events.isEmpty &&
  match l.counts with
  | .arr2d rows => rows.map (·.2) == l.events.map (fun e => (e.length : Int))
  | _ => false

def showIdsL (evs : List (List Nat)) : String :=
  if evs.isEmpty then "-" else
  "|".intercalate (evs.map (fun ev => if ev.isEmpty then "." else ",".intercalate (ev.map toString)))

def showInts' (xs : List Int) : String := ",".intercalate (xs.map toString)

def showIArg : IArg → String
  | .scalar x => s!"s:{x}" | .list xs => "l:" ++ showInts' xs | .tuple xs => "t:" ++ showInts' xs
  | .ndarray xs => "a:" ++ showInts' xs | .other => "o"

def showWElem : WElem Float → String
  | .none => "N" | .nonnum => "X" | .num x => floatToHex x

def showWArg : WArg Float → String
  | .notTuple => "nt" | .tuple xs => "w:" ++ ",".intercalate (xs.map showWElem)

def showRArg : RArg Float → String
  | .tuple xs => "t:" ++ ",".intercalate (xs.map showWElem) | .scalar x => "s:" ++ floatToHex x | .other => "o"

def showDim : Dim → String
  | .t => "t" | .x => "x" | .y => "y" | .z => "z" | .bad => "bad"

/-- inverse of `Flt.Proto.call?` -/
def showCall : Call Float → String
  | .charged => "charged" | .uncharged => "uncharged"
  | .species a => "species:" ++ showIArg a | .removeSpecies a => "removeSpecies:" ++ showIArg a
  | .participants => "participants" | .spectators => "spectators"
  | .energyCut x => "energy:" ++ floatToHex x
  | .spacetime d a => "spacetime:" ++ showDim d ++ ":" ++ showWArg a
  | .pT a => "pT:" ++ showWArg a | .mT a => "mT:" ++ showWArg a
  | .rapidity a => "rapidity:" ++ showRArg a | .pseudorapidity a => "pseudorapidity:" ++ showRArg a
  | .spacetimeRapidity a => "spacetimeRapidity:" ++ showRArg a
  | .multiplicity a => "multiplicity:" ++ showWArg a
  | .status a => "status:" ++ showIArg a
  | .keepHadrons => "keepHadrons" | .keepLeptons => "keepLeptons" | .keepQuarks => "keepQuarks"
  | .keepMesons => "keepMesons" | .keepBaryons => "keepBaryons" | .keepUp => "keepUp" | .keepDown => "keepDown"
  | .keepStrange => "keepStrange" | .keepCharm => "keepCharm" | .keepBottom => "keepBottom" | .keepTop => "keepTop"
  | .removePhotons => "removePhotons"

def showCalls (cs : List (Call Float)) : String := if cs.isEmpty then "-" else "+".intercalate (cs.map showCall)

/-- every loaded particle line must come with its filter view -/
def viewsCover (views : List (Nat × Part Float)) (l : Loaded) : Bool :=
  l.events.all (fun e => e.all (fun pl => (views.lookup pl.lineNo).isSome))

def runMethods (cls : Cls) (dict : Dict Float) (views : List (Nat × Part Float)) (l0 : Loaded) :
    Except String (Held Float) :=
  match methodsOfDict cls dict with
  | .error e => .error (showDErr e)
  | .ok calls =>
    match methods Float.ofNat calls (heldOf (viewOf views) l0) with
    | .error e => .error (Rd.Proto.showErr e)
    | .ok h => .ok h

def handle : List String → String
  | "read" :: rest => handleRead rest
  | ["ctor", cls, kind, sel, dict, views, file] =>
    match cls? cls, sel? sel, dict? dict, views? views, unhex? file with
    | some cls, some sel, some dict, some views, some text =>
      let f := fileOfText text
      if isModelErr (ctorDispatch cls dict) then "bad-op" else
      match readKind kind f sel none with
      | none => "bad-op"
      | some (.error e) => Rd.Proto.showErr e
      | some (.ok l0) =>
        if !viewsCover views l0 then "bad-op" else
        match readKind kind f sel (some (ctorFilterDict Float.ofNat cls (viewOf views) dict)) with
        | some (.ok l) => showLoaded l
        | some (.error e) => Rd.Proto.showErr e
        | none => "bad-op"
    | _, _, _, _, _ => "bad-op"
  | ["meth", cls, kind, sel, dict, views, file] =>
    match cls? cls, sel? sel, dict? dict, views? views, unhex? file with
    | some cls, some sel, some dict, some views, some text =>
      let f := fileOfText text
      if isModelErr (methodsOfDict cls dict) then "bad-op" else
      match readKind kind f sel none with
      | none => "bad-op"
      | some (.error e) => Rd.Proto.showErr e
      | some (.ok l0) =>
        if !viewsCover views l0 then "bad-op" else
        match runMethods cls dict views l0 with
        | .error s => s
        | .ok h => s!"ok booked={if bookedB l0 then 1 else 0} counts={showCounts h.counts} ev={showIdsL (partIds h.events)}"
    | _, _, _, _, _ => "bad-op"
  | ["cmp", cls, kind, sel, dict, views, file] =>
    match cls? cls, sel? sel, dict? dict, views? views, unhex? file with
    | some cls, some sel, some dict, some views, some text =>
      let f := fileOfText text
      if isModelErr (ctorDispatch cls dict) || isModelErr (methodsOfDict cls dict) then "bad-op" else
      match readKind kind f sel none with
      | none => "bad-op"
      | some (.error e) => "plain " ++ Rd.Proto.showErr e
      | some (.ok l0) =>
        if !viewsCover views l0 then "bad-op" else
        match readKind kind f sel (some (ctorFilterDict Float.ofNat cls (viewOf views) dict)), runMethods cls dict views l0 with
        | some (.ok l1), .ok h =>
          let a := nonempty (lineIds l1.events)
          let b := nonempty (partIds h.events)
          let same := a == b && nonzeroCounts l1.counts == nonzeroCounts h.counts
          s!"ok same={if same then 1 else 0} booked={if bookedB l0 then 1 else 0} ne={showIdsL a} cnt={showInts (nonzeroCounts l1.counts)}"
        | some (.error e), .error s => "both-err ctor=" ++ Rd.Proto.showErr e ++ " meth=" ++ s
        | some (.error e), .ok _ => "ctor-only " ++ Rd.Proto.showErr e
        | some (.ok _), .error s => "meth-only " ++ s
        | none, _ => "bad-op"
    | _, _, _, _, _ => "bad-op"
  | ["calls", cls, dict] =>
    match cls? cls, dict? dict with
    | some cls, some dict =>
      let a := match ctorDispatch cls dict with | .ok cs => showCalls cs | .error e => showDErr e
      let b := match methodsOfDict cls dict with | .ok cs => showCalls cs | .error e => showDErr e
      s!"ok ctor={a} meth={b}"
    | _, _ => "bad-op"
  | ["objctor", dict, evs] =>
    match dict? dict, Flt.Proto.events? evs with
    | some dict, some es =>
      if isModelErr (ctorDispatch .obj dict) then "bad-op" else
      match es.mapM (fun e => do
          let r ← ctorApplyDict Float.ofNat .obj dict [e]
          pure (r.headD [])) with
      | .ok r => "ok " ++ Flt.Proto.showIds r
      | .error e => Rd.Proto.showErr e
    | _, _ => "bad-op"
  | ["objmeth", dict, evs] =>
    match dict? dict, Flt.Proto.events? evs with
    | some dict, some es =>
      match methodsOfDict .obj dict with
      | .error .model => "bad-op"
      | .error e => showDErr e
      | .ok calls =>
        match chain Float.ofNat calls es with
        | .ok r => "ok " ++ Flt.Proto.showIds (if r.isEmpty then [[]] else r)
        | .error e => Rd.Proto.showErr e
    | _, _ => "bad-op"
  | ["lines", file] =>
    match unhex? file with
    | some text =>
      let f := fileOfText text
      let b (x : Bool) : String := if x then "1" else "0"
      "ok " ++ ";".intercalate (f.lines.map (fun l =>
        String.join [b l.hasHash, b l.hasEvent, b l.hasOut, b l.hasOutSp, b l.hasInSp, b l.hasStart, b l.hasEnd,
                     b l.hasEndSp, b l.hasSigma, b l.hasWeight, b l.hasEventCap, b l.hasNHadrons, b l.hasNPartons]
          ++ ":" ++ toString l.toks.length ++ ":" ++ toString l.toksTab.length))
    | none => "bad-op"
  | _ => "bad-op"

end SparkxVerif.Drv.C05
