/-
Driver for C06 (writers).  Ops (TAB-separated fields):

  read  <kind> <sel> <filters> <views> <filehex>                      -- the shared reader op (Core/ReaderProto)
  write <kind> <sel> <keep> <ops> <ptab> <ftab> <filehex>
        kind  = oscar | jetscape | jetscapeP
        sel   = all | one:<k> | range:<a>:<b>
        keep  = `-` (no `filters=`) | `k:<line numbers kept by the constructor filters, comma separated>`
        ops   = `-` | filter methods joined by `+`:  `p:<line numbers kept>`  |  `e:<0/1 per event held>`
        ptab  = `float(tok)` / `int(tok)` as supplied by Python:   `f:<tok>=<bits>` / `i:<tok>=<bits>` joined by `;`
        ftab  = `'%g' % v`, `'%.9g' % v`, `'%d' % v` as supplied by Python:  `<bits>=<g>,<g9>,<d>` joined by `;`

  answer: `ok` TAB `st=<state>` TAB `w=<hex of the written text | err:kind>` TAB `obs=<ok|bad:…>`
               TAB `rr=<state of the object read back from that text | err:…>` TAB `w2=<same | hex | err:kind>`
          state = `ne=… counts=… origin=… imp=… ev=<line numbers>`
     or   `err <where>:<kind>`
-/
import SparkxVerif.Core.Writer
import SparkxVerif.Core.ReaderProto

namespace SparkxVerif.Drv.C06
open SparkxVerif.Proto SparkxVerif.Rd SparkxVerif.Rd.Proto SparkxVerif.Wr SparkxVerif.Gen.WriterTables

abbrev V := String

structure Tables where
  ptab : List ((Bool × String) × String)
  ftab : List (String × (String × String × String))

def codec (t : Tables) : Codec V :=
  { parse := fun c tok => (t.ptab.lookup (c == .float, tok)).getD ("?parse:" ++ tok),
    fmt := fun s v => match t.ftab.lookup v with
      | some (g, g9, d) => (match s with | .g => g | .g9 => g9 | .d => d)
      | none => "?fmt:" ++ v }

def ptab? (s : String) : Option (List ((Bool × String) × String)) :=
  if s == "-" then some [] else
  (s.splitOn ";").mapM (fun e =>
    match e.splitOn "=" with
    | [k, b] => (match k.splitOn ":" with
      | ["f", tok] => some ((true, tok), b)
      | ["i", tok] => some ((false, tok), b)
      | _ => none)
    | _ => none)

def ftab? (s : String) : Option (List (String × (String × String × String))) :=
  if s == "-" then some [] else
  (s.splitOn ";").mapM (fun e =>
    match e.splitOn "=" with
    | [b, r] => (match r.splitOn "," with
      | [g, g9, d] => some (b, (g, g9, d))
      | _ => none)
    | _ => none)

def nats? (s : String) : Option (List Nat) :=
  if s.isEmpty then some [] else (s.splitOn ",").mapM String.toNat?

def keep? (s : String) : Option (Option (List Nat)) :=
  if s == "-" then some none
  else match s.splitOn ":" with
    | ["k", ns] => (nats? ns).map some
    | _ => none

inductive DOp | part (ks : List Nat) | evcut (bits : List Bool)

def op? (s : String) : Option DOp :=
  match s.splitOn ":" with
  | ["p", ns] => (nats? ns).map .part
  | ["e", bs] => some (.evcut (bs.toList.map (· == '1')))
  | _ => none

def ops? (s : String) : Option (List DOp) :=
  if s == "-" then some [] else (s.splitOn "+").mapM op?

def toOp (events : List (List PLine)) : DOp → Op PLine
  | .part ks => .part (fun r => ks.contains r.lineNo)
  | .evcut bits => .evcut (fun ev =>
      match (events.zip bits).find? (fun p => p.1.map (·.lineNo) == ev.map (·.lineNo)) with
      | some p => p.2
      | none => false)

def showNats (xs : List Nat) : String := ",".intercalate (xs.map toString)

def showWErr : WErr → String
  | .key => "key" | .value => "value" | .index => "index" | .type => "type"
  | .read e => "read-" ++ (Rd.Proto.showErr e).drop 4

def showStore (s : Store PLine) : String :=
  s!"ne={s.numEvents} counts={showCounts s.counts} ev={showEvents s.events}"

def textOf (lines : List String) (nl : Bool) : String :=
  "\n".intercalate lines ++ (if nl then "\n" else "")

/-- the observations the loaders make on the written text agree with what each line is meant to be -/
def obsCheck (fmt : Fmt) (attrs : List String) (partons : Bool) (tl : List TLine) (text : String) : String :=
  let f := fileOfText text
  if f.lines.map (·.raw) != tl.map (·.text) then "bad:split"
  else
    let bad := (tl.zip f.lines).filter (fun p => !obsKind fmt attrs partons p.1.kind p.2)
    -- `hsub` of the fixpoint theorem: an end line that already carries its number is left alone by `_event_footer`
    let badSub := tl.filter (fun t => match t.kind, footerSubstIndex with
      | .endl e, some k => substLabel k e t.text != t.text
      | _, _ => false)
    match bad, badSub with
    | [], [] => "ok"
    | p :: _, _ => "bad:" ++ hexOfString p.1.text
    | [], t :: _ => "bad:subst:" ++ hexOfString t.text

/-- `hfmt` of the theorems: the first line of the written file is sniffed as the object's format and column list -/
def fmtCheck (fmt : Fmt) (attrs : List String) (tl : List TLine) : String :=
  match tl.head? with
  | none => "bad:nohdr"
  | some t => match oscarFormat (analyse t.text) with
    | .ok (f, a) => if f == fmt && a == attrs then "ok" else "bad:format"
    | .error _ => "bad:format"

/-- the hypotheses `Inv` / `JetWF` of the theorems, evaluated on the state that is written -/
def storeOK (s : Store PLine) : Bool :=
  !s.events.isEmpty && s.numEvents == (s.events.length : Int) &&
  (match s.counts with
   | .arr2d (r :: rows) => (r :: rows) == relabelRows r.1 0 s.events
   | _ => false)

def invCheck (o : OscarObj PLine) (vals : PLine → List String) : Bool :=
  storeOK o.toStore && o.origin.length == o.events.length && o.origin.all (· < o.endLines.length) &&
  o.impactIdx == o.origin && o.header.length == 3 &&
  (match o.events.flatten with
   | [] => true
   | p :: ps => ps.all (fun q => (vals q).length == (vals p).length))

def runOscar (t : Tables) (sel : Sel) (keep : Option (List Nat)) (ops : List DOp) (text : String) : String :=
  let c := codec t
  let f := fileOfText text
  let filt : Option EvFilter := keep.map (fun ks => fun data => .ok (data.filter (fun p => ks.contains p.lineNo)))
  match readOscar f sel filt with
  | .error e => "err read:" ++ (Rd.Proto.showErr e).drop 4
  | .ok L =>
  match oscarOfLoaded L f (keptIndices f sel filt) with
  | .error e => "err init:" ++ showWErr e
  | .ok o0 =>
  match ops.foldlM (fun (o : OscarObj PLine) d => o.step (toOp o.events d)) o0 with
  | .error e => "err step:" ++ showWErr e
  | .ok o =>
    let vals := fun (p : PLine) => match oscarVals c o.fmt o.attrs p.toks with | .ok v => v | .error _ => []
    let st := s!"st={showStore o.toStore} origin={showNats o.origin} imp={showNats o.impactIdx}"
    match writeOscarK c vals o with
    | .error e => s!"ok\t{st}\tw=err:{showWErr e}\tobs=-\trr=-\tw2=-"
    | .ok tl =>
      let lines := tl.map (·.text)
      let w := textOf lines (oscarFinalNL o tl)
      let obs0 := obsCheck o.fmt o.attrs false tl w
      let obs1 := if obs0 == "ok" && tl.length > 3 then fmtCheck o.fmt o.attrs tl else obs0
      let obs := if obs1 == "ok" && tl.length > 3 && !invCheck o vals then "bad:inv" else obs1
      let f2 := fileOfText w
      match readOscar f2 .all none with
      | .error e => s!"ok\t{st}\tw={hexOfString w}\tobs={obs}\trr=err:read-{(Rd.Proto.showErr e).drop 4}\tw2=-"
      | .ok L2 =>
      match oscarOfLoaded L2 f2 (keptIndices f2 .all none) with
      | .error e => s!"ok\t{st}\tw={hexOfString w}\tobs={obs}\trr=err:init-{showWErr e}\tw2=-"
      | .ok o2 =>
        let vals2 := fun (p : PLine) => match oscarVals c o2.fmt o2.attrs p.toks with | .ok v => v | .error _ => []
        let rr := s!"rr={showStore o2.toStore} origin={showNats o2.origin} imp={showNats o2.impactIdx} fmt={showFmt (some o2.fmt)} attrs={",".intercalate o2.attrs}"
        let w2 := match writeOscarK c vals2 o2 with
          | .error e => "err:" ++ showWErr e
          | .ok tl2 =>
            let l2 := tl2.map TLine.text
            let t2 := textOf l2 (oscarFinalNL o2 tl2)
            if t2 == w then "same" else hexOfString t2
        s!"ok\t{st}\tw={hexOfString w}\tobs={obs}\t{rr}\tw2={w2}"

def runJet (t : Tables) (partons : Bool) (sel : Sel) (keep : Option (List Nat)) (ops : List DOp) (text : String) : String :=
  let c := codec t
  let f := fileOfText text
  let filt : Option EvFilter := keep.map (fun ks => fun data => .ok (data.filter (fun p => ks.contains p.lineNo)))
  match readJetscape f sel partons filt with
  | .error e => "err read:" ++ (Rd.Proto.showErr e).drop 4
  | .ok L =>
  match jetOfLoaded L f partons with
  | .error e => "err init:" ++ showWErr e
  | .ok j0 =>
  match ops.foldlM (fun (j : JetObj PLine) d => j.step (toOp j.events d)) j0 with
  | .error e => "err step:" ++ showWErr e
  | .ok j =>
    let vals := fun (p : PLine) => match jetVals c p.toks with | .ok v => v | .error _ => []
    let st := s!"st={showStore j.toStore} last={hexOfString j.lastLine}"
    match writeJetscapeK c vals j with
    | .error e => s!"ok\t{st}\tw=err:{showWErr e}\tobs=-\trr=-\tw2=-"
    | .ok tl =>
      let lines := tl.map (·.text)
      let w := textOf lines true
      let obs0 := obsCheck .oscar2013 [] partons tl w
      let obs1 := if obs0 == "ok" && pyStrip j.lastLine != j.lastLine then "bad:strip" else obs0
      let wfj := storeOK j.toStore && j.events.flatten.all (fun p => (vals p).length == 7)
      -- `num_events_ == 0` (constructor filters removed everything) is outside `JetWF`: the theorems do not cover it
      let obs := if obs1 == "ok" && j.numEvents != 0 && !wfj then "bad:wf" else obs1
      let f2 := fileOfText w
      match readJetscape f2 .all partons none with
      | .error e => s!"ok\t{st}\tw={hexOfString w}\tobs={obs}\trr=err:read-{(Rd.Proto.showErr e).drop 4}\tw2=-"
      | .ok L2 =>
      match jetOfLoaded L2 f2 partons with
      | .error e => s!"ok\t{st}\tw={hexOfString w}\tobs={obs}\trr=err:init-{showWErr e}\tw2=-"
      | .ok j2 =>
        let rr := s!"rr={showStore j2.toStore} last={hexOfString j2.lastLine}"
        let w2 := match writeJetscapeK c vals j2 with
          | .error e => "err:" ++ showWErr e
          | .ok tl2 =>
            let t2 := textOf (tl2.map TLine.text) true
            if t2 == w then "same" else hexOfString t2
        s!"ok\t{st}\tw={hexOfString w}\tobs={obs}\t{rr}\tw2={w2}"

def handleWrite : List String → String
  | [kind, sel, keep, ops, ptab, ftab, file] =>
    match sel? sel, keep? keep, ops? ops, ptab? ptab, ftab? ftab, unhex? file with
    | some sel, some keep, some ops, some pt, some ft, some text =>
      let t : Tables := ⟨pt, ft⟩
      if kind == "oscar" then runOscar t sel keep ops text
      else if kind == "jetscape" then runJet t false sel keep ops text
      else if kind == "jetscapeP" then runJet t true sel keep ops text
      else "bad-op"
    | _, _, _, _, _, _ => "bad-op"
  | _ => "bad-op"

def handle : List String → String
  | "read" :: rest => handleRead rest
  | "write" :: rest => handleWrite rest
  | _ => "bad-op"

end SparkxVerif.Drv.C06
