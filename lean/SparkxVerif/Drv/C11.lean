import SparkxVerif.Core.Proto
import SparkxVerif.Core.QCumulant
import SparkxVerif.Gen.QCumulant

/-! driver ops for C11 (events separated by `|`, particles by `;`, particle = `re,im[,poi]`):
  `corr <k> <events>`             -> `ok <<<k>>>`
  `flow <k> <imag> <events>`      -> `ok <v_n{k}>` | `ok nan`
  `dflow <k> <imag> <pevents>`    -> `ok <v'_n{k}>` | `ok nan`
  `fc <k> <imag> <c>` / `dfc <k> <imag> <c> <d>` -> the two flow-from-cumulant decision functions alone
  `gcorr <k> <events>`            -> `<<k>>` by the function GENERATED from `__calculate_corr`
  `gdflow <k> <imag> <pevents>`   -> `v'_n{k}` computed only by GENERATED functions: `<<2>>`, `<<4>>` of the full events
                                     (`__calculate_corr`), the arguments `dargs<k>` (`__compute_differential_flow_bin`),
                                     the decision (`__flow_from_cumulant_differential`, real part as returned)
-/
namespace SparkxVerif.Drv.C11
open SparkxVerif SparkxVerif.Proto SparkxVerif.QC

def part? (s : String) : Option (Cx Float) :=
  match s.splitOn "," with
  | [a, b] => do pure ⟨← floatOfHex? a, ← floatOfHex? b⟩
  | _ => none

def ppart? (s : String) : Option (Cx Float × Bool) :=
  match s.splitOn "," with
  | [a, b, f] => do
      let u : Cx Float := ⟨← floatOfHex? a, ← floatOfHex? b⟩
      if f == "1" then pure (u, true) else if f == "0" then pure (u, false) else none
  | _ => none

def events? (s : String) : Option (List (Event Float)) :=
  (s.splitOn "|").mapM (fun e => if e == "." then some [] else (splitList e).mapM part?)

def pevents? (s : String) : Option (List (PEvent Float)) :=
  (s.splitOn "|").mapM (fun e => if e == "." then some [] else (splitList e).mapM ppart?)

def imag? : String → Option Imag
  | "zero" => some .zero | "negative" => some .negative | "nan" => some .nan | _ => none

def root (x : Float) (k : Nat) : Float := Float.pow x (1.0 / Float.ofNat k)
def rootp (x : Float) (a b : Nat) : Float := Float.pow x (Float.ofNat a / Float.ofNat b)

def showFlow : Flow Float → String
  | .val x => s!"ok {floatToHex x}"
  | .nan => "ok nan"

def handle : List String → String
  | ["corr", k, evs] =>
    match k.toNat?, events? evs with
    | some 2, some es => s!"ok {floatToHex (corr2 es)}"
    | some 4, some es => s!"ok {floatToHex (corr4 es)}"
    | some 6, some es => s!"ok {floatToHex (corr6 es)}"
    | some _, some _ => "err value"
    | _, _ => "bad-op"
  | ["gcorr", k, evs] =>
    -- the correlator as translated from the current source of `__calculate_corr`
    match k.toNat?, events? evs with
    | some 2, some es => s!"ok {floatToHex (Gen.QCumulant.corr2 es)}"
    | some 4, some es => s!"ok {floatToHex (Gen.QCumulant.corr4 es)}"
    | some 6, some es => s!"ok {floatToHex (Gen.QCumulant.corr6 es)}"
    | some _, some _ => "err value"
    | _, _ => "bad-op"
  | ["flow", k, im, evs] =>
    match k.toNat?, imag? im, events? evs with
    | some k, some im, some es =>
      match cumulant k es with
      | some c => showFlow (flowFromCumulant root k im c)
      | none => "err value"
    | _, _, _ => "bad-op"
  | ["fc", k, im, c] =>
    -- `__flow_from_cumulant(cnk)` alone
    match k.toNat?, imag? im, floatOfHex? c with
    | some k, some im, some c => showFlow (flowFromCumulant root k im c)
    | _, _, _ => "bad-op"
  | ["dfc", k, im, c, d] =>
    -- `__flow_from_cumulant_differential(cnk, dnk)` alone
    match k.toNat?, imag? im, floatOfHex? c, floatOfHex? d with
    | some k, some im, some c, some d => showFlow (dflow rootp k im c d)
    | _, _, _, _ => "bad-op"
  | ["dflow", k, im, evs] =>
    match k.toNat?, imag? im, pevents? evs with
    | some k, some im, some es => if k == 2 || k == 4 then showFlow (dvn rootp k im es) else "err value"
    | _, _, _ => "bad-op"
  | ["gdflow", k, im, evs] =>
    match k.toNat?, imag? im, pevents? evs with
    | some 2, some im, some es =>
      let c2 := Gen.QCumulant.corr2 (es.map full)
      let a := Gen.QCumulant.dargs2 es c2
      showFlow (Gen.QCumulant.dflow rootp 2 im a.1 a.2.re)
    | some 4, some im, some es =>
      let c2 := Gen.QCumulant.corr2 (es.map full)
      let c4 := Gen.QCumulant.corr4 (es.map full)
      let a := Gen.QCumulant.dargs4 es c2 c4
      showFlow (Gen.QCumulant.dflow rootp 4 im a.1 a.2.re)
    | some _, some _, some _ => "err value"
    | _, _, _ => "bad-op"
  | _ => "bad-op"

end SparkxVerif.Drv.C11
