import SparkxVerif.Core.FilterProto

/-! driver op for C03:  `f <call> <events>` -> `ok <ids per event>` | `err <kind>` -/
namespace SparkxVerif.Drv.C03
open SparkxVerif.Flt SparkxVerif.Flt.Proto

def handle : List String → String
  | ["f", c, evs] =>
    match call? c, events? evs with
    | some c, some es =>
      match runCall c es with
      | .ok r => "ok " ++ showIds r
      | .error e => showErr e
    | _, _ => "bad-op"
  | _ => "bad-op"

end SparkxVerif.Drv.C03
