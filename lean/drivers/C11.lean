import SparkxVerif.Drv.C11
def main : IO Unit := SparkxVerif.Proto.run SparkxVerif.Drv.C11.handle
