import SparkxVerif.Drv.C14
def main : IO Unit := SparkxVerif.Proto.run SparkxVerif.Drv.C14.handle
