import SparkxVerif.Drv.C16
def main : IO Unit := SparkxVerif.Proto.run SparkxVerif.Drv.C16.handle
