import SparkxVerif.Drv.C19
def main : IO Unit := SparkxVerif.Proto.run SparkxVerif.Drv.C19.handle
