import SparkxVerif.Drv.C17
def main : IO Unit := SparkxVerif.Proto.run SparkxVerif.Drv.C17.handle
