import SparkxVerif.Drv.C18
def main : IO Unit := SparkxVerif.Proto.run SparkxVerif.Drv.C18.handle
