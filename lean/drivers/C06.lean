import SparkxVerif.Drv.C06
def main : IO Unit := SparkxVerif.Proto.run SparkxVerif.Drv.C06.handle
