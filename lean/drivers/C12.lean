import SparkxVerif.Drv.C12
def main : IO Unit := SparkxVerif.Proto.run SparkxVerif.Drv.C12.handle
