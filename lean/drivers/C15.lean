import SparkxVerif.Drv.C15
def main : IO Unit := SparkxVerif.Proto.run SparkxVerif.Drv.C15.handle
