import SparkxVerif.Drv.C10
def main : IO Unit := SparkxVerif.Proto.run SparkxVerif.Drv.C10.handle
