import SparkxVerif.Drv.C13
def main : IO Unit := SparkxVerif.Proto.run SparkxVerif.Drv.C13.handle
