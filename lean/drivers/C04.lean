import SparkxVerif.Drv.C04
def main : IO Unit := SparkxVerif.Proto.run SparkxVerif.Drv.C04.handle
