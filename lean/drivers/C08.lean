import SparkxVerif.Drv.C08
def main : IO Unit := SparkxVerif.Proto.run SparkxVerif.Drv.C08.handle
