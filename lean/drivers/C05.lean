import SparkxVerif.Drv.C05
def main : IO Unit := SparkxVerif.Proto.run SparkxVerif.Drv.C05.handle
