import SparkxVerif.Drv.C03
def main : IO Unit := SparkxVerif.Proto.run SparkxVerif.Drv.C03.handle
