import SparkxVerif.Drv.C20
def main : IO Unit := SparkxVerif.Proto.run SparkxVerif.Drv.C20.handle
