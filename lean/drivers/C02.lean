import SparkxVerif.Drv.C02
def main : IO Unit := SparkxVerif.Proto.run SparkxVerif.Drv.C02.handle
