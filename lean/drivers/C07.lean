import SparkxVerif.Drv.C07
def main : IO Unit := SparkxVerif.Proto.run SparkxVerif.Drv.C07.handle
