import SparkxVerif.Drv.C01
def main : IO Unit := SparkxVerif.Proto.run SparkxVerif.Drv.C01.handle
