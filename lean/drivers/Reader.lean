import SparkxVerif.Drv.Reader
def main : IO Unit := SparkxVerif.Proto.run SparkxVerif.Drv.Reader.handle
