import SparkxVerif.Drv.C09
def main : IO Unit := SparkxVerif.Proto.run SparkxVerif.Drv.C09.handle
