import SparkxVerif.Drv.C09Gen
def main : IO Unit := SparkxVerif.Proto.run SparkxVerif.Drv.C09Gen.handle
