#!/usr/bin/env python3
"""Run the checks against the seeded defects under /verif/seeded/<id>/ without touching /repo or /verif:
a copy of /verif (with its build directory) and a scratch worktree of /repo are used.

  tools/run_seeded.py [--tier quick|thorough] [--confirm] [id ...]

For each seeded defect: apply patch.diff to the scratch worktree, run `check <property>` there, restore.
--confirm additionally runs demo.py with and without the patch (expects exit 1 / 0) and the test-suite files
named in meta.json["tests"] (or the full suite when absent and --full-tests is given).
Results go to seeded/<id>/result.json; a summary is printed.
"""
import argparse
import json
import os
import shutil
import subprocess
import sys
import time
from pathlib import Path

V = Path(__file__).resolve().parent.parent
COPY = Path(os.environ.get("SEED_VERIF_COPY", "/tmp/verif_seed"))
WT = Path(os.environ.get("SEED_REPO_WT", "/tmp/seed_repo"))


def sh(cmd, **kw):
    return subprocess.run(cmd, shell=isinstance(cmd, str), capture_output=True, text=True, **kw)


def main():
    ap = argparse.ArgumentParser()
    ap.add_argument("ids", nargs="*")
    ap.add_argument("--tier", default="quick")
    ap.add_argument("--confirm", action="store_true")
    ap.add_argument("--seed", default="0")
    ap.add_argument("--head", action="store_true", help="use /verif's committed HEAD (not the working tree) for the copy")
    ap.add_argument("--dir", default="seeded", help="seeded (defects, expected: detected) | harmless (rewrites, expected: no alarm)")
    a = ap.parse_args()
    ids = a.ids or sorted(p.name for p in (V / a.dir).iterdir() if (p / "patch.diff").exists())
    if a.head:
        sh(f"mkdir -p {COPY} && find {COPY} -mindepth 1 -maxdepth 1 ! -name lean -exec rm -rf {{}} +")
        sh(f"cd {V} && git archive HEAD | tar -x -C {COPY}")
        sh(f"rsync -a {V}/lean/.lake/ {COPY}/lean/.lake/")
    else:
        sh(f"rsync -a --delete --exclude .git --exclude replays {V}/ {COPY}/")
    (COPY / "replays").mkdir(exist_ok=True)
    sh(f"git -C /repo worktree remove --force {WT}")
    r = sh(f"git -C /repo worktree add --detach {WT} HEAD")
    if r.returncode:
        print(r.stderr)
        sys.exit(2)
    env = dict(os.environ, SPARKX_REPO=str(WT), VERIF_SEED=a.seed, PYTHONPATH=str(WT / "src"))
    summary = []
    try:
        for sid in ids:
            d = V / a.dir / sid
            meta = json.loads((d / "meta.json").read_text())
            prop = meta["property"]
            res = dict(id=sid, property=prop, tier=a.tier, seed=a.seed)
            ap_ = sh(["git", "-C", str(WT), "apply", str(d / "patch.diff")])
            if ap_.returncode:
                res["error"] = "patch does not apply: " + ap_.stderr[-300:]
                summary.append(res)
                (d / "result.json").write_text(json.dumps(res, indent=1))
                continue
            try:
                if a.confirm and (d / "demo.py").exists():
                    res["demo_with_patch_rc"] = sh(["/venv/bin/python", str(d / "demo.py")], env=env, cwd=WT, timeout=600).returncode
                t = time.time()
                r = sh([str(COPY / "check"), prop, "--tier", a.tier], env=env, cwd=COPY, timeout=3600)
                res["check_rc"] = r.returncode
                res["wall_s"] = round(time.time() - t, 1)
                out = r.stdout.splitlines()
                res["violation_lines"] = [l for l in out if l.startswith("VIOLATION")]
                res["known_lines"] = [l for l in out if l.startswith("KNOWN-FINDING")]
                res["broken"] = [l[:300] for l in r.stderr.splitlines() if "BROKEN" in l][:6]
                res["detected"] = r.returncode == 1 and bool(res["violation_lines"])
                res["with_failing_input"] = any("no-failing-input-found" not in l for l in res["violation_lines"])
                keys = []
                for l in res["violation_lines"]:
                    rp = l.split("replay=")[1].split()[0]
                    try:
                        keys.append(json.loads((COPY / rp).read_text()).get("key") or json.loads((COPY / rp).read_text()).get("kind"))
                    except Exception:
                        pass
                res["keys"] = keys
            finally:
                sh(["git", "-C", str(WT), "checkout", "--", "."])
                sh(["git", "-C", str(WT), "clean", "-fdq", "src"])
            if a.confirm and (d / "demo.py").exists():
                res["demo_clean_rc"] = sh(["/venv/bin/python", str(d / "demo.py")], env=env, cwd=WT, timeout=600).returncode
            (d / "result.json").write_text(json.dumps(res, indent=1))
            summary.append(res)
            print(f"{sid:28s} {prop} detected={res.get('detected')} input={res.get('with_failing_input')} "
                  f"rc={res.get('check_rc')} {res.get('wall_s')}s keys={res.get('keys')}" +
                  (f" demo(with/clean)={res.get('demo_with_patch_rc')}/{res.get('demo_clean_rc')}" if a.confirm else ""))
            sys.stdout.flush()
    finally:
        sh(f"git -C /repo worktree remove --force {WT}")
    missed = [s["id"] for s in summary if not s.get("detected")]
    if a.dir == "harmless":
        alarms = [s["id"] for s in summary if s.get("check_rc") != 0]
        print(f"\n{len(summary) - len(alarms)}/{len(summary)} harmless rewrites pass without alarm; alarms: {alarms}")
    else:
        print(f"\n{len(summary) - len(missed)}/{len(summary)} detected; missed: {missed}")


if __name__ == "__main__":
    main()
