#!/usr/bin/env python3
"""Import seeded defects produced by a sub-agent (/tmp/<wt>/out/<X>/{patch.diff,demo.py,meta.json}) after confirming
them here: the patch applies to /repo's HEAD in a scratch worktree, the demonstration exits 0 without and 1 with the
patch, and the full existing test suite still passes with it (3 baseline failures allowed).

  tools/import_seeded.py <Cxx> <scratch worktree of the agent> <X> [<X> ...]      e.g.  C09 /tmp/mut2_C09 C D

Confirmed ones are copied to seeded/<Cxx>-<X>/ with a "confirmed" record added to meta.json.
"""
import json
import re
import shutil
import subprocess
import sys
from pathlib import Path

V = Path(__file__).resolve().parent.parent
WT = Path("/tmp/import_wt")


def sh(cmd, **kw):
    return subprocess.run(cmd, shell=isinstance(cmd, str), capture_output=True, text=True, **kw)


def main():
    prop, src, names = sys.argv[1], Path(sys.argv[2]), sys.argv[3:]
    sh(f"git -C /repo worktree remove --force {WT}")
    r = sh(f"git -C /repo worktree add --detach {WT} HEAD")
    if r.returncode:
        print(r.stderr)
        sys.exit(2)
    env = {"PYTHONPATH": str(WT / "src"), "PATH": "/venv/bin:/usr/bin:/bin", "HOME": "/root"}
    try:
        for x in names:
            d = src / "out" / x
            sid = f"{prop}-{x}"
            if not (d / "patch.diff").exists():
                print(sid, "no patch.diff")
                continue
            rec = {}
            rec["demo_clean_rc"] = sh(["/venv/bin/python", str(d / "demo.py")], env=env, cwd=WT, timeout=900).returncode
            a = sh(["git", "-C", str(WT), "apply", str(d / "patch.diff")])
            if a.returncode:
                print(sid, "patch does not apply:", a.stderr[-300:])
                continue
            try:
                rec["demo_with_patch_rc"] = sh(["/venv/bin/python", str(d / "demo.py")], env=env, cwd=WT, timeout=900).returncode
                t = sh(["/venv/bin/python", "-m", "pytest", "-q", "-p", "no:cacheprovider", "--timeout=900", "-n", "8", "tests"],
                       env=env, cwd=WT, timeout=3000)
                tail = t.stdout.strip().splitlines()[-1] if t.stdout.strip() else ""
                rec["pytest_tail"] = tail
                m = re.search(r"(\d+) failed", tail)
                failed = int(m.group(1)) if m else 0
                names_failed = sorted(set(re.findall(r"FAILED (\S+)", t.stdout)))
                rec["pytest_failed"] = names_failed
                extra = [n for n in names_failed if "test_Utilities" not in n]
                if extra:
                    # the suite has tests that race on a shared output file under xdist: re-run the extra failures alone
                    t2 = sh(["/venv/bin/python", "-m", "pytest", "-q", "-p", "no:cacheprovider", "--timeout=900", "-p", "no:xdist", *extra],
                            env=env, cwd=WT, timeout=3000)
                    tail2 = t2.stdout.strip().splitlines()[-1] if t2.stdout.strip() else ""
                    rec["rerun_alone"] = {"tests": extra, "tail": tail2}
                    if " failed" not in tail2 and " passed" in tail2:
                        extra = []
                rec["tests_ok"] = (not extra) and len([n for n in names_failed if "test_Utilities" in n]) == 3 and \
                    ("350 passed" in tail or (failed > 3 and not extra))
            finally:
                sh(["git", "-C", str(WT), "checkout", "--", "."])
                sh(["git", "-C", str(WT), "clean", "-fdq", "src", "tests"])
            ok = rec["demo_clean_rc"] == 0 and rec["demo_with_patch_rc"] == 1 and rec["tests_ok"]
            print(sid, "CONFIRMED" if ok else "REJECTED", rec)
            if ok:
                dst = V / "seeded" / sid
                dst.mkdir(parents=True, exist_ok=True)
                for f in d.iterdir():
                    if f.is_file():
                        shutil.copy(f, dst / f.name)
                meta = json.loads((dst / "meta.json").read_text()) if (dst / "meta.json").exists() else {}
                meta.setdefault("property", prop)
                meta["confirmed"] = rec
                (dst / "meta.json").write_text(json.dumps(meta, indent=1))
    finally:
        sh(f"git -C /repo worktree remove --force {WT}")


if __name__ == "__main__":
    main()
