#!/bin/sh
# tools/apply_fix.sh <name-without-extension in proposed_fixes> [test files...]   apply, test, commit to /repo
N="$1"; shift
cd /repo || exit 2
if ! git diff --quiet; then echo "/repo working tree is dirty"; exit 2; fi
git apply --3way /verif/proposed_fixes/$N.diff 2>/dev/null || git apply /verif/proposed_fixes/$N.diff || { echo "patch does not apply"; exit 2; }
git reset -q
OUT=$(/venv/bin/python -m pytest -q -p no:cacheprovider --timeout=900 -n 8 "$@" 2>&1 | tail -1)
echo "$OUT"
case "$OUT" in
  *"350 passed"*|*" passed"*) ;;
esac
FAILS=$(echo "$OUT" | grep -o "[0-9]* failed" | grep -o "[0-9]*")
if [ -z "$*" ] && [ "$FAILS" != "3" ]; then echo "unexpected failures ($FAILS) - reverting"; git checkout -- .; exit 1; fi
if [ -n "$*" ] && [ -n "$FAILS" ]; then echo "failures in selected tests - reverting"; git checkout -- .; exit 1; fi
git commit -qa -F /verif/proposed_fixes/$N.msg && git log --oneline | head -1
