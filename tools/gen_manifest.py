#!/usr/bin/env python3
"""Regenerate MANIFEST.json from tools/manifest_texts.json (claimed checks) + properties.jsonl."""
import json
from pathlib import Path
V = Path(__file__).resolve().parent.parent
props = [json.loads(l) for l in open(V / "properties.jsonl")]
texts = json.load(open(V / "tools/manifest_texts.json"))
checks, na = [], []
for p in props:
    i = p["id"]
    if i in texts and texts[i].get("claimed", True):
        t = texts[i]
        checks.append(dict(property_id=i, quick_cmd=f"./check {i} --tier quick", thorough_cmd=f"./check {i} --tier thorough",
                           evidence_file=f"evidence/{i}.json", replay_cmd_template=f"./check {i} --replay {{path}}", engine="lean4",
                           level_claimed=dict(category="proof", text=t["text"], design_ref=f"DESIGN.md section 5, {i}"),
                           level_note=t["note"], technique=t["technique"]))
    else:
        na.append(dict(property_id=i, reason=texts.get(i, {}).get("reason", "not built yet - the technique applies (see DESIGN.md section 5); machinery in progress")))
m = dict(version=1, setup_cmd="./setup.sh",
         hooks=dict(guard="SPARKX_VERIF", enable="no hooks: checks run /repo's code unmodified (private methods reached through name mangling)",
                    baseline_off_cmd="cd /repo && /venv/bin/python -m pytest -ra -q -p no:cacheprovider --timeout=900", source_commits=[], add_only=True),
         engines=[dict(name="lean4", path="lean/", serves_properties=[c["property_id"] for c in checks],
                       kind_free_text="Lean 4.33 + Mathlib theorems over executable models; models tied to /repo by Python-ast translators (harness/translate) and by differential correspondence through a line-protocol driver (lean/drivers)")],
         checks=checks, not_applicable=na,
         notes="Every check: translate -> lake build -> #print axioms audit -> forbidden-token grep -> correspondence -> oracle search on the real code. See DESIGN.md.")
json.dump(m, open(V / "MANIFEST.json", "w"), indent=1)
print("claimed:", [c["property_id"] for c in checks])
