#!/bin/sh
# tools/try_patch.sh <patch.diff> <Cxx> [-R]   apply a patch to /repo, run the quick check, restore /repo
P="$1"; C="$2"; R="$3"
cd /repo || exit 2
if ! git diff --quiet; then echo "/repo working tree is dirty"; exit 2; fi
git apply $R "$P" || exit 2
cd /verif && ./check "$C" 2>&1 | tail -6
RC=$?
git -C /repo checkout -- . 
echo "restored; git status: $(git -C /repo status --short | grep -v egg-info | wc -l) changes"
